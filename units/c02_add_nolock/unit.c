/* C01/C02/C09 — event_add_nolock_ (real event.c, loop-free) with its callees replaced by
 * contracts: the four queue helpers it uses (c02_q_*), min_heap_reserve_, gettime (ghost clock),
 * evmap_io_add_/evmap_signal_add_ (ext), common_timeout_schedule (argument recorder).
 * evthread_notify_base, is_common_timeout, get_common_timeout_list and the min_heap_top_/
 * elt_is_top_ accessors run as real code.
 * Postconditions = the transition table of the documented state machine + C01's deadline rule:
 *   FINALIZING / failed reserve: -1, nothing changes;  evmap failure: -1, timeout state untouched;
 *   deadline = now + tv (carry; common-timeout magic bits kept out of the sum and preserved) or *tv
 *   when absolute;  old timeout registration replaced;  an event active for EV_TIMEOUT is taken off
 *   the active queue;  counters move by exactly the flags that changed;  loop thread notified iff
 *   the backend asked for it or the earliest heap deadline moved earlier / is already past. */
#define VF_NLOCKS 1
#include "vf.h"
#include "event.c"
#include "stubs/lock.h"
#include "stubs/log.h"
#include "c02_event_shape.h"
struct in {
	struct c02_base_in b; struct c02_ev_in e;
	int ashape, tshape, q2shape;
	int tv_null, tv_abs; long tv_sec, tv_usec;
	int reserve_fail, evmap_ret;
	long h_sec, h_usec;               /* deadline of HEV[0] (the heap's top unless EV is) */
	long n_sec[2], n_usec[2];         /* deadlines of NB[0], NB[1] (EV's neighbours in its common queue) */
	long q2_sec, q2_usec;             /* deadline of NB2 (head of the other common queue) */
	long f_sec, f_usec;               /* deadline of FAR_EV */
};
struct in IN;
#include "c02_event_contracts.h"
#include "c01_timer_contracts.h"

static struct timeval TV;
int g_io_adds, g_sig_adds, g_map_ret;
int g_sched_calls; struct common_timeout_list *g_sched_ctl; struct event *g_sched_head;
int g_reserve_fail;

VF_CONTRACT(int, evmap_io_add_c, struct event_base *base, evutil_socket_t fd, struct event *ev)
__CPROVER_requires(base == &BASE && ev == &EV && fd == EV.ev_fd)
__CPROVER_requires(!(EV.ev_flags & EVLIST_INSERTED))                         /* evmap-internal.h: "Requires that ev is not already added" */
__CPROVER_requires(BASE.th_base_lock == NULL || g_lock_depth[1] >= 1)
__CPROVER_assigns(g_io_adds, EV.ev_io_next)
__CPROVER_ensures(g_io_adds == __CPROVER_old(g_io_adds) + 1 && __CPROVER_return_value == g_map_ret)
;
VF_CONTRACT(int, evmap_signal_add_c, struct event_base *base, int sig, struct event *ev)
__CPROVER_requires(base == &BASE && ev == &EV && sig == (int)EV.ev_fd)
__CPROVER_requires(!(EV.ev_flags & EVLIST_INSERTED))
__CPROVER_requires(BASE.th_base_lock == NULL || g_lock_depth[1] >= 1)
__CPROVER_assigns(g_sig_adds, EV.ev_signal_next)
__CPROVER_ensures(g_sig_adds == __CPROVER_old(g_sig_adds) + 1 && __CPROVER_return_value == g_map_ret)
;
/* min_heap_reserve_ with the failure decided by the input record */
VF_CONTRACT(int, reserve_in_c, min_heap_t *s, size_t n)
__CPROVER_requires(s == &BASE.timeheap && n == s->n + 1 && s->n <= s->a && s->a <= C01_HEAP_MAX)
__CPROVER_assigns(s->a, g_reserve_calls)
__CPROVER_ensures(g_reserve_calls == __CPROVER_old(g_reserve_calls) + 1)
__CPROVER_ensures(__CPROVER_return_value == (g_reserve_fail ? -1 : 0))
__CPROVER_ensures(IMP(__CPROVER_return_value == 0, s->a >= n && s->a >= __CPROVER_old(s->a) && s->a <= C01_HEAP_MAX))
__CPROVER_ensures(IMP(__CPROVER_return_value == -1, s->a == __CPROVER_old(s->a)))
;
/* common_timeout_schedule: records its arguments; call-site obligations as requires */
VF_CONTRACT_V(sched_rec_c, struct common_timeout_list *ctl, const struct timeval *now, struct event *head)
__CPROVER_requires(head == &EV && ctl->events.tqh_first == head)             /* the queue's timer is (re)armed for its head */
__CPROVER_requires(ctl == C02_CTL_OF(&BASE, &head->ev_timeout))
__CPROVER_requires(now->tv_sec == g_now_sec && now->tv_usec == g_now_usec)
__CPROVER_assigns(g_sched_calls, g_sched_ctl, g_sched_head)
__CPROVER_ensures(g_sched_calls == __CPROVER_old(g_sched_calls) + 1 && g_sched_ctl == ctl && g_sched_head == head)
;

/* ---------------- pre-state vocabulary (all from the input record) ---------------- */
#define F0 ((int)IN.e.flags)
#define EVS ((int)IN.e.events)
#define IOBITS (EV_READ|EV_WRITE|EV_CLOSED)
#define HAS_TV (!IN.tv_null)
#define RESERVE_FAILED (HAS_TV && !(F0 & EVLIST_TIMEOUT) && IN.reserve_fail)
#define REFUSED ((F0 & EVLIST_FINALIZING) || RESERVE_FAILED)
#define DO_MAP (!REFUSED && (EVS & (IOBITS|EV_SIGNAL)) && !(F0 & (EVLIST_INSERTED|EVLIST_ACTIVE|EVLIST_ACTIVE_LATER)))
#define MAP_FAILED (DO_MAP && IN.evmap_ret == -1)
#define FAILED (REFUSED || MAP_FAILED)
#define DO_TIMEOUT (!FAILED && HAS_TV)
#define UNACTIVATE (DO_TIMEOUT && (F0 & EVLIST_ACTIVE) && (IN.e.res & EV_TIMEOUT))
#define OLD_COMMON ((F0 & EVLIST_TIMEOUT) && O_old_common)
#define OLD_INHEAP ((F0 & EVLIST_TIMEOUT) && !O_old_common)
#define NEW_COMMON (O_new_common)
#define USEC_MASK 0x000fffffL
#define SUM_USEC (IN.b.now_usec + (IN.tv_usec & USEC_MASK))
#define EXP_SEC (IN.tv_abs ? IN.tv_sec : IN.b.now_sec + IN.tv_sec + (SUM_USEC >= 1000000 ? 1 : 0))
#define EXP_USEC (IN.tv_abs ? IN.tv_usec : ((SUM_USEC >= 1000000 ? SUM_USEC - 1000000 : SUM_USEC) | (IN.tv_usec & ~USEC_MASK)))
#define NEED_NOTIFY0 ((IN.b.threads & 1) && (IN.b.running_loop & 1) && IN.b.owner != IN.b.self)
#define IN_THREAD0 (!(IN.b.threads & 1) || IN.b.owner == IN.b.self)
#define WAITS (!REFUSED && IN.b.cur == 1 && (EVS & EV_SIGNAL) && !IN_THREAD0)
/* post-state: is the loop thread owed a wake-up? */
#define HEAP_EARLIER (DO_TIMEOUT && !NEW_COMMON && (C01_IDX(&EV) == 0 || C02_TV_LT(&BASE.timeheap.p[0]->ev_timeout, &NOW)))
#define NOTIFY_DUE (!FAILED && ((DO_MAP && IN.evmap_ret == 1) || HEAP_EARLIER) && NEED_NOTIFY0)
#define INS_OK ((DO_MAP && !MAP_FAILED) ? 1 : 0)
#define M1 (INS_OK ? C02_MAX(IN.b.event_count_max, IN.b.event_count + C02_NONINT(F0)) : IN.b.event_count_max)
int O_old_common, O_new_common;
static struct timeval NOW;
static struct common_timeout_list *O_newctl; static struct event *O_newctl_first;

VF_CONTRACT(int, add_c, struct event *ev, const struct timeval *tv, int tv_is_absolute)
__CPROVER_requires(ev == &EV && (tv == NULL || tv == &TV) && (tv == NULL) == (IN.tv_null != 0) && tv_is_absolute == IN.tv_abs)
__CPROVER_requires(BASE.th_base_lock == NULL || g_lock_depth[1] == 1)                    /* event_add holds th_base_lock around the call */
__CPROVER_requires(g_io_adds == 0 && g_sig_adds == 0 && g_sched_calls == 0 && g_reserve_calls == 0 && g_notify_calls == 0 && g_cond_waits == 0)
__CPROVER_assigns(EV.ev_evcallback.evcb_flags, EV.ev_timeout, EV.ev_timeout_pos, EV.ev_, EV.ev_evcallback.evcb_active_next, PNCALLS,
	BASE.event_count, BASE.event_count_max, BASE.event_count_active, BASE.timeheap.n, BASE.timeheap.a, HP[0],
	BASE.current_event_waiters, BASE.is_notify_pending, BASE.tv_clock_diff, BASE.last_updated_clock_diff,
	AQ[IN.e.pri], NB[0].ev_evcallback.evcb_active_next, NB[1].ev_evcallback.evcb_active_next, FAR_EV.ev_evcallback.evcb_active_next,
	CTL.events, CTL2.events.tqh_first, NB[0].ev_timeout_pos, NB[1].ev_timeout_pos,
	g_io_adds, g_sig_adds, g_sched_calls, g_sched_ctl, g_sched_head, g_reserve_calls, g_notify_calls, g_cond_waits)
/* 1 return value: -1 exactly on FINALIZING, failed reserve, failed backend registration */
__CPROVER_ensures(__CPROVER_return_value == (FAILED ? -1 : 0))
/* 2 C02: refused (FINALIZING or ENOMEM) => nothing at all changes, no callee with an effect is called */
__CPROVER_ensures(IMP(REFUSED, EV.ev_flags == F0 && BASE.event_count == IN.b.event_count && BASE.event_count_max == IN.b.event_count_max &&
	BASE.event_count_active == IN.b.event_count_active && BASE.timeheap.n == IN.b.heap_n && BASE.timeheap.a == IN.b.heap_a &&
	EV.ev_timeout.tv_sec == IN.e.to_sec && EV.ev_timeout.tv_usec == IN.e.to_usec &&
	g_io_adds == 0 && g_sig_adds == 0 && g_sched_calls == 0 && g_notify_calls == 0 && g_cond_waits == 0 &&
	BASE.current_event_waiters == 0 && BASE.is_notify_pending == (IN.b.is_notify_pending & 1)))
/* 3 reserve is attempted exactly when a timeout is requested for an event that has none */
__CPROVER_ensures(g_reserve_calls == ((HAS_TV && !(F0 & EVLIST_TIMEOUT) && !(F0 & EVLIST_FINALIZING)) ? 1 : 0))
/* 4 backend registration: exactly once, of the right kind, iff the event has I/O/signal interest and is neither pending nor active */
__CPROVER_ensures(g_io_adds == ((DO_MAP && (EVS & IOBITS)) ? 1 : 0) && g_sig_adds == ((DO_MAP && !(EVS & IOBITS)) ? 1 : 0))
/* 5 flags: exactly the documented transition */
__CPROVER_ensures(EV.ev_flags == (((F0 | ((DO_MAP && !MAP_FAILED) ? EVLIST_INSERTED : 0) | (DO_TIMEOUT ? EVLIST_TIMEOUT : 0)) & ~(UNACTIVATE ? EVLIST_ACTIVE : 0))))
/* 6 counters move by exactly the flags that changed (internal events are not counted in event_count) */
__CPROVER_ensures(BASE.event_count == IN.b.event_count + C02_NONINT(F0) * (((DO_MAP && !MAP_FAILED) ? 1 : 0) + ((DO_TIMEOUT && !(F0 & EVLIST_TIMEOUT)) ? 1 : 0) - (UNACTIVATE ? 1 : 0)))
__CPROVER_ensures(BASE.event_count_active == IN.b.event_count_active - (UNACTIVATE ? 1 : 0))
/* 8 the high-water mark follows every increment (and only increments) */
__CPROVER_ensures(BASE.event_count_max == C02_MAX(M1, (DO_TIMEOUT ? BASE.event_count : M1)))
/* 9 failed backend registration: not INSERTED, timeout state untouched */
__CPROVER_ensures(IMP(MAP_FAILED, !(EV.ev_flags & EVLIST_INSERTED) && EV.ev_timeout.tv_sec == IN.e.to_sec && EV.ev_timeout.tv_usec == IN.e.to_usec && BASE.timeheap.n == IN.b.heap_n))
/* 10 no timeout argument: timeout state untouched (deadline, TIMEOUT flag, heap size, persist interval) */
__CPROVER_ensures(IMP(!HAS_TV, EV.ev_timeout.tv_sec == IN.e.to_sec && EV.ev_timeout.tv_usec == IN.e.to_usec && BASE.timeheap.n == IN.b.heap_n &&
	(EV.ev_flags & EVLIST_TIMEOUT) == (F0 & EVLIST_TIMEOUT) && g_sched_calls == 0))
/* 11 C01: the deadline */
__CPROVER_ensures(IMP(DO_TIMEOUT, EV.ev_timeout.tv_sec == EXP_SEC && EV.ev_timeout.tv_usec == EXP_USEC))
/* 12 C01: persistent events remember a RELATIVE interval; an absolute re-arm leaves it alone */
__CPROVER_ensures(IMP(DO_TIMEOUT && IN.e.closure == EV_CLOSURE_EVENT_PERSIST && !IN.tv_abs, EV.ev_io_timeout.tv_sec == IN.tv_sec && EV.ev_io_timeout.tv_usec == IN.tv_usec))
__CPROVER_ensures(IMP(!(EVS & EV_SIGNAL) && !(DO_TIMEOUT && IN.e.closure == EV_CLOSURE_EVENT_PERSIST && !IN.tv_abs), EV.ev_io_timeout.tv_sec == IN.e.io_sec && EV.ev_io_timeout.tv_usec == IN.e.io_usec))
/* 14 C01: where the registration lives — heap xor the common queue of the deadline's index; the old registration is gone */
__CPROVER_ensures(IMP(DO_TIMEOUT && !NEW_COMMON, C01_IDX(&EV) < BASE.timeheap.n && IFF(C01_IDX(&EV) == 0, BASE.timeheap.p[0] == &EV) &&
	BASE.timeheap.n == IN.b.heap_n - (OLD_INHEAP ? 1 : 0) + 1))
__CPROVER_ensures(IMP(DO_TIMEOUT && NEW_COMMON && !OLD_INHEAP, BASE.timeheap.n == IN.b.heap_n))
__CPROVER_ensures(IMP(DO_TIMEOUT && NEW_COMMON && OLD_INHEAP, BASE.timeheap.n == IN.b.heap_n - 1))
/* 17 C01: a common-timeout event that became the head of its queue re-arms the queue's timer for itself, otherwise not */
__CPROVER_ensures(g_sched_calls == ((DO_TIMEOUT && NEW_COMMON && O_newctl->events.tqh_first == &EV) ? 1 : 0))
__CPROVER_ensures(IMP(g_sched_calls == 1, g_sched_ctl == O_newctl && g_sched_head == &EV))
/* 19 C01: an event that is active because its timeout fired and is re-added before the callback ran is taken off the active queue */
__CPROVER_ensures(IMP(UNACTIVATE && (EVS & EV_SIGNAL) && IN.e.ncalls && IN.e.has_pncalls, PNCALLS == 0))
__CPROVER_ensures(IMP(!(UNACTIVATE && (EVS & EV_SIGNAL) && IN.e.ncalls && IN.e.has_pncalls), PNCALLS == 77))
/* 21 C09: the loop thread is woken exactly when it is owed a wake-up */
__CPROVER_ensures(IMP(NOTIFY_DUE, BASE.th_notify_fn == NULL || BASE.is_notify_pending == 1))
__CPROVER_ensures(g_notify_calls == ((NOTIFY_DUE && (IN.b.has_notify_fn & 1) && !(IN.b.is_notify_pending & 1)) ? 1 : 0))
__CPROVER_ensures(IMP(!NOTIFY_DUE, BASE.is_notify_pending == (IN.b.is_notify_pending & 1)))
/* 24 C09: a signal event whose callback is running in the loop thread makes a foreign thread wait on current_event_cond */
__CPROVER_ensures(BASE.current_event_waiters == (WAITS ? 1 : 0) && g_cond_waits == ((WAITS && (IN.b.has_cond & 1)) ? 1 : 0))
/* 25 C08: the lock is neither taken nor released */
__CPROVER_ensures(g_lock_depth[1] == __CPROVER_old(g_lock_depth[1]))
;

void harness(void)
{
	int r; unsigned oldidx, newidx;
	VF_LOAD_IN(); VF_INSTALL_LOCKS();
	c02_build_base(&IN.b);
	c02_build_ev(&EV, &IN.e, 1);
	if (BASE.th_base_lock) g_lock_depth[1] = 1;
	g_io_adds = 0; g_sig_adds = 0; g_sched_calls = 0; g_reserve_calls = 0; g_sched_ctl = NULL; g_sched_head = NULL;
	__CPROVER_assume(IN.evmap_ret >= -1 && IN.evmap_ret <= 1);
	g_map_ret = IN.evmap_ret; g_reserve_fail = IN.reserve_fail; g_now_sec = IN.b.now_sec; g_now_usec = IN.b.now_usec;
	NOW.tv_sec = IN.b.now_sec; NOW.tv_usec = IN.b.now_usec;
	/* event_assign's invariants: EV_SIGNAL excludes I/O bits and has the signal closure; only non-signal events are PERSIST-closured */
	__CPROVER_assume(IMP(EVS & EV_SIGNAL, !(EVS & IOBITS) && IN.e.closure == EV_CLOSURE_EVENT_SIGNAL));
	__CPROVER_assume(IMP(!(EVS & EV_SIGNAL), IN.e.closure != EV_CLOSURE_EVENT_SIGNAL));
	/* counter invariant: every queue flag of a non-internal event was counted */
	__CPROVER_assume(BASE.event_count >= C02_NONINT(F0) * (((F0 & EVLIST_INSERTED) ? 1 : 0) + ((F0 & EVLIST_TIMEOUT) ? 1 : 0) + ((F0 & (EVLIST_ACTIVE|EVLIST_ACTIVE_LATER)) ? 1 : 0)));
	__CPROVER_assume(IMP(F0 & (EVLIST_ACTIVE|EVLIST_ACTIVE_LATER), BASE.event_count_active >= 1));
	/* the argument: a plain valid timeval, or a common timeout registered with THIS base, or (absolute) a stored deadline */
	TV.tv_sec = IN.tv_sec; TV.tv_usec = IN.tv_usec;
	__CPROVER_assume(IN.tv_abs == 0 || IN.tv_abs == 1);
	__CPROVER_assume(C02_DEADLINE_OK(IN.tv_sec, IN.tv_usec));
	__CPROVER_assume(IMP(!IN.tv_abs && !C02_IS_COMMON(&TV, &BASE), IN.tv_usec < 1000000));
	O_new_common = HAS_TV && C02_IS_COMMON(&TV, &BASE);
	/* persist interval / signal call counter share storage */
	PNCALLS = 77;
	if (EVS & EV_SIGNAL) { EV.ev_ncalls = IN.e.ncalls; EV.ev_pncalls = IN.e.has_pncalls ? &PNCALLS : NULL; }
	else { EV.ev_io_timeout.tv_sec = IN.e.io_sec; EV.ev_io_timeout.tv_usec = IN.e.io_usec; }
	/* active queue neighbourhood */
	if (F0 & EVLIST_ACTIVE)
		C02_LINK_IN_FAR(&AQ[EV.ev_pri], &EV.ev_evcallback, evcb_active_next, &NB[0].ev_evcallback, &NB[1].ev_evcallback, &FAR_EV.ev_evcallback, IN.ashape);
	/* timeout registration (TInv(i)) */
	__CPROVER_assume(C02_DEADLINE_OK(IN.e.to_sec, IN.e.to_usec));
	O_old_common = C02_IS_COMMON(&EV.ev_timeout, &BASE);
	HEV[0].ev_timeout.tv_sec = IN.h_sec; HEV[0].ev_timeout.tv_usec = IN.h_usec;
	HEV[1].ev_timeout.tv_sec = IN.h_sec; HEV[1].ev_timeout.tv_usec = IN.h_usec;
	NB[0].ev_timeout.tv_sec = IN.n_sec[0]; NB[0].ev_timeout.tv_usec = IN.n_usec[0];
	NB[1].ev_timeout.tv_sec = IN.n_sec[1]; NB[1].ev_timeout.tv_usec = IN.n_usec[1];
	NB2.ev_timeout.tv_sec = IN.q2_sec; NB2.ev_timeout.tv_usec = IN.q2_usec;
	FAR_EV.ev_timeout.tv_sec = IN.f_sec; FAR_EV.ev_timeout.tv_usec = IN.f_usec;
	HP[0] = &HEV[0];
	oldidx = (unsigned)((IN.e.to_usec & 0x0ff00000) >> 20); newidx = (unsigned)((IN.tv_usec & 0x0ff00000) >> 20);
	CTL2.events.tqh_first = (IN.q2shape & 1) ? &NB2 : NULL;
	CTQ[newidx] = &CTL2;
	if (OLD_COMMON) {
		CTQ[oldidx] = &CTL;
		C02_LINK_IN_FAR(&CTL.events, &EV, ev_timeout_pos.ev_next_with_common_timeout, &NB[0], &NB[1], &FAR_EV, IN.tshape);
	} else if (OLD_INHEAP) {
		EV.ev_timeout_pos.min_heap_idx = IN.e.heap_idx;
		__CPROVER_assume(IN.e.heap_idx < BASE.timeheap.n);
		if (IN.e.heap_idx == 0) HP[0] = &EV;
	}
	/* Known candidate defect (reported; isolated in unit c02_add_nolock_kf): a pending COMMON-timeout event re-added with
	 * a NON-common timeout is pushed on the heap without a reserve; when the heap is exactly full the push reallocates
	 * and its failure is ignored.  That corner is cut out here and proved to be the ONLY failing input there. */
#define KF_CASE (HAS_TV && OLD_COMMON && !NEW_COMMON && IN.b.heap_n == IN.b.heap_a)
#if defined(VF_KF_EXCLUDE) || defined(C02_ADD_EXCLUDE_KF)
	__CPROVER_assume(!KF_CASE);
#endif
#if defined(VF_KF_ONLY) || defined(C02_ADD_ONLY_KF)
	__CPROVER_assume(KF_CASE);
#endif
	O_newctl = CTQ[newidx]; O_newctl_first = O_newctl->events.tqh_first;
	r = VF_CALL(add_c, event_add_nolock_, &EV, IN.tv_null ? NULL : &TV, IN.tv_abs);
	(void)r;
#ifdef VF_CANARY
	__CPROVER_assert(!(EV.ev_flags & EVLIST_TIMEOUT) || (F0 & EVLIST_TIMEOUT), "canary: must fail (adds with a timeout set TIMEOUT)");
#endif
}
