/* C37 — request_parse (real evdns.c, DNS server side), plain assert-harness.  Every packet of <= PKT_CAP bytes (all
 * contents, symbolic length, RIGHT-ALIGNED in its object so that a read past packet[length-1] is a pointer
 * obligation), at most RECS entries per section (assumed on the header counts; loops unwound, unwinding assertions).
 * Replaced by stub bodies (stubs/c33_rename.h): name_parse (oracle stub with the behaviour checked in
 * c33_name_parse*: the TEXT is abstract, only its length is followed), evdns_server_request_add_reply and
 * evdns_server_request_respond (record their arguments; respond takes the request over).  The user callback is a
 * stub that records what it is shown.  Allocator: constant sizes, every allocation may fail (choice stream).
 * Candidate defect selected by a predicate (VF_KF_EXCLUDE / VF_KF_ONLY):
 *   R1 a well-formed query with OPCODE != 0: `flags &= (_RD_MASK|_CD_MASK)` runs BEFORE `if (flags & _OP_MASK)`, so the
 *      NOTIMPL branch is dead: the user callback is invoked for a non-standard query and no NOTIMPL is sent */
#ifndef PKT_CAP
#define PKT_CAP 40
#endif
#ifndef RECS
#define RECS 1
#endif
#define NP_CALLS (4 * RECS + 2)
#define VF_C33_MEMCAP 16
#define VF_C33_MEM_PREFIX 1
#define VF_NLOCKS 1
#include "vf.h"
#include "stubs/c33_mem.h"
#include "stubs/c33_rename.h"
#include "event2/util.h"
#include "event2/dns.h"
#include "event2/dns_struct.h"
static int name_parse_stub(ev_uint8_t *packet, int length, int *idx, char *name_out, int name_out_len);
int evdns_server_request_add_reply_stub(struct evdns_server_request *req_, int section, const char *name, int type, int dns_class, int ttl, int datalen, int is_name, const char *data);
int evdns_server_request_respond_stub(struct evdns_server_request *req_, int err);
#define name_parse name_parse_stub
#pragma push_macro("name_parse")
#undef name_parse
#define name_parse name_parse_real _Pragma("pop_macro(\"name_parse\")")
/* exported functions: their prototypes (event2/dns.h, included above) keep the real name; inside evdns.c the first
 * occurrence is the CALL in request_parse (-> stub), so plain renaming of every occurrence in the TU is right:
 * the definitions further down are compiled as *_stub_unused_ … simpler: rename all occurrences to the *_real name
 * except calls.  Both functions are first mentioned in request_parse (calls), then defined: use call-first order. */
#define evdns_server_request_add_reply evdns_server_request_add_reply_real
#pragma push_macro("evdns_server_request_add_reply")
#undef evdns_server_request_add_reply
#define evdns_server_request_add_reply evdns_server_request_add_reply_stub _Pragma("pop_macro(\"evdns_server_request_add_reply\")")
#define evdns_server_request_respond evdns_server_request_respond_real
#pragma push_macro("evdns_server_request_respond")
#undef evdns_server_request_respond
#define evdns_server_request_respond evdns_server_request_respond_stub _Pragma("pop_macro(\"evdns_server_request_respond\")")
#include "evdns.c"
struct in {
	unsigned char pkt[PKT_CAP]; int length; int tcp; int have_addr;
	unsigned np_adv[NP_CALLS]; unsigned np_len[NP_CALLS];
	unsigned ch[VF_NCHOICE];
};
struct in IN;
#include "stubs/log.h"
#include "stubs/lock.h"
#define VF_C33_MM_SIZES(X) X(sizeof(struct server_request)) X(8) X(16) X(12) X(13) X(14) X(15)
#include "stubs/c33_mm.h"

static u8 PKT[PKT_CAP];
static struct evdns_server_port PORT; static struct client_tcp_connection CLIENT; static struct sockaddr_in ADDR; static char UDATA;

struct g_np { int calls, fail, len; } g_np;
struct g_cb { int calls; struct evdns_server_request *req; void *data; int live_at_call; } g_cb;
struct g_ar { int calls; struct evdns_server_request *req; int section, type, cls, ttl, datalen, is_name, name_empty, data_null; } g_ar;
struct g_rs { int calls; struct evdns_server_request *req; int err; } g_rs;

static int name_parse_stub(u8 *packet, int length, int *idx, char *name_out, int name_out_len)
{
	int k = g_np.calls; unsigned i;
	__CPROVER_assert(k >= 0 && k < NP_CALLS, "name_parse: oracle capacity");
	__CPROVER_assert(packet == PKT + (PKT_CAP - IN.length) && length == IN.length, "name_parse: on the received packet with its length");
	__CPROVER_assert(*idx >= 0, "name_parse: offset not negative");
	__CPROVER_assert(name_out_len >= EVDNS_NAME_MAX && __CPROVER_w_ok(name_out, name_out_len), "name_parse: name_out[0..name_out_len) writable, room for a full name");
	g_np.calls++;
	if (IN.np_adv[k] == 0 || *idx >= length || *idx + (int)IN.np_adv[k] > length) { g_np.fail++; return -1; }
	for (i = 0; i < 3; i++) { if (i >= IN.np_len[k]) break; name_out[i] = 'a'; }
	name_out[IN.np_len[k]] = 0; g_np.len = (int)IN.np_len[k];
	*idx += (int)IN.np_adv[k];
	return 0;
}
size_t strlen(const char *s)
{
	__CPROVER_assert(g_np.len >= 0 && g_np.len <= 3 && s[g_np.len] == 0, "strlen: argument is the NUL-terminated result of the last name_parse");
	return (size_t)g_np.len;
}
int evdns_server_request_add_reply_stub(struct evdns_server_request *req_, int section, const char *name, int type, int dns_class, int ttl, int datalen, int is_name, const char *data)
{
	g_ar.calls++; g_ar.req = req_; g_ar.section = section; g_ar.type = type; g_ar.cls = dns_class; g_ar.ttl = ttl; g_ar.datalen = datalen; g_ar.is_name = is_name;
	g_ar.name_empty = name && name[0] == 0; g_ar.data_null = data == NULL;
	return (int)(VF_CHOOSE() & 1u) ? -1 : 0;
}
int evdns_server_request_respond_stub(struct evdns_server_request *req_, int err)
{
	g_rs.calls++; g_rs.req = req_; g_rs.err = err;
	return 0;
}
static void user_cb(struct evdns_server_request *req, void *data)
{
	g_cb.calls++; g_cb.req = req; g_cb.data = data; g_cb.live_at_call = (int)g_mm_live;
}

#define PB(k) (IN.pkt[(PKT_CAP - IN.length) + (k)])
#define X16(k) ((unsigned)((PB(k) << 8) | PB((k) + 1)))
#define HDR_OK (IN.length >= 12)
#define P_FLAGS X16(2)
#define ADV(call, j) (IN.np_adv[call] != 0 && (j) < IN.length && (j) + (int)IN.np_adv[call] <= IN.length)

/* reference reading (specification side), same name oracle */
static int x_ok, x_nq, x_qtype[RECS], x_qclass[RECS], x_qlen[RECS], x_opt, x_optclass;
static void ref_request(void)
{
	int j = 12, i, call = 0, q, an, au, ad;
	x_ok = 0; x_nq = 0; x_opt = 0; x_optclass = 0;
	if (!HDR_OK) return;
	q = (int)X16(4); an = (int)X16(6); au = (int)X16(8); ad = (int)X16(10);
	for (i = 0; i < RECS; i++) {
		if (i >= q) break;
		if (!ADV(call, j)) return;
		j += (int)IN.np_adv[call]; x_qlen[i] = (int)IN.np_len[call]; call++;
		if (j + 4 > IN.length) return;
		x_qtype[i] = (int)X16(j); x_qclass[i] = (int)X16(j + 2); j += 4; x_nq++;
	}
	for (i = 0; i < 2 * RECS; i++) {                       /* answer + authority records are skipped */
		unsigned dl;
		if (i >= an + au) break;
		if (!ADV(call, j)) return;
		j += (int)IN.np_adv[call]; call++;
		j += 8; if (j + 2 > IN.length) return;
		dl = X16(j); j += 2 + (int)dl;
	}
	for (i = 0; i < RECS; i++) {
		unsigned type, class, dl;
		if (i >= ad) break;
		if (!ADV(call, j)) return;
		j += (int)IN.np_adv[call]; call++;
		if (j + 10 > IN.length) return;
		type = X16(j); class = X16(j + 2); dl = X16(j + 8); j += 10 + (int)dl;
		if (type == TYPE_OPT) { x_opt = 1; x_optclass = (int)class; break; }
	}
	x_ok = 1;
}
static void pkt_fill(void) { int i; for (i = 0; i < PKT_CAP; i++) PKT[i] = IN.pkt[i]; }
static void pkt_check(void) { int i; for (i = 0; i < PKT_CAP; i++) __CPROVER_assert(PKT[i] == IN.pkt[i], "packet not modified"); }

void harness(void)
{
	int r, i, refcnt0 = 3, wellformed; u8 *packet; struct server_request *sr;
	VF_LOAD_IN(); VF_INSTALL_LOCKS(); VF_MM_RESET();
	g_np.calls = g_np.fail = 0; g_np.len = -1; g_cb.calls = 0; g_ar.calls = 0; g_rs.calls = 0;
	__CPROVER_assume(IN.length >= 0 && IN.length <= PKT_CAP);
	pkt_fill();
	packet = PKT + (PKT_CAP - IN.length);
	__CPROVER_assume(IMP(IN.length >= 12, X16(4) <= RECS && X16(6) + X16(8) <= RECS && X16(10) <= RECS));   /* bound of this unit */
	for (i = 0; i < NP_CALLS; i++) __CPROVER_assume(IN.np_adv[i] <= PKT_CAP && IN.np_len[i] <= 3);
	PORT.lock = NULL; PORT.refcnt = refcnt0; PORT.user_callback = user_cb; PORT.user_data = &UDATA;
	ref_request();
	wellformed = x_ok && x_nq >= 1 && !(P_FLAGS & _QR_MASK);
#ifdef VF_KF_R1_FIXED
#define KF_R1 0
#else
#define KF_R1 (HDR_OK && wellformed && (P_FLAGS & _OP_MASK) != 0)
#endif
#ifdef VF_KF_EXCLUDE
	__CPROVER_assume(!KF_R1);
#endif
#ifdef VF_KF_ONLY
	__CPROVER_assume(KF_R1);
#endif

	r = request_parse(packet, IN.length, &PORT, IN.have_addr ? (struct sockaddr *)&ADDR : NULL, IN.have_addr ? (ev_socklen_t)sizeof(ADDR) : 0, IN.tcp ? &CLIENT : NULL);

	pkt_check();
	__CPROVER_assert(r == 0 || r == -1, "returns 0 or -1");
	__CPROVER_assert(g_cb.calls + g_rs.calls <= 1, "a packet leads to at most one of: user callback, direct response");
	if (g_cb.calls + g_rs.calls == 0) {
		/* dropped: nothing kept, nothing leaked (this includes every allocation-failure path) */
		__CPROVER_assert(r == -1, "a dropped packet is reported as -1");
		__CPROVER_assert(g_mm_live == 0, "a dropped packet leaves nothing allocated");
		__CPROVER_assert(PORT.refcnt == refcnt0, "a dropped packet does not take a reference on the port");
		__CPROVER_assert(g_ar.calls == 0, "nothing is added to a request that is then dropped");
	} else {
		sr = TO_SERVER_REQUEST(g_cb.calls ? g_cb.req : g_rs.req);
		__CPROVER_assert(wellformed, "the user callback / a direct response happens only for well-formed queries (QR clear, >= 1 question, every record inside the packet)");
		__CPROVER_assert(PORT.refcnt == refcnt0 + 1, "the request holds one reference on the port");
		__CPROVER_assert(sr->port == &PORT && sr->client == (IN.tcp ? &CLIENT : NULL) && sr->trans_id == X16(0), "request records port, TCP client (NULL for UDP) and transaction id");
		__CPROVER_assert((sr->base.flags & ~(int)_OP_MASK) == (int)(P_FLAGS & (_RD_MASK | _CD_MASK)) && ((sr->base.flags & _OP_MASK) == 0 || (sr->base.flags & _OP_MASK) == (int)(P_FLAGS & _OP_MASK)), "of the query's flags only RD and CD (and at most its OPCODE) are kept for the reply");
		__CPROVER_assert(IMP(IN.have_addr, sr->addrlen == sizeof(ADDR)), "UDP: the sender's address is kept");
		/* exactly the questions */
		__CPROVER_assert(sr->base.nquestions == x_nq && x_nq == (int)X16(4), "exactly `questions` entries");
		for (i = 0; i < RECS; i++) { if (i >= x_nq) break; __CPROVER_assert(sr->base.questions[i]->type == x_qtype[i] && sr->base.questions[i]->dns_question_class == x_qclass[i], "question i: type and class as in the packet");
			/* the name is read bytewise: name[1] is a one-element member followed, inside the struct, by padding — a read through the struct type loses those bytes in CBMC */
			{ const char *nm = (const char *)sr->base.questions[i] + offsetof(struct evdns_server_question, name);
			  __CPROVER_assert(nm[x_qlen[i]] == 0 && (x_qlen[i] == 0 || nm[x_qlen[i] - 1] == 'a'), "question i: the parsed name, NUL-terminated"); } }
		/* OPT */
		__CPROVER_assert(sr->max_udp_reply_size == (x_opt ? (x_optclass > 512 ? x_optclass : 512) : 512), "reply size limit: the OPT record's payload size, at least 512; 512 without OPT");
		__CPROVER_assert(g_ar.calls == (x_opt ? 1 : 0), "an OPT record is added to the reply exactly when the query has one");
		if (x_opt) __CPROVER_assert(g_ar.req == &sr->base && g_ar.section == EVDNS_ADDITIONAL_SECTION && g_ar.name_empty && g_ar.type == TYPE_OPT && g_ar.cls == DNS_MAX_UDP_SIZE && g_ar.ttl == 0 && g_ar.datalen == 0 && !g_ar.is_name && g_ar.data_null, "the OPT record added: root name, class 512, no data, additional section");
		__CPROVER_assert(g_mm_live == 2 + x_nq, "allocated: the request, its question table and one block per question");
		/* standard query -> user callback; anything else -> NOTIMPL */
		if ((P_FLAGS & _OP_MASK) == 0) {
			__CPROVER_assert(g_cb.calls == 1 && g_rs.calls == 0 && r == 0, "standard query: the user callback is invoked once, 0 returned");
			__CPROVER_assert(g_cb.data == &UDATA, "user callback gets the port's user data");
		} else {
			__CPROVER_assert(g_rs.calls == 1 && g_rs.err == DNS_ERR_NOTIMPL && g_cb.calls == 0 && r == -1, "OPCODE != 0: answered with NOTIMPL, the user callback is not invoked");
		}
	}
	/* completeness: a well-formed query is not dropped unless an allocation failed */
	__CPROVER_assert(IMP(HDR_OK && wellformed && g_mm_allocs == 2 + x_nq, g_cb.calls + g_rs.calls == 1), "a well-formed query is served when every allocation succeeds");
#ifdef VF_CANARY
	__CPROVER_assert(!(g_cb.calls == 1 && g_ar.calls == 1), "canary: must fail (a standard query with an OPT record reaches the callback)");
#endif
}
