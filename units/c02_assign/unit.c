/* C02 — event_assign (real event.c, public) and event_initialized: argument validation (EV_SIGNAL
 * with I/O bits is refused) and the initial state of the documented model: initialized, not
 * pending, not active, no result, closure by kind, no heap position, middle priority of the base,
 * persist interval zero. */
#define VF_NLOCKS 1
#include "vf.h"
#include "event.c"
#include "stubs/lock.h"
#include "stubs/log.h"
#define C02_NO_AQ
#include "c02_event_shape.h"
struct in { struct c02_base_in b; int fd; short events; int base_null, has_current, self_arg; short old_flags; };
struct in IN;
static void user_cb(evutil_socket_t fd, short what, void *arg) { (void)fd; (void)what; (void)arg; }
static char ARGOBJ;
#define BAD ((IN.events & EV_SIGNAL) && (IN.events & (EV_READ|EV_WRITE|EV_CLOSED)))
#define EFF_BASE (!IN.base_null ? &BASE : (IN.has_current ? &BASE : (struct event_base *)NULL))
VF_CONTRACT(int, assign_c, struct event *ev, struct event_base *base, evutil_socket_t fd, short events, void (*callback)(evutil_socket_t, short, void *), void *arg)
__CPROVER_requires(ev == &EV && (base == NULL || base == &BASE) && fd == IN.fd && events == IN.events && callback == user_cb)
__CPROVER_assigns(__CPROVER_object_whole(&EV))
__CPROVER_ensures(__CPROVER_return_value == (BAD ? -1 : 0))
__CPROVER_ensures(IMP(!BAD, EV.ev_base == EFF_BASE && EV.ev_callback == user_cb && EV.ev_fd == IN.fd && EV.ev_events == IN.events &&
	EV.ev_arg == (IN.self_arg ? (void *)&EV : (void *)&ARGOBJ)))
/* initialized, neither pending nor active, no result */
__CPROVER_ensures(IMP(!BAD, EV.ev_flags == EVLIST_INIT && EV.ev_res == 0 && EV.ev_timeout_pos.min_heap_idx == (size_t)-1))
__CPROVER_ensures(IMP(!BAD, EV.ev_closure == ((IN.events & EV_SIGNAL) ? EV_CLOSURE_EVENT_SIGNAL : (IN.events & EV_PERSIST) ? EV_CLOSURE_EVENT_PERSIST : EV_CLOSURE_EVENT)))
__CPROVER_ensures(IMP(!BAD && EFF_BASE != NULL, (int)EV.ev_pri == IN.b.nq / 2))
;
void harness(void)
{
	int r;
	VF_LOAD_IN(); VF_INSTALL_LOCKS();
	c02_build_base(&IN.b);
	event_global_current_base_ = IN.has_current ? &BASE : NULL;
	EV.ev_flags = IN.old_flags;                 /* whatever was in the memory before */
	r = VF_CALL(assign_c, event_assign, &EV, IN.base_null ? NULL : &BASE, IN.fd, IN.events, user_cb, IN.self_arg ? event_self_cbarg() : (void *)&ARGOBJ);
	if (r == 0) {
		__CPROVER_assert(event_initialized(&EV) == 1, "event_initialized answers 1 after a successful assign");
		if (IN.events & EV_SIGNAL) __CPROVER_assert(EV.ev_ncalls == 0 && EV.ev_pncalls == NULL, "signal event: no calls outstanding");
		else if (IN.events & EV_PERSIST) __CPROVER_assert(EV.ev_io_timeout.tv_sec == 0 && EV.ev_io_timeout.tv_usec == 0, "persistent event: no interval yet");
		__CPROVER_assert((int)EV.ev_pri < BASE.nactivequeues || EV.ev_base == NULL, "priority indexes an existing queue");
	}
	EV.ev_flags = 0;
	__CPROVER_assert(event_initialized(&EV) == 0, "event_initialized answers 0 for zeroed memory");
#ifdef VF_CANARY
	__CPROVER_assert(r == 0, "canary: must fail (EV_SIGNAL|EV_READ is refused)");
#endif
}
