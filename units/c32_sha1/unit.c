/* C32 — builtin_SHA1 (real sha1.c: SHA1Init, SHA1Update, SHA1Transform, SHA1Final) equals the
 * FIPS 180-4 SHA-1 reference written in contracts/c31_sha1_harness.h on messages of enumerated
 * lengths whose content is a fixed pattern with ONE ARBITRARY BYTE in the middle:
 *   quick     lengths 0, 55, 56 (padding boundaries) and 60 (= 24-byte key ‖
 *             36-byte GUID: what ws_gen_accept_key hashes for an RFC 6455 key)
 *   thorough  every multiple of 4 up to 64, 53..67, 119 (the largest two-block message)
 * This is a BOUNDED check and deliberately labelled so: with fully symbolic content the
 * equivalence of the two SHA-1 circuits is beyond SAT and SMT here (no answer in 10 min for 3
 * symbolic bytes; minisat, kissat, z3, cvc5), one symbolic byte takes seconds.  The reference
 * is trusted; its Ch/Maj forms are proved equal to the FIPS definitions in the same run. */
#define VF_SHA_MAX 119
#define VF_SHA_ONEBYTE 1
#ifdef VF_SHA_FULL
#define VF_SHA_LENGTHS(L) (((L) <= 64 && (L) % 4 == 0) || ((L) >= 53 && (L) <= 67) || (L) == 1 || (L) == 119)
#else
#define VF_SHA_LENGTHS(L) ((L) == 0 || (L) == 55 || (L) == 56 || (L) == 60)   /* 55/56: the two padding boundaries (last length that fits one block, first that needs two) */
#endif
#include "c31_sha1_harness.h"
