/* C32 — ws_gen_accept_key (real ws.c): the Sec-WebSocket-Accept value is
 * base64(SHA-1(key ‖ "258EAFA5-E914-47DA-95CA-C5AB0DC85B11")) — composition check:
 *   - the bytes handed to builtin_SHA1 are exactly key ‖ GUID, with length strlen(key) + 36;
 *   - out is Base64encode of the 20 digest bytes (== RFC 4648 base64: unit c32_base64), NUL-terminated.
 * builtin_SHA1 (sha1.c, outside this TU) is a recorder that returns an arbitrary digest (its
 * correctness is the subject of c32_sha1); snprintf is the C99 model below for the one format
 * string ws.c uses.  Key lengths 0, 24, 987 | 988 (quick), plus 1, 16, 25, 255, 986 | 989, 1023, 1024, 1099 (thorough) (content ABC...Z repeated; neither
 * snprintf("%s") nor strlen look at non-NUL content).
 *
 * KNOWN DEVIATION (candidate defect, DESIGN 10.3): char buf[1024] — a key longer than
 * 1023 - 36 = 987 bytes is silently truncated by snprintf and the digest is computed over the
 * truncated string.  http.c does not limit header sizes by default (max_headers_size =
 * EV_SIZE_MAX), and evws_new_session takes the header value as it is, so such a key is
 * "accepted in an upgrade request".  -DVF_KF_EXCLUDE restricts the run to keys <= 987 bytes. */
#ifndef VF_KEY_MAX
#define VF_KEY_MAX 1100
#endif
#include "vf.h"
#include <stdarg.h>
#include "ws.c"
struct in { unsigned pick; unsigned char digest[20]; };
struct in IN;
#include "stubs/log.h"

static char KEY[VF_KEY_MAX];
static unsigned g_klen;
static const char GUID[37] = "258EAFA5-E914-47DA-95CA-C5AB0DC85B11";
/* ---- recorder for builtin_SHA1 ---- */
int g_sha_calls; int g_sha_len; char *g_sha_out; static unsigned char g_sha_in[VF_KEY_MAX + 40];
void builtin_SHA1(char *hash_out, const char *str, int len)
{
	int i;
	g_sha_calls++; g_sha_len = len; g_sha_out = hash_out;
	__CPROVER_assert(len >= 0 && (len == 0 || __CPROVER_r_ok(str, (size_t)len)), "builtin_SHA1: input readable for len bytes");
	for (i = 0; i < VF_KEY_MAX + 40; i++) { if (i >= len) break; g_sha_in[i] = (unsigned char)str[i]; }   /* record the digest input */
	for (i = 0; i < 20; i++) hash_out[i] = (char)IN.digest[i];
}
/* ---- C99 7.19.6.5 snprintf for the format "%s" WS_UUID: at most n-1 characters are written,
 * then a NUL; the return value is the length the complete output would have had ---- */
#ifndef VF_NATIVE      /* the native replay runs libc's snprintf */
int snprintf(char *s, size_t n, const char *fmt, ...)
{
	va_list ap; const char *arg; size_t alen = 0, total, p, i;
	__CPROVER_assert(fmt[0] == '%' && fmt[1] == 's' && fmt[2] == '2' && fmt[37] == '1' && fmt[38] == '\0', "snprintf model: the format is \"%s\" WS_UUID");
	__CPROVER_assert(n == 1024, "snprintf model: called with sizeof(buf) == 1024");
	va_start(ap, fmt); arg = va_arg(ap, const char *); va_end(ap);
	/* strlen(arg): the harness built arg == KEY with g_klen non-NUL bytes followed by a NUL */
	__CPROVER_assert(arg == KEY && KEY[g_klen] == '\0', "snprintf model: %s argument is the key");
	alen = g_klen; (void)i;
	total = alen + 36;                       /* length of the complete output */
	/* position-wise (every index concrete): character p of key ‖ GUID while p < n-1, then the NUL; bytes after it untouched */
	for (p = 0; p < 1024; p++) {
		if (p > total) break;
		if (p < total && p + 1 < n) s[p] = p < alen ? arg[p < VF_KEY_MAX ? p : 0] : fmt[2 + (p - alen < 36 ? p - alen : 0)];
		else if (p == (total < n ? total : n - 1)) s[p] = '\0';
	}
	return (int)total;
}
#endif

static void run(unsigned klen)
{
	char out[32]; char *r; unsigned i;
	/* the key: klen bytes 'A' + (i % 26), then NUL (concrete: a symbolic key byte makes every loop exit symbolic) */
	for (i = 0; i < VF_KEY_MAX; i++) { if (i >= klen) break; KEY[i] = (char)('A' + i % 26); }
	KEY[klen] = '\0'; g_klen = klen;
	g_sha_calls = 0; g_sha_len = -1; g_sha_out = 0;
	for (i = 0; i < 32; i++) out[i] = 0x7e;

	r = ws_gen_accept_key(KEY, out);

	__CPROVER_assert(r == out, "returns the caller's buffer");
	__CPROVER_assert(g_sha_calls == 1, "one digest computed");
	__CPROVER_assert(g_sha_len == (int)klen + 36, "digest input length == strlen(key) + 36 (key followed by the complete GUID)");
	for (i = 0; i < VF_KEY_MAX; i++) { if (i >= klen) break; __CPROVER_assert(g_sha_in[i] == (unsigned char)KEY[i], "digest input starts with the key"); }
	for (i = 0; i < 36; i++) __CPROVER_assert(g_sha_len == (int)klen + 36 && g_sha_in[klen + i] == (unsigned char)GUID[i], "digest input continues with the complete GUID 258EAFA5-E914-47DA-95CA-C5AB0DC85B11");
	/* the accept value is Base64encode(digest, 20) (== RFC 4648 base64: unit c32_base64) */
	{ char ref[32]; Base64encode(ref, (const char *)IN.digest, 20);
	  for (i = 0; i < 29; i++) __CPROVER_assert(out[i] == ref[i], "accept value == base64 of the 20 digest bytes, NUL-terminated"); }
	__CPROVER_assert(out[28] == '\0' && out[29] == 0x7e && out[30] == 0x7e && out[31] == 0x7e, "accept value is 28 characters + NUL; the rest of out[32] untouched");
#ifdef VF_CANARY
	__CPROVER_assert(!(klen == 24 && out[0] == 's' && out[27] == '='), "canary: must fail (a 24-character key with an accept value starting with s is possible)");
#endif
}

/* Key lengths are enumerated as CONSTANTS (each branch is executed with a concrete length: a
 * symbolic length makes every one of the 1024 positions of buf[] symbolic and costs minutes). */
void harness(void)
{
	VF_LOAD_IN();
#ifdef VF_KF_ONLY
	__CPROVER_assume(IN.pick >= 8);
#endif
	switch (IN.pick) {
	case 0: run(0); break;
	case 3: run(24); break;      /* RFC 6455: base64 of a 16-byte nonce */
	case 7: run(987); break;     /* the longest key that fits buf[1024] with the GUID */
#ifdef VF_AK_FULL
	case 1: run(1); break;
	case 2: run(16); break;
	case 4: run(25); break;
	case 5: run(255); break;
	case 6: run(986); break;
#endif
#ifndef VF_KF_EXCLUDE
	case 8: run(988); break;     /* from here on: silently truncated (candidate defect) */
#ifdef VF_AK_FULL
	case 9: run(989); break;
	case 10: run(1023); break;
	case 11: run(1024); break;
	case 12: run(VF_KEY_MAX - 1); break;
#endif
#endif
	default: break;
	}
}
