/* C24 — evhttp_connection_reset_hard_ (real http.c): after a hard reset NOTHING of the old
 * transport survives, so that "the bytes following a complete response are used only for the next
 * queued request" holds across reconnects (a retried / next request starts on an empty input
 * buffer and an empty output buffer, on a new fd):
 *   - the fd is closed and replaced by -1 (bufferevent_replacefd, exactly once);
 *   - the INPUT buffer is drained to length 0 and the OUTPUT buffer is drained to length 0
 *     (separate postconditions; the output buffer of a socket bufferevent has its front frozen —
 *     evbuffer_drain refuses then — so the drain has to come after the fd replacement, which
 *     unfreezes it: modelled in stubs/c24g_env.h);
 *   - reading/writing/connecting switched off (bufferevent_disable_hard_);
 *   - the user's close callback runs once iff the connection was connected;
 *   - state and flags of the connection are not touched (frame).
 * Loop-free; buffered lengths, state, flags, frozen bit symbolic. */
#include "vf.h"
#include "http.c"
struct in { int state, flags, have_closecb, out_frozen; size_t in_len, out_len, in_drained, out_drained; };
struct in IN;
#include "stubs/log.h"
#include "stubs/c24g_env.h"
#include "c23_contracts.h"
#include "c24g_contracts.h"

static struct evhttp_connection EVCON; static char COOKIE;
void harness(void)
{
	VF_LOAD_IN(); VF_C24G_ENV_RESET(); VF_C23_GHOST_RESET();
	__CPROVER_assume(IN.state >= EVCON_DISCONNECTED && IN.state <= EVCON_WRITING);
	__CPROVER_assume(IN.in_drained <= ((size_t)1 << 62) && IN.out_drained <= ((size_t)1 << 62) && IN.in_len <= ((size_t)1 << 62) && IN.out_len <= ((size_t)1 << 62));   /* ghost counters do not wrap */
	EVCON.bufev = &BEV; EVCON.state = (enum evhttp_connection_state)IN.state; EVCON.flags = IN.flags;
	EVCON.closecb = IN.have_closecb ? vf_close_cb : NULL; EVCON.closecb_arg = &COOKIE;
	EB[E_IN].len = IN.in_len; EB[E_OUT].len = IN.out_len; EB[E_IN].drained = IN.in_drained; EB[E_OUT].drained = IN.out_drained;
	e_out_frozen = (IN.out_frozen != 0);
	VF_CALL_V(reset_hard_c, evhttp_connection_reset_hard_, &EVCON);
	__CPROVER_assert(EVCON.state == (enum evhttp_connection_state)IN.state && EVCON.flags == IN.flags, "hard reset leaves state and flags to evhttp_connection_reset_");
#ifdef VF_CANARY
	__CPROVER_assert(e_closecb_calls == 0, "canary: must fail (a connected connection with a close callback is told)");
#endif
}
