/* C32 — evws_send_text / evws_send_binary (real ws.c: evws_send, make_ws_frame) with payload
 * CONTENT: for every payload of <= VF_P bytes the bytes appended to the bufferevent's output are
 * one frame that an RFC 6455 section 5.2 reference decoder written here decodes to exactly the
 * payload: FIN set, RSV clear, opcode 1 (text) / 2 (binary), no mask, minimal length form, and
 * nothing else is written.  The real server-side decoder get_ws_frame is run on the same bytes
 * as a second opinion (returns the same type, length and payload position, modifies nothing).
 * The length-form boundaries 65535/65536 are covered for all lengths by c32_make_ws_frame. */
#ifndef VF_P
#define VF_P 8
#endif
#define VF_EB_CAP (VF_P + 12)
#define VF_EB_MAXCOPY (VF_P > 10 ? VF_P : 10)
#include "vf.h"
#include "ws.c"
struct in { int text; unsigned len; unsigned char p[VF_P]; unsigned ch[VF_NCHOICE]; };
struct in IN;
#include "stubs/log.h"
#include "stubs/c31_evbuffer3.h"
#include "stubs/c31_ws_env.h"
static struct evws_connection WS;
static char PAY[VF_P + 1];

void harness(void)
{
	unsigned i; size_t hdr, plen; unsigned char *o; unsigned char *pp = 0; size_t pl = 0; enum WebSocketFrameType t;
	VF_LOAD_IN(); VF_EB_RESET(); VF_WS_ENV_RESET();
	__CPROVER_assume(IN.len <= VF_P);
	for (i = 0; i < VF_P; i++) PAY[i] = i < IN.len ? (char)((IN.text && IN.p[i] == 0) ? 'x' : IN.p[i]) : '\0';
	PAY[VF_P] = '\0';
	WS.bufev = &BEV; WS.closed = false; WS.cb = 0; WS.incomplete_frames = 0;
	if (IN.text) evws_send_text(&WS, PAY); else evws_send_binary(&WS, PAY, IN.len);
	__CPROVER_assert(g_bev_lock == 0 && g_bev_lock_calls == 1, "bufferevent lock taken once and released");
	__CPROVER_assert(vf_len[0] == 0 && vf_len[2] == 0 && g_setcb_calls == 0, "only the output buffer is touched");
	/* ---- RFC 6455 5.2 reference decode of the output ---- */
	o = &vf_d1[vf_start[1]];
	__CPROVER_assert(vf_len[1] >= 2, "a frame header was written");
	__CPROVER_assert(o[0] == (IN.text ? 0x81 : 0x82), "FIN=1, RSV=0, opcode text(1)/binary(2)");
	__CPROVER_assert((o[1] & 0x80) == 0, "server frames are not masked");
	if ((o[1] & 0x7f) <= 125) { hdr = 2; plen = o[1] & 0x7f; }
	else if ((o[1] & 0x7f) == 126) { hdr = 4; plen = ((size_t)o[2] << 8) | o[3]; __CPROVER_assert(plen > 125, "16-bit form only for lengths above 125 (minimal encoding)"); }
	else { hdr = 10; plen = 0; for (i = 0; i < 8; i++) plen = (plen << 8) | o[2 + i]; __CPROVER_assert(plen > 65535, "64-bit form only for lengths above 65535 (minimal encoding)"); }
	__CPROVER_assert(plen == IN.len, "payload length field == number of payload bytes");
	__CPROVER_assert(vf_len[1] == hdr + plen, "exactly one frame: header + payload, nothing after it");
	for (i = 0; i < VF_P; i++) if (i < IN.len) __CPROVER_assert(o[hdr + i] == (unsigned char)PAY[i], "payload bytes are the message, in order");
	/* ---- second opinion: libevent's own decoder ---- */
	t = get_ws_frame(o, vf_len[1], &pp, &pl);
	__CPROVER_assert(t == (IN.text ? TEXT_FRAME : BINARY_FRAME) && pl == IN.len && pp == o + hdr, "get_ws_frame decodes the frame to the same type, length and payload");
#ifdef VF_CANARY
	__CPROVER_assert(!(IN.len == VF_P && o[0] == 0x81), "canary: must fail (a text message of the maximal bounded length can be sent)");
#endif
}
