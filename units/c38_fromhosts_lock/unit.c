/* C08/C38 — evdns_getaddrinfo_fromhosts, lock balance on every return incl. allocation failure (contracts/c38_fromhosts_unit.h). */
#define C38_FH_LOCK_UNIT
#include "c38_fromhosts_unit.h"
