/* C12/C13/C14/C08 — evbuffer_pullup (real buffer.c), bookkeeping, on every shape of <= 3 chains, every size (negative = all).
 * Replaced by contracts: evbuffer_chain_new_membuf (c12a_chain_new_membuf), evbuffer_chain_free.
 * memcpy: bounds-checked against the chain windows and logged, no bytes moved. */
#define VF_NLOCKS 2
#include "vf.h"
#include "stubs/c12a_mem.h"
#include "buffer.c"
struct eb_in;
#include "stubs/lock.h"
#include "c12a_shape.h"
struct in { struct eb_in b; ev_ssize_t size; unsigned ch[VF_NCHOICE]; };
struct in IN;
#include "stubs/log.h"
#include "stubs/c12a_mm.h"
#include "c12a_contracts.h"

#define O_total (O_BUF.total_len)
#define RV __CPROVER_return_value
size_t O_eff;            /* the effective request: size, or the whole buffer when size < 0 */
VF_CONTRACT(unsigned char *, pullup_c, struct evbuffer *buf, ev_ssize_t size)
__CPROVER_requires(buf == &BUF)
__CPROVER_requires(g_lock_depth[1] == 0 && g_nnew == 0 && g_allocfail == 0 && g_freed == 0 && g_freed_mask == 0 && g_cb[0] == 0 && m_cp.n == 0)
__CPROVER_assigns(g_lock_depth[1], g_lock_ops, errno, g_new[0], g_new[1], g_al, g_fr, m_cp,
	__CPROVER_object_whole(buf), __CPROVER_object_whole(&CH[0]), __CPROVER_object_whole(&CH[1]), __CPROVER_object_whole(&CH[2]))
/* 1 C08 */
__CPROVER_ensures(g_lock_depth[1] == 0)
/* 2 C12: NULL exactly for an empty request, a request beyond the buffer's length, or a failed allocation */
__CPROVER_ensures(IMP(O_eff == 0 || O_eff > O_total || g_allocfail > 0, RV == NULL))
__CPROVER_ensures(IMP(RV == NULL, O_eff == 0 || O_eff > O_total || g_allocfail > 0))
/* 4 C14: NULL => every field of the buffer and of every chain is unchanged, nothing copied */
__CPROVER_ensures(IMP(RV == NULL, C12A_BUF_SAME(BUF, O_BUF) && C12A_ALLCH_SAME() && m_cp.n == 0))
__CPROVER_ensures(IMP(RV == NULL, g_freed == 0 && g_nnew == 0))
/* 6 C12: otherwise the result is the start of the first chain's data and that chain holds at least the requested bytes */
__CPROVER_ensures(IMP(RV != NULL, buf->first != NULL && RV == buf->first->buffer + buf->first->misalign && buf->first->off >= O_eff))
/* 7 C12/C13: the byte string does not change: same length, no change recorded for the callbacks */
__CPROVER_ensures(buf->total_len == O_total && buf->n_add_for_cb == O_BUF.n_add_for_cb && buf->n_del_for_cb == O_BUF.n_del_for_cb)
/* 8 nothing else of the buffer changes */
__CPROVER_ensures(buf->lock == O_BUF.lock && buf->freeze_start == O_BUF.freeze_start && buf->freeze_end == O_BUF.freeze_end && buf->refcnt == O_BUF.refcnt && buf->callbacks.lh_first == O_BUF.callbacks.lh_first && buf->deferred_cbs == O_BUF.deferred_cbs && buf->flags == O_BUF.flags && buf->max_read == O_BUF.max_read)
;

void harness(void)
{
	int i, k; ev_ssize_t size; unsigned char *r;
	VF_LOAD_IN();
	c12a_build(&IN.b);
	VF_INSTALL_LOCKS(); C12A_RESET();
	size = IN.size;
	O_eff = size < 0 ? BUF.total_len : (size_t)size;
	C12A_SNAPSHOT();
	r = VF_CALL(pullup_c, evbuffer_pullup, &BUF, size);
#ifndef C12A_NOPOST
	__CPROVER_assert(g_cb[0] == 0, "no callback");
	if (r != NULL) {
		struct evbuffer_chain *t = BUF.first; size_t filled, need; int next_src;
		__CPROVER_assert(c12a_binv(&BUF), "BInv after pullup: links, last, windows, total_len == sum off, last_with_datap canonical");
		__CPROVER_assert(g_nnew <= 1 && (t == &CH[0] || (g_nnew == 1 && t == g_new[0] && (g_freed_mask & 1u))), "the first chain is the old first chain, or a new chain replacing it");
		/* where the bytes went: the front chain's window is the concatenation, in order, of the old windows of the chains it
		 * absorbed: whole chains (then freed), and at most one leading piece of the next chain (which then starts later) */
		filled = (t == &CH[0]) ? O_CH[0].off : 0;       /* bytes already in place */
		next_src = (t == &CH[0]) ? 1 : 0;
		__CPROVER_assert(IMP(t == &CH[0], CH[0].misalign == O_CH[0].misalign), "an in-place pullup does not move the first chain's old bytes");
		for (k = 0; k < C12A_MAXCP; k++) {
			int s_;
			if (k >= m_cp.n) break;
			s_ = m_cp.src[k];
			__CPROVER_assert(m_cp.dst[k] == C12A_CODE(t) && s_ == next_src && s_ >= 0 && s_ < 3 && (unsigned)s_ < c12a_nch, "copy k takes from the next old chain, into the front chain");
			__CPROVER_assert(m_cp.doff[k] == (size_t)t->misalign + filled && m_cp.soff[k] == (size_t)O_CH[s_ % 3].misalign && m_cp.len[k] <= O_CH[s_ % 3].off, "... its leading bytes, appended directly behind what the front chain already holds");
			if (g_freed_mask & (1u << s_)) __CPROVER_assert(m_cp.len[k] == O_CH[s_ % 3].off, "a freed chain was absorbed completely");
			else __CPROVER_assert(CH[s_ % 3].off == O_CH[s_ % 3].off - m_cp.len[k] && (size_t)CH[s_ % 3].misalign == (size_t)O_CH[s_ % 3].misalign + m_cp.len[k] && t->next == &CH[s_ % 3] && k == m_cp.n - 1, "a partly absorbed chain keeps the rest, follows the front chain, and is the last source");
			filled += m_cp.len[k];
			next_src = s_ + 1;
		}
		__CPROVER_assert(filled == t->off, "the front chain holds exactly its old bytes plus the absorbed ones");
		for (i = 0; i < VF_EB_MAXCH; i++) {
			if ((unsigned)i >= c12a_nch) break;
			if (i >= next_src && i > 0) __CPROVER_assert(!(g_freed_mask & (1u << i)) && C12A_CH_SAME(CH[i], O_CH[i]), "chains behind the absorbed ones are untouched");
			if ((g_freed_mask & (1u << i))) __CPROVER_assert(i < next_src, "only absorbed chains are freed");
		}
	}
#endif
#ifdef VF_CANARY
	__CPROVER_assert(g_freed == 0, "canary: must fail (pullup frees absorbed chains)");
#endif
}
