/* C14/C16 — evbuffer_chain_new_membuf + evbuffer_chain_new (real buffer.c) against chain_new_membuf_c, the contract by which unit
 * c16_read replaces it (same clauses as contracts/c12a_contracts.h, with this cluster's allocation registry).  The size-rounding
 * loop is closed by a loop contract (integer-carried); the allocator may fail; only the chain header is an object. */
#define VF_NLOCKS 3
#define C15_MM_HEADER_ONLY
#include "vf.h"
#include "stubs/c15_sys_redirect.h"
#include "buffer.c"
#include "stubs/lock.h"
struct c15_bin;
#include "c15_shape.h"
struct in { size_t size; unsigned prev; unsigned ch[VF_NCHOICE]; };
struct in IN;
#include "stubs/log.h"
#include "stubs/c15_mm.h"
#include "stubs/c15_sys.h"
#include "c15_contracts.h"
#include "c15_io_contracts.h"
static struct evbuffer_chain PREV[2];

void harness(void)
{
	struct evbuffer_chain *r;
	VF_LOAD_IN();
	VF_INSTALL_LOCKS(); C15_RESET(); C15_SYS_RESET();
	__CPROVER_assume(IN.prev <= 2);
	if (IN.prev >= 1) { m_new[0] = &PREV[0]; m_al.n = 1; }
	if (IN.prev >= 2) { m_new[1] = &PREV[1]; m_al.n = 2; }
	r = VF_CALL(chain_new_membuf_c, evbuffer_chain_new_membuf, IN.size);
	if (r) {
		__CPROVER_assert(CHAIN_SPACE_LEN(r) >= IN.size, "room for the requested bytes");
		__CPROVER_assert(IMP(IN.size <= MIN_BUFFER_SIZE - EVBUFFER_CHAIN_SIZE, r->buffer_len == MIN_BUFFER_SIZE - EVBUFFER_CHAIN_SIZE), "small requests get the minimum chain");
	}
#ifdef VF_CANARY
	__CPROVER_assert(r == NULL || r->buffer_len == IN.size, "canary: must fail (sizes are rounded up)");
#endif
}
