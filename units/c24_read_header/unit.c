/* C24/C23 — evhttp_read_header (real http.c): what happens when the header section is complete.
 *   header section not complete: nothing (wait); malformed / too long: the message fails with
 *     EVREQ_HTTP_INVALID_HEADER;
 *   the user's header callback may veto (negative return): the message fails, no body is read;
 *   request: body framing decision (evhttp_get_body);
 *   response (RFC 9112 6.3 / RFC 9110 15.2):
 *     100 Continue  => the held-back request body is sent now, the request is NOT completed;
 *     "interim": any other 1xx except 101 is an interim response — the request is NOT completed by it;
 *     HEAD / 101 / 204 / 304 / successful CONNECT => complete without body (evhttp_connection_done);
 *     everything else => body framing decision (evhttp_get_body).
 *   exactly one continuation.  Loop-free. */
#include "vf.h"
#include "http.c"
struct in { int kind, code; unsigned type; int have_cb, cb_ret; size_t rout; };
struct in IN;
#include "stubs/log.h"
#include "stubs/c23_http_env.h"
#include "c23_contracts.h"

int e_hcb_calls;
static int vf_header_cb(struct evhttp_request *req, void *arg) { (void)req; (void)arg; e_hcb_calls++; return IN.cb_ret; }
static struct evhttp_connection EVCON; static struct evhttp_request REQ;
#define IS_1XX(c) ((c) >= 100 && (c) < 200)
#define IS_2XX(c) ((c) >= 200 && (c) < 300)
#define PARSED (g_ph_status == ALL_DATA_READ)
#define VETO (IN.have_cb && IN.cb_ret < 0)
#define IS_RESP (IN.kind == EVHTTP_RESPONSE)
#define RFC_NO_BODY (IN.type == EVHTTP_REQ_HEAD || IS_1XX(IN.code) || IN.code == 204 || IN.code == 304 || (IN.type == EVHTTP_REQ_CONNECT && IS_2XX(IN.code)))
#define INTERIM (IS_1XX(IN.code) && IN.code != 101)
#define NCONT (g_fail_calls + g_done_calls + g_getbody_calls + g_startwrite_calls)
VF_CONTRACT_V(read_header_c, struct evhttp_connection *evcon, struct evhttp_request *req)
__CPROVER_requires(evcon == &EVCON && req == &REQ && __CPROVER_rw_ok(evcon, sizeof(*evcon)) && __CPROVER_rw_ok(req, sizeof(*req)) && evcon->bufev == &BEV)
__CPROVER_requires(req->output_buffer == &EB[E_ROUT] && EB[E_ROUT].len == IN.rout && EB[E_OUT].len == 0 && EB[E_OUT].moved_in == 0)
__CPROVER_requires(req->header_cb == (IN.have_cb ? vf_header_cb : NULL) && (int)req->kind == IN.kind && req->response_code == IN.code && (unsigned)req->type == IN.type)
__CPROVER_requires(g_ph_calls == 0 && NCONT == 0 && e_hcb_calls == 0)
__CPROVER_assigns(g_ph_calls, g_ph_status, req->headers_size, g_done_calls, g_fail_calls, g_fail_error, g_getbody_calls, g_startwrite_calls, e_hcb_calls, EB[E_OUT].len, EB[E_OUT].moved_in, EB[E_ROUT].len)
__CPROVER_ensures(g_ph_calls == 1 && NCONT <= 1)
/* header section incomplete / bad */
__CPROVER_ensures(IMP(g_ph_status == MORE_DATA_EXPECTED, NCONT == 0 && e_hcb_calls == 0))
__CPROVER_ensures(IMP(g_ph_status == DATA_CORRUPTED || g_ph_status == DATA_TOO_LONG, g_fail_calls == 1 && g_fail_error == (int)EVREQ_HTTP_INVALID_HEADER && NCONT == 1 && e_hcb_calls == 0))
/* header callback */
__CPROVER_ensures(IMP(PARSED, e_hcb_calls == (IN.have_cb ? 1 : 0)))
__CPROVER_ensures(IMP(PARSED && VETO, g_fail_calls == 1 && g_fail_error == (int)EVREQ_HTTP_EOF && NCONT == 1))
/* request */
__CPROVER_ensures(IMP(PARSED && !VETO && IN.kind == EVHTTP_REQUEST, g_getbody_calls == 1 && NCONT == 1))
/* response */
__CPROVER_ensures(IMP(PARSED && !VETO && IS_RESP && IN.code == 100, g_startwrite_calls == 1 && NCONT == 1 && EB[E_OUT].moved_in == IN.rout && EB[E_ROUT].len == 0))
__CPROVER_ensures(IMP(PARSED && !VETO && IS_RESP && INTERIM, g_done_calls == 0))
__CPROVER_ensures(IMP(PARSED && !VETO && IS_RESP && !INTERIM && RFC_NO_BODY, g_done_calls == 1 && NCONT == 1))
__CPROVER_ensures(IMP(PARSED && !VETO && IS_RESP && !RFC_NO_BODY, g_getbody_calls == 1 && NCONT == 1))
/* anything else */
__CPROVER_ensures(IMP(PARSED && !VETO && !IS_RESP && IN.kind != EVHTTP_REQUEST, g_fail_calls == 1 && NCONT == 1))
;
void harness(void)
{
	VF_LOAD_IN(); VF_HTTP_ENV_RESET(); VF_C23_GHOST_RESET(); g_ph_calls = 0; g_ph_status = 0; g_getbody_calls = 0; g_startwrite_calls = 0; e_hcb_calls = 0;
	/* known findings: C24-1xx-interim-final (102/103/… complete the request), C24-connect-non-2xx (see c24_needs_body) */
#define KF_1XX (IS_RESP && INTERIM && IN.code != 100)
#define KF_CONNECT (IS_RESP && IN.type == EVHTTP_REQ_CONNECT && !RFC_NO_BODY)
#ifdef VF_KF_EXCLUDE
	__CPROVER_assume(!KF_1XX && !KF_CONNECT);
#endif
#ifdef VF_KF_ONLY
	__CPROVER_assume(KF_1XX || KF_CONNECT);
#endif
	EVCON.bufev = &BEV; REQ.evcon = &EVCON; REQ.output_buffer = &EB[E_ROUT]; EB[E_ROUT].len = IN.rout;
	REQ.header_cb = IN.have_cb ? vf_header_cb : NULL; REQ.cb_arg = NULL; REQ.kind = (enum evhttp_request_kind)IN.kind; REQ.response_code = IN.code; REQ.type = (enum evhttp_cmd_type)IN.type;
	__CPROVER_assume(IN.rout <= ((size_t)1 << 62));
	VF_CALL_V(read_header_c, evhttp_read_header, &EVCON, &REQ);
#ifdef VF_CANARY
	__CPROVER_assert(g_done_calls == 0, "canary: must fail (204 completes the request)");
#endif
}
