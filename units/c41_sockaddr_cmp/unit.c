/* C41 — evutil_sockaddr_cmp (real evutil.c) is a consistent total preorder on IPv4/IPv6 socket
 * addresses whose equivalence is "same family, same address (and same port when include_port)":
 * three-argument lemma harness over ALL triples of AF_INET / AF_INET6 sockaddrs (all addresses, ports,
 * flow labels, scope ids, padding bytes) and both values of include_port:
 *   reflexive; sign(cmp(a,b)) == -sign(cmp(b,a)); cmp(a,b) == 0 iff equal family/address(/port);
 *   transitive (<= and the strict variants).
 * No particular order is demanded (the code orders IPv4 addresses by the host-endian value of the
 * network-order word) - only that it is an order.  The only loop is memcmp over 16 bytes (library
 * body, constant bound, fully unwound). */
#include "vf.h"
#include "evutil.c"
#include "stubs/log.h"
struct sa_in { int v6; ev_uint16_t port; ev_uint32_t a4; unsigned char a6[16]; ev_uint32_t flow, scope; unsigned char pad[8]; };
struct in { struct sa_in s[3]; int include_port; };
struct in IN;
static struct sockaddr_storage S[3];

static void build(int k)
{
	if (IN.s[k].v6) {
		struct sockaddr_in6 *p = (struct sockaddr_in6 *)&S[k];
		int i;
		p->sin6_family = AF_INET6; p->sin6_port = IN.s[k].port; p->sin6_flowinfo = IN.s[k].flow; p->sin6_scope_id = IN.s[k].scope;
		for (i = 0; i < 16; i++) p->sin6_addr.s6_addr[i] = IN.s[k].a6[i];
	} else {
		struct sockaddr_in *p = (struct sockaddr_in *)&S[k];
		int i;
		p->sin_family = AF_INET; p->sin_port = IN.s[k].port; p->sin_addr.s_addr = IN.s[k].a4;
		for (i = 0; i < 8; i++) p->sin_zero[i] = IN.s[k].pad[i];
	}
}
/* the equivalence the property names, written on the input record (not on the code's view) */
static int same(int x, int y, int with_port)
{
	int i;
	if (!!IN.s[x].v6 != !!IN.s[y].v6) return 0;
	if (IN.s[x].v6) { for (i = 0; i < 16; i++) if (IN.s[x].a6[i] != IN.s[y].a6[i]) return 0; }
	else if (IN.s[x].a4 != IN.s[y].a4) return 0;
	if (with_port && IN.s[x].port != IN.s[y].port) return 0;
	return 1;
}
#define SGN(x) ((x) > 0 ? 1 : (x) < 0 ? -1 : 0)
#define CMP(x, y) evutil_sockaddr_cmp((struct sockaddr *)&S[x], (struct sockaddr *)&S[y], ip)

void harness(void)
{
	int ip, aa, ab, ba, bc, ac;
	VF_LOAD_IN();
	ip = IN.include_port;
	build(0); build(1); build(2);
	aa = CMP(0, 0); ab = CMP(0, 1); ba = CMP(1, 0); bc = CMP(1, 2); ac = CMP(0, 2);
	__CPROVER_assert(aa == 0, "reflexive: cmp(a,a) == 0");
	__CPROVER_assert(SGN(ab) == -SGN(ba), "antisymmetric: sign cmp(a,b) == - sign cmp(b,a)");
	__CPROVER_assert(IFF(ab == 0, same(0, 1, ip != 0)), "cmp(a,b) == 0 iff same family, same address and (when include_port) same port");
	__CPROVER_assert(IMP(ab <= 0 && bc <= 0, ac <= 0), "transitive: a<=b and b<=c imply a<=c");
	__CPROVER_assert(IMP((ab < 0 && bc <= 0) || (ab <= 0 && bc < 0), ac < 0), "transitive, strict: a<b<=c or a<=b<c imply a<c");
	__CPROVER_assert(IMP(ab == 0, SGN(ac) == SGN(bc)), "equal addresses compare alike against a third");
#ifdef VF_CANARY
	__CPROVER_assert(ab != 0 || IN.s[0].port == IN.s[1].port, "canary: must fail (without include_port, ports are ignored)");
#endif
}
