/* C07 — evmap_signal_del_ (real evmap.c): the event is unlinked; the signal backend's del
 * (which restores the previous handler) is called exactly when the LAST event of the signal
 * goes, with (signal, 0, EV_SIGNAL, NULL). */
#include "c07_sigmap.h"
struct event **O_prevp; struct event *O_next;
#define LAST_ONE (!IN.has_prev && !IN.has_next)

VF_CONTRACT(int, sig_del_c, struct event_base *base, int sig, struct event *ev)
__CPROVER_requires(base == &BASE && sig == IN.fd && ev == &EV && ev->ev_fd == sig)
__CPROVER_requires(g_add_calls == 0 && g_del_calls == 0)
__CPROVER_assigns(SCTX.sg.events.lh_first, C05_SIGL(&EV1).le_next, C05_SIGL(&EV2).le_prev, g_del_calls, g_be_fd, g_be_old, g_be_events, g_be_arg, g_be_res, errno, vf_nchoice_)
/* 1 outside the table: refused, nothing happens */
__CPROVER_ensures(IMP(!SIG_INTABLE, __CPROVER_return_value == -1 && g_del_calls == 0 && *O_prevp == &EV))
__CPROVER_ensures(g_add_calls == 0 && g_del_calls <= 1)
/* 3 the event is unlinked, its neighbours joined (also when the backend then fails) */
__CPROVER_ensures(IMP(SIG_INTABLE, *O_prevp == O_next && IMP(O_next != NULL, C05_SIGL(O_next).le_prev == O_prevp)))
/* 4 C07: the backend (handler restoration) is told exactly when the last event of the signal goes */
__CPROVER_ensures(IMP(SIG_INTABLE, IFF(g_del_calls == 1, LAST_ONE)))
__CPROVER_ensures(IMP(g_del_calls == 1, g_be_fd == sig && g_be_old == 0 && g_be_events == EV_SIGNAL && g_be_arg == NULL))
__CPROVER_ensures(IMP(SIG_INTABLE, __CPROVER_return_value == ((g_del_calls == 1 && g_be_res == -1) ? -1 : 1)))
;

void harness(void)
{
	int r;
	VF_LOAD_IN();
	c07_build_sigmap();
	/* the event is on its signal's list (evmap_signal_add_ put it there; event_del_nolock_ calls this only for inserted events) */
	if (SIG_INTABLE) OLDTAB[IN.fd] = &SCTX;
	if (IN.has_prev) {
		SCTX.sg.events.lh_first = &EV1; C05_SIGL(&EV1).le_prev = &SCTX.sg.events.lh_first;
		C05_SIGL(&EV1).le_next = &EV; C05_SIGL(&EV).le_prev = &C05_SIGL(&EV1).le_next;
	} else { SCTX.sg.events.lh_first = &EV; C05_SIGL(&EV).le_prev = &SCTX.sg.events.lh_first; }
	C05_SIGL(&EV).le_next = IN.has_next ? &EV2 : NULL;
	C05_SIGL(&EV2).le_prev = &C05_SIGL(&EV).le_next; C05_SIGL(&EV2).le_next = NULL;
	O_prevp = C05_SIGL(&EV).le_prev; O_next = C05_SIGL(&EV).le_next;
	r = VF_CALL(sig_del_c, evmap_signal_del_, &BASE, IN.fd, &EV);
	(void)r;
#ifdef VF_CANARY
	__CPROVER_assert(g_del_calls == 0, "canary: must fail (deleting the last event reaches the backend)");
#endif
}
