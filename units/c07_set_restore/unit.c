/* C07 — lemma over the real evsig_set_handler_ ; evsig_restore_handler_ (signal.c): installing
 * libevent's handler and later restoring is the identity on the kernel disposition of the
 * signal, leaves no saved record behind, and never touches another signal.  Plain assert-harness
 * over the two real functions (each is under its own contract in c07_set_handler / c07_restore_handler). */
#define _GNU_SOURCE 1
#include "vf.h"
#include "signal.c"
#include "c07_signal_shape.h"
struct in { struct c07_in s; int hid; unsigned ch[VF_NCHOICE]; };
struct in IN;
#include "stubs/log.h"
#define VF_MM_NO_REALLOC
#include "stubs/mm.h"
#define C07_BODY
#include "c07_signal_shape.h"
typedef void (*c07_handler_t)(int);
#define HANDLER ((c07_handler_t)(void *)&C07_HFN[IN.hid & 3])

void harness(void)
{
	int r1, r2; long live0;
	VF_LOAD_IN();
	VF_MM_RESET();
	IN.s.slot_saved = 0;                 /* first add for this signal (see c07_set_handler) */
	c07_build();
	live0 = g_mm_live;
	r1 = evsig_set_handler_(&BASE, IN.s.sig, HANDLER);
	if (r1 == 0) {
		__CPROVER_assert(C07_H(D_SIG) == HANDLER, "after set: libevent's handler is installed");
		r2 = evsig_restore_handler_(&BASE, IN.s.sig);
		__CPROVER_assert(IMP(r2 == 0, SAEQ(D_SIG, O_CUR)), "set ; restore re-installs exactly the disposition that was there before the add");
		__CPROVER_assert(IMP(r2 == -1, C07_H(D_SIG) == HANDLER), "a failed restore leaves libevent's handler (reported by -1)");
		__CPROVER_assert(BASE.sig.sh_old[IN.s.sig] == NULL && g_mm_live == live0, "after restore: slot empty, saved record released");
	} else {
		__CPROVER_assert(SAEQ(D_SIG, O_CUR) && g_mm_live == live0, "failed set: disposition unchanged, nothing allocated");
	}
	__CPROVER_assert(SAEQ(D_W, O_WCUR), "another signal's disposition is never touched");
#ifdef VF_CANARY
	__CPROVER_assert(r1 != 0, "canary: must fail (set can succeed)");
#endif
}
