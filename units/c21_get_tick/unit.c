/* C21 — ev_token_bucket_get_tick_ (real bufferevent_ratelim.c): the tick of a time is
 * floor(milliseconds / msec_per_tick) reduced mod 2^32, computed without overflow for every
 * time a clock can report (0 <= tv_sec < 2^53) and every accepted configuration (msec_per_tick >= 1:
 * no division by zero). */
#include "vf.h"
#include "bufferevent_ratelim.c"
struct in { long sec, usec; unsigned mpt; };
struct in IN;
#include "stubs/log.h"
typedef unsigned __int128 vf_u128;
VF_CONTRACT(ev_uint32_t, get_tick_c, const struct timeval *tv, const struct ev_token_bucket_cfg *cfg)
__CPROVER_requires(__CPROVER_r_ok(tv, sizeof(*tv)) && __CPROVER_r_ok(cfg, sizeof(*cfg)))
__CPROVER_requires(cfg->msec_per_tick >= 1)
__CPROVER_requires(tv->tv_sec >= 0 && tv->tv_sec < (1L << 53) && tv->tv_usec >= 0 && tv->tv_usec < 1000000)
__CPROVER_assigns()
/* milliseconds do not overflow 64 bits (stated in 128-bit arithmetic), so the 64-bit quotient below IS floor(ms / msec_per_tick) */
__CPROVER_ensures((vf_u128)tv->tv_sec * 1000 + (vf_u128)(tv->tv_usec / 1000) <= (vf_u128)0xffffffffffffffffULL)
__CPROVER_ensures(__CPROVER_return_value == (ev_uint32_t)((((ev_uint64_t)tv->tv_sec * 1000 + (ev_uint64_t)(tv->tv_usec / 1000)) / cfg->msec_per_tick) & 0xffffffffULL))
;
static struct timeval TV; static struct ev_token_bucket_cfg CFG;
void harness(void)
{
	ev_uint32_t r;
	VF_LOAD_IN();
	TV.tv_sec = IN.sec; TV.tv_usec = IN.usec; CFG.msec_per_tick = IN.mpt;
	__CPROVER_assume(IN.mpt >= 1 && IN.sec >= 0 && IN.sec < (1L << 53) && IN.usec >= 0 && IN.usec < 1000000);
	r = VF_CALL(get_tick_c, ev_token_bucket_get_tick_, &TV, &CFG);
#ifdef VF_CANARY
	__CPROVER_assert(r != 5, "canary: must fail (tick 5 is reachable)");
#endif
}
