/* C21 — ev_token_bucket_cfg_new (real bufferevent_ratelim.c): configuration creation rejects
 * exactly the invalid parameters (and allocation failure) and otherwise returns a faithful record.
 * Loop-free; all 64-bit rates/bursts, all tick lengths, tick_len == NULL included. */
#include "vf.h"
#include "bufferevent_ratelim.c"
struct in { size_t rr, rb, wr, wb; long tsec, tusec; int null_tick; unsigned ch[VF_NCHOICE]; };
struct in IN;
#include "stubs/log.h"
#include "stubs/mm.h"
#include "c21_contracts.h"

/* the documented validity of the arguments */
#define TL_SEC(tl)  ((tl) ? (tl)->tv_sec : 1)
#define TL_USEC(tl) ((tl) ? (tl)->tv_usec : 0)
#define MSEC(tl) ((unsigned)(TL_SEC(tl) * 1000) + (unsigned)((TL_USEC(tl) & COMMON_TIMEOUT_MICROSECONDS_MASK) / 1000))
#define ARGS_OK(rr, rb, wr, wb, tl) (TL_SEC(tl) >= 0 && TL_SEC(tl) <= INT_MAX / 1000 && MSEC(tl) != 0 && \
	(rr) >= 1 && (wr) >= 1 && (rr) <= (rb) && (wr) <= (wb) && (rb) <= (size_t)EV_RATE_LIMIT_MAX && (wb) <= (size_t)EV_RATE_LIMIT_MAX)

VF_CONTRACT(struct ev_token_bucket_cfg *, cfg_new_c, size_t read_rate, size_t read_burst, size_t write_rate, size_t write_burst, const struct timeval *tick_len)
__CPROVER_requires(tick_len == NULL || __CPROVER_r_ok(tick_len, sizeof(*tick_len)))
__CPROVER_requires(g_mm_allocs == 0 && g_mm_live == 0)
__CPROVER_assigns(g_mm_live, g_mm_allocs, vf_nchoice_, errno)
/* 1 invalid arguments are rejected, and nothing is allocated */
__CPROVER_ensures(IMP(!ARGS_OK(read_rate, read_burst, write_rate, write_burst, tick_len), __CPROVER_return_value == NULL && g_mm_allocs == 0))
/* 2 valid arguments are rejected only by allocation failure */
__CPROVER_ensures(IMP(ARGS_OK(read_rate, read_burst, write_rate, write_burst, tick_len) && __CPROVER_return_value == NULL, g_mm_allocs == 0 && vf_nchoice_ == 1 && (IN.ch[0] & 1u)))
/* 3 the record is faithful and satisfies the invariant the refill relies on */
__CPROVER_ensures(IMP(__CPROVER_return_value != NULL, ARGS_OK(read_rate, read_burst, write_rate, write_burst, tick_len) && g_mm_allocs == 1 && g_mm_live == 1))
__CPROVER_ensures(IMP(__CPROVER_return_value != NULL, __CPROVER_return_value->read_rate == read_rate && __CPROVER_return_value->read_maximum == read_burst && __CPROVER_return_value->write_rate == write_rate && __CPROVER_return_value->write_maximum == write_burst))
__CPROVER_ensures(IMP(__CPROVER_return_value != NULL, __CPROVER_return_value->msec_per_tick == MSEC(tick_len) && __CPROVER_return_value->msec_per_tick >= 1))
__CPROVER_ensures(IMP(__CPROVER_return_value != NULL, __CPROVER_return_value->tick_timeout.tv_sec == TL_SEC(tick_len) && __CPROVER_return_value->tick_timeout.tv_usec == TL_USEC(tick_len)))
__CPROVER_ensures(IMP(__CPROVER_return_value != NULL, C21_CFG_OK(__CPROVER_return_value)))
;
static struct timeval TL;
void harness(void)
{
	struct ev_token_bucket_cfg *r;
	VF_LOAD_IN(); VF_MM_RESET();
	TL.tv_sec = IN.tsec; TL.tv_usec = IN.tusec;
	r = VF_CALL(cfg_new_c, ev_token_bucket_cfg_new, IN.rr, IN.rb, IN.wr, IN.wb, IN.null_tick ? NULL : &TL);
#ifdef VF_CANARY
	__CPROVER_assert(r == NULL, "canary: must fail (valid configurations are accepted)");
#endif
}
