/* C42 — evtag_marshal_int64 -> evtag_unmarshal_int64 round trip: every 64-bit value, every tag.
 * Harness, reference and the full statement: contracts/c31_tag_roundtrip_harness.h (case 1 of IN.which; one case per
 * unit: CBMC decides one case in a quarter of the time it needs for two merged ones). */
#define VF_WHICH_A 1
#define VF_WHICH_B 1
#include "c31_tag_roundtrip_harness.h"
