/* C40 — evutil_inet_ntop(AF_INET6, ...) (real evutil.c) for IPv4-MAPPED (::ffff:a.b.c.d) and IPv4-COMPATIBLE (::a.b.c.d)
 * addresses: the first branch of the IPv6 code ("This is an IPv4 address"), which the c40_ntop6* units do not reach
 * (their vsnprintf reference reads every variadic argument as a promoted int; CBMC stores ev_uint8_t / ev_uint16_t
 * arguments unpromoted - see stubs/c40g_snprintf.h, which reads each argument at its own size).
 *
 * Statement (properties.jsonl C40: "either fails or writes the complete, NUL-terminated text of the address, which
 * the platform's inet_pton parses back to the same address, for every ... address and every buffer length"):
 * for the address A with expected text X (strlen X = n) and EVERY buffer length len in 0..VF_LENMAX - including the exact
 * fit len == n (no room for the NUL) and len == n+1 -
 *   the call returns NULL unless X and its NUL fit (len > n); a successful call returns dst, dst[0..n] is exactly X
 *   (NUL included), and X is read back to A by the reference parser contracts/c40_inet_ref.h;
 *   no byte at or beyond dst+len is written (the buffer object has VF_D > VF_LENMAX bytes of arbitrary previous content);
 *   the address itself is not modified.
 * X is the SPECIFICATION side: in the quick tier a string literal per fixed address (texts of 9..22 characters), in the
 * thorough tier (VF_C40G_ALL) the output of the reference formatter ref_v4in6() below for EVERY a.b.c.d (all 2^32
 * mapped and every compatible address that evutil_inet_ntop prints in dotted form); ref_v4in6 is cross-checked against
 * the literals in the quick tier.  Neither shares code with evutil.c or with the vsnprintf reference body. */
#include "vf.h"
#include "evutil.c"
#include "stubs/log.h"
#define VF_D 28          /* buffer object: VF_LENMAX bytes that may be handed to the call + 4 that must stay untouched */
#define VF_LENMAX 24     /* longest text "::ffff:255.255.255.255" = 22 characters: len runs up to strlen+2 for it */
struct in { unsigned k; unsigned char a[4]; size_t len; unsigned char fill[VF_D]; };
struct in IN;
#include "stubs/c40g_snprintf.h"
#define VF_REF_MAXLEN 24
#include "c40_inet_ref.h"

/* ---- specification side: text of a byte in decimal without leading zeros; "::" ["ffff:"] a "." b "." c "." d */
static int ref_dec8(unsigned v, char *o)
{
	unsigned h = v >= 200 ? 2 : v >= 100 ? 1 : 0, r = v - 100 * h, t = 0, j;
	int n = 0;
	for (j = 1; j <= 9; j++) if (r >= 10 * j) t = j;
	if (h) o[n++] = (char)('0' + h);
	if (h || t) o[n++] = (char)('0' + t);
	o[n++] = (char)('0' + (r - 10 * t));
	return n;
}
static int ref_v4in6(const unsigned char a[16], char *o)
{
	int n = 0, k;
	o[n++] = ':'; o[n++] = ':';
	if (a[10] == 0xff) { o[n++] = 'f'; o[n++] = 'f'; o[n++] = 'f'; o[n++] = 'f'; o[n++] = ':'; }
	for (k = 12; k < 16; k++) { if (k > 12) o[n++] = '.'; n += ref_dec8(a[k], o + n); }
	o[n] = 0;
	return n;
}

static char D[VF_D], EXP[VF_D];
static unsigned char AD[16], AD0[16], BACK[16];
static int g_ok, g_n;

/* one address (AD), the symbolic buffer length IN.len and the symbolic previous buffer content IN.fill */
static void check_one(const char *lit)
{
	int i, n, ok;
	const char *r;
	for (i = 0; i < 16; i++) { AD0[i] = AD[i]; BACK[i] = 0; }
	for (i = 0; i < VF_D; i++) { D[i] = (char)IN.fill[i]; EXP[i] = 0; }
	n = ref_v4in6(AD, EXP);
	if (lit != NULL) {
		int same = 1, ln = 0;
		for (i = 0; i < VF_LENMAX; i++) { if (lit[ln] == 0) break; ln++; }
		for (i = 0; i < VF_LENMAX; i++) { if (i > ln) break; if (lit[i] != EXP[i]) same = 0; }
		__CPROVER_assert(ln == n && same, "specification self-check: the reference formatter yields the literal text of the fixed address");
	}
	__CPROVER_assert(n >= 9 && n <= 22, "specification self-check: the expected text has 9..22 characters");
	/* the expected text X - which a successful call must reproduce byte for byte, see below - is read back to A */
	ok = ref_pton6(EXP, BACK);
	__CPROVER_assert(ok == 1, "the complete text of the address is in the strict address syntax (reference parser accepts it)");
	for (i = 0; i < 16; i++) __CPROVER_assert(BACK[i] == AD[i], "the reference parser reads the complete text back to the SAME address");

	r = evutil_inet_ntop(AF_INET6, AD, D, IN.len);

	__CPROVER_assert(IFF(r != NULL, IN.len > (size_t)n), "evutil_inet_ntop fails (NULL) iff the text and its NUL do not fit into len bytes (exact fit len == strlen(text) fails)");
	__CPROVER_assert(r == NULL || r == D, "a successful call returns dst");
	for (i = 0; i < VF_LENMAX; i++)
		if (r != NULL && i <= n) __CPROVER_assert(D[i] == EXP[i], "a successful call writes exactly the complete NUL-terminated text of the IPv4-mapped/-compatible address");
	for (i = 0; i < VF_D; i++)
		if ((size_t)i >= IN.len) __CPROVER_assert(D[i] == (char)IN.fill[i], "no byte at or beyond dst+len is written");
	for (i = 0; i < 16; i++) __CPROVER_assert(AD[i] == AD0[i], "the address is not modified");
	g_ok = r != NULL; g_n = n;
}

#ifndef VF_C40G_ALL
#define VF_NFIX 7
static const struct { unsigned char a[16]; const char *text; } FIX[VF_NFIX] = {
	{ {0,0,0,0, 0,0,0,0, 0,0,0xff,0xff,   1,  2,  3,  4}, "::ffff:1.2.3.4" },            /* 14 */
	{ {0,0,0,0, 0,0,0,0, 0,0,0xff,0xff,   1,  2,  3, 44}, "::ffff:1.2.3.44" },           /* 15 */
	{ {0,0,0,0, 0,0,0,0, 0,0,0,   0,    127,  0,  0, 12}, "::127.0.0.12" },              /* 12 */
	{ {0,0,0,0, 0,0,0,0, 0,0,0xff,0xff, 255,255,255,255}, "::ffff:255.255.255.255" },    /* 22: the longest */
	{ {0,0,0,0, 0,0,0,0, 0,0,0,   0,      1,  2,  3,  4}, "::1.2.3.4" },                 /*  9: the shortest */
	{ {0,0,0,0, 0,0,0,0, 0,0,0xff,0xff,   0,  0,  0,  0}, "::ffff:0.0.0.0" },            /* 14 */
	{ {0,0,0,0, 0,0,0,0, 0,0,0xff,0xff, 192,  0,  2,109}, "::ffff:192.0.2.109" } };      /* 18 */
#endif

void harness(void)
{
	int i, kk;
	VF_LOAD_IN();
	__CPROVER_assume(IN.len <= VF_LENMAX);
	g_ok = 0; g_n = 0;
#ifndef VF_C40G_ALL
	/* quick tier: ONE of the fixed addresses (IN.k); the call is made with a concrete address, so that the formatting is
	 * concrete and only the buffer length and the previous buffer content are symbolic */
	__CPROVER_assume(IN.k < VF_NFIX);
	for (kk = 0; kk < VF_NFIX; kk++)
		if (IN.k == (unsigned)kk) {
			for (i = 0; i < 16; i++) AD[i] = FIX[kk].a[i];
			check_one(FIX[kk].text);
		}
#else
	/* thorough tier: EVERY a.b.c.d; IN.k bit 0: mapped (1) or compatible (0).  evutil_inet_ntop prints the compatible
	 * form only when words 6 and 7 are both non-zero (evutil.c: `words[5] == 0 && words[6] && words[7]`); the other
	 * addresses of ::/96 (::, ::1, ::1.2.0.0 ...) take the hexadecimal branch and belong to the c40_ntop6* units */
	__CPROVER_assume(IN.k <= 1);
	for (i = 0; i < 16; i++) AD[i] = 0;
	for (i = 0; i < 4; i++) AD[12 + i] = IN.a[i];
	for (kk = 0; kk <= 1; kk++)
		if (IN.k == (unsigned)kk) {
			if (kk == 1) { AD[10] = 0xff; AD[11] = 0xff; }
			else __CPROVER_assume((IN.a[0] != 0 || IN.a[1] != 0) && (IN.a[2] != 0 || IN.a[3] != 0));
			check_one(NULL);
		}
#endif
#ifdef VF_CANARY
	__CPROVER_assert(!(g_ok && g_n == 22), "canary: must fail (the 22-character text ::ffff:255.255.255.255 fits into a buffer of 23 or 24 bytes)");
#endif
}
