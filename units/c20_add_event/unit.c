/* C20 — bufferevent_add_event_ (real bufferevent.c): a zero timeval means "no timeout": the event is added without
 * one (event_add(ev, NULL): no timer is armed by this call); otherwise it is added with exactly that timeout. */
#include "c18_bev_unit.h"
static struct timeval TV;
int O_tm;
VF_CONTRACT(int, add_event_c, struct event *ev, const struct timeval *tv)
__CPROVER_requires(ev == &BEV->ev_write && tv == &TV)
__CPROVER_requires(g_e.ev[1].n_add == 0 && g_e.ev[1].n_add_tv == 0 && g_e.ev[1].n_add_fail == 0)
__CPROVER_assigns(BEV_GHOST_FRAME)
__CPROVER_ensures(g_e.ev[1].n_add == 1 && g_e.ev[1].n_del == 0 && g_e.ev[1].n_rmt == 0)
__CPROVER_ensures(IFF(__CPROVER_return_value == -1, g_e.ev[1].n_add_fail == 1) && (__CPROVER_return_value == 0 || __CPROVER_return_value == -1))
__CPROVER_ensures(IMP(__CPROVER_return_value == 0, g_e.ev[1].ins))
__CPROVER_ensures(IMP(__CPROVER_return_value == 0 && (TV.tv_sec != 0 || TV.tv_usec != 0), g_e.ev[1].n_add_tv == 1 && g_e.ev[1].timer && g_e.ev[1].tv_sec == TV.tv_sec && g_e.ev[1].tv_usec == TV.tv_usec))
__CPROVER_ensures(IMP(TV.tv_sec == 0 && TV.tv_usec == 0, g_e.ev[1].n_add_tv == 0 && g_e.ev[1].timer == O_tm))
;
void harness(void)
{
	int r;
	VF_LOAD_IN();
	vf_bev_build();
	TV.tv_sec = IN.a_tw_sec; TV.tv_usec = IN.a_tw_usec; O_tm = g_e.ev[1].timer;
	r = VF_CALL(add_event_c, bufferevent_add_event_, &BEV->ev_write, &TV);
	(void)r;
#ifdef VF_CANARY
	__CPROVER_assert(g_e.ev[1].n_add_tv == 0, "canary: must fail (a non-zero timeout arms the timer)");
#endif
}
