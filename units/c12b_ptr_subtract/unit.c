/* C12/C08 — evbuffer_ptr_subtract (real buffer.c, static helper of evbuffer_search_eol; real evbuffer_ptr_set
 * inlined), bookkeeping unit on every shape of <= 3 chains with symbolic sizes, including the PTR_NOT_FOUND
 * handling: a "not found" pointer and a step larger than the position are refused and leave the pointer alone. */
#define VF_NLOCKS 1
#include "vf.h"
#include "buffer.c"
struct eb_in;
#include "stubs/lock.h"
#include "evbuffer_shape.h"
struct in { struct eb_in b; size_t howfar; unsigned start_kind; size_t p0; unsigned lock_held; unsigned ch[VF_NCHOICE]; };
struct in IN;
#include "stubs/log.h"
#include "stubs/mm.h"
#include "c12b_ptr.h"

static struct evbuffer_ptr POS;
struct evbuffer_ptr O_pos, O_exp;
int O_depth;
#define REFUSED (O_pos.pos < 0 || howfar > (size_t)O_pos.pos)

VF_CONTRACT(int, ptr_subtract_c, struct evbuffer *buf, struct evbuffer_ptr *pos, size_t howfar)
__CPROVER_requires(buf == &BUF && pos == &POS && g_lock_depth[1] == O_depth)
__CPROVER_requires(O_pos.pos == POS.pos && O_pos.internal_.chain == POS.internal_.chain && O_pos.internal_.pos_in_chain == POS.internal_.pos_in_chain)
__CPROVER_assigns(g_lock_depth[1], g_lock_ops, POS)
__CPROVER_ensures(g_lock_depth[1] == O_depth)
/* 2 succeeds exactly when the pointer is valid and the step does not leave the buffer at the front */
__CPROVER_ensures(IFF(__CPROVER_return_value == 0, !REFUSED) && (__CPROVER_return_value == 0 || __CPROVER_return_value == -1))
/* 3 on success: the canonical pointer of position old - howfar */
__CPROVER_ensures(IMP(__CPROVER_return_value == 0, POS.pos == O_pos.pos - (ev_ssize_t)howfar && POS.pos == O_exp.pos && POS.internal_.chain == O_exp.internal_.chain && POS.internal_.pos_in_chain == O_exp.internal_.pos_in_chain))
/* 4 on refusal the pointer is untouched (a "not found" stays "not found") */
__CPROVER_ensures(IMP(__CPROVER_return_value == -1, POS.pos == O_pos.pos && POS.internal_.chain == O_pos.internal_.chain && POS.internal_.pos_in_chain == O_pos.internal_.pos_in_chain))
;

void harness(void)
{
	int r;
	VF_LOAD_IN();
	vf_build_buf(&IN.b);
	VF_INSTALL_LOCKS(); VF_MM_RESET();
	/* called by evbuffer_search_eol with the buffer locked */
	if (BUF.lock) g_lock_depth[1] = 1 + (IN.lock_held & 1);
	O_depth = g_lock_depth[1];
	__CPROVER_assume(IN.start_kind <= 1);
	if (IN.start_kind == 0) { __CPROVER_assume(IN.p0 <= BUF.total_len); vf_ptr_model(&IN.b, IN.p0, &POS); }
	else { POS.pos = -1; POS.internal_.chain = NULL; POS.internal_.pos_in_chain = 0; }
	O_pos = POS;
	if (POS.pos >= 0 && IN.howfar <= (size_t)POS.pos) vf_ptr_model(&IN.b, (size_t)POS.pos - IN.howfar, &O_exp);
	else { O_exp.pos = -1; O_exp.internal_.chain = NULL; O_exp.internal_.pos_in_chain = 0; }
	r = VF_CALL(ptr_subtract_c, evbuffer_ptr_subtract, &BUF, &POS, IN.howfar);
	if (r == 0 && POS.internal_.chain != NULL) __CPROVER_assert(POS.internal_.pos_in_chain < ((struct evbuffer_chain *)POS.internal_.chain)->off, "ptr_subtract: offset lies inside the chain's data");
#ifdef VF_CANARY
	__CPROVER_assert(r == 0, "canary: must fail (steps past the front are refused)");
#endif
}
