/* C10/C08 — event_free (real event.c): the event is deleted (made non-pending and non-active, waiting for a callback
 * running in another thread per event_del's contract) BEFORE its memory is released, and released exactly once. */
#define VF_NLOCKS 1
#include "vf.h"
#include "event.c"
struct in { int del_ret; short fl; };
struct in IN;
#include "stubs/log.h"
#include "stubs/lock.h"

struct event *g_ev;
int g_del, g_frees;
static void vf_free(void *p)
{
	__CPROVER_assert(p == (void *)g_ev && g_frees == 0, "C10: only the event is freed, once");
	__CPROVER_assert(g_del == 1, "C10: the event is deleted before it is freed (no callback of it can run afterwards)");
	g_frees++;
	free(p);
}
VF_CONTRACT(int, del_c, struct event *ev)
__CPROVER_requires(ev == g_ev && g_del == 0 && g_frees == 0 && g_lock_depth[1] == 0)
__CPROVER_assigns(g_del, g_ev->ev_evcallback.evcb_flags)
__CPROVER_ensures(g_del == 1 && __CPROVER_return_value == IN.del_ret)
;
VF_CONTRACT_V(free_c, struct event *ev)
__CPROVER_requires(ev == g_ev && g_del == 0 && g_frees == 0 && g_lock_depth[1] == 0)
__CPROVER_assigns(g_del, g_frees, event_debug_mode_too_late, __CPROVER_object_whole(g_ev))
__CPROVER_frees(g_ev)
__CPROVER_ensures(g_del == 1 && g_frees == 1 && __CPROVER_was_freed(g_ev) && g_lock_depth[1] == 0)
;
void harness(void)
{
	VF_LOAD_IN(); VF_INSTALL_LOCKS();
	evthread_id_fn_ = NULL; event_debug_mode_on_ = 0; event_debug_map_lock_ = NULL; event_debug_mode_too_late = 0; event_global_current_base_ = NULL;
	mm_malloc_fn_ = NULL; mm_realloc_fn_ = NULL; mm_free_fn_ = vf_free;
	g_del = 0; g_frees = 0;
	g_ev = malloc(sizeof(struct event));
	__CPROVER_assume(g_ev != NULL);
	g_ev->ev_flags = IN.fl | EVLIST_INIT;
	VF_CALL_V(free_c, event_free, g_ev);
#ifdef VF_CANARY
	__CPROVER_assert(g_frees == 0, "canary: must fail (the event is freed)");
#endif
}
