/* C42 — evtag_unmarshal_fixed on arbitrary bytes, every requested size.
 * Harness, reference and the full statement: contracts/c31_tag_unmarshal_harness.h (case 5 of IN.which; one case per
 * unit: CBMC decides one case in a quarter of the time it needs for two merged ones). */
#define VF_WHICH_A 5
#define VF_WHICH_B 5
#include "c31_tag_unmarshal_harness.h"
