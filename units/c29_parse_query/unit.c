/* C29 — evhttp_parse_query_str / evhttp_parse_query_str_flags (real http.c: evhttp_parse_query_impl with the
 * real evhttp_decode_uri_internal, evhttp_add_header_internal, evhttp_remove_header, evhttp_clear_headers)
 * against a reference splitter, for every C string of <= VF_N bytes with at most VF_AMP '&' (VF_AMP + 1
 * pieces) and every flag combination
 * (0, NONCONFORMANT, LAST_VAL, both):
 *   Q1 result: 0 with exactly the reference's pair list (same order; key = the raw bytes before the first
 *      '=' of the '&'-separated piece; value = the rest, percent-decoded with '+' -> ' ', as a C string,
 *      i.e. cut at a decoded NUL), or -1 with an EMPTY
 *      list exactly when the reference rejects the string (conformant mode: a non-empty piece without '=',
 *      or with an empty key) — or when an allocation failed
 *   Q2 NONCONFORMANT: a piece without '=' has the value "", a piece with an empty key is skipped
 *   Q3 LAST_VAL: a pair is dropped when a LATER pair has the same key (ASCII case-insensitively, the
 *      comparison evhttp_find_header uses), so a lookup yields the last value
 *   Q4 memory: on success exactly 3 allocations per pair stay live (node, key, value); on failure none
 * The reference does NOT percent-decode keys: the documented API describes only decoded values
 * (event2/http.h); with -DVF_SPEC_DECODED_KEYS the reference decodes keys as well (application/
 * x-www-form-urlencoded reading) — that variant FAILS on the real code, see the agent report. */
#ifndef VF_N
#define VF_N 6
#endif
#ifndef VF_AMP
#define VF_AMP 2               /* at most this many '&' in the string: at most VF_AMP + 1 pieces */
#endif
#define VF_MAXP (VF_AMP + 1)
#define VF_C28_MMCAP 32           /* sizeof(struct evkeyval) == 32 is the largest request */
#define VF_C28_MEMCAP (VF_N + 1)
#define VF_REF_CAP VF_N
#define VF_C28_STRCAP (VF_N + 2)
#define VF_NCHOICE 8
#include "vf.h"
#include "http.c"
struct in { unsigned char s[VF_N]; unsigned n; unsigned flags; int entry; unsigned ch[VF_NCHOICE]; };
struct in IN;
#include "stubs/log.h"
#include "stubs/c28_ctype.h"
#define VF_C28_WANT_STRTOL
#define VF_C28_WANT_STRSEP
#include "stubs/c28_libc_ref.h"
#include "stubs/c28_mm.h"
#include "c29_ref.h"

static char S[VF_N + 1];
/* ---- reference splitter (trusted) ---- */
struct rpair { unsigned koff, klen; unsigned vlen; int live; };
static struct rpair RP[VF_MAXP]; static unsigned rn; static int rerr;
static unsigned char RK[VF_MAXP][VF_N + 1];   /* keys as the reference reports them */
static unsigned char RV[VF_MAXP][VF_N + 1];   /* decoded values */
static unsigned char TMPD[VF_N + 1];          /* ref_decode writes through a pointer: only ever into this top-level 1-D array
                                               * (CBMC 6.11 loses writes through a pointer into an array member of an array of structs) */
static int ref_ieq(const unsigned char *a, unsigned al, const unsigned char *b, unsigned bl)
{
	unsigned k;
	if (al != bl) return 0;
	for (k = 0; k < VF_N; k++) {
		unsigned char x, y;
		if (k >= al) break;
		x = a[k]; y = b[k];
		if (x >= 'A' && x <= 'Z') x = (unsigned char)(x - 'A' + 'a');
		if (y >= 'A' && y <= 'Z') y = (unsigned char)(y - 'A' + 'a');
		if (x != y) return 0;
	}
	return 1;
}
static void ref_split(const unsigned char *s, unsigned n, unsigned flags)
{
	unsigned pos = 0, it, k, nesc;
	rn = 0; rerr = 0;
	for (it = 0; it <= VF_N; it++) {
		unsigned end, eq, haveq = 0, klen;
		if (pos >= n) break;                              /* nothing (more) to parse: "a=1&" ends here */
		end = n; for (k = VF_N; k-- > 0;) if (k >= pos && k < n && s[k] == '&') end = k;      /* first '&' at or after pos */
		eq = end; for (k = VF_N; k-- > 0;) if (k >= pos && k < end && s[k] == '=') { eq = k; haveq = 1; }
		klen = eq - pos;
		if (flags & EVHTTP_URI_QUERY_NONCONFORMANT) {
			if (klen == 0) { pos = end + 1; continue; }      /* empty key: skipped */
		} else {
			if (!haveq || klen == 0) { rerr = 1; rn = 0; return; }
		}
		RP[rn].koff = pos; RP[rn].klen = klen; RP[rn].live = 1;
		RP[rn].vlen = 0;
		if (haveq) {
			RP[rn].vlen = ref_decode(s + eq + 1, end - (eq + 1), TMPD, 1, &nesc);
			for (k = 0; k < VF_N; k++) RV[rn][k] = TMPD[k];
		}
		/* values are C strings: a decoded NUL (%00) ends the value as the caller sees it (see agent report) */
		for (k = VF_N; k-- > 0;) if (k < RP[rn].vlen && RV[rn][k] == 0) RP[rn].vlen = k;
#ifdef VF_SPEC_DECODED_KEYS
		RP[rn].klen = ref_decode(s + pos, klen, TMPD, 1, &nesc);
		for (k = 0; k < VF_N; k++) RK[rn][k] = TMPD[k];
#else
		for (k = 0; k < VF_N; k++) if (k < klen) RK[rn][k] = s[pos + k];
#endif
		rn++;
		pos = end + 1;
	}
	if (flags & EVHTTP_URI_QUERY_LAST_VAL) {
		unsigned a, b;
		for (a = 0; a < VF_MAXP; a++) for (b = 0; b < VF_MAXP; b++)
			if (a < b && b < rn && ref_ieq(RK[a], RP[a].klen, RK[b], RP[b].klen)) RP[a].live = 0;
	}
}

static struct evkeyvalq Q;

void harness(void)
{
	int r; unsigned k, a, cnt; struct evkeyval *h;
	VF_LOAD_IN(); VF_MM_RESET();
	__CPROVER_assume(IN.n <= VF_N);
	__CPROVER_assume(IN.flags <= 3);
	for (k = 0; k < VF_N; k++) { __CPROVER_assume(!(k < IN.n) || IN.s[k] != 0); S[k] = k < IN.n ? (char)IN.s[k] : '\0'; }
	S[VF_N] = '\0';
	cnt = 0; for (k = 0; k < VF_N; k++) if (S[k] == '&') cnt++;
	__CPROVER_assume(cnt <= VF_AMP);                        /* shape bound: number of pieces */
#ifdef VF_ENTRY_STR
	IN.flags = 0;
#endif
	ref_split((const unsigned char *)S, IN.n, IN.flags);
#ifdef VF_ENTRY_STR
	IN.entry = 0; IN.flags = 0;
	r = evhttp_parse_query_str(S, &Q);                    /* == flags 0 */
#else
	IN.entry = 1;
	r = evhttp_parse_query_str_flags(S, &Q, IN.flags);
#endif
	for (k = 0; k < VF_N; k++) __CPROVER_assert(S[k] == (k < IN.n ? (char)IN.s[k] : '\0'), "the input string is not modified");
	if (r != 0) {
		__CPROVER_assert(r == -1, "Q1: the only failure value is -1");
		__CPROVER_assert(TAILQ_EMPTY(&Q), "Q1: on failure the list is empty");
		__CPROVER_assert(g_mm_live == 0, "Q4: on failure nothing stays allocated");
		__CPROVER_assert(rerr || g_mm_failed > 0, "Q1: fails only when the reference rejects the string or an allocation failed");
#ifdef VF_CANARY
		__CPROVER_assert(!rerr, "canary: must fail (malformed strings exist)");
#endif
		return;
	}
	__CPROVER_assert(!rerr, "Q1: a string the reference rejects is refused");
	cnt = 0; h = TAILQ_FIRST(&Q);
	for (a = 0; a < VF_MAXP; a++) {
		if (a >= rn) break;
		if (!RP[a].live) continue;
		__CPROVER_assert(h != NULL, "Q1: every reference pair is present, in order");
		if (h == NULL) break;
		for (k = 0; k < VF_N; k++) if (k < RP[a].klen) __CPROVER_assert((unsigned char)h->key[k] == RK[a][k], "Q1: key bytes equal the reference key");
		__CPROVER_assert(h->key[RP[a].klen] == '\0', "Q1: key has the reference length");
		for (k = 0; k < VF_N; k++) if (k < RP[a].vlen) __CPROVER_assert((unsigned char)h->value[k] == RV[a][k], "Q1: value bytes equal the reference's decoded value");
		__CPROVER_assert(h->value[RP[a].vlen] == '\0', "Q1: value has the reference's decoded length");
		cnt++; h = TAILQ_NEXT(h, next);
	}
	__CPROVER_assert(h == NULL, "Q1: no pair beyond the reference's list");
	__CPROVER_assert(g_mm_live == 3 * (long)cnt, "Q4: exactly node + key + value per pair stay allocated");
#ifdef VF_CANARY
	__CPROVER_assert(cnt != 2, "canary: must fail (two pairs are possible)");
#endif
	evhttp_clear_headers(&Q);
	__CPROVER_assert(g_mm_live == 0, "Q4: evhttp_clear_headers releases everything");
}
