/* C42 — evtag_marshal_int -> evtag_unmarshal_int round trip: every 32-bit value, every tag.
 * Harness, reference and the full statement: contracts/c31_tag_roundtrip_harness.h (case 0 of IN.which; one case per
 * unit: CBMC decides one case in a quarter of the time it needs for two merged ones). */
#define VF_WHICH_A 0
#define VF_WHICH_B 0
#include "c31_tag_roundtrip_harness.h"
