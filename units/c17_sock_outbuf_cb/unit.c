/* C17/C20 — bufferevent_socket_outbuf_cb (real bufferevent_sock.c), the output-buffer callback of a socket bufferevent:
 * when bytes were added and writing is enabled, not suspended and the write event is not already pending, the write event is
 * added (with the write timeout, if one is set: the write timeout runs only while output is pending); otherwise nothing. */
#include "c17_sock_unit.h"
static struct evbuffer_cb_info CBI;
#define EV1 g_s.ev[1]
#define TSET(s, u) ((s) != 0 || (u) != 0)
int O_ins1;
#define START_ (CBI.n_added != 0 && (BEV->enabled & EV_WRITE) && !O_ins1 && BEVP.write_suspended == 0)
VF_CONTRACT_V(outbuf_cb_c, struct evbuffer *buf, const struct evbuffer_cb_info *cbinfo, void *arg)
__CPROVER_requires(buf == &OUTBUF && cbinfo == &CBI && arg == (void *)BEV && EV1.n_add == 0 && EV1.n_add_tv == 0 && EV1.n_add_fail == 0)
__CPROVER_assigns(SOCK_GHOST_FRAME)
__CPROVER_ensures(EV1.n_add == B(START_) && EV1.n_del == 0 && g_s.ev[0].n_add == 0 && g_s.ev[0].n_del == 0)
__CPROVER_ensures(IMP(START_ && EV1.n_add_fail == 0, EV1.ins && EV1.n_add_tv == B(TSET(IN.tw_sec, IN.tw_usec)) && IMP(EV1.n_add_tv, EV1.timer && EV1.tv_sec == IN.tw_sec && EV1.tv_usec == IN.tw_usec)))
;
void harness(void)
{
	VF_LOAD_IN(); vf_sock_build();
	CBI.n_added = (size_t)IN.n_added; CBI.n_deleted = IN.len_in; CBI.orig_size = IN.len_out;
	O_ins1 = EV1.ins;
	VF_CALL_V(outbuf_cb_c, bufferevent_socket_outbuf_cb, &OUTBUF, &CBI, (void *)BEV);
	__CPROVER_assert(g_s.nrep == 0 && g_s.write_calls == 0 && BEV->enabled == IN.enabled, "nothing written or reported from the buffer callback");
#ifdef VF_CANARY
	__CPROVER_assert(EV1.n_add == 0, "canary: must fail (adding output starts the writer)");
#endif
}
