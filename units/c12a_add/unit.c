/* C12/C13/C14/C08 — evbuffer_add (real buffer.c), bookkeeping, on every shape of <= 3 chains.
 * Inline (real): evbuffer_chain_insert_new, evbuffer_chain_should_realign, evbuffer_chain_align.
 * Replaced by contracts: evbuffer_chain_new_membuf (c12a_chain_new_membuf), evbuffer_chain_insert (c12a_chain_insert), evbuffer_chain_free, evbuffer_invoke_callbacks_.
 * memcpy/memmove: bounds-checked against the chain windows and logged, no bytes moved. */
#define VF_NLOCKS 2
#include "vf.h"
#include "stubs/c12a_mem.h"
#include "buffer.c"
struct eb_in;
#include "stubs/lock.h"
#include "c12a_shape.h"
struct in { struct eb_in b; size_t datlen; unsigned ch[VF_NCHOICE]; };
struct in IN;
#include "stubs/log.h"
#include "stubs/c12a_mm.h"
#include "c12a_contracts.h"

#define O_total (O_BUF.total_len)
VF_CONTRACT(int, add_c, struct evbuffer *buf, const void *data_in, size_t datlen)
__CPROVER_requires(buf == &BUF && data_in == C12A_USER && g_userlen == datlen)
__CPROVER_requires(g_lock_depth[1] == 0 && g_nnew == 0 && g_allocfail == 0 && g_freed == 0 && g_freed_mask == 0 && g_cb[0] == 0 && m_cp.n == 0)
__CPROVER_assigns(g_lock_depth[1], g_lock_ops, errno, g_new[0], g_new[1], g_al, g_fr, g_cbs, m_cp,
	__CPROVER_object_whole(buf), __CPROVER_object_whole(&CH[0]), __CPROVER_object_whole(&CH[1]), __CPROVER_object_whole(&CH[2]))
/* 1 C08: the buffer lock is released */
__CPROVER_ensures(g_lock_depth[1] == 0)
__CPROVER_ensures(__CPROVER_return_value == 0 || __CPROVER_return_value == -1)
/* 3 C12: reported failures are those of the model: end frozen, length overflow, allocation failure (or a request no chain can hold) */
__CPROVER_ensures(IMP(O_BUF.freeze_end || datlen > EV_SIZE_MAX - O_total || g_allocfail > 0, __CPROVER_return_value == -1))
__CPROVER_ensures(IMP(__CPROVER_return_value == -1, O_BUF.freeze_end || datlen > EV_SIZE_MAX - O_total || g_allocfail > 0 || datlen > EVBUFFER_CHAIN_MAX - EVBUFFER_CHAIN_SIZE))
/* 5 C14: failure => every field of the buffer and of every chain is unchanged, nothing freed, nothing copied, no callback, no chain allocated */
__CPROVER_ensures(IMP(__CPROVER_return_value == -1, C12A_BUF_SAME(BUF, O_BUF) && C12A_ALLCH_SAME() && m_cp.n == 0))
__CPROVER_ensures(IMP(__CPROVER_return_value == -1, g_freed == 0 && g_cb[0] == 0 && g_nnew == 0))
/* 7 C12: success => exactly datlen bytes longer */
__CPROVER_ensures(IMP(__CPROVER_return_value == 0, buf->total_len == O_total + datlen))
/* 8 C13: the callbacks are told once, after the whole change, with counters that account for exactly this addition */
__CPROVER_ensures(IMP(__CPROVER_return_value == 0, g_cb[0] <= 1 && IMP(datlen > 0, g_cb[0] == 1)))
__CPROVER_ensures(IMP(__CPROVER_return_value == 0 && g_cb[0] == 1, g_cb_total[0] == O_total + datlen && g_cb_nadd[0] == O_BUF.n_add_for_cb + datlen && g_cb_ndel[0] == O_BUF.n_del_for_cb))
__CPROVER_ensures(IMP(__CPROVER_return_value == 0 && g_cb[0] == 0, buf->n_add_for_cb == O_BUF.n_add_for_cb + datlen && buf->n_del_for_cb == O_BUF.n_del_for_cb))
/* 11 nothing but the chain list, the length and the counters changes */
__CPROVER_ensures(buf->lock == O_BUF.lock && buf->freeze_start == O_BUF.freeze_start && buf->freeze_end == O_BUF.freeze_end && buf->refcnt == O_BUF.refcnt && buf->callbacks.lh_first == O_BUF.callbacks.lh_first && buf->deferred_cbs == O_BUF.deferred_cbs && buf->flags == O_BUF.flags && buf->max_read == O_BUF.max_read)
;

void harness(void)
{
	int r, i, k; size_t copied = 0;
	VF_LOAD_IN();
	c12a_build(&IN.b);
	VF_INSTALL_LOCKS(); C12A_RESET();
	g_userlen = C12A_Q(IN.datlen);
	C12A_SNAPSHOT();
	r = VF_CALL(add_c, evbuffer_add, &BUF, C12A_USER, C12A_Q(IN.datlen));
#ifndef C12A_NOPOST
	if (r == 0) {
		__CPROVER_assert(c12a_binv(&BUF), "BInv after add: links, last, windows, total_len == sum off, last_with_datap canonical");
		__CPROVER_assert(g_nnew <= 1 && IMP(g_nnew == 1, BUF.last == g_new[0]), "at most one chain is allocated and it is the last chain (append)");
		/* old data stays: only empty chains are dropped, surviving chains keep at least their bytes, in their order */
		for (i = 0; i < VF_EB_MAXCH; i++) {
			if ((unsigned)i >= IN.b.nch) break;
			if (g_freed_mask & (1u << i)) __CPROVER_assert(O_CH[i].off == 0, "only empty chains are freed");
			else {
				__CPROVER_assert(CH[i].off >= O_CH[i].off && CH[i].buffer_len == O_CH[i].buffer_len, "a surviving chain keeps its bytes");
				__CPROVER_assert(CH[i].next == O_CH[i].next || CH[i].next == NULL || (g_nnew == 1 && CH[i].next == g_new[0]), "surviving chains keep their order");
				__CPROVER_assert(IMP(CH[i].off > O_CH[i].off, i == vf_lwd_index(&C12A_S) || (vf_lwd_index(&C12A_S) < 0 && i == 0)), "bytes are added only to the last chain with data");
			}
		}
		__CPROVER_assert(BUF.first == O_BUF.first || ((IN.b.nch == 0 || (g_freed_mask & 1u)) && g_nnew == 1 && BUF.first == g_new[0]), "first chain kept unless the buffer held no data-carrying chain");
		/* where the bytes went: every copy from the caller's data is the next unread piece of it and lands in space that
		 * held no data before, directly behind the chain's old data; a move inside a chain relocates exactly its old window */
		for (k = 0; k < C12A_MAXCP; k++) {
			if (k >= m_cp.n) break;
			if (m_cp.src[k] == C12A_USERCODE) {
				const struct evbuffer_chain *c = c12a_chain(m_cp.dst[k]);
				size_t oldoff = m_cp.dst[k] < 3 ? O_CH[m_cp.dst[k]].off : 0;
				__CPROVER_assert(m_cp.soff[k] == copied, "copies consume the caller's data in order, without gaps");
				__CPROVER_assert(m_cp.doff[k] == (size_t)c->misalign + oldoff + (m_cp.dst[k] < 3 ? 0 : 0) && m_cp.doff[k] + m_cp.len[k] <= (size_t)c->misalign + c->off, "copy lands directly behind the chain's old data, inside its new window");
				copied += m_cp.len[k];
			} else {
				int d = m_cp.dst[k];
				const struct evbuffer_chain *c = c12a_chain(d);      /* (a chain allocated in this call starts empty at misalign 0) */
				__CPROVER_assert(d == m_cp.src[k] && d >= 0 && m_cp.len[k] == (d < 3 ? O_CH[d].off : 0) && m_cp.soff[k] == (d < 3 ? (size_t)O_CH[d].misalign : 0) && m_cp.doff[k] == (size_t)c->misalign, "realign moves exactly the chain's old window to its new position");
			}
		}
		__CPROVER_assert(copied == C12A_Q(IN.datlen), "exactly datlen bytes of the caller's data are copied");
		for (i = 0; i < VF_EB_MAXCH; i++) {
			if ((unsigned)i >= IN.b.nch) break;
			if (!(g_freed_mask & (1u << i)) && O_CH[i].off && CH[i].misalign != O_CH[i].misalign)
				__CPROVER_assert(m_cp.n >= 1 && m_cp.dst[0] == i && m_cp.src[0] == i, "a chain's data moves only by a logged memmove");
		}
	}
#endif
#ifdef VF_CANARY
	__CPROVER_assert(g_nnew == 0, "canary: must fail (some adds allocate a chain)");
#endif
}
