/* C12 — evbuffer_free_all_chains (real buffer.c) against free_all_c, the contract by which the two-buffer units replace it:
 * applied to any suffix of the harness list it frees exactly that suffix. */
#define VF_NLOCKS 2
#include "vf.h"
#include "stubs/c12a_mem.h"
#include "buffer.c"
struct eb_in;
#include "stubs/lock.h"
#include "c12a_shape.h"
struct in { struct eb_in b; unsigned k; unsigned ch[VF_NCHOICE]; };
struct in IN;
#include "stubs/log.h"
#include "stubs/c12a_mm.h"
#include "c12a_contracts.h"

void harness(void)
{
	VF_LOAD_IN();
	c12a_build(&IN.b);
	VF_INSTALL_LOCKS(); C12A_RESET();
	__CPROVER_assume(IN.k <= c12a_nch);
	VF_CALL_V(free_all_c, evbuffer_free_all_chains, IN.k < c12a_nch ? &CH[IN.k] : NULL);
#ifdef VF_CANARY
	__CPROVER_assert(g_freed < 3, "canary: must fail (three chains can be freed)");
#endif
}
