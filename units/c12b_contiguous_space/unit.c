/* C12/C08 — evbuffer_get_contiguous_space (real buffer.c): length of the first chain's data; nothing modified; lock balanced. */
#define VF_NLOCKS 1
#include "vf.h"
#include "buffer.c"
struct eb_in;
#include "stubs/lock.h"
#include "evbuffer_shape.h"

struct in { struct eb_in b;  unsigned ch[VF_NCHOICE]; };
struct in IN;
#include "stubs/log.h"
#include "stubs/mm.h"

VF_CONTRACT(size_t, contig_c, const struct evbuffer *buf)
__CPROVER_requires(buf == &BUF && g_lock_depth[1] == 0)
__CPROVER_assigns(g_lock_depth[1], g_lock_ops)
__CPROVER_ensures(g_lock_depth[1] == 0)
/* the bytes readable without crossing a chain boundary: the first chain's data (0 for a buffer without chains) */
__CPROVER_ensures(__CPROVER_return_value == (IN.b.nch > 0 ? IN.b.off[0] : (size_t)0))
__CPROVER_ensures(__CPROVER_return_value <= BUF.total_len)
;
void harness(void)
{
	size_t r;
	VF_LOAD_IN();
	vf_build_buf(&IN.b);
	VF_INSTALL_LOCKS(); VF_MM_RESET();
	r = VF_CALL(contig_c, evbuffer_get_contiguous_space, &BUF);
#ifdef VF_CANARY
	__CPROVER_assert(r == BUF.total_len, "canary: must fail (data may continue in further chains)");
#endif
}
