/* C26 — evhttp_send_reply_end (real http.c): end of a streamed reply.
 *   chunked: exactly one write, the literal "0 CRLF CRLF" (RFC 9112 7.1: last-chunk, empty trailer
 *   section, final CRLF); the reply stops being chunked; completion (evhttp_send_done) runs after
 *   the output has been written;
 *   identity: nothing is written; completion runs now if the output buffer is already empty,
 *   otherwise after it has drained;
 *   without a connection the request is released and nothing is written.
 * Loop-free; evhttp_send_done / evhttp_request_free replaced by ghost-recording contracts. */
#include "vf.h"
#include "http.c"
struct in { size_t outlen; int chunked, have_evcon; };
struct in IN;
#include "stubs/log.h"
#include "stubs/c23_out_log.h"

int g_senddone_calls, g_reqfree_calls;
VF_CONTRACT_V(send_done_c, struct evhttp_connection *evcon, void *arg)
__CPROVER_requires(evcon != NULL)
__CPROVER_assigns(g_senddone_calls)
__CPROVER_ensures(g_senddone_calls == __CPROVER_old(g_senddone_calls) + 1)
;
VF_CONTRACT_V(request_free_c, struct evhttp_request *req)
__CPROVER_requires(req != NULL)
__CPROVER_assigns(g_reqfree_calls)
__CPROVER_ensures(g_reqfree_calls == __CPROVER_old(g_reqfree_calls) + 1)
;
static struct evhttp_connection EVCON; static struct evhttp_request REQ;

VF_CONTRACT_V(reply_end_c, struct evhttp_request *req)
__CPROVER_requires(req == &REQ && __CPROVER_rw_ok(req, sizeof(*req)))
__CPROVER_requires(req->evcon == (IN.have_evcon ? &EVCON : NULL) && EVCON.bufev == &BEV && EVCON.cb == NULL && EVCON.cb_arg == NULL)
__CPROVER_requires(req->chunked == (IN.chunked != 0) && req->userdone == 0 && EB[E_OUT].len == IN.outlen)
__CPROVER_requires(e_nlog == 0 && g_senddone_calls == 0 && g_reqfree_calls == 0 && e_bev_enabled_calls == 0 && e_setcb_calls == 0)
__CPROVER_assigns(req->chunked, req->userdone, EVCON.cb, EVCON.cb_arg, e_nlog, __CPROVER_object_whole(e_log), e_bev_enabled_calls, e_setcb_calls, g_senddone_calls, g_reqfree_calls)
/* 1 no connection */
__CPROVER_ensures(IMP(!IN.have_evcon, g_reqfree_calls == 1 && e_nlog == 0 && g_senddone_calls == 0))
__CPROVER_ensures(IMP(IN.have_evcon, g_reqfree_calls == 0 && req->userdone == 1))
/* 2 chunked: the terminator, once, and nothing else */
__CPROVER_ensures(IMP(IN.have_evcon && IN.chunked, e_nlog == 1 && e_log[0].op == OP_LASTCHUNK && req->chunked == 0))
__CPROVER_ensures(IMP(IN.have_evcon && IN.chunked, EVCON.cb == evhttp_send_done && g_senddone_calls == 0 && e_bev_enabled_calls == 1))
/* 3 identity: nothing written */
__CPROVER_ensures(IMP(!IN.chunked, e_nlog == 0))
__CPROVER_ensures(IMP(IN.have_evcon && !IN.chunked, g_senddone_calls == (IN.outlen == 0 ? 1 : 0)))
__CPROVER_ensures(IMP(IN.have_evcon && !IN.chunked && IN.outlen != 0, EVCON.cb == evhttp_send_done && EVCON.cb_arg == NULL))
;

void harness(void)
{
	VF_LOAD_IN(); VF_OUT_RESET(); g_senddone_calls = 0; g_reqfree_calls = 0;
	EVCON.bufev = &BEV; EVCON.cb = NULL; EVCON.cb_arg = NULL;
	REQ.evcon = IN.have_evcon ? &EVCON : NULL; REQ.chunked = (IN.chunked != 0); REQ.userdone = 0;
	EB[E_OUT].len = IN.outlen;
	VF_CALL_V(reply_end_c, evhttp_send_reply_end, &REQ);
#ifdef VF_CANARY
	__CPROVER_assert(e_nlog == 0, "canary: must fail (a chunked reply gets its terminator)");
#endif
}
