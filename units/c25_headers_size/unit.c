/* C25/C23 — evhttp_parse_headers_ (real http.c): size accounting and framing of the header
 * section over up to 3 buffered lines followed by an incomplete rest, with SYMBOLIC sizes.
 * evbuffer_readln is a stub that hands out line k with a tiny text from a menu (empty line, field
 * "a:b", continuation " c", malformed "bad") but reports an arbitrary 64-bit length len[k] >= the
 * text length (the code uses the reported length only for the accounting, the text only for
 * parsing) — so the arithmetic is covered for all sizes, the line structure for <= 3 lines.
 *   processing stops at the first of: the line that takes headers_size over max_headers_size
 *   (DATA_TOO_LONG, C25), an empty line (ALL_DATA_READ: the following bytes are NOT consumed —
 *   they belong to the body / next message, C23), a malformed line (DATA_CORRUPTED);
 *   otherwise MORE_DATA_EXPECTED — unless headers_size + the buffered incomplete rest already
 *   exceeds the limit (DATA_TOO_LONG although no end-of-line has arrived, C25);
 *   headers_size = old + the lengths of exactly the lines taken; without a connection no limit. */
#define VF_STRMAX 6
#define VF_HEAPSTR 12
#include "vf.h"
#include "http.c"
struct in { int kind[3]; size_t len[3]; unsigned nlines; size_t rest, hs0, max; int have_evcon, have_prev; unsigned ch[VF_NCHOICE]; };
struct in IN;
#include "stubs/log.h"
#include "stubs/c23_libc_ref.h"
#define VF_MM_NOFAIL
#include "stubs/c23_mm.h"
#include "c23_ref.h"
void *memcpy(void *d, const void *s, size_t n)
{
	size_t i;
	__CPROVER_assert(n <= VF_HEAPSTR, "memcpy: length within the modelled heap string");
	for (i = 0; i < VF_HEAPSTR; i++) { if (i >= n) break; ((char *)d)[i] = ((const char *)s)[i]; }
	return d;
}
/* ---- line-structure model of the input buffer */
struct evbuffer { int vf_id; };
static struct evbuffer INBUF;
enum { K_EMPTY = 0, K_FIELD = 1, K_FOLD = 2, K_BAD = 3 };
unsigned e_taken;            /* lines handed out so far */
char *evbuffer_readln(struct evbuffer *buffer, size_t *n_read_out, enum evbuffer_eol_style eol_style)
{
	char *line; int kd;
	__CPROVER_assert(buffer == &INBUF && eol_style == EVBUFFER_EOL_CRLF, "evbuffer_readln: the input buffer, EOL_CRLF");
	if (e_taken >= IN.nlines) return NULL;
	kd = IN.kind[e_taken];
	line = malloc(8);
#ifndef VF_NATIVE
	__CPROVER_assume(line != NULL);
#endif
	g_mm_live++;
	if (kd == K_EMPTY) { line[0] = 0; }
	else if (kd == K_FIELD) { line[0] = 'a'; line[1] = ':'; line[2] = 'b'; line[3] = 0; }
	else if (kd == K_FOLD) { line[0] = ' '; line[1] = 'c'; line[2] = 0; }
	else { line[0] = 'b'; line[1] = 'a'; line[2] = 'd'; line[3] = 0; }
	if (n_read_out) *n_read_out = IN.len[e_taken];
	e_taken++;
	return line;
}
size_t evbuffer_get_length(const struct evbuffer *buffer)
{
	__CPROVER_assert(buffer == &INBUF, "evbuffer_get_length: the input buffer");
	__CPROVER_assert(e_taken == IN.nlines, "evbuffer_get_length: asked only when no complete line is left");
	return IN.rest;
}

static struct evkeyvalq Q; static struct evkeyval HP; static char HPK[2];
static struct evhttp_request REQ; static struct evhttp_connection EVCON;

void harness(void)
{
	unsigned k, stop = 3, nh; int want = MORE_DATA_EXPECTED, st; size_t hs; char *pv; int have_hdr; struct evkeyval *h;
	VF_LOAD_IN(); VF_MM_RESET(); e_taken = 0;
	__CPROVER_assume(IN.nlines <= 3);
	for (k = 0; k < 3; k++) {
		__CPROVER_assume(IN.kind[k] >= K_EMPTY && IN.kind[k] <= K_BAD);
		__CPROVER_assume(IN.kind[k] == K_EMPTY ? IN.len[k] == 0 : IN.len[k] >= 3);     /* reported length >= the text handed out */
	}
	/* sizes are numbers of bytes actually received: their sum does not wrap */
	__CPROVER_assume(IN.hs0 <= ((size_t)1 << 62) && IN.len[0] <= ((size_t)1 << 60) && IN.len[1] <= ((size_t)1 << 60) && IN.len[2] <= ((size_t)1 << 60) && IN.rest <= ((size_t)1 << 60));
	TAILQ_INIT(&Q);
	if (IN.have_prev) {
		pv = malloc(VF_HEAPSTR); __CPROVER_assume(pv != NULL); pv[0] = 'v'; pv[1] = 0; g_mm_live++;
		HPK[0] = 'K'; HPK[1] = 0; HP.key = HPK; HP.value = pv; TAILQ_INSERT_TAIL(&Q, &HP, next);
	}
	EVCON.max_headers_size = IN.max;
	REQ.evcon = IN.have_evcon ? &EVCON : NULL; REQ.input_headers = &Q; REQ.headers_size = IN.hs0;

	/* ---- reference: walk the lines */
	hs = IN.hs0; have_hdr = IN.have_prev; nh = 0;
	for (k = 0; k < 3; k++) {
		if (k >= IN.nlines || stop != 3) break;
		hs += IN.len[k];
		if (IN.have_evcon && hs > IN.max) { want = DATA_TOO_LONG; stop = k; }
		else if (IN.kind[k] == K_EMPTY) { want = ALL_DATA_READ; stop = k; }
		else if (IN.kind[k] == K_BAD || (IN.kind[k] == K_FOLD && !have_hdr)) { want = DATA_CORRUPTED; stop = k; }
		else if (IN.kind[k] == K_FIELD) { have_hdr = 1; nh++; }
	}
	if (stop == 3 && IN.have_evcon && hs + IN.rest > IN.max) want = DATA_TOO_LONG;

	st = evhttp_parse_headers_(&REQ, &INBUF);

	__CPROVER_assert(st == want, "status: first over-limit line / empty line / malformed line decides; else MORE_DATA_EXPECTED, or DATA_TOO_LONG when headers_size + incomplete rest > max");
	__CPROVER_assert(e_taken == (stop == 3 ? IN.nlines : stop + 1), "consumes exactly the lines up to and including the deciding one (bytes after the empty line stay in the buffer)");
	__CPROVER_assert(REQ.headers_size == hs, "headers_size = old + lengths of exactly the lines taken");
	__CPROVER_assert(IMP(st == ALL_DATA_READ || st == MORE_DATA_EXPECTED, !IN.have_evcon || REQ.headers_size <= IN.max), "C25: the header section is never accepted/continued beyond max_headers_size");
	__CPROVER_assert(IMP(st == MORE_DATA_EXPECTED && IN.have_evcon, REQ.headers_size + IN.rest <= IN.max), "C25: never waits for more with more than max_headers_size bytes of header section buffered");
	k = 0; TAILQ_FOREACH(h, &Q, next) { k++; if (k > 5) break; }
	__CPROVER_assert(k == (IN.have_prev ? 1 : 0) + nh, "one stored field per accepted field line");
	__CPROVER_assert(g_mm_live == (IN.have_prev ? 1 : 0) + 3 * (long)nh, "every line buffer is released (also on the error paths)");
#ifdef VF_CANARY
	__CPROVER_assert(st != DATA_TOO_LONG, "canary: must fail (limits can be exceeded)");
#endif
}
