/* C35 — evdns_server_request_add_reply (real evdns.c), plain assert-harness.
 * "The header counts never describe records that are not present" / "exactly the records the callback added, in order":
 * the per-section counts n_answer / n_authority / n_additional equal the number of items linked into that section's
 * list on EVERY path.  A request with 0..2 items already in each section (counts == list lengths, the invariant this
 * function maintains; every scalar field of the items symbolic), then ONE add with every section number (any int),
 * type, class, ttl, is_name, a name of <= NCAP characters (or NULL), data = NULL | a string of <= NCAP characters
 * (is_name) | raw bytes of datalen 0..DCAP; the response may already have been formatted (req->response != NULL).
 * Every allocation (item, name copy, data copy) may fail (choice stream); mm_malloc(0) returns NULL as in libevent.
 *   failed add  : -1, the three lists and the three counts exactly as before, nothing allocated remains (g_mm_live == 0)
 *   successful  : 0, exactly one new item at the TAIL of the chosen section, its fields from the arguments, private
 *                 copies of name and data (the caller's buffers are scrambled afterwards), count + 1, other sections
 *                 untouched, existing items untouched
 *   after the response was formatted: refused (-1, no allocation attempted)
 * Name and data are RIGHT-ALIGNED in their objects: a read past the NUL / past data[datalen-1] is a pointer obligation. */
#ifndef NCAP
#define NCAP 3
#endif
#ifndef DCAP
#define DCAP 4
#endif
#define VF_C33_MEMCAP DCAP
#define VF_NLOCKS 1
#include "vf.h"
#include "stubs/c33_mem.h"
#include "evdns.c"
struct in {
	int n[3];
	unsigned short it_type[3][2], it_class[3][2], it_datalen[3][2]; unsigned it_ttl[3][2]; char it_isname[3][2];
	int section, type, cls, ttl, datalen, is_name;
	int name_null, data_null, has_response;
	unsigned namelen, slen; char name[NCAP], sdata[NCAP]; unsigned char data[DCAP];
	unsigned ch[VF_NCHOICE];
};
struct in IN;
#include "stubs/log.h"
#include "stubs/lock.h"
#define VF_C33_MM_SIZES(X) X(sizeof(struct server_reply_item)) X(1) X(2) X(3) X(4)
#include "stubs/c33_mm.h"
#if DCAP != 4
#error "VF_C33_MM_SIZES lists the RDATA sizes 1..4"
#endif
/* mm_strdup: private copy in an object of constant size; NULL argument -> NULL/EINVAL as event_mm_strdup_ does; may fail */
char *event_mm_strdup_(const char *str)
{
	int i; char *p;
	if (!str) { errno = EINVAL; return NULL; }
	if (VF_MM_FAIL_()) { errno = ENOMEM; return NULL; }
	p = malloc(NCAP + 1);
#ifndef VF_NATIVE
	__CPROVER_assume(p != NULL);
#endif
	for (i = 0; i <= NCAP; i++) { p[i] = str[i]; if (!str[i]) break; }
	__CPROVER_assert(i <= NCAP, "strdup: string of this unit (<= NCAP characters)");
	g_mm_live++; g_mm_allocs++;
	return p;
}

static struct evdns_server_port PORT; static struct server_request REQ; static struct server_reply_item ITEM[3][2];
static char NAMEBUF[NCAP + 1], SDATA[NCAP + 1], RESP[4]; static unsigned char RAW[DCAP];
static char ITNAME[3][2], ITDATA[3][2];

static struct server_reply_item **head_of(int s) { return s == 0 ? &REQ.answer : s == 1 ? &REQ.authority : &REQ.additional; }
static int count_of(int s) { return s == 0 ? REQ.n_answer : s == 1 ? REQ.n_authority : REQ.n_additional; }

void harness(void)
{
	int r, s, k, i, valid, need; const char *name, *data; struct server_reply_item *p, *it = NULL;
	VF_LOAD_IN(); VF_INSTALL_LOCKS(); VF_MM_RESET();
	/* the request: lists of n[s] <= 2 items, counts equal to the list lengths */
	for (s = 0; s < 3; s++) {
		__CPROVER_assume(IN.n[s] >= 0 && IN.n[s] <= 2);
		for (k = 0; k < 2; k++) {
			ITEM[s][k].next = (k + 1 < IN.n[s]) ? &ITEM[s][k + 1] : NULL;
			ITEM[s][k].name = &ITNAME[s][k]; ITEM[s][k].data = &ITDATA[s][k];
			ITEM[s][k].type = IN.it_type[s][k]; ITEM[s][k].dns_question_class = IN.it_class[s][k]; ITEM[s][k].ttl = IN.it_ttl[s][k];
			ITEM[s][k].is_name = IN.it_isname[s][k]; ITEM[s][k].datalen = IN.it_datalen[s][k];
		}
		*head_of(s) = IN.n[s] > 0 ? &ITEM[s][0] : NULL;
	}
	REQ.n_answer = IN.n[0]; REQ.n_authority = IN.n[1]; REQ.n_additional = IN.n[2];
	REQ.port = &PORT; PORT.lock = VF_LOCK_COOKIE(1);
	REQ.response = IN.has_response ? RESP : NULL; REQ.response_len = IN.has_response ? sizeof(RESP) : 0;
	/* the arguments */
	__CPROVER_assume(IN.namelen <= NCAP && IN.slen <= NCAP);
	for (i = 0; i < NCAP; i++) __CPROVER_assume(IN.name[i] != 0 && IN.sdata[i] != 0);          /* characters of the strings */
	for (i = 0; i < NCAP; i++) { NAMEBUF[i] = (i >= NCAP - (int)IN.namelen) ? IN.name[i] : 'x'; SDATA[i] = (i >= NCAP - (int)IN.slen) ? IN.sdata[i] : 'x'; }
	NAMEBUF[NCAP] = 0; SDATA[NCAP] = 0;
	for (i = 0; i < DCAP; i++) RAW[i] = IN.data[i];
	name = IN.name_null ? NULL : NAMEBUF + (NCAP - (int)IN.namelen);
	if (IN.data_null) data = NULL;
	else if (IN.is_name) data = SDATA + (NCAP - (int)IN.slen);
	else { __CPROVER_assume(IN.datalen >= 0 && IN.datalen <= DCAP); data = (const char *)RAW + (DCAP - IN.datalen); }   /* bound of this unit: raw RDATA of 0..DCAP bytes */
	valid = IN.section == EVDNS_ANSWER_SECTION || IN.section == EVDNS_AUTHORITY_SECTION || IN.section == EVDNS_ADDITIONAL_SECTION;
	need = 2 + (data != NULL);

	r = evdns_server_request_add_reply(&REQ.base, IN.section, name, IN.type, IN.cls, IN.ttl, IN.datalen, IN.is_name, data);

	/* the caller's buffers are its own again: scramble them, the item must hold private copies */
	for (i = 0; i <= NCAP; i++) { NAMEBUF[i] ^= 0x55; SDATA[i] ^= 0x55; }
	for (i = 0; i < DCAP; i++) RAW[i] ^= 0x55;

	__CPROVER_assert(r == 0 || r == -1, "returns 0 or -1");
	__CPROVER_assert(g_lock_depth[1] == 0, "the port's lock is released on every path");
	__CPROVER_assert(REQ.response == (IN.has_response ? RESP : NULL) && REQ.port == &PORT, "response and port fields untouched");
	__CPROVER_assert(IMP(IN.has_response, r == -1 && g_mm_allocs == 0), "adding after the response was formatted is refused, nothing is allocated");
	__CPROVER_assert(IMP(!valid, r == -1 && g_mm_allocs == 0), "an unknown section number is refused, nothing is allocated");
	__CPROVER_assert(IMP(IN.name_null, r == -1), "a NULL name is refused");
	/* every section: the earlier items in their order, then (only in the chosen section of a successful add) ONE new item */
	for (s = 0; s < 3; s++) {
		int len = 0;
		p = *head_of(s);
		for (k = 0; k < 2; k++) {
			if (k >= IN.n[s]) break;
			__CPROVER_assert(p == &ITEM[s][k], "the earlier items stay linked, in their order, before anything new");
			len++; p = ITEM[s][k].next;
		}
		if (r == 0 && s == IN.section) {
			__CPROVER_assert(p != NULL, "successful add: one item linked at the TAIL of the chosen section");
			it = p; len++; p = p->next;
		}
		__CPROVER_assert(p == NULL, "nothing else is linked into the section");
		__CPROVER_assert(count_of(s) == len, "n_answer/n_authority/n_additional == number of items linked in the section");
		__CPROVER_assert(len == IN.n[s] + (r == 0 && s == IN.section), "list length: as before, +1 only in the chosen section of a successful add");
		for (k = 0; k < 2; k++)
			__CPROVER_assert(ITEM[s][k].name == &ITNAME[s][k] && ITEM[s][k].data == &ITDATA[s][k] && ITEM[s][k].type == IN.it_type[s][k] && ITEM[s][k].dns_question_class == IN.it_class[s][k]
				&& ITEM[s][k].ttl == IN.it_ttl[s][k] && ITEM[s][k].is_name == IN.it_isname[s][k] && ITEM[s][k].datalen == IN.it_datalen[s][k], "the earlier items' fields are untouched");
	}
	if (r == -1) {
		__CPROVER_assert(g_mm_live == 0, "a failed add leaks nothing (item, name copy and data copy are all released)");
	} else {
		const char *nm; const unsigned char *d;
		__CPROVER_assert(valid && !IN.has_response && !IN.name_null, "success only for a known section of a request not yet answered");
		__CPROVER_assert(g_mm_live == need && g_mm_allocs == need && g_mm_frees == 0, "successful add: exactly the item, the name copy and (if data) the data copy are allocated");
		__CPROVER_assert(it->next == NULL, "the new item is the last one");
		__CPROVER_assert(it->type == (u16)IN.type && it->dns_question_class == (u16)IN.cls && it->ttl == (u32)IN.ttl, "type, class, ttl as given");
		__CPROVER_assert(it->is_name == (IN.is_name != 0), "is_name as given");
		nm = it->name;
		__CPROVER_assert(nm != NULL && nm[IN.namelen] == 0, "name copy: NUL-terminated at the name's length");
		for (i = 0; i < NCAP; i++) __CPROVER_assert(i >= (int)IN.namelen || nm[i] == IN.name[NCAP - (int)IN.namelen + i], "name copy: the name's characters (private copy)");
		if (data == NULL) __CPROVER_assert(it->data == NULL && it->datalen == 0, "no data: data NULL, datalen 0");
		else if (IN.is_name) {
			nm = (const char *)it->data;
			__CPROVER_assert(it->datalen == (u16)-1, "data is a name: datalen is the marker 0xffff");
			__CPROVER_assert(nm != NULL && nm[IN.slen] == 0, "data name copy: NUL-terminated at its length");
			for (i = 0; i < NCAP; i++) __CPROVER_assert(i >= (int)IN.slen || nm[i] == IN.sdata[NCAP - (int)IN.slen + i], "data name copy: its characters (private copy)");
		} else {
			d = (const unsigned char *)it->data;
			__CPROVER_assert(it->datalen == IN.datalen && IN.datalen > 0 && d != NULL, "raw data: datalen as given");
			for (i = 0; i < DCAP; i++) __CPROVER_assert(i >= IN.datalen || d[i] == IN.data[DCAP - IN.datalen + i], "raw data copy: exactly data[0..datalen) (private copy)");
		}
	}
	/* completeness: nothing but the listed reasons makes an add fail.  (Raw data of length 0 with a non-NULL pointer is refused: mm_malloc(0) is NULL.) */
	__CPROVER_assert(IMP(valid && !IN.has_response && !IN.name_null && !((IN.ch[0] | IN.ch[1] | IN.ch[2]) & 1u) && !(data != NULL && !IN.is_name && IN.datalen == 0), r == 0),
		"an add to a known section of an unanswered request succeeds when no allocation fails");
#ifdef VF_CANARY
	__CPROVER_assert(!(r == 0 && IN.section == EVDNS_AUTHORITY_SECTION && IN.n[1] == 2 && data != NULL && !IN.is_name && IN.datalen == DCAP), "canary: must fail (a third authority record with DCAP bytes of RDATA is added)");
#endif
}
