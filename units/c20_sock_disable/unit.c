/* C20/C19 — be_socket_disable (real bufferevent_sock.c): disabling a direction removes its I/O event and with it the
 * direction's timeout (a disabled direction cannot time out); the write event is kept while a connect is in progress. */
#include "c17_sock_unit.h"
#define EV0 g_s.ev[0]
#define EV1 g_s.ev[1]
int O_ins0, O_ins1, O_tm0, O_tm1;
VF_CONTRACT(int, sock_disable_c, struct bufferevent *bufev, short event)
__CPROVER_requires(bufev == BEV && EV0.n_del == 0 && EV1.n_del == 0)
__CPROVER_assigns(SOCK_GHOST_FRAME)
__CPROVER_ensures(__CPROVER_return_value == 0)
__CPROVER_ensures(EV0.n_del == B(event & EV_READ) && EV1.n_del == B((event & EV_WRITE) && !BEVP.connecting) && EV0.n_add == 0 && EV1.n_add == 0)
__CPROVER_ensures(IMP(event & EV_READ, !EV0.ins && !EV0.timer) && IMP(!(event & EV_READ), EV0.ins == O_ins0 && EV0.timer == O_tm0))
__CPROVER_ensures(IMP((event & EV_WRITE) && !BEVP.connecting, !EV1.ins && !EV1.timer) && IMP(!((event & EV_WRITE) && !BEVP.connecting), EV1.ins == O_ins1 && EV1.timer == O_tm1))
;
void harness(void)
{
	int r;
	VF_LOAD_IN(); vf_sock_build();
	O_ins0 = EV0.ins; O_ins1 = EV1.ins; O_tm0 = EV0.timer; O_tm1 = EV1.timer;
	r = VF_CALL(sock_disable_c, be_socket_disable, BEV, IN.a_event);
	(void)r;
	__CPROVER_assert(BEV->enabled == IN.enabled && BEVP.connecting == (IN.connecting & 1) && g_s.nrep == 0, "the op does not touch the enabled set / connecting and reports nothing");
#ifdef VF_CANARY
	__CPROVER_assert(EV1.n_del == 0, "canary: must fail (disabling writing removes the write event)");
#endif
}
