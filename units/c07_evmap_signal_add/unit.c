/* C07 — evmap_signal_add_ (real evmap.c): the signal backend's add (which installs the handler)
 * is called exactly for the FIRST event of a signal, with (signal, 0, EV_SIGNAL, the event); the
 * event is linked on the signal's list iff the call succeeds. */
#include "c07_sigmap.h"

#define GROW_NEEDED (IN.fd >= IN.nentries)
#define GROW_OK (g_mm_realloc_calls == 1 && g_mm_realloc_ok)
#define CTOR_NEEDED (GROW_NEEDED || IN.slot_null)
#define ALLOC_FAILED ((GROW_NEEDED && !GROW_OK) || (CTOR_NEEDED && g_mm_allocs == 0))
#define O_EMPTY (CTOR_NEEDED || !IN.has_first)            /* no event on the signal's list before */
#define CTXS ((struct evmap_signal *)BASE.sigmap.entries[IN.fd])
struct event *O_sfirst;

VF_CONTRACT(int, sig_add_c, struct event_base *base, int sig, struct event *ev)
__CPROVER_requires(base == &BASE && sig == IN.fd && ev == &EV && ev->ev_fd == sig)
__CPROVER_requires(g_add_calls == 0 && g_del_calls == 0 && g_mm_realloc_calls == 0 && g_mm_allocs == 0)
__CPROVER_assigns(IN.fd >= 0 && IN.fd < C05_NOLD: OLDTAB[IN.fd])
__CPROVER_assigns(IN.fd >= 0 && IN.fd < C05_NNEW: NEWTAB[IN.fd])
__CPROVER_assigns(BASE.sigmap.nentries, BASE.sigmap.entries, SCTX.sg.events.lh_first, C05_SIGL(&EV), C05_SIGL(&EV1).le_prev,
	g_add_calls, g_be_fd, g_be_old, g_be_events, g_be_arg, g_be_res, g_mm_realloc_calls, g_mm_realloc_ok, g_mm_realloc_sz, g_mm_live, g_mm_allocs, errno, vf_nchoice_)
/* 1 a number that is not a signal: refused, nothing happens */
__CPROVER_ensures(IMP(!SIG_INRANGE, __CPROVER_return_value == -1 && g_add_calls == 0 && g_mm_realloc_calls == 0 && g_mm_allocs == 0))
__CPROVER_ensures(__CPROVER_return_value == 1 || __CPROVER_return_value == -1)
__CPROVER_ensures(g_del_calls == 0 && g_add_calls <= 1)
/* 4 C07: the backend (handler installation) is told exactly for the first event of the signal */
__CPROVER_ensures(IMP(SIG_INRANGE, IFF(g_add_calls == 1, O_EMPTY && !ALLOC_FAILED)))
__CPROVER_ensures(IMP(g_add_calls == 1, g_be_fd == sig && g_be_old == 0 && g_be_events == EV_SIGNAL && g_be_arg == (void *)&EV))
/* 6 success iff nothing failed; then the event heads the signal's list */
__CPROVER_ensures(IMP(SIG_INRANGE, IFF(__CPROVER_return_value == 1, !ALLOC_FAILED && (g_add_calls == 0 || g_be_res == 0))))
__CPROVER_ensures(IMP(__CPROVER_return_value == 1, sig < BASE.sigmap.nentries && CTXS->events.lh_first == &EV && C05_SIGL(&EV).le_next == O_sfirst
	&& C05_SIGL(&EV).le_prev == &CTXS->events.lh_first && IMP(O_sfirst != NULL, C05_SIGL(&EV1).le_prev == &C05_SIGL(&EV).le_next)))
/* 8 backend failure: the event is not linked (the signal's list is as before) */
__CPROVER_ensures(IMP(SIG_INRANGE && __CPROVER_return_value == -1 && !ALLOC_FAILED, CTXS->events.lh_first == O_sfirst))
;

void harness(void)
{
	int r;
	VF_LOAD_IN();
	c07_build_sigmap();
	O_sfirst = NULL;
	if (SIG_INTABLE) {
		if (IN.slot_null) OLDTAB[IN.fd] = NULL;
		else { OLDTAB[IN.fd] = &SCTX; if (IN.has_first) O_sfirst = &EV1; }
	}
	SCTX.sg.events.lh_first = IN.has_first ? &EV1 : NULL;
	C05_SIGL(&EV1).le_prev = &SCTX.sg.events.lh_first; C05_SIGL(&EV1).le_next = NULL; EV1.ev_fd = IN.fd; EV1.ev_events = EV_SIGNAL | EV_PERSIST;
	r = VF_CALL(sig_add_c, evmap_signal_add_, &BASE, IN.fd, &EV);
	(void)r;
#ifdef VF_CANARY
	__CPROVER_assert(g_add_calls == 0, "canary: must fail (a first add reaches the backend)");
#endif
}
