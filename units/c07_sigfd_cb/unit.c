/* C07 — sigfd_cb (real signalfd.c): one signalfd record is read and the signal it names is
 * reported once with count 1, under the base lock.
 * Model of read(2) on the signalfd: the loop calls sigfd_cb when the descriptor is readable and this
 * base is its only reader, so the read delivers one complete record (C07_SIGFD_READ_MAY_FAIL drops
 * that assumption: the release build then reports whatever the uninitialised record contains — see
 * the agent report, candidate defect). */
#define _GNU_SOURCE 1
#define VF_NLOCKS 1
#include "vf.h"
#include "signalfd.c"
struct in { int fd; unsigned signo; int has_lock; int read_fails; unsigned garbage; unsigned ch[VF_NCHOICE]; };
struct in IN;
#include "stubs/lock.h"
#include "stubs/log.h"
#include "stubs/mm.h"

static struct event_base BASE; static struct event SIGEV;
int g_reads, g_sa_calls, g_sa_sig, g_sa_n;
ssize_t read(int fd, void *buf, size_t count)
{
	struct signalfd_siginfo *si = buf;
	__CPROVER_assert(fd == IN.fd && count == sizeof(struct signalfd_siginfo) && __CPROVER_w_ok(buf, count), "read: one signalfd record from the callback's fd");
	g_reads++;
	si->ssi_signo = IN.garbage;          /* whatever the stack held */
#ifdef C07_SIGFD_READ_MAY_FAIL
	if (IN.read_fails) { errno = EAGAIN; return -1; }
#endif
	si->ssi_signo = IN.signo;
	return (ssize_t)sizeof(struct signalfd_siginfo);
}
void evmap_signal_active_(struct event_base *base, evutil_socket_t sig, int ncalls)
{
	__CPROVER_assert(base == &BASE, "evmap_signal_active_: this base");
	__CPROVER_assert(IMP(IN.has_lock, g_lock_depth[1] == 1), "evmap_signal_active_: base lock held");
	g_sa_calls++; g_sa_sig = sig; g_sa_n = ncalls;
}
#ifdef C07_SIGFD_READ_MAY_FAIL
#define DELIVERED (!IN.read_fails)
#else
#define DELIVERED 1
#endif

VF_CONTRACT_V(sigfd_cb_c, evutil_socket_t fd, short what, void *arg)
__CPROVER_requires(fd == IN.fd && arg == (void *)&BASE && g_reads == 0 && g_sa_calls == 0)
__CPROVER_assigns(g_reads, g_sa_calls, g_sa_sig, g_sa_n, g_lock_depth[1], g_lock_ops, errno)
__CPROVER_ensures(g_reads == 1)
/* C07: a delivery read from the descriptor is reported once, for its signal, with count 1; nothing is reported without a delivery */
__CPROVER_ensures(g_sa_calls == (DELIVERED ? 1 : 0))
__CPROVER_ensures(IMP(g_sa_calls == 1, g_sa_sig == (int)IN.signo && g_sa_n == 1))
__CPROVER_ensures(IMP(IN.has_lock, g_lock_depth[1] == 0))
;

void harness(void)
{
	VF_LOAD_IN();
	__CPROVER_assume(IN.signo > 0 && IN.signo < NSIG);      /* the kernel reports a signal of the descriptor's mask */
	VF_INSTALL_LOCKS(); VF_MM_RESET();
	BASE.th_base_lock = IN.has_lock ? VF_LOCK_COOKIE(1) : NULL;
	BASE.sig.ev_sigevent[IN.signo] = &SIGEV;
	g_reads = 0; g_sa_calls = 0; g_sa_sig = 0; g_sa_n = 0;
	VF_CALL_V(sigfd_cb_c, sigfd_cb, IN.fd, EV_READ, (void *)&BASE);
#ifdef VF_CANARY
	__CPROVER_assert(g_sa_sig != 10, "canary: must fail (signal 10 can be delivered)");
#endif
}
