/* C17/C18/C08 — be_pair_outbuf_cb with be_pair_wants_to_talk (real bufferevent_pair.c; be_pair_transfer inlined): after the output
 * grew, data is handed to the partner iff there is a partner, this side has writing enabled, the partner has reading enabled and is
 * not suspended (e.g. by its high-water mark) and there is output; then exactly min(output, room under the partner's high mark)
 * bytes move (nothing if the partner is at/over its mark).  References and locks of both sides are balanced. */
#include "c17_pair_unit.h"
static struct evbuffer_cb_info CBI;
#ifdef VF_SIDE0
#define A_ 0          /* quick tier: side 0 is the subject (the code is the same for both sides); thorough tier: either */
#else
#define A_ (IN.a & 1)
#endif
#define D_ (1 - A_)
#define TALK_ (CBI.n_added > CBI.n_deleted && IN.linked && (IN.enabled[A_] & EV_WRITE) && (IN.enabled[D_] & EV_READ) && IN.rs[D_] == 0 && IN.len[2 * A_ + 1] != 0)
#define BLOCKED_ (IN.high_r[D_] != 0 && IN.len[2 * D_] >= IN.high_r[D_])
#define MV_ (!TALK_ || BLOCKED_ ? (size_t)0 : IN.high_r[D_] != 0 ? MINZ(IN.len[2 * A_ + 1], IN.high_r[D_] - IN.len[2 * D_]) : IN.len[2 * A_ + 1])
VF_CONTRACT_V(pair_outbuf_cb_c, struct evbuffer *outbuf, const struct evbuffer_cb_info *info, void *arg)
__CPROVER_requires(outbuf == &EB[2 * A_ + 1] && info == &CBI && arg == (void *)&(*PP(A_)) && g_lock_depth[1] == 0 && P0.bev.refcnt >= 1 && P1.bev.refcnt >= 1 && P0.bev.refcnt < (1 << 24) && P1.bev.refcnt < (1 << 24))
__CPROVER_requires(g_p.move_calls == 0 && g_p.moved == 0 && g_p.move_bad_args == 0 && g_p.move_refused == 0 && g_p.nrep == 0 && g_p.rcb[0].n == 0 && g_p.rcb[1].n == 0 && g_p.wcb[0].n == 0 && g_p.wcb[1].n == 0)
__CPROVER_requires(g_p.frozen[0] && g_p.frozen[1] && g_p.frozen[2] && g_p.frozen[3])
__CPROVER_assigns(P0.bev.refcnt, P1.bev.refcnt, PAIR_GHOST_FRAME)
__CPROVER_ensures(g_p.moved == MV_ && g_p.len[2 * A_ + 1] == IN.len[2 * A_ + 1] - MV_ && g_p.len[2 * D_] == IN.len[2 * D_] + MV_ && g_p.len[2 * A_] == IN.len[2 * A_] && g_p.len[2 * D_ + 1] == IN.len[2 * D_ + 1])
__CPROVER_ensures(g_p.move_calls == B(TALK_ && !BLOCKED_) && g_p.move_bad_args == 0 && g_p.move_refused == 0)
__CPROVER_ensures(IMP(IN.high_r[D_] != 0 && IN.len[2 * D_] <= IN.high_r[D_], g_p.len[2 * D_] <= IN.high_r[D_]))
__CPROVER_ensures(IMP(!TALK_ || BLOCKED_, g_p.nrep == 0) && IMP(TALK_ && !BLOCKED_, g_p.rcb[D_].n == B(g_p.len[2 * D_] >= IN.low_r[D_]) && g_p.wcb[A_].n == B(g_p.len[2 * A_ + 1] <= IN.low_w[A_])))
__CPROVER_ensures(g_p.ecb[0].n == 0 && g_p.ecb[1].n == 0 && g_p.rcb[A_].n == 0 && g_p.wcb[D_].n == 0)
__CPROVER_ensures(P0.bev.refcnt == IN.refcnt[0] && P1.bev.refcnt == IN.refcnt[1] && g_p.freed[0] == 0 && g_p.freed[1] == 0 && g_lock_depth[1] == 0)
__CPROVER_ensures(g_p.frozen[0] && g_p.frozen[1] && g_p.frozen[2] && g_p.frozen[3])
;
void harness(void)
{
	VF_LOAD_IN();
	vf_pair_build();
	__CPROVER_assume(IN.len[0] <= VF_LENBOUND && IN.len[1] <= VF_LENBOUND && IN.len[2] <= VF_LENBOUND && IN.len[3] <= VF_LENBOUND);
	__CPROVER_assume(IN.refcnt[0] >= 1 && IN.refcnt[1] >= 1 && IN.refcnt[0] < (1 << 24) && IN.refcnt[1] < (1 << 24));
	CBI.n_added = IN.n_added; CBI.n_deleted = IN.n_deleted; CBI.orig_size = 0;
	VF_CALL_V(pair_outbuf_cb_c, be_pair_outbuf_cb, &EB[2 * A_ + 1], &CBI, (void *)&(*PP(A_)));
#ifdef VF_CANARY
	__CPROVER_assert(g_p.moved == 0, "canary: must fail (data is handed over)");
#endif
}
