/* C36 — the 0x20 case-randomisation of request_new (real evdns.c), plain assert-harness.
 * "the question name equals the requested name, ignoring LETTER case when 0x20 randomisation is on".
 * request_new is run as a whole on every name of <= C36G_NCAP bytes (EVERY non-NUL byte value: the punctuation between
 * 'Z' and 'a' — [ \ ] ^ _ ` —, '@', '{', digits, '-', '.', bytes >= 0x80), every random bit string, randomisation on
 * or off, EDNS on or off, issuing now or queued, with or without handle, any flags, allocation may fail, the build
 * may fail.  The callees evdns_request_data_build / transaction_id_pick / nameserver_pick are cut off by stub bodies
 * ("replace_calls"); the stub of evdns_request_data_build RECORDS the (name, name_len) it is handed — that is the name
 * unit c36_build proves to be encoded into the question — and everything else of the call.
 *   for every i < name_len: wire[i] == name[i], or name[i] is an ASCII letter and wire[i] == name[i] ^ 0x20
 *   the length handed over is strlen(name), the byte behind it is the NUL; randomisation off: the caller's string itself
 *   (which case a random bit selects is NOT specified: C36 speaks about the name, not about the entropy)
 *   type, CLASS_INET, transaction id (0xffff when queued), buffer = the bytes behind the header, of evdns_request_len
 *   NULL exactly when the allocation or the build failed, nothing leaked; the request's fields on success
 * The name is RIGHT-ALIGNED in its object: a read past the NUL is a pointer obligation. */
#ifndef C36G_NCAP
#define C36G_NCAP 6
#endif
#define VF_NLOCKS 1
#include "vf.h"
#include "evdns.c"
struct in {
	unsigned name_len; char name[C36G_NCAP]; unsigned char rnd[(C36G_NCAP + 7) / 8];
	int randomize, inflight, max_inflight; unsigned short max_udp, tid; int type, flags, build_ret, with_handle, ns_null;
	unsigned ch[VF_NCHOICE];
};
struct in IN;
#include "stubs/log.h"
#include "stubs/lock.h"

#define C36G_REQCAP (sizeof(struct request) + 96 + C36G_NCAP + 2 + 4 + 11)
static struct evdns_base BASE; static struct evdns_request HANDLE; static struct nameserver NS; static struct event_base *EVB_COOKIE;
static char NAME[C36G_NCAP + 1], O_NAME[C36G_NCAP + 1];

/* ---- outside the TU */
long g_mm_live; size_t g_mm_size; int g_mm_failed; void *g_mm_obj;
void *event_mm_malloc_(size_t sz)
{
	void *p;
	__CPROVER_assert(sz >= sizeof(struct request) && sz <= C36G_REQCAP, "allocation: header + at most the request of a name of this unit");
	g_mm_size = sz;
	if (VF_CHOOSE() & 1u) { g_mm_failed = 1; return NULL; }
	p = malloc(C36G_REQCAP);           /* constant-size object (UNIT_GUIDE pitfall 5); the size asked for is checked by the build stub */
	__CPROVER_assume(p != NULL);
	g_mm_live++; g_mm_obj = p;
	return p;
}
void event_mm_free_(void *p) { if (p) g_mm_live--; free(p); }
/* strlcpy.c: copy at most siz-1 bytes, always NUL-terminate, return strlen(src) (OpenBSD strlcpy) */
size_t event_strlcpy_(char *dst, const char *src, size_t siz)
{
	size_t i = 0, n = 0;
	while (src[n] != 0) n++;
	if (siz != 0) {
		while (i + 1 < siz && i < n) { dst[i] = src[i]; i++; }
		dst[i] = 0;
	}
	return n;
}
/* evutil.c: the ASCII letters (unit c41_ctype checks the real table-driven function against this predicate) */
int EVUTIL_ISALPHA_(char c) { return (c >= 'a' && c <= 'z') || (c >= 'A' && c <= 'Z'); }
/* evutil_rand.c: n random bytes — here the bytes of IN.rnd */
int g_rng_calls; size_t g_rng_n;
void evutil_secure_rng_get_bytes(void *buf, size_t n)
{
	size_t i;
	__CPROVER_assert(n <= sizeof(IN.rnd), "random bits: one bit per name byte, rounded up to bytes");
	__CPROVER_assert(n == 0 || __CPROVER_w_ok(buf, n), "random bits: buffer writable");
	for (i = 0; i < sizeof(IN.rnd); i++) { if (i >= n) break; ((unsigned char *)buf)[i] = IN.rnd[i]; }
	g_rng_calls++; g_rng_n = n;
}
int g_ea_calls;
int event_assign(struct event *ev, struct event_base *base, evutil_socket_t fd, short events, event_callback_fn cb, void *arg)
{
	__CPROVER_assert(base == (struct event_base *)&EVB_COOKIE && fd == -1 && events == 0 && cb == evdns_request_timeout_callback && arg == g_mm_obj && ev == &((struct request *)g_mm_obj)->timeout_event, "evtimer_assign: the new request's timeout event, on the base's event_base");
	g_ea_calls++;
	return 0;
}
size_t strlen(const char *s) { size_t n = 0; while (s[n] != '\0') n++; return n; }

/* ---- same-TU callees cut off ("replace_calls") */
int g_tid_calls, g_ns_calls, g_b_calls;
u16 c36g_tid_stub(struct evdns_base *base) { __CPROVER_assert(base == &BASE, "transaction_id_pick: this base"); g_tid_calls++; return IN.tid; }
struct nameserver *c36g_ns_stub(struct evdns_base *base) { __CPROVER_assert(base == &BASE, "nameserver_pick: this base"); g_ns_calls++; return IN.ns_null ? NULL : &NS; }
static char g_wire[C36G_NCAP + 1]; static const char *g_b_name; static size_t g_b_len, g_b_buflen; static u16 g_b_tid, g_b_type, g_b_class; static u8 *g_b_buf;
int c36g_build_stub(const struct evdns_base *base, const char *const name, const size_t name_len, const u16 trans_id, const u16 type, const u16 class, u8 *const buf, size_t buf_len)
{
	unsigned i;
	__CPROVER_assert(base == &BASE && g_b_calls == 0, "evdns_request_data_build: this base, one build per request");
	__CPROVER_assert(name_len <= C36G_NCAP, "the length handed to the builder is that of a name of this unit");
	for (i = 0; i <= C36G_NCAP; i++) { g_wire[i] = name[i]; if (i >= name_len) break; }    /* name[0..name_len] : what goes on the wire, and the byte behind it */
	g_b_calls++; g_b_name = name; g_b_len = name_len; g_b_tid = trans_id; g_b_type = type; g_b_class = class; g_b_buf = buf; g_b_buflen = buf_len;
	return IN.build_ret;
}

#define IS_LETTER(c) (((c) >= 'a' && (c) <= 'z') || ((c) >= 'A' && (c) <= 'Z'))
void harness(void)
{
	struct request *r; const char *name; int i, issuing, edns;
	VF_LOAD_IN(); VF_INSTALL_LOCKS();
	g_mm_live = 0; g_mm_failed = 0; g_mm_obj = NULL; g_mm_size = 0; g_rng_calls = 0; g_ea_calls = 0; g_tid_calls = 0; g_ns_calls = 0; g_b_calls = 0; g_b_name = NULL;
	evdns_log_fn = NULL; current_base = NULL;
	__CPROVER_assume(IN.name_len <= C36G_NCAP);                                  /* bound of this unit */
	for (i = 0; i < C36G_NCAP; i++) __CPROVER_assume(IN.name[i] != 0);            /* the bytes of a C string: every value but NUL */
	for (i = 0; i < C36G_NCAP; i++) NAME[i] = (i >= C36G_NCAP - (int)IN.name_len) ? IN.name[i] : 'x';
	NAME[C36G_NCAP] = 0;
	for (i = 0; i <= C36G_NCAP; i++) O_NAME[i] = NAME[i];
	name = NAME + (C36G_NCAP - (int)IN.name_len);
	BASE.lock = VF_LOCK_COOKIE(1); g_lock_depth[1] = 1;
	BASE.event_base = (struct event_base *)&EVB_COOKIE;
	BASE.global_randomize_case = IN.randomize;
	BASE.global_requests_inflight = IN.inflight; BASE.global_max_requests_inflight = IN.max_inflight;
	BASE.global_max_udp_size = IN.max_udp;
	issuing = IN.inflight < IN.max_inflight; edns = IN.max_udp > 512;
	HANDLE.current_req = NULL; HANDLE.base = NULL;

	r = request_new(&BASE, IN.with_handle ? &HANDLE : NULL, IN.type, name, IN.flags);

	for (i = 0; i <= C36G_NCAP; i++) __CPROVER_assert(NAME[i] == O_NAME[i], "the caller's string is not modified");
	__CPROVER_assert(g_mm_size == sizeof(struct request) + 96 + IN.name_len + 2 + 4 + (edns ? 11 : 0), "one block: header + evdns_request_len(name_len)");
	__CPROVER_assert(g_b_calls == (g_mm_failed ? 0 : 1), "the query is built exactly once (not at all when the allocation failed)");
	if (g_b_calls) {
		const char *orig = O_NAME + (C36G_NCAP - (int)IN.name_len);
		__CPROVER_assert(g_b_len == IN.name_len, "the length of the question name is the length of the requested name");
		__CPROVER_assert(g_wire[IN.name_len] == 0, "the question name is NUL-terminated at that length");
		for (i = 0; i < C36G_NCAP; i++) {
			if (i >= (int)IN.name_len) break;
			__CPROVER_assert(g_wire[i] == orig[i] || (IS_LETTER(orig[i]) && g_wire[i] == (char)(orig[i] ^ 0x20)), "question name == requested name up to the case bit of ASCII LETTERS only");
		}
		__CPROVER_assert(IMP(!IN.randomize, g_b_name == name && g_rng_calls == 0), "randomisation off: the requested string itself is encoded, no random bits drawn");
		__CPROVER_assert(IMP(IN.randomize, g_rng_calls == 1 && g_rng_n == (IN.name_len + 7) / 8 && !__CPROVER_same_object(g_b_name, NAME)), "randomisation on: one bit per name byte drawn once; a private copy is randomised");
		__CPROVER_assert(g_b_type == (u16)IN.type && g_b_class == CLASS_INET, "question type as requested, class IN");
		__CPROVER_assert(g_b_tid == (issuing ? IN.tid : 0xffff) && g_tid_calls == (issuing ? 1 : 0), "transaction id: picked when the request is issued now, 0xffff while it waits");
		__CPROVER_assert(g_b_buf == (u8 *)g_mm_obj + sizeof(struct request) && g_b_buflen + sizeof(struct request) == g_mm_size, "the query buffer is the rest of the block behind the header, of evdns_request_len(name_len) bytes");
		__CPROVER_assert(g_ea_calls == 1, "the timeout event is assigned once");
	}
	__CPROVER_assert(IFF(r == NULL, g_mm_failed || IN.build_ret < 0), "NULL exactly when the allocation or the build failed");
	__CPROVER_assert(g_mm_live == (r != NULL), "nothing leaked on failure; one block on success");
	__CPROVER_assert(g_lock_depth[1] == 1 && g_lock_ops == 0, "C08: the base lock is neither taken nor released");
	if (r) {
		__CPROVER_assert((void *)r == g_mm_obj && r->request == (u8 *)r + sizeof(struct request) && r->request_appended == 1 && r->request_size == (u16)g_mm_size, "request: data appended to the header");
		__CPROVER_assert(r->request_len == (unsigned)IN.build_ret && r->trans_id == g_b_tid && r->tx_count == 0 && r->request_type == (u8)IN.type && r->base == &BASE, "request: length from the builder, id, type, base");
		__CPROVER_assert(r->ns == (issuing && !IN.ns_null ? &NS : NULL) && g_ns_calls == (issuing ? 1 : 0) && r->next == NULL && r->prev == NULL, "request: nameserver picked only when issued now; unlinked");
		__CPROVER_assert(r->handle == (IN.with_handle ? &HANDLE : NULL) && IMP(IN.with_handle, HANDLE.current_req == r && HANDLE.base == &BASE), "request <-> handle linked");
		__CPROVER_assert(r->need_cname == ((IN.flags & DNS_CNAME_CALLBACK) ? 1 : 0) && r->transmit_me == 0 && r->reissue_count == 0 && r->put_cname_in_ptr == NULL, "request: need_cname from the flags, the rest zero");
	} else
		__CPROVER_assert(HANDLE.current_req == NULL && HANDLE.base == NULL, "failed: the handle is untouched");
#ifdef VF_CANARY
	__CPROVER_assert(!g_b_calls || IN.name_len == 0 || g_wire[0] == O_NAME[C36G_NCAP - (int)IN.name_len], "canary: must fail (the first letter's case can be flipped)");
#endif
}
