/* C12/C13/C14/C08 — evbuffer_prepend (real buffer.c), bookkeeping, on every shape of <= 3 chains.
 * Inline (real): evbuffer_chain_insert_new.
 * Replaced by contracts: evbuffer_chain_new_membuf (c12a_chain_new_membuf), evbuffer_chain_insert (c12a_chain_insert), evbuffer_chain_free, evbuffer_invoke_callbacks_.
 * memcpy/memmove: bounds-checked against the chain windows and logged, no bytes moved. */
#define VF_NLOCKS 2
#include "vf.h"
#include "stubs/c12a_mem.h"
#include "buffer.c"
struct eb_in;
#include "stubs/lock.h"
#include "c12a_shape.h"
struct in { struct eb_in b; size_t datlen; unsigned ch[VF_NCHOICE]; };
struct in IN;
#include "stubs/log.h"
#include "stubs/c12a_mm.h"
#include "c12a_contracts.h"

#define O_total (O_BUF.total_len)
#define RV __CPROVER_return_value
VF_CONTRACT(int, prepend_c, struct evbuffer *buf, const void *data, size_t datlen)
__CPROVER_requires(buf == &BUF && data == C12A_USER && g_userlen == datlen)
__CPROVER_requires(g_lock_depth[1] == 0 && g_nnew == 0 && g_allocfail == 0 && g_freed == 0 && g_freed_mask == 0 && g_cb[0] == 0 && m_cp.n == 0)
__CPROVER_assigns(g_lock_depth[1], g_lock_ops, errno, g_new[0], g_new[1], g_al, g_fr, g_cbs, m_cp,
	__CPROVER_object_whole(buf), __CPROVER_object_whole(&CH[0]), __CPROVER_object_whole(&CH[1]), __CPROVER_object_whole(&CH[2]))
/* 1 C08: the buffer lock is released */
__CPROVER_ensures(g_lock_depth[1] == 0)
__CPROVER_ensures(RV == 0 || RV == -1)
/* 3 C12: reported failures are those of the model: front frozen, length overflow, allocation failure (or a request no chain can hold); prepending nothing always succeeds */
__CPROVER_ensures(IMP(datlen == 0, RV == 0))
__CPROVER_ensures(IMP(datlen > 0 && (O_BUF.freeze_start || datlen > EV_SIZE_MAX - O_total || g_allocfail > 0), RV == -1))
__CPROVER_ensures(IMP(RV == -1, O_BUF.freeze_start || datlen > EV_SIZE_MAX - O_total || g_allocfail > 0 || datlen > EVBUFFER_CHAIN_MAX - EVBUFFER_CHAIN_SIZE))
/* 6 C14: failure => the byte string, the length, the counters are unchanged: every field of the buffer and of every chain has
 * its old value, nothing was copied, no callback ran, no chain was allocated or freed */
__CPROVER_ensures(IMP(RV == -1, C12A_BUF_SAME(BUF, O_BUF) && C12A_ALLCH_SAME() && m_cp.n == 0))
__CPROVER_ensures(IMP(RV == -1, g_cb[0] == 0 && g_freed == 0 && g_nnew == 0))
/* 8 C12: success => exactly datlen bytes longer */
__CPROVER_ensures(IMP(RV == 0, buf->total_len == O_total + datlen))
/* 9 C13: the callbacks are told once, after the whole change, with counters that account for exactly this addition; not at all when nothing was prepended */
__CPROVER_ensures(IMP(RV == 0, g_cb[0] == (datlen > 0 ? 1 : 0)))
__CPROVER_ensures(IMP(RV == 0 && g_cb[0] == 1, g_cb_total[0] == O_total + datlen && g_cb_nadd[0] == O_BUF.n_add_for_cb + datlen && g_cb_ndel[0] == O_BUF.n_del_for_cb))
__CPROVER_ensures(IMP(RV == 0 && g_cb[0] == 0, C12A_BUF_SAME(BUF, O_BUF) && C12A_ALLCH_SAME() && m_cp.n == 0 && g_nnew == 0))
/* 12 nothing but the chain list, the length and the counters changes */
__CPROVER_ensures(buf->lock == O_BUF.lock && buf->freeze_start == O_BUF.freeze_start && buf->freeze_end == O_BUF.freeze_end && buf->refcnt == O_BUF.refcnt && buf->callbacks.lh_first == O_BUF.callbacks.lh_first && buf->deferred_cbs == O_BUF.deferred_cbs && buf->flags == O_BUF.flags && buf->max_read == O_BUF.max_read)
;

void harness(void)
{
	int r, i, k; size_t datlen, tail = 0, headn = 0;
	VF_LOAD_IN();
	c12a_build(&IN.b);
	VF_INSTALL_LOCKS(); C12A_RESET();
	datlen = C12A_Q(IN.datlen);
	__CPROVER_assume(datlen <= C12A_MAXDAT);      /* pointer offsets of the verifier have 64 - object_bits bits */
	g_userlen = datlen;
	C12A_SNAPSHOT();
	r = VF_CALL(prepend_c, evbuffer_prepend, &BUF, C12A_USER, datlen);
#ifndef C12A_NOPOST
	if (r == 0 && datlen > 0) {
		__CPROVER_assert(c12a_binv(&BUF), "BInv after prepend: links, last, windows, total_len == sum off, last_with_datap canonical");
		__CPROVER_assert(g_freed == 0, "prepend frees no chain");
		__CPROVER_assert(g_nnew <= 1 && IMP(g_nnew == 1, BUF.first == g_new[0] && g_new[0]->next == O_BUF.first && g_new[0]->off > 0), "at most one chain is allocated and it goes in front of the old first chain");
		__CPROVER_assert(IMP(g_nnew == 0, BUF.first == O_BUF.first) && IMP(c12a_nch > 0, BUF.last == O_BUF.last), "old chains stay, in their order");
		for (i = 0; i < VF_EB_MAXCH; i++) {
			if ((unsigned)i >= c12a_nch) break;
			__CPROVER_assert(CH[i].next == O_CH[i].next && CH[i].buffer_len == O_CH[i].buffer_len && CH[i].off >= O_CH[i].off, "every old chain keeps its place and its bytes");
			if (i > 0) __CPROVER_assert(C12A_CH_SAME(CH[i], O_CH[i]), "only the first chain is touched");
			/* old data stays where it was: the window's end does not move unless the chain was empty */
			if (O_CH[i].off) __CPROVER_assert((size_t)CH[i].misalign + CH[i].off == (size_t)O_CH[i].misalign + O_CH[i].off, "old data of a chain is not moved");
		}
		/* where the bytes went.  Reading the buffer front to back after the call: the new chain's window (if any) is
		 * data[0 .. n1), the new front part of the old first chain is data[n1 .. datlen), then the old bytes. */
		for (k = 0; k < C12A_MAXCP; k++) {
			const struct evbuffer_chain *c;
			if (k >= m_cp.n) break;
			__CPROVER_assert(m_cp.src[k] == C12A_USERCODE, "prepend copies only from the caller's data");
			c = c12a_chain(m_cp.dst[k]);
			if (m_cp.dst[k] >= 6) {
				__CPROVER_assert(m_cp.doff[k] == (size_t)c->misalign && m_cp.len[k] == c->off && m_cp.soff[k] == 0, "the new first chain holds exactly the head of the data");
				headn = m_cp.len[k];
			} else {
				size_t oldoff = (c12a_nch > 0 && m_cp.dst[k] == 0) ? O_CH[0].off : 0;
				__CPROVER_assert(m_cp.dst[k] == 0, "the other piece goes to the old first chain");
				__CPROVER_assert(m_cp.doff[k] == (size_t)c->misalign && m_cp.len[k] == c->off - oldoff && m_cp.soff[k] + m_cp.len[k] == datlen, "the old first chain receives the tail of the data directly in front of its old bytes");
				tail = m_cp.len[k];
			}
		}
		__CPROVER_assert(m_cp.n >= 1 && m_cp.n <= 2 && headn + tail == datlen, "exactly datlen bytes of the caller's data are copied, each once");
	}
#endif
#ifdef VF_CANARY
	__CPROVER_assert(g_nnew == 0, "canary: must fail (some prepends allocate a chain)");
#endif
}
