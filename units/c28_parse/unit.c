/* C28 — evhttp_uri_parse_with_flags vs. the RFC 3986 reference parser; harness in contracts/c28_parse_unit.h */
#include "c28_parse_unit.h"
