/* C23/C25 — evhttp_parse_headers_ + evhttp_append_to_last_header + evhttp_add_header (real http.c)
 * on ONE complete field line: the buffer holds  L (CR)? LF  with L of at most VF_N bytes (no LF,
 * no NUL), the header list has 0 or 1 earlier field.  RFC 9112 5 / 5.2:
 *   size     headers_size grows by |L|; over max_headers_size => DATA_TOO_LONG, nothing stored (C25);
 *   empty    L empty => ALL_DATA_READ (end of the header section), nothing stored;
 *   field    L = name ":" OWS value OWS: a field (name, value) is appended — name = the bytes before
 *            the first colon, value = the rest without surrounding optional white space; no colon,
 *            empty name => DATA_CORRUPTED;
 *            "name-token": an accepted name is a token, in particular there is no white space
 *            between name and colon (RFC 9112 5.1: such a message MUST be rejected);
 *            "ows": the stored value has no leading/trailing SP/HT;
 *            "bare-cr": the stored value contains no CR (a line cannot contain LF);
 *   fold     L starts with SP/HT: obs-fold — the trimmed text is appended to the last field's value
 *            after one SP (RFC 9112 5.2: "replace each received obs-fold with one or more SP");
 *            without an earlier field => DATA_CORRUPTED;
 *   the whole line and its terminator are consumed, nothing else; MORE_DATA_EXPECTED afterwards. */
#ifndef VF_N
#define VF_N 6
#endif
#define VF_STRMAX (VF_N + 4)
#define VF_HEAPSTR (2 * VF_N + 8)
#define VF_EB_CAP (VF_N + 2)
#define VF_EB_N 1
#include "vf.h"
#include "http.c"
struct in { unsigned char l[VF_N]; unsigned len; int crlf, have_prev, have_evcon; size_t hs0, max; unsigned ch[VF_NCHOICE]; };
struct in IN;
#include "stubs/log.h"
#include "stubs/c23_libc_ref.h"
#define VF_MM_NOFAIL
#include "stubs/c23_mm.h"
#include "stubs/evbuffer_model.h"
#include "stubs/c23_evb_readln.h"
#include "c23_ref.h"
/* append_to_last_header copies with memcpy(symbolic length): bounded byte loop with bounds checks (UNIT_GUIDE pitfall 2) */
void *memcpy(void *d, const void *s, size_t n)
{
	size_t i;
	__CPROVER_assert(n <= VF_HEAPSTR, "memcpy: length within the modelled heap string");
	for (i = 0; i < VF_HEAPSTR; i++) { if (i >= n) break; ((char *)d)[i] = ((const char *)s)[i]; }
	return d;
}

static struct evkeyvalq Q; static struct evkeyval HP;
static char HPK[2];
static struct evhttp_request REQ; static struct evhttp_connection EVCON;
static char L[VF_N + 1], EXPN[VF_N + 1], EXPV[VF_HEAPSTR];

void harness(void)
{
	unsigned i, n, c, a, b, k; int st; char *pv = NULL; struct evkeyval *last;
	int is_fold, too_long, has_colon;
	VF_LOAD_IN(); VF_MM_RESET(); VF_EB_RESET(); e_readln_calls = 0; e_readln_may_fail = 0;
	n = IN.len;
	__CPROVER_assume(n <= VF_N);
	for (i = 0; i < VF_N; i++) { L[i] = i < n ? (char)IN.l[i] : 0; if (i < n) __CPROVER_assume(IN.l[i] != 0 && IN.l[i] != '\n'); }
	L[VF_N] = 0;
	__CPROVER_assume(!(n > 0 && L[n - 1] == '\r'));       /* a CR directly before the LF belongs to the terminator: covered by IN.crlf */
	/* buffer = L (CR)? LF */
	for (i = 0; i < VF_N; i++) { if (i >= n) break; g_eb[0].d[i] = (unsigned char)L[i]; }
	k = n; if (IN.crlf) g_eb[0].d[k++] = '\r';
	g_eb[0].d[k++] = '\n'; g_eb[0].len = k;
	TAILQ_INIT(&Q);
	if (IN.have_prev) {
		pv = malloc(VF_HEAPSTR); __CPROVER_assume(pv != NULL); pv[0] = 'v'; pv[1] = 0; g_mm_live++;
		HPK[0] = 'K'; HPK[1] = 0; HP.key = HPK; HP.value = pv; TAILQ_INSERT_TAIL(&Q, &HP, next);
	}
	EVCON.max_headers_size = IN.max;
	REQ.evcon = IN.have_evcon ? &EVCON : NULL; REQ.input_headers = &Q; REQ.headers_size = IN.hs0;
	__CPROVER_assume(IN.hs0 <= (size_t)-1 - VF_N);        /* headers_size counts bytes actually received: far below SIZE_MAX */

	/* ---- reference view of the line */
	too_long = IN.have_evcon && IN.hs0 + n > IN.max;
	is_fold = n > 0 && ISWS(L[0]);
	c = n; for (i = 0; i < VF_N; i++) { if (i >= n) break; if (L[i] == ':') { c = i; break; } }
	has_colon = c < n;
	/* a..b: the line (fold) or the part behind the colon (field) without surrounding SP/HT */
	a = is_fold ? 0 : (has_colon ? c + 1 : n); b = n;
	for (i = 0; i < VF_N; i++) { if (a < b && ISWS(L[a])) a++; }
	for (i = 0; i < VF_N; i++) { if (b > a && ISWS(L[b - 1])) b--; }
	for (i = 0; i < VF_N; i++) EXPN[i] = i < c ? L[i] : 0;
	EXPN[VF_N] = 0;
	k = 0;
	if (is_fold) { EXPV[k++] = 'v'; EXPV[k++] = ' '; }
	for (i = 0; i < VF_N; i++) { if (a + i >= b) break; EXPV[k++] = L[a + i]; }
	EXPV[k] = 0;
	/* known deviations of the accepted set (each a candidate finding), separated by VF_KF_*:
	 *   name not a token (C23-ws-before-colon), value keeps a leading HT (C23-ows-htab), value keeps a bare CR (C26-value-multi-newline) */
#define KF_NAME (!is_fold && has_colon && c > 0 && ref_no_crlf(EXPN, c) && !ref_token(EXPN, c))
#define KF_HTAB (!is_fold && has_colon && c + 1 < n && L[c + 1 + strspn(&L[c + 1], " ")] == '\t')
#define KF_CR   (!ref_no_crlf(&L[a], b - a))
#ifdef VF_KF_EXCLUDE
	__CPROVER_assume(!KF_NAME && !KF_HTAB && !KF_CR);
#endif
#ifdef VF_KF_ONLY
	__CPROVER_assume(KF_NAME || KF_HTAB || KF_CR);
#endif

	st = evhttp_parse_headers_(&REQ, &EVB[0]);

	last = TAILQ_LAST(&Q, evkeyvalq);
	__CPROVER_assert(g_eb[0].len == 0 && g_eb[0].drained == n + (IN.crlf ? 2 : 1), "the line and its terminator are consumed, nothing else");
	__CPROVER_assert(REQ.headers_size == IN.hs0 + n, "headers_size grows by the length of the line");
	__CPROVER_assert(IFF(st == DATA_TOO_LONG, too_long), "C25: DATA_TOO_LONG <=> headers_size + line length > max_headers_size (only with a connection)");
	if (too_long) {
		__CPROVER_assert(last == (IN.have_prev ? &HP : NULL) && IMP(IN.have_prev, ref_streq(HP.value, "v")), "C25: an over-long header section stores nothing");
	} else if (n == 0) {
		__CPROVER_assert(st == ALL_DATA_READ && last == (IN.have_prev ? &HP : NULL), "empty line: end of the header section, nothing stored");
	} else if (is_fold) {
		__CPROVER_assert(IFF(st == DATA_CORRUPTED, !IN.have_prev), "obs-fold without an earlier field is refused");
		__CPROVER_assert(IMP(IN.have_prev, st == MORE_DATA_EXPECTED && last == &HP && ref_streq(HP.value, EXPV) && ref_streq(HP.key, "K")), "obs-fold: trimmed continuation appended to the last value after one SP");
	} else {
		__CPROVER_assert(IMP(!has_colon || c == 0, st == DATA_CORRUPTED), "a line without colon, or with an empty name, is refused");
		__CPROVER_assert(st == DATA_CORRUPTED || st == MORE_DATA_EXPECTED, "field line: stored (more expected) or refused");
		if (st == MORE_DATA_EXPECTED) {
			__CPROVER_assert(last != NULL && last != &HP && TAILQ_PREV(last, evkeyvalq, next) == (IN.have_prev ? &HP : NULL), "accepted field is appended at the tail");
			__CPROVER_assert(ref_streq(last->key, EXPN), "name = the bytes before the first colon");
			__CPROVER_assert(ref_token(EXPN, c), "name-token: an accepted field name is a token (no white space before the colon)");
			__CPROVER_assert(ref_streq(last->value, EXPV), "ows: value = the bytes behind the colon without leading/trailing SP/HT");
			__CPROVER_assert(ref_no_crlf(last->value, ref_strlen(last->value)), "bare-cr: an accepted value contains no CR");
		} else {
			__CPROVER_assert(last == (IN.have_prev ? &HP : NULL), "refused field: nothing stored");
		}
		__CPROVER_assert(IMP(has_colon && c > 0 && ref_token(EXPN, c) && ref_no_crlf(&L[a], b - a), st == MORE_DATA_EXPECTED), "a well-formed field line is accepted");
	}
	__CPROVER_assert(IMP(st != MORE_DATA_EXPECTED || !(n > 0 && !is_fold), g_mm_live == (IN.have_prev ? 1 : 0)), "no leak: the line buffer is released (and nothing else allocated unless a field was stored)");
	__CPROVER_assert(IMP(st == MORE_DATA_EXPECTED && n > 0 && !is_fold, g_mm_live == (IN.have_prev ? 1 : 0) + 3), "stored field: entry + name + value live, line buffer released");
#ifdef VF_CANARY
	__CPROVER_assert(st != MORE_DATA_EXPECTED, "canary: must fail (a well-formed field line is accepted)");
#endif
}
