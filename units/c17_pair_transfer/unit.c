/* C17/C18 — be_pair_transfer (real bufferevent_pair.c), the hop of a bufferevent pair: moves a PREFIX of the source's output to
 * the END of the destination's input (evbuffer_remove_buffer / evbuffer_add_buffer, C12), namely
 *   min(len(src.output), high - len(dst.input))  bytes when dst has a read high-water mark and is below it,
 *   nothing at all when dst is at/over the mark (unless ignore_wm: then everything), everything when there is no mark;
 * so a non-zero high mark is never exceeded by a normal transfer.  Afterwards dst's read callback is triggered iff its input
 * holds >= its low read mark, then src's write callback iff its output is <= its low write mark (C18), in that order.  The
 * buffers are unfrozen only for the duration and frozen again.  Timer handling is NOT claimed here (see c20_pair_transfer_timers). */
#include "c17_pair_unit.h"
#ifndef C17_PT_DEFS
#define C17_PT_DEFS
size_t O_ss, O_ds, O_high;
#ifdef VF_SIDE0
#define A_ 0          /* quick tier: side 0 is the subject (the code is the same for both sides); thorough tier: either */
#else
#define A_ (IN.a & 1)
#endif
#define D_ (1 - A_)
#define SO_ (2 * A_ + 1)                 /* source output buffer index */
#define DI_ (2 * D_)                     /* destination input buffer index */
#define BLOCKED_(ign) (O_high != 0 && O_ds >= O_high && !(ign))
#define MOVED_(ign) (BLOCKED_(ign) ? (size_t)0 : (O_high != 0 && O_ds < O_high) ? MINZ(O_ss, O_high - O_ds) : O_ss)
#endif
VF_CONTRACT_V(pair_transfer_c, struct bufferevent *src, struct bufferevent *dst, int ignore_wm)
__CPROVER_requires(src == PBEV(A_) && dst == PBEV(D_))
__CPROVER_requires(g_p.move_calls == 0 && g_p.moved == 0 && g_p.move_bad_args == 0 && g_p.move_refused == 0 && g_p.nrep == 0 && g_p.rcb[0].n == 0 && g_p.rcb[1].n == 0 && g_p.wcb[0].n == 0 && g_p.wcb[1].n == 0)
__CPROVER_requires(g_p.frozen[0] && g_p.frozen[1] && g_p.frozen[2] && g_p.frozen[3])
__CPROVER_assigns(PAIR_GHOST_FRAME)
/* 1 exactly the permitted amount moves, from src's output to dst's input, the other two buffers are untouched */
__CPROVER_ensures(g_p.moved == MOVED_(ignore_wm) && g_p.len[SO_] == O_ss - MOVED_(ignore_wm) && g_p.len[DI_] == O_ds + MOVED_(ignore_wm))
__CPROVER_ensures(g_p.len[2 * A_] == IN.len[2 * A_] && g_p.len[2 * D_ + 1] == IN.len[2 * D_ + 1] && g_p.move_bad_args == 0 && g_p.move_refused == 0 && g_p.move_calls == B(!BLOCKED_(ignore_wm)))
/* 3 C18: a normal transfer never takes dst's input over its non-zero high mark */
__CPROVER_ensures(IMP(O_high != 0 && !ignore_wm && O_ds <= O_high, g_p.len[DI_] <= O_high))
/* 4 C18 triggers: dst read callback at >= low, then src write callback at <= low; nothing when blocked */
__CPROVER_ensures(IMP(BLOCKED_(ignore_wm), g_p.nrep == 0))
__CPROVER_ensures(IMP(!BLOCKED_(ignore_wm), g_p.rcb[D_].n == B(g_p.len[DI_] >= dst->wm_read.low) && g_p.wcb[A_].n == B(g_p.len[SO_] <= src->wm_write.low) && g_p.rcb[A_].n == 0 && g_p.wcb[D_].n == 0 && g_p.ecb[0].n == 0 && g_p.ecb[1].n == 0))
__CPROVER_ensures(IMP(g_p.rcb[D_].n == 1 && g_p.wcb[A_].n == 1, g_p.rcb[D_].at < g_p.wcb[A_].at) && IMP(g_p.rcb[D_].n == 1, g_p.rcb[D_].options == 0) && IMP(g_p.wcb[A_].n == 1, g_p.wcb[A_].options == 0))
/* 7 buffers frozen again */
__CPROVER_ensures(g_p.frozen[0] && g_p.frozen[1] && g_p.frozen[2] && g_p.frozen[3])
;
#ifndef C17_PT_NO_HARNESS
void harness(void)
{
	VF_LOAD_IN();
	vf_pair_build();
	__CPROVER_assume(IN.linked);
	__CPROVER_assume(IN.len[0] <= VF_LENBOUND && IN.len[1] <= VF_LENBOUND && IN.len[2] <= VF_LENBOUND && IN.len[3] <= VF_LENBOUND);   /* lengths are object sizes */
	__CPROVER_assume(IN.refcnt[0] >= 1 && IN.refcnt[1] >= 1);
	if (IN.locking) g_lock_depth[1] = 2;     /* callers (be_pair_outbuf_cb, be_pair_enable, be_pair_flush) hold both partners' (shared) lock */
	O_ss = IN.len[SO_]; O_ds = IN.len[DI_]; O_high = IN.high_r[D_];
	VF_CALL_V(pair_transfer_c, be_pair_transfer, PBEV(A_), PBEV(D_), IN.ignore_wm);
	__CPROVER_assert(g_p.ev[2 * A_].n_add == 0 && g_p.ev[2 * A_].n_del == 0 && g_p.ev[2 * A_ + 1].n_add == 0 && g_p.ev[2 * A_ + 1].n_del == 0, "only the destination's timer events are touched");
	__CPROVER_assert(P0.bev.refcnt == IN.refcnt[0] && P1.bev.refcnt == IN.refcnt[1] && PBEV(0)->enabled == IN.enabled[0] && PBEV(1)->enabled == IN.enabled[1], "frame: reference counts, enabled sets");
#ifdef VF_CANARY
	__CPROVER_assert(g_p.moved == O_ss, "canary: must fail (the high mark limits the transfer)");
#endif
}
#endif
