/* C07 — evsig_set_handler_ with evsig_ensure_saved_ inlined (real signal.c) against a ghost
 * disposition table behind sigaction(2): on success the handler is installed (SA_RESTART, all
 * signals masked) and the PREVIOUS disposition is what sh_old[sig] now holds; on any failure
 * (growth, allocation, sigaction) the kernel disposition is unchanged and nothing is left
 * allocated; other signals' dispositions and saved slots are untouched (witness). */
#define _GNU_SOURCE 1
#include "vf.h"
#include "signal.c"
#include "c07_signal_shape.h"
struct in { struct c07_in s; int hid; unsigned ch[VF_NCHOICE]; };
struct in IN;
#include "stubs/log.h"
#define VF_MM_NO_REALLOC
#include "stubs/mm.h"
#define C07_BODY
#include "c07_signal_shape.h"

typedef void (*c07_handler_t)(int);
#define HANDLER ((c07_handler_t)(void *)&C07_HFN[IN.hid & 3])   /* (a raw function-type cast inside a contract clause confuses goto-cc) */
#define GROW_NEEDED (IN.s.sig >= IN.s.sh_old_max)
#define GROW_OK (g_mm_realloc_calls == 1 && g_mm_realloc_ok)
#define SH (BASE.sig.sh_old)

VF_CONTRACT(int, set_handler_c, struct event_base *base, int evsignal, c07_handler_t handler)
__CPROVER_requires(base == &BASE && evsignal == IN.s.sig && handler == HANDLER)
__CPROVER_requires(g_sigaction_calls == 0 && g_sigaction_ok == 0 && g_sigaction_sets == 0 && g_mm_realloc_calls == 0 && g_mm_allocs == 0 && g_mm_frees == 0)
__CPROVER_assigns(BASE.sig.sh_old, BASE.sig.sh_old_max, SHOLD[IN.s.sig], NEWSH[IN.s.sig], NEWSH[IN.s.w], D_SIG,
	g_sigaction_calls, g_sigaction_ok, g_sigaction_sets, g_mm_realloc_calls, g_mm_realloc_ok, g_mm_realloc_sz, g_mm_live, g_mm_allocs, g_mm_frees, errno, vf_nchoice_)
__CPROVER_ensures(__CPROVER_return_value == 0 || __CPROVER_return_value == -1)
/* 2 success exactly when every step succeeded */
__CPROVER_ensures(IFF(__CPROVER_return_value == 0, (!GROW_NEEDED || GROW_OK) && g_mm_allocs == 1 && g_sigaction_ok == 1))
/* 3 success: handler installed with SA_RESTART and a full mask ... */
__CPROVER_ensures(IMP(__CPROVER_return_value == 0, C07_H(D_SIG) == HANDLER && (D_SIG.sa_flags & SA_RESTART) != 0
	&& D_SIG.sa_mask.__val[0] == ~0ul && D_SIG.sa_mask.__val[1] == ~0ul && g_sigaction_calls == 1 && g_sigaction_sets == 1))
/* 4 ... and the previous disposition is saved in sh_old[sig] */
__CPROVER_ensures(IMP(__CPROVER_return_value == 0, evsignal < BASE.sig.sh_old_max && SH[evsignal] != NULL && SAEQ(*SH[evsignal], O_CUR) && g_mm_live == __CPROVER_old(g_mm_live) + 1))
/* 5 failure: the kernel disposition is unchanged, the slot is empty, nothing stays allocated */
__CPROVER_ensures(IMP(__CPROVER_return_value == -1, SAEQ(D_SIG, O_CUR) && g_sigaction_sets == 0 && g_mm_live == __CPROVER_old(g_mm_live)
	&& IMP(evsignal < BASE.sig.sh_old_max, SH[evsignal] == NULL)))
/* 6 the array covers the signal after a successful growth, never shrinks, never exceeds NSIG */
__CPROVER_ensures(BASE.sig.sh_old_max == ((GROW_NEEDED && GROW_OK) ? evsignal + 1 : IN.s.sh_old_max) && BASE.sig.sh_old == ((GROW_NEEDED && GROW_OK) ? NEWSH : C07_OLDSH))
/* 7 other signals: disposition untouched, saved slot carried over / fresh slots empty (witness w) */
__CPROVER_ensures(SAEQ(D_W, O_WCUR) && IMP(IN.s.w < BASE.sig.sh_old_max, SH[IN.s.w] == (IN.s.w < IN.s.sh_old_max ? O_WSLOT : (struct sigaction *)NULL)))
;

void harness(void)
{
	int r;
	VF_LOAD_IN();
	VF_MM_RESET();
	/* evmap_signal_add_ installs a handler only for the first event of a signal, and the last delete
	 * (evsig_restore_handler_) empties the slot: no disposition is saved for sig when this is called */
	IN.s.slot_saved = 0;
	c07_build();
	g_mm_allocs = 0; g_mm_frees = 0;
	r = VF_CALL(set_handler_c, evsig_set_handler_, &BASE, IN.s.sig, HANDLER);
	(void)r;
#ifdef VF_CANARY
	__CPROVER_assert(BASE.sig.sh_old_max == IN.s.sh_old_max, "canary: must fail (the array can grow)");
#endif
}
