/* one entry point of the group in contracts/c03_loopctl_unit.h (shared text; VF_WHICH selects it) */
#include "c03_loopctl_unit.h"
