/* C06 — epoll_apply_one_change (real epoll.c) against a ghost kernel model of one epoll
 * registration.  Loop-free: the proof is over all 512 table entries x ET bits x every fd x
 * "registration silently dropped by close/reopen" x "stale duplicate registration". */
#include "vf.h"
#include "epoll.c"
#include "stubs/log.h"

struct in {
	int fd; int epfd;
	short old_events;
	unsigned char rc, wc, cc;     /* read/write/close change bytes */
	int kstate;                    /* 0: kernel holds old_events; 1: dropped (closed+reopened fd); 2: kernel still holds a stale registration although old_events==0 (dup'd fd) */
	unsigned stale_mask;
	int second_fails;              /* kstate!=0 only: retry may fail too */
};
struct in IN;

/* ---------------- ghost kernel: the registration of IN.fd in IN.epfd ---------------- */
int k_registered; unsigned k_mask;
int k_calls, k_first_failed, k_first_op;

int epoll_ctl(int epfd, int op, int fd, struct epoll_event *ev)
{
	int ok;
	__CPROVER_assert(epfd == IN.epfd, "epoll_ctl: on the backend's epoll fd");
	__CPROVER_assert(fd == IN.fd, "epoll_ctl: on the change's fd");
	__CPROVER_assert(op == EPOLL_CTL_ADD || op == EPOLL_CTL_MOD || op == EPOLL_CTL_DEL, "epoll_ctl: valid op");
	__CPROVER_assert(ev != NULL, "epoll_ctl: event record passed");
	__CPROVER_assert(ev->data.fd == IN.fd, "epoll_ctl: data.fd is the fd (epoll_dispatch relies on it)");
	k_calls++;
	if (k_calls == 1) k_first_op = op;
	if (op == EPOLL_CTL_ADD) { ok = !k_registered; if (ok) { k_registered = 1; k_mask = ev->events; } else errno = EEXIST; }
	else if (op == EPOLL_CTL_MOD) { ok = k_registered; if (ok) k_mask = ev->events; else errno = ENOENT; }
	else { ok = k_registered; if (ok) { k_registered = 0; k_mask = 0; } else errno = ENOENT; }
	if (!ok && k_calls == 1) k_first_failed = 1;
	return ok ? 0 : -1;
}

/* ---------------- specification vocabulary (from the property text) ---------------- */
#define KBITS (EPOLLIN|EPOLLOUT|EPOLLRDHUP)
#define XL(e) ((((e) & EV_READ) ? EPOLLIN : 0) | (((e) & EV_WRITE) ? EPOLLOUT : 0) | (((e) & EV_CLOSED) ? EPOLLRDHUP : 0))
#define CH(c) ((c) & (EV_CHANGE_ADD|EV_CHANGE_DEL))
#define IMPOSSIBLE1(c) (CH(c) == (EV_CHANGE_ADD|EV_CHANGE_DEL))
#define IMPOSSIBLE(ch) (IMPOSSIBLE1((ch)->read_change) || IMPOSSIBLE1((ch)->write_change) || IMPOSSIBLE1((ch)->close_change))
#define AFTER1(oldbit, c) (CH(c) == EV_CHANGE_ADD ? 1 : CH(c) == EV_CHANGE_DEL ? 0 : (oldbit))
#define DESIRED(ch) ( (AFTER1(((ch)->old_events & EV_READ) != 0, (ch)->read_change) ? EV_READ : 0) \
                    | (AFTER1(((ch)->old_events & EV_WRITE) != 0, (ch)->write_change) ? EV_WRITE : 0) \
                    | (AFTER1(((ch)->old_events & EV_CLOSED) != 0, (ch)->close_change) ? EV_CLOSED : 0))
#define ANYCH(ch) (CH((ch)->read_change) || CH((ch)->write_change) || CH((ch)->close_change))
#define ANYADD(ch) (CH((ch)->read_change) == EV_CHANGE_ADD || CH((ch)->write_change) == EV_CHANGE_ADD || CH((ch)->close_change) == EV_CHANGE_ADD)
#define ANYET(ch) ((((ch)->read_change | (ch)->write_change | (ch)->close_change) & EV_CHANGE_ET) != 0)
/* a pure delete against an empty registration: nothing to delete, EPOLL_CTL_DEL is answered
 * ENOENT and tolerated; evmap/changelist never produce it (DESIGN §10.6) */
#define DEL_FROM_NOTHING(ch) ((ch)->old_events == 0 && !ANYADD(ch))
#define CONSISTENT (IN.kstate == 0)

VF_CONTRACT(int, apply_one_c, struct event_base *base, struct epollop *epollop, const struct event_change *ch)
__CPROVER_requires(epollop->epfd == IN.epfd && ch->fd == IN.fd)
__CPROVER_requires((ch->old_events & ~(EV_READ|EV_WRITE|EV_CLOSED)) == 0)
__CPROVER_requires(k_calls == 0 && k_first_failed == 0)
/* the kernel holds old_events (kstate 0), or lost it (1), or holds a stale one while old_events==0 (2) */
__CPROVER_requires(IMP(IN.kstate == 0, k_registered == (ch->old_events != 0) && (k_mask & KBITS) == XL(ch->old_events)))
__CPROVER_requires(IMP(IN.kstate == 1, k_registered == 0 && k_mask == 0))
__CPROVER_requires(IMP(IN.kstate == 2, ch->old_events == 0 && k_registered == 1))
__CPROVER_assigns(k_registered, k_mask, k_calls, k_first_failed, k_first_op, errno)
/* 1 impossible combinations and empty changes issue no operation */
__CPROVER_ensures(IMP(IMPOSSIBLE(ch) || !ANYCH(ch), k_calls == 0 && __CPROVER_return_value == 0))
/* 2 a real change issues at least one operation, at most two (one retry) */
__CPROVER_ensures(IMP(!IMPOSSIBLE(ch) && ANYCH(ch), k_calls >= 1 && k_calls <= 2))
/* 3 consistent kernel: success */
__CPROVER_ensures(IMP(!IMPOSSIBLE(ch) && ANYCH(ch) && CONSISTENT, __CPROVER_return_value == 0))
/* 4 consistent kernel: the (first) operation is one the kernel accepts, and it is the only one */
__CPROVER_ensures(IMP(!IMPOSSIBLE(ch) && ANYCH(ch) && CONSISTENT && !DEL_FROM_NOTHING(ch), k_first_failed == 0 && k_calls == 1))
/* 5 consistent kernel: afterwards exactly the desired conditions are registered */
__CPROVER_ensures(IMP(!IMPOSSIBLE(ch) && ANYCH(ch) && CONSISTENT, k_registered == (DESIRED(ch) != 0)))
__CPROVER_ensures(IMP(!IMPOSSIBLE(ch) && ANYCH(ch) && CONSISTENT && DESIRED(ch) != 0, (k_mask & KBITS) == XL(DESIRED(ch))))
/* 7 edge-trigger bit reaches the kernel iff some change carries it */
__CPROVER_ensures(IMP(!IMPOSSIBLE(ch) && ANYCH(ch) && CONSISTENT && DESIRED(ch) != 0, ((k_mask & EPOLLET) != 0) == ANYET(ch)))
/* 8 dropped / stale registration: the documented MOD->ADD, ADD->MOD retry and the tolerated DEL
 *   end in the desired state whenever the call reports success */
__CPROVER_ensures(IMP(!IMPOSSIBLE(ch) && ANYCH(ch) && !CONSISTENT && __CPROVER_return_value == 0 && DESIRED(ch) != 0, k_registered == 1 && (k_mask & KBITS) == XL(DESIRED(ch))))
__CPROVER_ensures(IMP(!IMPOSSIBLE(ch) && ANYCH(ch) && IN.kstate == 1 && DESIRED(ch) == 0, k_registered == 0 && __CPROVER_return_value == 0))
/* 10 dropped registration is always recovered (ADD after ENOENT cannot fail in the model) */
__CPROVER_ensures(IMP(!IMPOSSIBLE(ch) && ANYCH(ch) && IN.kstate == 1, __CPROVER_return_value == 0))
;

static struct event_base BASE; static struct epollop EPOP; static struct event_change CHG;
void harness(void)
{
	int r;
	VF_LOAD_IN();
	__CPROVER_assume(IN.kstate >= 0 && IN.kstate <= 2);
	__CPROVER_assume((IN.old_events & ~(EV_READ|EV_WRITE|EV_CLOSED)) == 0);
	__CPROVER_assume(IMP(IN.kstate == 2, IN.old_events == 0));
	EPOP.epfd = IN.epfd; BASE.evbase = &EPOP;
	CHG.fd = IN.fd; CHG.old_events = IN.old_events;
	CHG.read_change = IN.rc; CHG.write_change = IN.wc; CHG.close_change = IN.cc;
	if (IN.kstate == 0) { k_registered = (IN.old_events != 0); k_mask = XL(IN.old_events); }
	else if (IN.kstate == 1) { k_registered = 0; k_mask = 0; }
	else { k_registered = 1; k_mask = IN.stale_mask; }
	r = VF_CALL(apply_one_c, epoll_apply_one_change, &BASE, &EPOP, &CHG);
	(void)r;
#ifdef VF_CANARY
	__CPROVER_assert(k_calls == 0, "canary: must fail (some change issues an operation)");
#endif
}
