/* C01 — timeout_next (real event.c, loop-free): how long the loop may sleep.  No timer pending:
 * *tv_p = NULL (wait for I/O only).  Otherwise *tv = max(0, earliest deadline - now): the loop is
 * never told to sleep past the earliest deadline, and not at all when it is due.  gettime = ghost
 * clock.  The earliest deadline is the heap top (heap order: c01_heap_* units). */
#define VF_NLOCKS 1
#include "vf.h"
#include "event.c"
#include "stubs/lock.h"
#include "stubs/log.h"
#define C02_NO_AQ
#include "c02_event_shape.h"
struct in { struct c02_base_in b; long h_sec, h_usec; long out_sec, out_usec; };
struct in IN;
#include "c02_event_contracts.h"
#include "c01_timer_contracts.h"
static struct timeval OUT; static struct timeval *OUTP;
#define EMPTY (IN.b.heap_n == 0)
#define DUE (IN.h_sec < IN.b.now_sec || (IN.h_sec == IN.b.now_sec && IN.h_usec <= IN.b.now_usec))
#define BORROW (IN.h_usec < IN.b.now_usec)
VF_CONTRACT(int, timeout_next_c, struct event_base *base, struct timeval **tv_p)
__CPROVER_requires(base == &BASE && tv_p == &OUTP && OUTP == &OUT)
__CPROVER_requires(BASE.th_base_lock == NULL || g_lock_depth[1] == 1)
__CPROVER_assigns(OUTP, OUT, BASE.tv_clock_diff, BASE.last_updated_clock_diff)
__CPROVER_ensures(__CPROVER_return_value == 0)
__CPROVER_ensures(IFF(EMPTY, OUTP == NULL))
__CPROVER_ensures(IMP(EMPTY, OUT.tv_sec == IN.out_sec && OUT.tv_usec == IN.out_usec))
__CPROVER_ensures(IMP(!EMPTY && DUE, OUT.tv_sec == 0 && OUT.tv_usec == 0))
__CPROVER_ensures(IMP(!EMPTY && !DUE, OUT.tv_sec == IN.h_sec - IN.b.now_sec - (BORROW ? 1 : 0) && OUT.tv_usec == IN.h_usec - IN.b.now_usec + (BORROW ? 1000000 : 0)))
/* never late: now + wait == earliest deadline (not beyond it); a valid timeval */
__CPROVER_ensures(IMP(!EMPTY && !DUE, OUT.tv_sec >= 0 && OUT.tv_usec >= 0 && OUT.tv_usec < 1000000 && (OUT.tv_sec > 0 || OUT.tv_usec > 0)))
;
void harness(void)
{
	int r;
	VF_LOAD_IN(); VF_INSTALL_LOCKS();
	c02_build_base(&IN.b);
	if (BASE.th_base_lock) g_lock_depth[1] = 1;
	g_now_sec = IN.b.now_sec; g_now_usec = IN.b.now_usec;
	/* heap deadlines are plain timevals (common-timeout deadlines live in their queues; the queue's own timer carries the masked value) */
	__CPROVER_assume(C02_TV_OK(IN.h_sec, IN.h_usec));
	HP[0] = &HEV[0]; HEV[0].ev_timeout.tv_sec = IN.h_sec; HEV[0].ev_timeout.tv_usec = IN.h_usec;
	OUT.tv_sec = IN.out_sec; OUT.tv_usec = IN.out_usec; OUTP = &OUT;
	r = VF_CALL(timeout_next_c, timeout_next, &BASE, &OUTP);
	(void)r;
#ifdef VF_CANARY
	__CPROVER_assert(OUTP != NULL, "canary: must fail (no timers: wait for I/O only)");
#endif
}
