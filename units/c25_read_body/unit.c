/* C25/C23/C24 — evhttp_read_body (real http.c): one step of body reception, all three framings
 * (chunked / Content-Length / until close), all sizes symbolic, loop-free.
 *  C25  the message is completed (evhttp_connection_done) only with body_size <= max_body_size;
 *       whenever the accumulated size, or the announced Content-Length, exceeds the limit the
 *       step ends in the too-long path (evhttp_lingering_fail) and nothing is delivered;
 *  C23/C24 (message boundary)  with Content-Length at most the announced rest is taken from the
 *       connection's input buffer: bytes behind the body stay there for the next message;
 *       body_size and the request's input buffer grow by exactly the bytes taken;
 *  exactly one continuation is taken per step.
 * Callees of the connection state machine are replaced by ghost-recording contracts; the user's
 * chunk callback is a stub that may cancel the request (sets NEEDS_FREE like evhttp_cancel_request). */
#include "vf.h"
#include "http.c"
struct in { size_t buffered, body_size, rin; ev_int64_t ntoread; ev_uint64_t max_body; int chunked, have_cb; int flags; unsigned ch[VF_NCHOICE]; };
struct in IN;
#include "stubs/log.h"
#include "stubs/c23_http_env.h"
#include "c23_contracts.h"

int e_cb_calls; size_t e_cb_seen_len; int e_cb_deferfree;
static void vf_chunk_cb(struct evhttp_request *req, void *arg)
{
	(void)arg;
	e_cb_calls++; e_cb_seen_len = EB[E_RIN].len; e_cb_deferfree = (req->flags & EVHTTP_REQ_DEFER_FREE) != 0;
	if (VF_CHOOSE() & 1u) req->flags |= EVHTTP_REQ_NEEDS_FREE;      /* evhttp_cancel_request / evhttp_request_free from inside the callback */
}

#define MINSZ(a, b) ((a) < (b) ? (a) : (b))
#define CL_MODE (!IN.chunked && IN.ntoread >= 0)
#define EOF_MODE (!IN.chunked && IN.ntoread < 0)
#define CL_TAKES (CL_MODE && (IN.have_cb || IN.buffered >= (size_t)IN.ntoread))
#define CL_N MINSZ(IN.buffered, (size_t)IN.ntoread)
#define EOF_WRAPS ((size_t)(IN.body_size + IN.buffered) < IN.body_size)
#define NCONT (g_fail_calls + g_lfail_calls + g_done_calls + g_freeauto_calls + g_trailer_calls)

VF_CONTRACT_V(read_body_c, struct evhttp_connection *evcon, struct evhttp_request *req)
__CPROVER_requires(__CPROVER_rw_ok(evcon, sizeof(*evcon)) && __CPROVER_rw_ok(req, sizeof(*req)))
__CPROVER_requires(evcon->bufev == &BEV && req->evcon == evcon && req->input_buffer == &EB[E_RIN])
__CPROVER_requires(req->chunk_cb == (IN.have_cb ? vf_chunk_cb : NULL))
__CPROVER_requires(req->ntoread == IN.ntoread && req->body_size == IN.body_size && req->chunked == (IN.chunked != 0) && evcon->max_body_size == IN.max_body && req->flags == IN.flags)
__CPROVER_requires(EB[E_IN].len == IN.buffered && EB[E_RIN].len == IN.rin && EB[E_RIN].moved_in == 0 && EB[E_RIN].drained == 0)
__CPROVER_requires(NCONT == 0 && g_chunk_calls == 0 && e_cb_calls == 0 && e_bev_disabled_calls == 0)
/* chunked bodies are read with ntoread == -1 or > 0 and an accumulated size within the limit (see chunked_read_c; evhttp_get_body starts with ntoread = -1, body_size = 0) */
__CPROVER_requires(IMP(IN.chunked, IN.ntoread != 0 && IN.body_size <= IN.max_body))
/* the request's input buffer holds body bytes already received and accounted */
__CPROVER_requires(IN.rin <= IN.body_size)
__CPROVER_assigns(evcon->state, req->ntoread, req->body_size, req->flags, EB[E_IN].len, EB[E_RIN].len, EB[E_RIN].moved_in, EB[E_RIN].drained,
	g_fail_calls, g_fail_error, g_lfail_calls, g_done_calls, g_freeauto_calls, g_trailer_calls, g_chunk_calls, e_cb_calls, e_cb_seen_len, e_cb_deferfree,
	e_bev_disabled_calls, e_bev_disable_what, vf_nchoice_)
/* 1 at most one continuation per step */
__CPROVER_ensures(NCONT <= 1)
/* 2 C25: completed only within the limit */
__CPROVER_ensures(IMP(g_done_calls == 1, req->body_size <= IN.max_body))
/* 3 C25: over the limit (accumulated, or announced by Content-Length) => too-long path, never completion / delivery to the chunk callback */
__CPROVER_ensures(IMP(!IN.chunked && !(EOF_MODE && EOF_WRAPS) && (req->body_size > IN.max_body || (CL_MODE && (ev_uint64_t)req->ntoread > IN.max_body)), g_lfail_calls == 1 && g_done_calls == 0 && e_cb_calls == 0))
__CPROVER_ensures(IMP(g_lfail_calls == 1, req->body_size > IN.max_body || (CL_MODE && (ev_uint64_t)req->ntoread > IN.max_body)))
/* 4 Content-Length: take min(buffered, rest) once the whole rest is there (or a chunk callback wants pieces); never more than the rest */
__CPROVER_ensures(IMP(CL_MODE, EB[E_RIN].moved_in == (CL_TAKES ? CL_N : 0) && EB[E_IN].len == IN.buffered - EB[E_RIN].moved_in))
__CPROVER_ensures(IMP(CL_MODE, req->ntoread == IN.ntoread - (ev_int64_t)EB[E_RIN].moved_in && req->ntoread >= 0 && req->body_size == IN.body_size + EB[E_RIN].moved_in))
/* 5 until close: everything buffered is body, unless the size counter would wrap (then: failure, nothing taken) */
__CPROVER_ensures(IMP(EOF_MODE && !EOF_WRAPS, EB[E_RIN].moved_in == IN.buffered && EB[E_IN].len == 0 && req->body_size == IN.body_size + IN.buffered && req->ntoread == IN.ntoread))
__CPROVER_ensures(IMP(EOF_MODE && EOF_WRAPS, g_fail_calls == 1 && g_fail_error == (int)EVREQ_HTTP_INVALID_HEADER && EB[E_RIN].moved_in == 0 && EB[E_IN].len == IN.buffered && req->body_size == IN.body_size))
/* 6 completion exactly when the announced length has been received within the limit and the user did not cancel */
__CPROVER_ensures(IMP(CL_MODE && g_lfail_calls == 0 && g_freeauto_calls == 0, g_done_calls == (req->ntoread == 0 ? 1 : 0)))
__CPROVER_ensures(IMP(g_done_calls == 1, req->ntoread == 0 && e_bev_disabled_calls == 1 && e_bev_disable_what == EV_READ))
__CPROVER_ensures(IMP(EOF_MODE, g_done_calls == 0))
/* 7 chunked: decoder verdict -> continuation */
__CPROVER_ensures(IMP(IN.chunked, g_chunk_calls == 1))
__CPROVER_ensures(IMP(!IN.chunked, g_chunk_calls == 0 && g_trailer_calls == 0))
__CPROVER_ensures(IMP(g_trailer_calls == 1, evcon->state == EVCON_READING_TRAILER))
__CPROVER_ensures(IMP(IN.chunked, g_done_calls == 0 && g_lfail_calls == 0))
/* 8 chunk callback: only with data, with the free deferred; afterwards the delivered data is dropped; a cancelling user ends the step */
__CPROVER_ensures(IMP(e_cb_calls >= 1, e_cb_calls == 1 && IN.have_cb && e_cb_seen_len > 0 && e_cb_deferfree && EB[E_RIN].len == 0 && !(req->flags & EVHTTP_REQ_DEFER_FREE)))
__CPROVER_ensures(IMP(e_cb_calls == 1 && (req->flags & EVHTTP_REQ_NEEDS_FREE) && !(IN.flags & EVHTTP_REQ_NEEDS_FREE) && !IN.chunked, g_freeauto_calls == 1 && g_done_calls == 0))
;

static struct evhttp_connection EVCON; static struct evhttp_request REQ;
void harness(void)
{
	VF_LOAD_IN(); VF_HTTP_ENV_RESET(); VF_C23_GHOST_RESET(); g_chunk_calls = 0; e_cb_calls = 0; e_cb_seen_len = 0; e_cb_deferfree = 0;
	__CPROVER_assume(IMP(IN.chunked, IN.ntoread != 0 && IN.body_size <= IN.max_body));
	__CPROVER_assume(IN.rin <= IN.body_size);
	__CPROVER_assume((IN.flags & EVHTTP_REQ_DEFER_FREE) == 0);     /* not re-entered from its own callback */
	EVCON.bufev = &BEV; EVCON.max_body_size = IN.max_body; EVCON.state = EVCON_READING_BODY;
	REQ.evcon = &EVCON; REQ.input_buffer = &EB[E_RIN]; REQ.chunk_cb = IN.have_cb ? vf_chunk_cb : NULL; REQ.cb_arg = NULL;
	REQ.ntoread = IN.ntoread; REQ.body_size = IN.body_size; REQ.chunked = (IN.chunked != 0); REQ.flags = IN.flags;
	EB[E_IN].len = IN.buffered; EB[E_RIN].len = IN.rin;
	VF_CALL_V(read_body_c, evhttp_read_body, &EVCON, &REQ);
#ifdef VF_CANARY
	__CPROVER_assert(g_done_calls == 0, "canary: must fail (a complete Content-Length body finishes the message)");
#endif
}
