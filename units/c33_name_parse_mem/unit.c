/* C33/C37 — name_parse memory safety; harness in contracts/c33_name_parse_unit.h */
#define NP_GUARD 1
#include "c33_name_parse_unit.h"
