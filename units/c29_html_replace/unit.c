/* C29 — html_replace (real http.c), loop-free: for ALL 256 byte values, the replacement of the five HTML
 * markup characters is the right entity and its length, every other byte is left alone:
 *   '<' -> "&lt;" (4)   '>' -> "&gt;" (4)   '"' -> "&quot;" (6)   '\'' -> "&#039;" (6)   '&' -> "&amp;" (5)
 *   any other byte: returns 1 and does NOT touch *escaped (the caller preset it to the byte itself).
 * Consequences stated as postconditions: the returned size is the string length of the replacement, and a
 * replacement contains no raw < > " ' and '&' only as the first character of the entity. */
#include "vf.h"
#include "http.c"
struct in { char ch; };
struct in IN;
#include "stubs/log.h"

static const char SENT[2] = { 'Z', 0 };
const char *ESC;
#define E_IS(s0, s1, s2, s3, s4, s5, s6) ((*escaped)[0] == s0 && (*escaped)[1] == s1 && (*escaped)[2] == s2 && (*escaped)[3] == s3 && (s3 == 0 || ((*escaped)[4] == s4 && (s4 == 0 || ((*escaped)[5] == s5 && (s5 == 0 || (*escaped)[6] == s6))))))
#define RAW(c) ((c) == '<' || (c) == '>' || (c) == '"' || (c) == '\'')

VF_CONTRACT(size_t, html_replace_c, const char ch, const char **escaped)
__CPROVER_requires(escaped == &ESC && ESC == SENT)
__CPROVER_assigns(*escaped)
__CPROVER_ensures(IMP(ch == '<', __CPROVER_return_value == 4 && E_IS('&', 'l', 't', ';', 0, 0, 0)))
__CPROVER_ensures(IMP(ch == '>', __CPROVER_return_value == 4 && E_IS('&', 'g', 't', ';', 0, 0, 0)))
__CPROVER_ensures(IMP(ch == '"', __CPROVER_return_value == 6 && E_IS('&', 'q', 'u', 'o', 't', ';', 0)))
__CPROVER_ensures(IMP(ch == '\'', __CPROVER_return_value == 6 && E_IS('&', '#', '0', '3', '9', ';', 0)))
__CPROVER_ensures(IMP(ch == '&', __CPROVER_return_value == 5 && E_IS('&', 'a', 'm', 'p', ';', 0, 0)))
__CPROVER_ensures(IMP(!RAW(ch) && ch != '&', __CPROVER_return_value == 1 && *escaped == SENT))
/* consequences */
__CPROVER_ensures(IMP(*escaped != SENT, (*escaped)[__CPROVER_return_value] == 0 && (*escaped)[0] == '&' && (*escaped)[__CPROVER_return_value - 1] == ';'))
__CPROVER_ensures(IMP(*escaped != SENT, !RAW((*escaped)[1]) && (*escaped)[1] != '&' && !RAW((*escaped)[2]) && (*escaped)[2] != '&' && !RAW((*escaped)[3]) && (*escaped)[3] != '&'))
;

void harness(void)
{
	size_t r;
	VF_LOAD_IN();
	ESC = SENT;
	r = VF_CALL(html_replace_c, html_replace, IN.ch, &ESC);
#ifdef VF_CANARY
	__CPROVER_assert(r != 5, "canary: must fail ('&' has a 5-byte replacement)");
#endif
	(void)r;
}
