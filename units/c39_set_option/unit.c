/* C39 — evdns_base_set_option_impl (real evdns.c) with the real str_matches_option, strtoint,
 * strtoint_clipped, evdns_strtotimeval, search_state_new and evdns_base_set_max_requests_inflight
 * inlined, against a reference reading of the documented option syntax: for EVERY option string of
 * <= C39_OPTCAP bytes and every value string of <= C39_VALCAP bytes (symbolic content), every flag
 * set, "search state present/absent", allocation failures:
 *   which option is named, how its value is read (integer / clipped integer / timeval / sockaddr /
 *   no value), which DNS_OPTION_* flag gates it, -1 and NOTHING changed on a junk value, and the
 *   frame: every configuration field the option does not own is unchanged; the base lock is
 *   not touched.
 * Plain assert-harness (UNIT_GUIDE: deep unwinding — 17 string comparisons of up to 24 bytes — does
 * not go through --dfcc in the time budget); the frame is therefore checked against a snapshot of
 * the whole configuration, not by an assigns clause. */
#define VF_NLOCKS 1
#include "vf.h"
#include "evdns.c"
#ifndef C39_OPTCAP
#define C39_OPTCAP 24
#endif
#ifndef C39_VALCAP
#define C39_VALCAP 9
#endif
struct in {
	char opt[C39_OPTCAP + 1]; char val[C39_VALCAP + 1]; int val_null; int flags;
	unsigned long long dbits; unsigned dend;
	int have_gss; int gss_ndots; long init_sec, init_usec; unsigned short tcpflags;
	int psp_ok; int psp_v6; unsigned char psp_addr[16]; unsigned short psp_port; unsigned psp_scope;
	int have_heads;
	unsigned ch[VF_NCHOICE];
};
struct in IN;
#include "stubs/log.h"
#include "stubs/lock.h"
#include "stubs/c39_libc_ref.h"
#define C39_USE_PSP
#define C39_STRTOD_MODEL
#include "stubs/c39_evdns_env.h"
#include "c39_option_ref.h"
/* ---- allocator of this unit (typed static objects; failure drawn from the choice stream): the only allocations are
 * one struct search_state (ndots) and the request table of evdns_base_set_max_requests_inflight, whose elements
 * this unit never touches (count/size are recorded); the only free is the old request table. */
#include "mm-internal.h"
static struct search_state C39_NEW_SS; static struct request *C39_OLD_HEADS[1], *C39_NEW_HEADS[4];
long g_mm_live, g_mm_allocs, g_mm_frees; int g_mm_failed; size_t g_calloc_count, g_calloc_size; void *g_calloc_ptr;
#define C39_MM_RESET() do { g_mm_live = g_mm_allocs = g_mm_frees = 0; g_mm_failed = 0; g_calloc_count = g_calloc_size = 0; g_calloc_ptr = NULL; } while (0)
void *event_mm_malloc_(size_t sz)
{
	__CPROVER_assert(sz == sizeof(struct search_state) && g_mm_allocs == 0, "allocator model: one struct search_state at most");
	if (VF_CHOOSE() & 1u) { g_mm_failed = 1; errno = ENOMEM; return NULL; }
	g_mm_live++; g_mm_allocs++;
	return &C39_NEW_SS;
}
void *event_mm_calloc_(size_t count, size_t size)
{
	if (count == 0 || size == 0) return NULL;
	if (count > ((size_t)-1) / size) { g_mm_failed = 1; errno = ENOMEM; return NULL; }
	if (VF_CHOOSE() & 1u) { g_mm_failed = 1; errno = ENOMEM; return NULL; }
	g_calloc_count = count; g_calloc_size = size; g_calloc_ptr = C39_NEW_HEADS;
	C39_NEW_HEADS[0] = C39_NEW_HEADS[1] = C39_NEW_HEADS[2] = C39_NEW_HEADS[3] = NULL;
	g_mm_live++; g_mm_allocs++;
	return C39_NEW_HEADS;
}
void event_mm_free_(void *p)
{
	if (!p) return;
	__CPROVER_assert(p == (void *)C39_OLD_HEADS, "free: only the old request table is released");
	g_mm_live--; g_mm_frees++;
}
char *event_mm_strdup_(const char *s_) { (void)s_; __CPROVER_assert(0, "allocator model: strdup is not used on this path"); return NULL; }

static struct evdns_base C39_BASE, O_BASE;
static struct search_state C39_SS;
/* the strings live in arrays of their own (a char pointer into the IN record makes every s[i] a byte_extract of the whole record) */
static char C39_OPT[C39_OPTCAP + 1], C39_VAL[C39_VALCAP + 1];
#define B (&C39_BASE)
#define SAME(f) (B->f == O_BASE.f)
#define SAME_TV(f) (B->f.tv_sec == O_BASE.f.tv_sec && B->f.tv_usec == O_BASE.f.tv_usec)
#define SAME_SS64(k) (((ev_uint64_t *)&B->global_outgoing_address)[k] == ((ev_uint64_t *)&O_BASE.global_outgoing_address)[k])
#define SAME_ADDR (SAME(global_outgoing_addrlen) && SAME_SS64(0) && SAME_SS64(1) && SAME_SS64(2) && SAME_SS64(3))
#define SAME_INFLIGHT (SAME(req_heads) && SAME(n_req_heads) && SAME(global_max_requests_inflight))
#define SAME_GSS (SAME(global_search_state) && IMP(O_gss != NULL, C39_SS.ndots == IN.gss_ndots))
#define A(c, text) __CPROVER_assert(c, text)
#define STR2(x) #x
#define STR(x) STR2(x)
/* field f may differ from the snapshot only when `owner` holds */
#define FRAME(owner, same, name) A(IMP(!(owner), same), "frame: " name " is written only by its own option, with a good value and its DNS_OPTION_* flag")

void harness(void)
{
	int r, i;
	VF_LOAD_IN();
	VF_INSTALL_LOCKS(); C39_MM_RESET();
	for (i = 0; i < C39_OPTCAP; i++) C39_OPT[i] = IN.opt[i];
	C39_OPT[C39_OPTCAP] = '\0';
	for (i = 0; i < C39_VALCAP; i++) C39_VAL[i] = IN.val[i];
	C39_VAL[C39_VALCAP] = '\0';
	evdns_log_fn = NULL; current_base = NULL;
	g_psp_calls = 0; g_psp_arg = NULL;
	C39_BASE.lock = VF_LOCK_COOKIE(1); g_lock_depth[1] = 1;
	C39_SS.refcount = 1; C39_SS.ndots = IN.gss_ndots; C39_SS.num_domains = 0; C39_SS.head = NULL;
	C39_BASE.global_search_state = IN.have_gss ? &C39_SS : NULL;
	C39_BASE.global_nameserver_probe_initial_timeout.tv_sec = IN.init_sec;
	C39_BASE.global_nameserver_probe_initial_timeout.tv_usec = IN.init_usec;
	C39_BASE.global_tcp_flags = IN.tcpflags;
	/* in-flight table: absent (evdns_base_new's own first call) or one empty bucket — no request is in flight */
	if (IN.have_heads) {
		C39_BASE.req_heads = C39_OLD_HEADS;
		C39_BASE.req_heads[0] = NULL; C39_BASE.n_req_heads = 1;
	} else { C39_BASE.req_heads = NULL; C39_BASE.n_req_heads = 0; }
	/* reference side */
	O_opt = C39_OPT; O_val = IN.val_null ? NULL : C39_VAL; O_flags = IN.flags;
	O_gss = C39_BASE.global_search_state; O_init_sec = IN.init_sec; O_init_usec = IN.init_usec; O_tcpflags = IN.tcpflags;
	O_idx = c39_ref_optidx(C39_OPT);
	/* a NULL value is documented only for the value-less options (dns.h); everything else reads it */
	__CPROVER_assume(IMP(IN.val_null, O_idx == OPT_USEVC || O_idx == OPT_IGNTC || O_idx == OPT_NONE));
	c39_ref_int(C39_VAL, &O_iok); g_strtol_calls = 0; g_strtol_val = 0; g_strtol_arg = NULL;
	c39_tv_setup(IN.dbits, IN.dend);
	O_BASE = C39_BASE;

	r = evdns_base_set_option_impl(&C39_BASE, O_opt, O_val, O_flags);

#define SO_R r
#undef SO_TV_GO
#define SO_TV_GO(i) (O_idx == (i) && SO_HAS(DNS_OPTION_MISC))   /* value semantics: c39_set_option_tv */
	A(SO_R == 0 || SO_R == -1, "returns 0 or -1");
	A(IMP(SO_IS_INT(O_idx), g_strtol_calls == 1 && g_strtol_arg == O_val), "integer options read the value with exactly one strtol on the value string");
	if (SO_IS_INT(O_idx)) A(IMP(O_iok, (long)O_ival == g_strtol_val), "harness: every integer of <= C39_VALCAP bytes fits an int");
	A(IMP(O_idx == OPT_NONE, SO_R == 0), "a string that names no option is accepted and ignored");
	A(IMP(SO_IS_INT(O_idx) && SO_INT_ERR, SO_R == -1), "integer options: junk (or the value -1) => -1");
	A(IMP(SO_IS_INT(O_idx) && !SO_INT_ERR && O_idx != OPT_NDOTS, SO_R == 0), "integer options: a good value => 0");
	/* timeval options: only what does not need the value (gating, frame, nothing changed on -1).  Their VALUE semantics
	 * (floor seconds, microseconds, < 1 ms rejected, 3600 s limit) is proved in c39_set_option_tv, where evdns_strtotimeval
	 * is replaced by its contract: comparing two floating-point multiplications is not a SAT problem (pitfall 9). */
	A(IMP(SO_IS_TV(O_idx) && (!TV_CONSUMED || TV_NEG), SO_R == -1), "timeval options: junk after the number or a negative number => -1");
	/* ndots (gated by DNS_OPTION_SEARCH) */
	A(IMP(SO_INT_GO(OPT_NDOTS, DNS_OPTION_SEARCH) && SO_R == 0,
	    B->global_search_state != NULL && B->global_search_state->ndots == O_ival && IMP(O_gss != NULL, B->global_search_state == O_gss)),
	    "ndots: the search state exists afterwards and carries the value; an existing one is kept");
	if (SO_INT_GO(OPT_NDOTS, DNS_OPTION_SEARCH) && SO_R == 0 && O_gss == NULL)
		A(B->global_search_state->refcount == 1 && B->global_search_state->num_domains == 0 && B->global_search_state->head == NULL, "ndots: a new search state is empty with one reference");
	A(IMP(SO_INT_GO(OPT_NDOTS, DNS_OPTION_SEARCH) && SO_R == -1, O_gss == NULL && B->global_search_state == NULL && g_mm_failed == 1), "ndots fails only when the search state cannot be allocated");
	A(IMP(O_idx == OPT_NDOTS && !SO_INT_ERR && !SO_HAS(DNS_OPTION_SEARCH), SO_R == 0), "ndots without DNS_OPTION_SEARCH: accepted, ignored");
	/* clipped integers */
	A(IMP(SO_INT_GO(OPT_MAXTIMEOUTS, DNS_OPTION_MISC), B->global_max_nameserver_timeout == SO_CLIP(1, 255)), "max-timeouts clipped to [1,255]");
	A(IMP(SO_INT_GO(OPT_ATTEMPTS, DNS_OPTION_MISC), B->global_max_retransmits == (O_ival > 255 ? 255 : O_ival)), "attempts: at most 255");
	A(IMP(SO_INT_GO(OPT_RANDCASE, DNS_OPTION_MISC), B->global_randomize_case == O_ival), "randomize-case: the value");
	A(IMP(SO_INT_GO(OPT_BACKOFF, DNS_OPTION_MISC), B->ns_timeout_backoff_factor == SO_CLIP(1, 10)), "probe-backoff-factor clipped to [1,10]");
	A(IMP(SO_INT_GO(OPT_RCVBUF, DNS_OPTION_MISC), B->so_rcvbuf == O_ival), "so-rcvbuf: the value");
	A(IMP(SO_INT_GO(OPT_SNDBUF, DNS_OPTION_MISC), B->so_sndbuf == O_ival), "so-sndbuf: the value");
	A(IMP(SO_INT_GO(OPT_EDNS, DNS_OPTION_MISC), B->global_max_udp_size == SO_CLIP(512, 65535)), "edns-udp-size clipped to [512,65535]");
	A(IMP(SO_INT_GO(OPT_MAXPROBE, DNS_OPTION_MISC), B->ns_max_probe_timeout == SO_CLIP(1, 3600)), "max-probe-timeout clipped to [1,3600]");
	A(IMP(SO_INT_GO(OPT_MAXPROBE, DNS_OPTION_MISC) && O_init_sec > SO_CLIP(1, 3600),
	    B->global_nameserver_probe_initial_timeout.tv_sec == SO_CLIP(1, 3600) && B->global_nameserver_probe_initial_timeout.tv_usec == 0), "max-probe-timeout lowers a larger initial probe timeout to itself (dns.h)");
	A(IMP(SO_INT_GO(OPT_MAXPROBE, DNS_OPTION_MISC) && O_init_sec <= SO_CLIP(1, 3600), SAME_TV(global_nameserver_probe_initial_timeout)), "max-probe-timeout keeps a smaller initial probe timeout");
	/* max-inflight: evdns_base_set_max_requests_inflight with no request in flight */
	A(IMP(SO_INT_GO(OPT_MAXINFLIGHT, DNS_OPTION_MISC) && !g_mm_failed,
	    B->global_max_requests_inflight == SO_CLIP(1, 65000) && 5L * B->n_req_heads <= SO_CLIP(1, 65000) + 4L && SO_CLIP(1, 65000) + 4L < 5L * B->n_req_heads + 5L && /* n == (v+4)/5, division-free */ B->req_heads == g_calloc_ptr &&
	    g_calloc_count == (size_t)B->n_req_heads && g_calloc_size == sizeof(struct request *)), "max-inflight clipped to [1,65000]; the request table gets (n+4)/5 buckets");
	A(IMP(SO_INT_GO(OPT_MAXINFLIGHT, DNS_OPTION_MISC) && !g_mm_failed && IN.have_heads, g_mm_frees == 1), "max-inflight: the old bucket array is released");
	A(IMP(SO_INT_GO(OPT_MAXINFLIGHT, DNS_OPTION_MISC) && g_mm_failed, SAME_INFLIGHT && g_mm_frees == 0), "max-inflight: allocation failure leaves the table alone");
	/* bind-to */
	A(IMP(O_idx == OPT_BINDTO && !SO_HAS(DNS_OPTION_NAMESERVERS), SO_R == 0 && g_psp_calls == 0), "bind-to without DNS_OPTION_NAMESERVERS: accepted, ignored, not even parsed");
	A(IMP(O_idx == OPT_BINDTO && SO_HAS(DNS_OPTION_NAMESERVERS), g_psp_calls == 1 && g_psp_arg == O_val && SO_R == (IN.psp_ok ? 0 : -1)), "bind-to: the value goes to the address parser exactly once; -1 iff it rejects it");
	if (O_idx == OPT_BINDTO && SO_HAS(DNS_OPTION_NAMESERVERS) && IN.psp_ok) {
		A(B->global_outgoing_addrlen == (IN.psp_v6 ? sizeof(struct sockaddr_in6) : sizeof(struct sockaddr_in)) &&
		  ((struct sockaddr *)&B->global_outgoing_address)->sa_family == (IN.psp_v6 ? AF_INET6 : AF_INET), "bind-to: family and length of the parsed address are stored");
		if (!IN.psp_v6)
			A(((struct sockaddr_in *)&B->global_outgoing_address)->sin_port == htons(IN.psp_port) &&
			  ((unsigned char *)&((struct sockaddr_in *)&B->global_outgoing_address)->sin_addr)[0] == IN.psp_addr[0] &&
			  ((unsigned char *)&((struct sockaddr_in *)&B->global_outgoing_address)->sin_addr)[3] == IN.psp_addr[3], "bind-to: IPv4 address and port stored");
		else
			A(((struct sockaddr_in6 *)&B->global_outgoing_address)->sin6_port == htons(IN.psp_port) &&
			  ((struct sockaddr_in6 *)&B->global_outgoing_address)->sin6_addr.s6_addr[0] == IN.psp_addr[0] &&
			  ((struct sockaddr_in6 *)&B->global_outgoing_address)->sin6_addr.s6_addr[15] == IN.psp_addr[15], "bind-to: IPv6 address and port stored");
	}
	/* value-less options */
	A(IMP((O_idx == OPT_USEVC || O_idx == OPT_IGNTC) && !SO_HAS(DNS_OPTION_MISC), SO_R == 0), "use-vc/ignore-tc without DNS_OPTION_MISC: accepted, ignored");
	A(IMP((O_idx == OPT_USEVC || O_idx == OPT_IGNTC) && SO_HAS(DNS_OPTION_MISC), SO_R == (SO_VAL_EMPTY ? 0 : -1)), "use-vc/ignore-tc: the value must be NULL or empty");
	A(IMP(O_idx == OPT_USEVC && SO_HAS(DNS_OPTION_MISC) && SO_VAL_EMPTY, B->global_tcp_flags == (O_tcpflags | DNS_QUERY_USEVC)), "use-vc sets DNS_QUERY_USEVC only");
	A(IMP(O_idx == OPT_IGNTC && SO_HAS(DNS_OPTION_MISC) && SO_VAL_EMPTY, B->global_tcp_flags == (O_tcpflags | DNS_QUERY_IGNTC)), "ignore-tc sets DNS_QUERY_IGNTC only");

	/* ---- frame: each configuration value belongs to one option */
	FRAME(SO_INT_GO(OPT_NDOTS, DNS_OPTION_SEARCH), SAME_GSS, "search state / ndots");
	FRAME(SO_TV_GO(OPT_TIMEOUT), SAME_TV(global_timeout), "global_timeout");
	FRAME(SO_TV_GO(OPT_SKEW), SAME_TV(global_getaddrinfo_allow_skew), "global_getaddrinfo_allow_skew");
	FRAME(SO_TV_GO(OPT_TCPIDLE), SAME_TV(global_tcp_idle_timeout), "global_tcp_idle_timeout");
	FRAME(SO_TV_GO(OPT_INITPROBE) || SO_INT_GO(OPT_MAXPROBE, DNS_OPTION_MISC), SAME_TV(global_nameserver_probe_initial_timeout), "global_nameserver_probe_initial_timeout");
	FRAME(SO_INT_GO(OPT_MAXTIMEOUTS, DNS_OPTION_MISC), SAME(global_max_nameserver_timeout), "global_max_nameserver_timeout");
	FRAME(SO_INT_GO(OPT_MAXINFLIGHT, DNS_OPTION_MISC), SAME_INFLIGHT && g_mm_frees == 0, "request table / global_max_requests_inflight");
	FRAME(SO_INT_GO(OPT_ATTEMPTS, DNS_OPTION_MISC), SAME(global_max_retransmits), "global_max_retransmits");
	FRAME(SO_INT_GO(OPT_RANDCASE, DNS_OPTION_MISC), SAME(global_randomize_case), "global_randomize_case");
	FRAME(SO_INT_GO(OPT_MAXPROBE, DNS_OPTION_MISC), SAME(ns_max_probe_timeout), "ns_max_probe_timeout");
	FRAME(SO_INT_GO(OPT_BACKOFF, DNS_OPTION_MISC), SAME(ns_timeout_backoff_factor), "ns_timeout_backoff_factor");
	FRAME(SO_INT_GO(OPT_RCVBUF, DNS_OPTION_MISC), SAME(so_rcvbuf), "so_rcvbuf");
	FRAME(SO_INT_GO(OPT_SNDBUF, DNS_OPTION_MISC), SAME(so_sndbuf), "so_sndbuf");
	FRAME(SO_INT_GO(OPT_EDNS, DNS_OPTION_MISC), SAME(global_max_udp_size), "global_max_udp_size");
	FRAME(O_idx == OPT_BINDTO && SO_HAS(DNS_OPTION_NAMESERVERS) && IN.psp_ok, SAME_ADDR, "global_outgoing_address");
	FRAME((O_idx == OPT_USEVC || O_idx == OPT_IGNTC) && SO_HAS(DNS_OPTION_MISC) && SO_VAL_EMPTY, SAME(global_tcp_flags), "global_tcp_flags");
	A(SAME(server_head) && SAME(event_base) && SAME(global_good_nameservers) && SAME(global_requests_inflight) && SAME(global_requests_waiting) &&
	  SAME(global_max_reissues) && SAME(disable_when_inactive) && SAME(disable_cache) && SAME(req_waiting_head) && SAME(lock), "frame: no option touches the nameserver list, counters, lock, cache switches");
	A(IMP(SO_R == -1, SAME_GSS && SAME_TV(global_timeout) && SAME_TV(global_getaddrinfo_allow_skew) && SAME_TV(global_tcp_idle_timeout) &&
	  SAME_TV(global_nameserver_probe_initial_timeout) && SAME(global_max_nameserver_timeout) && SAME_INFLIGHT && SAME(global_max_retransmits) &&
	  SAME(global_randomize_case) && SAME(ns_max_probe_timeout) && SAME(ns_timeout_backoff_factor) && SAME(so_rcvbuf) && SAME(so_sndbuf) &&
	  SAME(global_max_udp_size) && SAME_ADDR && SAME(global_tcp_flags)), "a call that reports an error has changed no configuration value at all");
	/* (both strings are passed as const char *; "not modified" is not asserted here: goto-symex's per-comparison constant
	 *  propagation gives the string hundreds of SSA versions and the trivial fact becomes a hard SAT instance) */
	A(g_lock_depth[1] == 1 && g_lock_ops == 0, "C08: the base lock is neither taken nor released");
#ifdef VF_CANARY
	A(C39_BASE.global_max_udp_size != 1232 || O_BASE.global_max_udp_size == 1232, "canary: must fail (edns-udp-size:1232 is accepted)");
#endif
}
