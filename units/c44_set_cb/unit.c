/* C44 (+C08) — evconnlistener_set_cb (real listener.c): installs callback and user_data; when the listener
 * is enabled but had no callback (so its event was never added) and now gets one, the event is added now -
 * exactly then; enabled/refcnt/flags unchanged; lock balanced (the nested enable re-takes the recursive lock). */
#include "c44_listener_unit.h"
int O_newcb;
#define NEEDADD (IN.enabled && !IN.has_cb && O_newcb)
VF_CONTRACT_V(set_cb_c, struct evconnlistener *lev, evconnlistener_cb cb, void *arg)
__CPROVER_requires(lev == &L->base && g_lock_depth[1] == 0 && g_l.add_calls == 0 && g_l.del_calls == 0 && g_mm_frees == 0)
__CPROVER_requires(cb == (O_newcb ? vf_user_cb : NULL) && arg == (void *)&vf_ud_b)
__CPROVER_assigns(L->base.enabled, L->base.cb, L->base.user_data, __CPROVER_object_whole(&g_l), g_lock_depth[1], g_lock_ops, vf_nchoice_)
__CPROVER_ensures(L->base.cb == (O_newcb ? vf_user_cb : NULL) && L->base.user_data == (void *)&vf_ud_b)
__CPROVER_ensures(L->base.enabled == (IN.enabled ? 1 : 0))
__CPROVER_ensures(g_l.add_calls == (NEEDADD ? 1u : 0u) && g_l.del_calls == 0)
__CPROVER_ensures(IMP(NEEDADD, g_l.add_lockdepth == (IN.has_lock ? 2 : 0)))
__CPROVER_ensures(g_lock_depth[1] == 0 && g_mm_frees == 0 && g_l.accept_calls == 0 && g_l.lfd_closed == 0)
;
void harness(void)
{
	VF_LOAD_IN();
	vf_c44_build();
	O_newcb = (IN.a4flags & 1);       /* reuse one input bit: new callback present / NULL */
	VF_CALL_V(set_cb_c, evconnlistener_set_cb, &L->base, O_newcb ? vf_user_cb : NULL, (void *)&vf_ud_b);
	__CPROVER_assert(L->base.refcnt == IN.refcnt && L->base.flags == IN.flags && L->base.accept4_flags == IN.a4flags && L->base.errorcb == (IN.has_errcb ? vf_user_errcb : NULL), "frame");
#ifdef VF_CANARY
	__CPROVER_assert(g_l.add_calls == 0, "canary: must fail (first callback on an enabled listener adds the event)");
#endif
}
