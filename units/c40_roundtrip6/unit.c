/* C40 — round trip evutil_inet_pton(AF_INET6, evutil_inet_ntop(AF_INET6, a)) == a for ALL 2^128 addresses (real
 * evutil.c, both functions), in addition to the reference parser reading the text back (as in c40_ntop6);
 * see contracts/c40_ntop_unit.h.  (IPv4: all 2^32 addresses in c40_ntop4.) */
#define VF_AF 6
#define VF_EXACTFIT 0
#include "c40_ntop_unit.h"
