/* C22/C08 — bufferevent_get_rlim_max_ (real bufferevent_ratelim.c), the per-operation budget behind bufferevent_get_read_max_ /
 * _write_max_ (ev_token_bucket_get_tick_/_update_ replaced by frame contracts: the statement is about the levels AFTER the refill):
 *  never negative; without rate limiting exactly max_single_*; with a per-bufferevent bucket at most max(level, 0); in a group
 *  additionally at most max(group level / n_members, min_share), and 0 — with the bufferevent suspended for BEV_SUSPEND_BW_GROUP —
 *  when the group is suspended; exactly  max(0, min(base, share)).  The group lock is taken and released.
 * Property clause "per-operation maxima are respected" (result <= max_single_*): VF_KF_EXCLUDE leaves out the inputs
 * 'per-bufferevent bucket above max_single' where the code drops max_single (candidate defect, unit c22_rlim_max_single). */
#include "c22_rl_unit.h"
/* the direction is fixed per unit (C22_IS_WRITE 0/1): with a constant direction the specification's share `level / n_members` is the very
 * same expression as the code's and is bit-blasted once (SAT cannot prove two 64-bit dividers equal) */
#ifndef C22_IS_WRITE
#define C22_IS_WRITE 0
#endif
#define W_ (C22_IS_WRITE != 0)
#define M_ (W_ ? IN.max_w : IN.max_r)
#define L_ (W_ ? RL.limit.write_limit : RL.limit.read_limit)            /* level after the refill */
#define GL_ (W_ ? IN.glim_w : IN.glim_r)
#define GSUSP_ (W_ ? (IN.g_ws & 1) : (IN.g_rs & 1))
#define BASE_ ((IN.has_rlim && IN.has_cfg) ? L_ : M_)
#define SHARE_ (GSUSP_ ? (ev_ssize_t)0 : MAXZ(GL_ / IN.n_members, IN.min_share))
#define INGRP_ (IN.has_rlim && IN.has_group)
#define EXPECT_ (!IN.has_rlim ? M_ : MAXZ((ev_ssize_t)0, INGRP_ ? MINS(BASE_, SHARE_) : BASE_))
#define DROPS_MAX_SINGLE_(w) (IN.has_rlim && IN.has_cfg && ((w) ? IN.lim_w > IN.max_w : IN.lim_r > IN.max_r))
VF_CONTRACT(ev_ssize_t, rlim_max_c, struct bufferevent_private *bev, int is_write)
__CPROVER_requires(bev == &BEVP && is_write == C22_IS_WRITE && g_lock_depth[2] == 0 && g_r.sus_r[3] == 0 && g_r.sus_w[3] == 0)
__CPROVER_requires(BEVP.max_single_read >= 1 && BEVP.max_single_write >= 1)             /* bufferevent_ratelim_init_/set_max_single_*: 1..EV_SSIZE_MAX */
__CPROVER_requires(IMP(IN.has_group, GRP.n_members >= 1))                                /* this bufferevent is a member */
__CPROVER_assigns(RL.limit.read_limit, RL.limit.write_limit, RL.limit.last_updated, BEVP.read_suspended, BEVP.write_suspended, RL_GHOST_FRAME)
__CPROVER_ensures(__CPROVER_return_value >= 0)
__CPROVER_ensures(__CPROVER_return_value == EXPECT_)
__CPROVER_ensures(IMP(IN.has_rlim && IN.has_cfg, __CPROVER_return_value <= MAXZ(L_, (ev_ssize_t)0)))
__CPROVER_ensures(IMP(INGRP_ && !GSUSP_, __CPROVER_return_value <= MAXZ(MAXZ(GL_ / IN.n_members, IN.min_share), (ev_ssize_t)0)))
/* 5 suspended group: nothing may be transferred and the member is suspended for the group reason */
__CPROVER_ensures(IMP(INGRP_ && GSUSP_, __CPROVER_return_value == 0 && (W_ ? ((BEVP.write_suspended & BEV_SUSPEND_BW_GROUP) && g_r.sus_w[3] == 1) : ((BEVP.read_suspended & BEV_SUSPEND_BW_GROUP) && g_r.sus_r[3] == 1))))
__CPROVER_ensures(IMP(!(INGRP_ && GSUSP_), BEVP.read_suspended == IN.rs && BEVP.write_suspended == IN.ws && g_r.sus_r[3] == 0 && g_r.sus_w[3] == 0))
/* 7 levels are only touched by the refill of the per-bufferevent bucket */
__CPROVER_ensures(IMP(!(IN.has_rlim && IN.has_cfg), RL.limit.read_limit == IN.lim_r && RL.limit.write_limit == IN.lim_w))
__CPROVER_ensures(g_lock_depth[2] == 0 && g_lock_depth[1] == __CPROVER_old(g_lock_depth[1]))
;
void harness(void)
{
	ev_ssize_t r;
	VF_LOAD_IN();
	vf_rl_build();
	__CPROVER_assume(IN.max_r >= 1 && IN.max_w >= 1);
	__CPROVER_assume(IMP(IN.has_group, IN.n_members >= 1));
	__CPROVER_assume(IN.msec_per_tick != 0);                     /* ev_token_bucket_cfg_new refuses a zero tick */
	__CPROVER_assume(IN.min_share >= 0);                         /* bufferevent_rate_limit_group_set_min_share: size_t <= EV_SSIZE_MAX */
#ifdef VF_C22_GBOUND
	/* SAT cannot prove the code's 64-bit signed divider equal to the specification's: the GROUP level and member count are bounded */
	__CPROVER_assume(IN.glim_r >= -(ev_ssize_t)VF_C22_GBOUND && IN.glim_r <= (ev_ssize_t)VF_C22_GBOUND && IN.glim_w >= -(ev_ssize_t)VF_C22_GBOUND && IN.glim_w <= (ev_ssize_t)VF_C22_GBOUND && IN.n_members <= VF_C22_NBOUND);
#endif
	if (BEVP.lock) g_lock_depth[1] = 1;                          /* "needs lock on bev" */
#if defined(VF_KF_ONLY)
	__CPROVER_assume(DROPS_MAX_SINGLE_(C22_IS_WRITE));
#elif defined(VF_KF_EXCLUDE)
	/* the refill can only raise the level, so exclude by the post-state: see the assertion below */
#endif
	r = VF_CALL(rlim_max_c, bufferevent_get_rlim_max_, &BEVP, C22_IS_WRITE);
	/* C22 "per-operation maxima are respected" */
#if defined(VF_KF_EXCLUDE) && !defined(VF_KF_ONLY)
	if (!(IN.has_rlim && IN.has_cfg && (C22_IS_WRITE ? RL.limit.write_limit > IN.max_w : RL.limit.read_limit > IN.max_r)))
#endif
	__CPROVER_assert(r <= (C22_IS_WRITE ? IN.max_w : IN.max_r), "the per-operation maximum max_single_read/write is respected");
#ifdef VF_CANARY
	__CPROVER_assert(r != 0, "canary: must fail (an exhausted bucket gives 0)");
#endif
}
