/* C12/C13/C14/C08 — evbuffer_add_buffer (real buffer.c) on two buffers of <= 3 chains each: see contracts/c12a_twobuf.h */
#include "c12a_twobuf.h"
