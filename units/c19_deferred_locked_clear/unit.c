/* C19 — bufferevent_run_deferred_callbacks_locked (real bufferevent.c) when a user callback CLEARS the callbacks from inside
 * (bufferevent_setcb(bev, NULL, NULL, NULL, NULL), which is also the first thing bufferevent_free does): the property
 * says no callback runs after that.  The runner must therefore look at the callback pointers again before every call.
 * Separate from c19_deferred_* because with this action the number of calls is no longer a function of the entry state:
 * this unit states the "nothing after clearing" obligation (asserted in the callback stubs), lock balance, the single
 * decref and the frame; the call-order contract stays in c19_deferred_*. */
#define VF_C19_CLEAR_ACTION 1
#define C19_UNLOCKED 0
#include "c18_bev_unit.h"
#if C19_UNLOCKED
#define RUNNER bufferevent_run_deferred_callbacks_unlocked
#else
#define RUNNER bufferevent_run_deferred_callbacks_locked
#endif
int O_refcnt;
VF_CONTRACT_V(deferred_clear_c, struct event_callback *cb, void *arg)
__CPROVER_requires(cb == &BEVP.deferred && arg == (void *)&BEVP)
__CPROVER_requires(BEVP.refcnt >= 1 && BEVP.refcnt <= (1 << 24))
__CPROVER_requires(g_e.deferred_queued == 0 && g_cb_cleared == 0)
__CPROVER_requires(g_e.nseq == 0 && g_e.sched_calls == 0 && g_e.sched_new == 0 && g_e.fin_calls == 0 && g_e.unlink_calls == 0 && g_lock_depth[1] == 0)
__CPROVER_assigns(BEVP.eventcb_pending, BEVP.readcb_pending, BEVP.writecb_pending, BEVP.errno_pending, BEVP.refcnt, errno, BEV->enabled, BEV->wm_read.low, BEV->wm_read.high, BEV->readcb, BEV->writecb, BEV->errorcb, g_cb_cleared, vf_nchoice_, BEV_GHOST_FRAME)
__CPROVER_ensures(g_e.nseq <= 4)
__CPROVER_ensures(BEVP.refcnt == O_refcnt - 1 + g_e.sched_new && BEVP.refcnt >= 0)
__CPROVER_ensures(g_lock_depth[1] == 0)
;
void harness(void)
{
	VF_LOAD_IN();
	vf_bev_build();
	__CPROVER_assume(IN.refcnt >= 1 && IN.refcnt <= (1 << 24));
	g_e.deferred_queued = 0; g_e.user_mutates = 0; g_cb_cleared = 0;
	O_refcnt = IN.refcnt;
	VF_CALL_V(deferred_clear_c, RUNNER, &BEVP.deferred, (void *)&BEVP);
	__CPROVER_assert(IMP(g_cb_cleared, BEV->readcb == NULL && BEV->writecb == NULL && BEV->errorcb == NULL), "cleared callbacks stay cleared");
#ifdef VF_CANARY
	__CPROVER_assert(!(g_cb_cleared && g_e.nseq == 1), "canary: must fail (the first callback can clear the callbacks)");
#endif
}
