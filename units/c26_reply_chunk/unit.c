/* C26 — evhttp_send_reply_chunk_with_cb (real http.c): framing of one piece of a streamed reply
 * (RFC 9112 7.1: chunk = chunk-size CRLF chunk-data CRLF, chunk-size = the hexadecimal number of
 * bytes of chunk-data; a chunk of size 0 would END the body).
 *   nothing at all is written for an empty data buffer (an empty chunk must never be emitted),
 *   for a response that has no body (HEAD, 1xx, 204, 304), or without a connection;
 *   chunked reply:  "%x CRLF" with the data length, the data (moved out of the caller's buffer,
 *   which is left empty), CRLF — in this order, nothing else;
 *   "chunk-size-exact": the number printed is the full data length (not a truncation of it);
 *   identity reply (HTTP/1.0 or Content-Length given): the data only;
 *   afterwards the connection is put into writing mode with the caller's completion callback.
 * Loop-free; data length symbolic (all 64-bit values). */
#include "vf.h"
#include "http.c"
struct in { size_t len, outlen; int chunked, code; unsigned type; int have_evcon; };
struct in IN;
#include "stubs/log.h"
#include "stubs/c23_out_log.h"

static struct evhttp_connection EVCON; static struct evhttp_request REQ;
static int cb_cookie_;
static void vf_done_cb(struct evhttp_connection *c, void *a) { (void)c; (void)a; }
#define IS_1XX(c) ((c) >= 100 && (c) < 200)
#define NO_BODY (IN.type == EVHTTP_REQ_HEAD || IN.type == EVHTTP_REQ_CONNECT || IS_1XX(IN.code) || IN.code == 204 || IN.code == 304)

void harness(void)
{
	int silent;
	VF_LOAD_IN(); VF_OUT_RESET();
	/* known finding C26-chunk-size-truncation: data of 4 GiB or more in one chunk */
#ifdef VF_KF_EXCLUDE
	__CPROVER_assume(IN.len <= 0xffffffffu);
#endif
#ifdef VF_KF_ONLY
	__CPROVER_assume(IN.len > 0xffffffffu && IN.chunked && IN.have_evcon && !NO_BODY);
#endif
	EVCON.bufev = &BEV; EVCON.cb = NULL; EVCON.cb_arg = NULL;
	REQ.evcon = IN.have_evcon ? &EVCON : NULL; REQ.chunked = (IN.chunked != 0); REQ.response_code = IN.code; REQ.type = (enum evhttp_cmd_type)IN.type;
	EB[E_DATA].len = IN.len; EB[E_OUT].len = IN.outlen;
	__CPROVER_assume(IN.outlen <= ((size_t)1 << 62) && IN.len <= ((size_t)1 << 62));    /* buffer contents exist in memory: lengths do not wrap */

	evhttp_send_reply_chunk_with_cb(&REQ, &EB[E_DATA], vf_done_cb, &cb_cookie_);

	silent = !IN.have_evcon || IN.len == 0 || NO_BODY;
	if (silent) {
		__CPROVER_assert(e_nlog == 0 && EB[E_OUT].len == IN.outlen && EB[E_DATA].len == IN.len, "no connection / empty data / body-less response: nothing is written, the data buffer is untouched (never an empty chunk)");
		__CPROVER_assert(e_bev_enabled_calls == 0 && EVCON.cb == NULL, "… and no write is scheduled");
	} else if (IN.chunked) {
		__CPROVER_assert(e_nlog == 3 && e_log[0].op == OP_CHUNKSIZE && e_log[1].op == OP_BUFFER && e_log[2].op == OP_CRLF, "chunked: size line, data, CRLF — exactly these three writes in this order");
		__CPROVER_assert(e_log[1].src == &EB[E_DATA] && e_log[1].n == IN.len && EB[E_DATA].len == 0, "chunked: chunk-data is the caller's whole data buffer (moved, left empty)");
		__CPROVER_assert((size_t)e_log[0].u == e_log[1].n, "chunk-size-exact: the hexadecimal chunk-size equals the number of chunk-data bytes");
		__CPROVER_assert(e_log[0].u != 0, "chunked: never a zero chunk-size (it would terminate the body)");
	} else {
		__CPROVER_assert(e_nlog == 1 && e_log[0].op == OP_BUFFER && e_log[0].src == &EB[E_DATA] && e_log[0].n == IN.len && EB[E_DATA].len == 0, "identity: the data only");
	}
	__CPROVER_assert(IMP(!silent, e_bev_enabled_calls == 1 && e_setcb_calls == 1 && EVCON.cb == vf_done_cb && EVCON.cb_arg == (void *)&cb_cookie_), "the connection is switched to writing with the caller's completion callback");
	__CPROVER_assert(REQ.chunked == (IN.chunked != 0) && REQ.response_code == IN.code, "the request's reply state is unchanged");
#ifdef VF_CANARY
	__CPROVER_assert(e_nlog != 3, "canary: must fail (a chunk is three writes)");
#endif
}
