/* vf.h — included first by every unit.  Two compilation modes:
 *   (default)   CBMC: goto-cc … unit.c ; contracts are real __CPROVER_* clauses.
 *   VF_NATIVE   gcc -fsanitize=address,undefined: same unit, the clause keywords vanish and
 *               vf/nativegen.py generates <contract>__pre / <contract>__post checkers from the
 *               contract text; IN comes from the counterexample (vf_in_values.h).
 * Nothing here is libevent code.
 */
#ifndef VF_H_
#define VF_H_

/* evconfig-private.h defines _GNU_SOURCE 1 for every libevent TU; vf.h pulls libc headers in first, so it has to be
 * in force already here (otherwise e.g. TIMEVAL_TO_TIMESPEC silently becomes an undefined function in epoll.c) */
#ifndef _GNU_SOURCE
#define _GNU_SOURCE 1
#endif

#include <stddef.h>
#include <stdint.h>
#include <limits.h>

/* a ==> b, usable in contracts, harness assertions and native checkers alike */
#if defined(VF_NATIVE) || defined(VF_EXTRACT)
#define IMP(a, b) (!(a) || (b))
#else
#define IMP(a, b) ((a) ==> (b))
#endif
#define IFF(a, b) ((!!(a)) == (!!(b)))

/* Contract declaration:
 *   VF_CONTRACT(int, f_c, struct x *p, int n) __CPROVER_requires(..) __CPROVER_assigns(..) __CPROVER_ensures(..) ;
 *   VF_CONTRACT_V(f_c, struct x *p)            for functions returning void
 * CBMC sees an ordinary contract-carrying declaration.  Natively the clauses vanish and a
 * prototype of the generated checker  f_c__chk(phase, ret, args…)  is declared as well. */
#if defined(VF_EXTRACT)
#define VF_CONTRACT(ret, name, ...) __vf_contract_marker__ [ret] [name] (__VA_ARGS__)
#define VF_CONTRACT_V(name, ...) __vf_contract_marker__ [void] [name] (__VA_ARGS__)
#elif defined(VF_NATIVE)
#define VF_CONTRACT(ret, name, ...) static void name##__chk(int vf_phase, ret vf_ret, __VA_ARGS__); ret name(__VA_ARGS__)
#define VF_CONTRACT_V(name, ...) static void name##__chk(int vf_phase, int vf_ret, __VA_ARGS__); void name(__VA_ARGS__)
#else
#define VF_CONTRACT(ret, name, ...) ret name(__VA_ARGS__)
#define VF_CONTRACT_V(name, ...) void name(__VA_ARGS__)
#endif

/* The flat nondeterministic input record (DESIGN §6): every unit declares `struct in` and
 * `struct in IN;` and starts its harness with VF_LOAD_IN(). */
struct in;
#ifdef VF_NATIVE
#define VF_LOAD_IN() do { static const struct in vf_in0_ = VF_IN_INIT; IN = vf_in0_; vf_nchoice_ = 0; vf_errno = 0; } while (0)
#else
struct in nondet_in(void);
/* ghost/static state is reset explicitly: under --dfcc every static starts nondeterministic */
#define VF_LOAD_IN() do { IN = nondet_in(); vf_nchoice_ = 0; } while (0)
#endif

#ifdef VF_NATIVE
/* ---------------------------------------------------------------- native replay mode */
#include <stdio.h>
#include <stdlib.h>
#include <string.h>
int vf_native_failed;
#define __CPROVER_requires(...)
#define __CPROVER_ensures(...)
#define __CPROVER_assigns(...)
#define __CPROVER_frees(...)
#define __CPROVER_requires_contract(...)
#define __CPROVER_ensures_contract(...)
#define __CPROVER_assume(c) do { if (!(c)) { printf("VF-NATIVE: ASSUME-FALSE %s:%d %s\n", __FILE__, __LINE__, #c); fflush(stdout); _Exit(3); } } while (0)
#define __CPROVER_assert(c, msg) do { if (!(c)) { printf("VF-NATIVE: ASSERT-FAIL %s:%d [%s] %s\n", __FILE__, __LINE__, msg, #c); vf_native_failed = 1; } } while (0)
#define __CPROVER_cover(c) ((void)0)
#define __CPROVER_is_fresh(p, n) 1
#define __CPROVER_pointer_equals(p, q) ((p) == (q))
#define __CPROVER_obeys_contract(p, c) 1
#define __CPROVER_r_ok(p, n) 1
#define __CPROVER_w_ok(p, n) 1
#define __CPROVER_rw_ok(p, n) 1
#define __CPROVER_same_object(p, q) 1
#define __CPROVER_havoc_object(p) ((void)0)
#define __CPROVER_havoc_slice(p, n) ((void)0)
#define __CPROVER_OBJECT_SIZE(p) ((size_t)-1)
#define __CPROVER_POINTER_OFFSET(p) 0
#define __CPROVER_object_whole(p) (p)
#define __CPROVER_object_upto(p, n) (p)
#define __CPROVER_object_from(p) (p)
/* enforced call: evaluate the generated pre/post checkers around the real function */
#define VF_CALL(contract, fn, ...) ({ contract##__chk(0, 0, __VA_ARGS__); __typeof__(fn(__VA_ARGS__)) vf_r_ = fn(__VA_ARGS__); contract##__chk(1, vf_r_, __VA_ARGS__); vf_r_; })
#define VF_CALL_V(contract, fn, ...) do { contract##__chk(0, 0, __VA_ARGS__); fn(__VA_ARGS__); contract##__chk(1, 0, __VA_ARGS__); } while (0)
#define VF_REQ_(id, c) do { if (vf_phase == 0 && !(c)) { printf("VF-NATIVE: REQUIRES-FALSE %s %s\n", id, #c); fflush(stdout); _Exit(3); } } while (0)
#define VF_ENS_(id, c) do { if (vf_phase == 1 && !(c)) { printf("VF-NATIVE: ENSURES-FAIL %s\n", id); vf_native_failed = 1; } } while (0)
#define VF_NONDET(type, name) ((type)0)
#else
/* ---------------------------------------------------------------- CBMC mode */
#define VF_CALL(contract, fn, ...) fn(__VA_ARGS__)
#define VF_CALL_V(contract, fn, ...) fn(__VA_ARGS__)
#endif

/* ---------------------------------------------------------------- choice stream
 * Every nondeterministic decision of a stub (failure of a system call, of an allocation, a
 * returned length …) is drawn from IN through this stream so that a counterexample's IN
 * record determines the native replay completely.  Units that use it declare
 *   unsigned vf_choices[VF_NCHOICE] inside struct in  and  #define VF_CHOICES IN.ch
 */
#ifndef VF_NCHOICE
#define VF_NCHOICE 8
#endif
#ifndef VF_CHOICES
#define VF_CHOICES IN.ch      /* units using choice-drawing stubs declare `unsigned ch[VF_NCHOICE];` in struct in, before including the stubs */
#endif
unsigned vf_nchoice_;
#ifdef VF_NATIVE
#define VF_CHOOSE() (vf_nchoice_ < VF_NCHOICE ? VF_CHOICES[vf_nchoice_++] : 0u)
#else
unsigned nondet_unsigned(void);
#define VF_CHOOSE() (vf_nchoice_ < VF_NCHOICE ? VF_CHOICES[vf_nchoice_++] : nondet_unsigned())
#endif

/* errno as a plain global (DESIGN §5, P23): include <errno.h> first, then redirect */
#include <errno.h>
#undef errno
int vf_errno;
#define errno vf_errno

#endif /* VF_H_ */
