/* stubs/c33_rename.h — plain-mode replacement of STATIC callees of a real TU by stub bodies, without --dfcc.
 *
 * goto-instrument --dfcc can replace a call by a contract, but its instrumentation is too heavy for the parsers of
 * evdns.c (reply_parse: 115 k SSA steps, > 12 GB).  In "mode": "plain" a static function of the TU cannot be
 * replaced by a definition in the unit (same name, same TU).  This header renames instead: for a function f whose
 * FIRST occurrence in the TU (after this header) is its definition, the unit writes
 *     VF_RENAME_BEGIN(f)  … three preprocessor lines, see below …
 * after which the definition in the TU is compiled under the name f_real (still callable by the harness) and
 * every later occurrence — the calls — becomes f_stub, which the unit defines AFTER including the TU (declare
 * its prototype before).  Mechanism: a macro that expands to f_real and, through _Pragma("pop_macro"), restores
 * a previously pushed definition `f -> f_stub` as a side effect of its first expansion (gcc and goto-cc agree,
 * checked with `gcc -E` / `goto-cc -E`).  The four lines cannot be produced by one macro (a macro cannot emit
 * #define); copy them:
 *
 *     #define f f_stub
 *     #pragma push_macro("f")
 *     #undef f
 *     #define f f_real _Pragma("pop_macro(\"f\")")
 *
 * Requirements: f has no prototype/forward declaration before its definition in the TU (exported functions: include
 * the public header BEFORE the four lines); the stub's parameter types must be declared before the TU is included
 * (forward-declare the structs).  Everything a stub does is specification-side: list it under "trusted". */
#ifndef VF_STUB_C33_RENAME_H_
#define VF_STUB_C33_RENAME_H_
#endif
