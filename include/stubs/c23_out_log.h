/* stubs/c23_out_log.h — the connection's OUTPUT buffer as a log of write operations, for the
 * serialisation units (C26).  http.c writes a message only through
 *   evbuffer_add_printf(out, <one of 5 literal formats>, args…), evbuffer_add(out, <literal>, n),
 *   evbuffer_add_buffer(out, body-buffer)
 * (buffer.c, outside the TU).  Each call is recorded as one event {op, arguments}; the BYTES an
 * event stands for are those ISO C printf produces for the recorded format and arguments
 * (trusted: printf semantics of %s %d %x; buffer.c appends them in call order — C12).
 * Lengths of the other buffers are ghost values (EB[k].len as in c23_http_env.h).
 * Also: evutil_snprintf("%zu") and evutil_date_rfc1123 (evutil.c) as recording stubs.
 * Include AFTER http.c and `struct in IN;`. */
#ifndef VF_STUB_C23_OUT_LOG_H_
#define VF_STUB_C23_OUT_LOG_H_
#include <stdarg.h>
struct evbuffer { size_t len, drained, moved_in; };
enum { E_IN = 0, E_OUT = 1, E_RIN = 2, E_ROUT = 3, E_DATA = 4, E_NBUF = 5 };
static struct evbuffer EB[E_NBUF];
static char vf_bev_cookie_;
#define BEV (*(struct bufferevent *)&vf_bev_cookie_)
enum { OP_NONE = 0, OP_REQLINE, OP_STATUS, OP_HDR, OP_CHUNKSIZE, OP_CONTINUE, OP_CRLF, OP_LASTCHUNK, OP_BUFFER, OP_OTHER };
#ifndef VF_NLOG
#define VF_NLOG 14
#endif
struct vf_outev { int op; const char *s1, *s2; int i1, i2, i3; unsigned u; size_t n; const struct evbuffer *src; };
struct vf_outev e_log[VF_NLOG]; unsigned e_nlog;
int e_bev_enabled_calls, e_setcb_calls; void (*e_evcon_cb_seen)(struct evhttp_connection *, void *);
#define VF_OUT_RESET() do { unsigned k_; for (k_ = 0; k_ < VF_NLOG; k_++) { e_log[k_].op = OP_NONE; e_log[k_].s1 = e_log[k_].s2 = 0; e_log[k_].i1 = e_log[k_].i2 = e_log[k_].i3 = 0; e_log[k_].u = 0; e_log[k_].n = 0; e_log[k_].src = 0; } \
	e_nlog = 0; for (k_ = 0; k_ < E_NBUF; k_++) { EB[k_].len = EB[k_].drained = EB[k_].moved_in = 0; } e_bev_enabled_calls = e_setcb_calls = 0; } while (0)
static struct vf_outev *vf_out_new(int op)
{
	static struct vf_outev overflow_;
	__CPROVER_assert(e_nlog < VF_NLOG, "output log capacity (unit must size VF_NLOG)");
	if (e_nlog >= VF_NLOG) return &overflow_;
	e_log[e_nlog].op = op;
	return &e_log[e_nlog++];
}
static int vf_fmt_is(const char *f, const char *lit)
{
	unsigned i;
	for (i = 0; i < 32; i++) { if (f[i] != lit[i]) return 0; if (f[i] == 0) return 1; }
	return 0;
}
/* req->major / req->minor are `char` arguments: ISO C promotes them to int; goto-cc 6.11 passes them unpromoted */
#ifdef VF_NATIVE
#define VF_VA_CHAR(ap) va_arg(ap, int)
#else
#define VF_VA_CHAR(ap) ((int)va_arg(ap, char))
#endif
int evbuffer_add_printf(struct evbuffer *buf, const char *fmt, ...)
{
	va_list ap; struct vf_outev *e;
	__CPROVER_assert(buf == &EB[E_OUT], "evbuffer_add_printf: only the connection's output buffer is written with printf");
	va_start(ap, fmt);
	if (vf_fmt_is(fmt, "%s %s HTTP/%d.%d\r\n")) { e = vf_out_new(OP_REQLINE); e->s1 = va_arg(ap, const char *); e->s2 = va_arg(ap, const char *); e->i1 = VF_VA_CHAR(ap); e->i2 = VF_VA_CHAR(ap); }
	else if (vf_fmt_is(fmt, "HTTP/%d.%d %d %s\r\n")) { e = vf_out_new(OP_STATUS); e->i1 = VF_VA_CHAR(ap); e->i2 = VF_VA_CHAR(ap); e->i3 = va_arg(ap, int); e->s1 = va_arg(ap, const char *); }
	else if (vf_fmt_is(fmt, "%s: %s\r\n")) { e = vf_out_new(OP_HDR); e->s1 = va_arg(ap, const char *); e->s2 = va_arg(ap, const char *); }
	else if (vf_fmt_is(fmt, "%x\r\n")) { e = vf_out_new(OP_CHUNKSIZE); e->u = va_arg(ap, unsigned); }
	else if (vf_fmt_is(fmt, "HTTP/%d.%d 100 Continue\r\n\r\n")) { e = vf_out_new(OP_CONTINUE); e->i1 = VF_VA_CHAR(ap); e->i2 = VF_VA_CHAR(ap); }
	else { e = vf_out_new(OP_OTHER); __CPROVER_assert(0, "evbuffer_add_printf: a format of the message writer"); }
	va_end(ap);
	(void)e;
	return 1;
}
int evbuffer_add(struct evbuffer *buf, const void *data, size_t datlen)
{
	const char *d = data; struct vf_outev *e;
	__CPROVER_assert(buf == &EB[E_OUT], "evbuffer_add: the connection's output buffer");
	if (datlen == 2 && d[0] == '\r' && d[1] == '\n') e = vf_out_new(OP_CRLF);
	else if (datlen == 5 && d[0] == '0' && d[1] == '\r' && d[2] == '\n' && d[3] == '\r' && d[4] == '\n') e = vf_out_new(OP_LASTCHUNK);
	else { e = vf_out_new(OP_OTHER); __CPROVER_assert(0, "evbuffer_add: CRLF or the last-chunk literal"); }
	e->n = datlen;
	return 0;
}
#define E_CHK(b) __CPROVER_assert((b) >= &EB[0] && (b) <= &EB[E_NBUF - 1], "evbuffer argument is a buffer of this connection/request")
size_t evbuffer_get_length(const struct evbuffer *buf) { E_CHK(buf); return buf->len; }
int evbuffer_add_buffer(struct evbuffer *dst, struct evbuffer *src)
{
	E_CHK(dst); E_CHK(src);
	__CPROVER_assert(dst != src, "evbuffer_add_buffer: distinct buffers");
	if (dst == &EB[E_OUT]) { struct vf_outev *e = vf_out_new(OP_BUFFER); e->src = src; e->n = src->len; }
	dst->len += src->len; dst->moved_in += src->len; src->len = 0;
	return 0;
}
struct evbuffer *bufferevent_get_input(struct bufferevent *b) { __CPROVER_assert(b == &BEV, "bufferevent_get_input: the connection's bufferevent"); return &EB[E_IN]; }
struct evbuffer *bufferevent_get_output(struct bufferevent *b) { __CPROVER_assert(b == &BEV, "bufferevent_get_output: the connection's bufferevent"); return &EB[E_OUT]; }
int bufferevent_enable(struct bufferevent *b, short what) { __CPROVER_assert(b == &BEV, "bufferevent_enable: the connection's bufferevent"); (void)what; e_bev_enabled_calls++; return 0; }
void bufferevent_setcb(struct bufferevent *b, bufferevent_data_cb r, bufferevent_data_cb w, bufferevent_event_cb e, void *arg)
{ __CPROVER_assert(b == &BEV, "bufferevent_setcb: the connection's bufferevent"); (void)r; (void)w; (void)e; (void)arg; e_setcb_calls++; }

/* evutil_snprintf(buf, n, "%zu", v): records v, writes the marker "#L" (the decimal rendering is ISO C printf's) */
size_t e_snprintf_val; int e_snprintf_calls;
int evutil_snprintf(char *buf, size_t buflen, const char *format, ...)
{
	va_list ap;
	__CPROVER_assert(vf_fmt_is(format, EV_SIZE_FMT) && buflen >= 22, "evutil_snprintf: \"%zu\" into a buffer that holds any 64-bit decimal");
	va_start(ap, format); e_snprintf_val = va_arg(ap, size_t); va_end(ap);
	e_snprintf_calls++;
	buf[0] = '#'; buf[1] = 'L'; buf[2] = 0;
	return 2;
}
/* evutil_date_rfc1123: writes the marker "#D" (29 bytes in reality: always fits the 50-byte buffer) */
int e_date_calls;
int evutil_date_rfc1123(char *date, const size_t datelen, const struct tm *tm)
{
	(void)tm;
	__CPROVER_assert(datelen >= 30, "evutil_date_rfc1123: buffer holds an RFC 1123 date");
	e_date_calls++;
	date[0] = '#'; date[1] = 'D'; date[2] = 0;
	return 2;
}
#endif
