/* stubs/c31_evbuffer3.h — the byte-string evbuffer model of stubs/evbuffer_model.h (same
 * abstract behaviour, what C12 establishes for buffer.c) laid out for ws.c: three buffers in
 * three FLAT byte arrays with integer bookkeeping (the struct-array layout of the generic model
 * makes CBMC encode every byte access as an update of the whole model object: 12 M clauses for
 * a two-frame read).  Also used by the c42_* units (EVB[0] source, EVB[1] destination).  Buffer k holds VF_EBD(k)[vf_start[k] .. vf_start[k]+vf_len[k]).
 *   EVB[0] input of the bufferevent (unit loads it RIGHT-ALIGNED: over-reads are out of bounds)
 *   EVB[1] output of the bufferevent        EVB[2] the buffer handed out by evbuffer_new() */
#ifndef VF_STUB_C31_EVBUFFER3_H_
#define VF_STUB_C31_EVBUFFER3_H_
#include <string.h>
#include "event2/buffer.h"
#ifndef VF_EB_CAP
#define VF_EB_CAP 32
#endif
#define VF_EB_N 3
#ifndef VF_EB_MAXCOPY
#define VF_EB_MAXCOPY VF_EB_CAP   /* units whose inputs bound every single add/move may lower this (asserted) */
#endif
struct evbuffer { int vf_id; };
struct evbuffer EVB[VF_EB_N];
unsigned char vf_d0[VF_EB_CAP], vf_d1[VF_EB_CAP], vf_d2[VF_EB_CAP];
size_t vf_start[VF_EB_N], vf_len[VF_EB_N], vf_drained[VF_EB_N], vf_added[VF_EB_N];
#define VF_EB_RESET() do { int k_; for (k_ = 0; k_ < VF_EB_N; k_++) vf_start[k_] = vf_len[k_] = vf_drained[k_] = vf_added[k_] = 0; } while (0)
static int vf_ebk(const struct evbuffer *b)
{
	__CPROVER_assert(b == &EVB[0] || b == &EVB[1] || b == &EVB[2], "evbuffer argument is a buffer of this unit");
	return b == &EVB[0] ? 0 : b == &EVB[1] ? 1 : 2;
}
static unsigned char *vf_ebd(int k) { return k == 0 ? vf_d0 : k == 1 ? vf_d1 : vf_d2; }
static unsigned char vf_ebget(int k, size_t i) { return k == 0 ? vf_d0[i] : k == 1 ? vf_d1[i] : vf_d2[i]; }
static void vf_ebput(int k, size_t i, unsigned char v) { if (k == 0) vf_d0[i] = v; else if (k == 1) vf_d1[i] = v; else vf_d2[i] = v; }
size_t evbuffer_get_length(const struct evbuffer *buf) { return vf_len[vf_ebk(buf)]; }
unsigned char *evbuffer_pullup(struct evbuffer *buf, ev_ssize_t size)
{
	int k = vf_ebk(buf);
	size_t want = size < 0 ? vf_len[k] : (size_t)size;
	if (want > vf_len[k]) return NULL;
	if (want == 0) return NULL;   /* buffer.c: "if (size == 0 || size > total_len) goto done" with result NULL */
	return vf_ebd(k) + vf_start[k];
}
int evbuffer_drain(struct evbuffer *buf, size_t len)
{
	int k = vf_ebk(buf);
	size_t n = len < vf_len[k] ? len : vf_len[k];
	vf_start[k] += n; vf_len[k] -= n; vf_drained[k] += n;
	return 0;
}
int evbuffer_add(struct evbuffer *buf, const void *data, size_t datlen)
{
	int k = vf_ebk(buf); size_t i_;
	__CPROVER_assert(datlen == 0 || data != NULL, "evbuffer_add: data present");
	__CPROVER_assert(vf_start[k] + vf_len[k] + datlen <= VF_EB_CAP, "model capacity (unit must size VF_EB_CAP for its inputs)");
	if (vf_start[k] + vf_len[k] + datlen > VF_EB_CAP) { __CPROVER_assume(0); return -1; }
	__CPROVER_assert(datlen <= VF_EB_MAXCOPY, "model copy bound (unit must size VF_EB_MAXCOPY for its inputs)");
	for (i_ = 0; i_ < VF_EB_MAXCOPY; i_++) { if (i_ >= datlen) break; vf_ebput(k, vf_start[k] + vf_len[k] + i_, ((const unsigned char *)data)[i_]); }
	vf_len[k] += datlen; vf_added[k] += datlen;
	return 0;
}
int evbuffer_remove_buffer(struct evbuffer *src, struct evbuffer *dst, size_t datlen)
{
	int s = vf_ebk(src), d = vf_ebk(dst);
	size_t n = datlen < vf_len[s] ? datlen : vf_len[s], i_;
	__CPROVER_assert(s != d, "evbuffer_remove_buffer: distinct buffers");
	__CPROVER_assert(vf_start[d] + vf_len[d] + n <= VF_EB_CAP, "model capacity (unit must size VF_EB_CAP for its inputs)");
	if (vf_start[d] + vf_len[d] + n > VF_EB_CAP) { __CPROVER_assume(0); return -1; }
	__CPROVER_assert(n <= VF_EB_MAXCOPY, "model copy bound (unit must size VF_EB_MAXCOPY for its inputs)");
	for (i_ = 0; i_ < VF_EB_MAXCOPY; i_++) { if (i_ >= n) break; vf_ebput(d, vf_start[d] + vf_len[d] + i_, vf_ebget(s, vf_start[s] + i_)); }
	vf_len[d] += n; vf_added[d] += n; vf_start[s] += n; vf_len[s] -= n; vf_drained[s] += n;
	return (int)n;
}
int evbuffer_remove(struct evbuffer *buf, void *data_out, size_t datlen)
{
	int k = vf_ebk(buf);
	size_t n = datlen < vf_len[k] ? datlen : vf_len[k], i_;
	__CPROVER_assert(n <= VF_EB_MAXCOPY, "model copy bound (unit must size VF_EB_MAXCOPY for its inputs)");
	for (i_ = 0; i_ < VF_EB_MAXCOPY; i_++) { if (i_ >= n) break; ((unsigned char *)data_out)[i_] = vf_ebget(k, vf_start[k] + i_); }
	vf_start[k] += n; vf_len[k] -= n; vf_drained[k] += n;
	return (int)n;
}
/* accessors for harnesses */
#define VF_EB_LOAD(k, src, n) do { size_t i_; vf_len[k] = (n); vf_start[k] = VF_EB_CAP - (n); for (i_ = 0; i_ < VF_EB_CAP; i_++) if (i_ < (size_t)(n)) vf_ebput((k), vf_start[k] + i_, (src)[i_]); } while (0)   /* right-aligned: the data ENDS at the object's end */
#define VF_EB_BYTE(k, i) vf_ebget((k), vf_start[k] + (i))
#endif
