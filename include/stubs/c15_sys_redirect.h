/* stubs/c15_sys_redirect.h — include BEFORE buffer.c.  Redirects the system calls written in buffer.c
 * (close, munmap, mmap64, pread, sysconf, read, readv, write, writev, sendfile, ioctl) to c15_* models
 * (bodies in stubs/c15_sys.h).  A macro redirect rather than definitions of the libc names, so that the native replay
 * (gcc + ASan, whose runtime uses the real calls) keeps working — same idea as the errno redirect in vf.h. */
#ifndef VF_STUB_C15_SYS_REDIRECT_H_
#define VF_STUB_C15_SYS_REDIRECT_H_
#include <sys/types.h>
#include <unistd.h>
#include <sys/uio.h>
#include <sys/mman.h>
#include <sys/sendfile.h>
#include <sys/ioctl.h>
int c15_close(int fd);
int c15_munmap(void *addr, size_t len);
void *c15_mmap64(void *addr, size_t len, int prot, int flags, int fd, off_t offset);
ssize_t c15_pread(int fd, void *buf, size_t n, off_t offset);
long c15_sysconf(int name);
ssize_t c15_read(int fd, void *buf, size_t n);
ssize_t c15_readv(int fd, const struct iovec *iov, int n);
ssize_t c15_write(int fd, const void *buf, size_t n);
ssize_t c15_writev(int fd, const struct iovec *iov, int n);
ssize_t c15_sendfile(int out_fd, int in_fd, off_t *offset, size_t count);
int c15_ioctl(int fd, unsigned long req, int *argp);
#undef close
#undef munmap
#undef mmap64
#undef mmap
#undef pread
#undef sysconf
#undef read
#undef readv
#undef write
#undef writev
#undef sendfile
#undef ioctl
#define close(fd) c15_close(fd)
#define munmap(a, l) c15_munmap((a), (l))
#define mmap64(a, l, p, f, fd, o) c15_mmap64((a), (l), (p), (f), (fd), (o))
#define mmap(a, l, p, f, fd, o) c15_mmap64((a), (l), (p), (f), (fd), (o))
#define pread(fd, b, n, o) c15_pread((fd), (b), (n), (o))
#define sysconf(n) c15_sysconf(n)
#define read(fd, b, n) c15_read((fd), (b), (n))
#define readv(fd, v, n) c15_readv((fd), (v), (n))
#define write(fd, b, n) c15_write((fd), (b), (n))
#define writev(fd, v, n) c15_writev((fd), (v), (n))
#define sendfile(o, i, off, c) c15_sendfile((o), (i), (off), (c))
#define ioctl(fd, r, p) c15_ioctl((fd), (r), (p))
#endif
