/* stubs/lock.h — ghost lock discipline (this is the specification side of C08).
 * The harness installs vf_lock/vf_unlock into evthread_lock_fns_ and gives each lockable
 * object a lock cookie that is an index 1..VF_NLOCKS cast to void* (never dereferenced).
 * g_lock_depth[k] is the recursion depth of lock k; unlocking a lock that is not held is an
 * obligation failure.  Locks are recursive in libevent's default set-up, so depth > 1 is
 * legal; "released on return" is stated by contracts as depth == old depth. */
#ifndef VF_STUB_LOCK_H_
#define VF_STUB_LOCK_H_
#include "event2/thread.h"
#include "evthread-internal.h"
#ifndef VF_NLOCKS
#define VF_NLOCKS 4
#endif
int g_lock_depth[VF_NLOCKS + 1];
long g_lock_ops;                 /* ghost: number of lock+unlock operations */
static char vf_lockobj_[VF_NLOCKS + 1];   /* lock cookies are addresses of these bytes (never dereferenced by libevent) */
#define VF_LOCK_COOKIE(k) ((void *)&vf_lockobj_[k])
static int vf_lock(unsigned mode, void *lock)
{
	long k = (char *)lock - &vf_lockobj_[0];
	__CPROVER_assert(k >= 1 && k <= VF_NLOCKS, "lock(): argument is a lock of this unit");
	if (k >= 1 && k <= VF_NLOCKS) g_lock_depth[k]++;
	g_lock_ops++;
	return 0;
}
static int vf_unlock(unsigned mode, void *lock)
{
	long k = (char *)lock - &vf_lockobj_[0];
	__CPROVER_assert(k >= 1 && k <= VF_NLOCKS, "unlock(): argument is a lock of this unit");
	if (k >= 1 && k <= VF_NLOCKS) {
		__CPROVER_assert(g_lock_depth[k] > 0, "unlock(): the lock is held");
		g_lock_depth[k]--;
	}
	g_lock_ops++;
	return 0;
}
#ifndef VF_LOCK_NO_DEFS
struct evthread_lock_callbacks evthread_lock_fns_;
struct evthread_condition_callbacks evthread_cond_fns_;
unsigned long (*evthread_id_fn_)(void);
int evthread_lock_debugging_enabled_;
#endif
/* also resets the ghost state: under --dfcc every static starts nondeterministic */
#define VF_INSTALL_LOCKS() do { int k_; evthread_lock_fns_.lock = vf_lock; evthread_lock_fns_.unlock = vf_unlock; for (k_ = 0; k_ <= VF_NLOCKS; k_++) g_lock_depth[k_] = 0; g_lock_ops = 0; evthread_lock_debugging_enabled_ = 0; } while (0)
#endif
