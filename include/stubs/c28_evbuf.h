/* stubs/c28_evbuf.h — the evbuffer functions http.c's URI code uses as a scratch string builder
 * (evhttp_uriencode, evhttp_uri_join): evbuffer_new / _free / _add / _add_printf / _get_length / _remove.
 * buffer.c is another TU; http.c sees only the forward declaration of struct evbuffer.
 * Model = the byte string the C12 contracts say an evbuffer is, specialised to ONE live scratch buffer
 * (both functions create one, fill it, read it back and free it), kept in plain globals so that the
 * verifier sees array writes instead of writes through a struct pointer:
 *   g_sb[g_sb_start .. g_sb_start + g_sb_len) are the bytes; VF_SB_CAP is the model capacity — exceeding it is
 *   an obligation failure ("stub capacity"), never a silent truncation.
 *   evbuffer_new        fails (returns NULL) on a choice-stream draw when g_sb_new_may_fail; at most one live
 *   evbuffer_add        appends; fails (returns -1, appends nothing) on a draw when g_sb_add_may_fail
 *   evbuffer_add_printf mini formatter for exactly the conversions the URI code uses: %% %s %d %02X and
 *                       literal text (ISO C 7.21.6.1 semantics for those; anything else = obligation failure)
 *   evbuffer_remove     copies min(datlen, length) bytes out and drains them; returns the count
 * Trusted base item: "evbuffer_new/free/add/add_printf/get_length/remove: single-buffer byte-string model
 * (stubs/c28_evbuf.h; what C12 establishes for buffer.c)". */
#ifndef VF_STUB_C28_EVBUF_H_
#define VF_STUB_C28_EVBUF_H_
#include <stdarg.h>
#include "event2/buffer.h"
#ifndef VF_SB_CAP
#define VF_SB_CAP 32
#endif
struct evbuffer { int vf_id; };
static struct evbuffer VF_SB_OBJ;
unsigned char g_sb[VF_SB_CAP]; size_t g_sb_start, g_sb_len;
int g_sb_live, g_sb_news, g_sb_new_may_fail, g_sb_new_failed, g_sb_add_may_fail, g_sb_add_failed;
#define VF_SB_RESET() do { g_sb_start = g_sb_len = 0; g_sb_live = g_sb_news = 0; g_sb_new_may_fail = g_sb_new_failed = g_sb_add_may_fail = g_sb_add_failed = 0; } while (0)
struct evbuffer *evbuffer_new(void)
{
	if (g_sb_new_may_fail && (VF_CHOOSE() & 1u)) { g_sb_new_failed++; return NULL; }
	__CPROVER_assert(g_sb_live == 0, "stub capacity: one live scratch evbuffer at a time");
	g_sb_start = g_sb_len = 0; g_sb_live = 1; g_sb_news++;
	return &VF_SB_OBJ;
}
void evbuffer_free(struct evbuffer *buf)
{
	__CPROVER_assert(buf == &VF_SB_OBJ && g_sb_live == 1, "evbuffer_free: argument is the live buffer (no double free)");
	g_sb_live = 0;
}
size_t evbuffer_get_length(const struct evbuffer *buf)
{
	__CPROVER_assert(buf == &VF_SB_OBJ && g_sb_live == 1, "evbuffer_get_length: argument is the live buffer");
	return g_sb_len;
}
static void vf_sb_putc_(char c)
{
	__CPROVER_assert(g_sb_start + g_sb_len < VF_SB_CAP, "stub capacity: scratch evbuffer holds at most VF_SB_CAP bytes (unit must size it for its inputs)");
	if (g_sb_start + g_sb_len >= VF_SB_CAP) { __CPROVER_assume(0); return; }
	g_sb[g_sb_start + g_sb_len] = (unsigned char)c; g_sb_len++;
}
int evbuffer_add(struct evbuffer *buf, const void *data, size_t datlen)
{
	size_t i_;
	__CPROVER_assert(buf == &VF_SB_OBJ && g_sb_live == 1, "evbuffer_add: argument is the live buffer");
	if (g_sb_add_may_fail && (VF_CHOOSE() & 1u)) { g_sb_add_failed++; return -1; }
	__CPROVER_assert(datlen == 0 || data != NULL, "evbuffer_add: data present");
	for (i_ = 0; i_ < VF_SB_CAP; i_++) { if (i_ >= datlen) break; vf_sb_putc_(((const char *)data)[i_]); }
	__CPROVER_assert(i_ >= datlen, "stub capacity: evbuffer_add length within VF_SB_CAP");
	return 0;
}
int evbuffer_remove(struct evbuffer *buf, void *data_out, size_t datlen)
{
	size_t n, i_;
	__CPROVER_assert(buf == &VF_SB_OBJ && g_sb_live == 1, "evbuffer_remove: argument is the live buffer");
	n = datlen < g_sb_len ? datlen : g_sb_len;
	for (i_ = 0; i_ < VF_SB_CAP; i_++) { if (i_ >= n) break; ((unsigned char *)data_out)[i_] = g_sb[g_sb_start + i_]; }
	g_sb_start += n; g_sb_len -= n;
	return (int)n;
}
#ifndef VF_NATIVE
int evbuffer_add_printf(struct evbuffer *buf, const char *fmt, ...)
{
	va_list ap; int n = 0; unsigned i_, k_;
	__CPROVER_assert(buf == &VF_SB_OBJ && g_sb_live == 1, "evbuffer_add_printf: argument is the live buffer");
	if (g_sb_add_may_fail && (VF_CHOOSE() & 1u)) { g_sb_add_failed++; return -1; }
	va_start(ap, fmt);
	for (i_ = 0; i_ < 16; i_++) {
		char c = fmt[i_];
		if (c == '\0') break;
		if (c != '%') { vf_sb_putc_(c); n++; continue; }
		c = fmt[++i_];
		if (c == '%') { vf_sb_putc_('%'); n++; }
		else if (c == 's') {
			const char *s = va_arg(ap, const char *);
			for (k_ = 0; k_ < VF_SB_CAP; k_++) { if (s[k_] == '\0') break; vf_sb_putc_(s[k_]); n++; }
		} else if (c == 'd') {
			int v = va_arg(ap, int); char d[11]; int nd = 0; unsigned uv = v < 0 ? 0u - (unsigned)v : (unsigned)v;
			if (v < 0) { vf_sb_putc_('-'); n++; }
			for (k_ = 0; k_ < 10; k_++) { d[nd++] = (char)('0' + uv % 10u); uv /= 10u; if (uv == 0) break; }
			for (k_ = 0; k_ < 10; k_++) { if (nd == 0) break; vf_sb_putc_(d[--nd]); n++; }
		} else if (c == '0' && fmt[i_ + 1] == '2' && fmt[i_ + 2] == 'X') {
			/* CBMC 6.11 stores variadic arguments UNPROMOTED: the call site passes (unsigned char); any other
			 * argument type fails the pointer check here (an alarm, not a silent misread) */
			/* (integrator) ISO C: %02X takes an unsigned int and prints ALL its hex digits, at least two.  Because of the
			 * unpromoted storage the argument object is 1 byte for an (unsigned char) argument and 4 bytes for an
			 * (unsigned)/(int) one: read it at its own size, so that a sign-extended argument prints as FFFFFFxx */
			void *argp_ = *(void **)ap;
			unsigned v; int sh_, started_ = 0;
			if (__CPROVER_OBJECT_SIZE(argp_) >= sizeof(unsigned)) v = va_arg(ap, unsigned); else v = (unsigned)va_arg(ap, unsigned char);
			i_ += 2;
			for (sh_ = 28; sh_ >= 0; sh_ -= 4) {
				unsigned dg_ = (v >> sh_) & 15u;
				if (dg_ != 0 || started_ || sh_ <= 4) { vf_sb_putc_("0123456789ABCDEF"[dg_]); n++; started_ = 1; }
			}
		} else {
			__CPROVER_assert(0, "stub: evbuffer_add_printf conversion not modelled");
		}
	}
	__CPROVER_assert(i_ < 16, "stub capacity: evbuffer_add_printf format shorter than 16");
	va_end(ap);
	return n;
}
#else
int evbuffer_add_printf(struct evbuffer *buf, const char *fmt, ...)
{
	char tmp[4096]; int n; va_list ap;
	va_start(ap, fmt); n = vsnprintf(tmp, sizeof tmp, fmt, ap); va_end(ap);
	if (n > 0) evbuffer_add(buf, tmp, (size_t)n);
	return n;
}
#endif
#endif
