/* stubs/c31_ws_env.h — everything ws.c calls outside ws.c, apart from the byte-string
 * evbuffer model (stubs/c31_evbuffer3.h, include it first):
 *   EVB[0] = input of the connection's bufferevent, EVB[1] = its output,
 *   EVB[2] = the buffer evbuffer_new() hands out (ws.c holds at most one: incomplete_frames).
 * bufferevent: one static object BEV; lock/refcount are ghost counters (unlock of a lock that
 * is not held is an obligation failure); bufferevent_setcb records its arguments.
 * Trusted: these bodies are the abstract behaviour of buffer.c / bufferevent.c functions
 * (evbuffer_new never fails here: allocation failure is outside C31/C32's quantifier). */
#ifndef VF_STUB_C31_WS_ENV_H_
#define VF_STUB_C31_WS_ENV_H_
#if VF_EB_N < 3
#error "c31_ws_env.h needs VF_EB_N >= 3"
#endif
struct bufferevent BEV;
int g_bev_lock, g_bev_ref, g_bev_lock_calls;
int g_setcb_calls; bufferevent_data_cb g_setcb_read, g_setcb_write; bufferevent_event_cb g_setcb_event; void *g_setcb_arg;
int g_inc_live, g_evnew, g_evfree;
#define VF_WS_ENV_RESET() do { g_bev_lock = g_bev_ref = g_bev_lock_calls = 0; g_setcb_calls = 0; g_setcb_read = g_setcb_write = 0; g_setcb_event = 0; g_setcb_arg = 0; g_inc_live = g_evnew = g_evfree = 0; } while (0)

struct evbuffer *bufferevent_get_input(struct bufferevent *b) { __CPROVER_assert(b == &BEV, "bufferevent_get_input: the connection's bufferevent"); return &EVB[0]; }
struct evbuffer *bufferevent_get_output(struct bufferevent *b) { __CPROVER_assert(b == &BEV, "bufferevent_get_output: the connection's bufferevent"); return &EVB[1]; }
void bufferevent_incref_and_lock_(struct bufferevent *b) { __CPROVER_assert(b == &BEV, "incref_and_lock: the connection's bufferevent"); g_bev_lock++; g_bev_ref++; g_bev_lock_calls++; }
int bufferevent_decref_and_unlock_(struct bufferevent *b)
{
	__CPROVER_assert(b == &BEV, "decref_and_unlock: the connection's bufferevent");
	__CPROVER_assert(g_bev_lock > 0 && g_bev_ref > 0, "decref_and_unlock: lock held and reference owned");
	g_bev_lock--; g_bev_ref--; return 0;
}
void bufferevent_lock(struct bufferevent *b) { __CPROVER_assert(b == &BEV, "bufferevent_lock: the connection's bufferevent"); g_bev_lock++; g_bev_lock_calls++; }
void bufferevent_unlock(struct bufferevent *b) { __CPROVER_assert(b == &BEV, "bufferevent_unlock: the connection's bufferevent"); __CPROVER_assert(g_bev_lock > 0, "bufferevent_unlock: lock held"); g_bev_lock--; }
void bufferevent_setcb(struct bufferevent *b, bufferevent_data_cb r, bufferevent_data_cb w, bufferevent_event_cb e, void *arg)
{
	__CPROVER_assert(b == &BEV, "bufferevent_setcb: the connection's bufferevent");
	g_setcb_calls++; g_setcb_read = r; g_setcb_write = w; g_setcb_event = e; g_setcb_arg = arg;
}
struct evbuffer *evbuffer_new(void)
{
	__CPROVER_assert(!g_inc_live, "evbuffer_new: model holds one extra buffer (ws.c never needs two)");
	g_inc_live = 1; g_evnew++;
	vf_start[2] = vf_len[2] = vf_drained[2] = vf_added[2] = 0;
	return &EVB[2];
}
void evbuffer_free(struct evbuffer *b)
{
	__CPROVER_assert(b == &EVB[2] && g_inc_live, "evbuffer_free: a live buffer obtained from evbuffer_new, freed once");
	g_inc_live = 0; g_evfree++;
}
#endif
