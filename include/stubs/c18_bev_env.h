/* stubs/c18_bev_env.h — the environment of ONE bufferevent for units over the real bufferevent.c
 * (C18/C19/C20/C08/C10).  bufferevent.c uses evbuffers, events, the deferred-callback queue and the
 * type's be_ops only through their public entry points; all of those live outside the TU and are
 * modelled here as stub BODIES over ghost state `g_e` (spec side):
 *   - evbuffer_get_length      a fully symbolic ghost length per buffer (g_e.len_in / g_e.len_out)
 *   - event_add/del/pending    one ghost record per event: inserted?, timer armed?, with which timeval
 *   - deferred queue           ghost "deferred callback is queued" bit; schedule returns 1 iff newly queued
 *   - finalize batch           ghost counter + arguments of event_callback_finalize_many_
 *   - be_ops                   stub type whose enable/disable/unlink/adj_timeouts/ctrl/flush count their calls
 *   - user callbacks           recorded in fixed ghost slots g_e.rd / g_e.wr / g_e.ev0 / g_e.ev1 (n = number of calls,
 *                              at = position in the overall call order 1..g_e.nseq, state at the moment of the call); a user callback may (choice
 *                              stream) change the buffer lengths, the watermarks and `enabled` — i.e. call
 *                              evbuffer_drain/add, bufferevent_setwatermark/enable/disable — but does not free
 *                              the bufferevent (callers hold a reference while they run callbacks)
 * Include AFTER the real bufferevent.c, `struct in IN;` (with `unsigned ch[VF_NCHOICE]`) and stubs/lock.h. */
#ifndef VF_C18_BEV_ENV_H_
#define VF_C18_BEV_ENV_H_

static struct bufferevent_private BEVP;
#define BEV (&BEVP.bev)
static struct evbuffer INBUF, OUTBUF;
static struct event_base EVBASE;
static struct evbuffer_cb_entry WMCB;
static struct bufferevent_rate_limit RLIM;
static char vf_cbarg_cookie_;
#define VF_CBARG ((void *)&vf_cbarg_cookie_)

enum { VF_CB_READ = 1, VF_CB_WRITE = 2, VF_CB_EVENT = 3, VF_CB_DECREF = 4 };
struct vf_cbrec { int n; int at; short what; int err; int lockdepth; int refcnt; int arg_ok; size_t len_in, len_out, low_r, low_w; short enabled; int dis_calls; /* state at the moment of the call */ };
struct vf_evst { int ins; int timer; long tv_sec, tv_usec; int n_add, n_add_tv, n_add_fail, n_del, n_rmt; };

struct vf_bev_ghost {
	size_t len_in, len_out;                    /* ghost lengths of INBUF / OUTBUF */
	struct vf_evst ev[3];                      /* 0: ev_read  1: ev_write  2: rate-limit refill event */
	int event_add_may_fail, event_del_may_fail;
	/* deferred queue */
	int deferred_queued, sched_calls, sched_new;
	/* finalize batch */
	int fin_calls, fin_ncbs, fin_lockdepth, fin_cb_ok, fin_has_read, fin_has_write, fin_has_deferred, fin_has_refill, fin_has_inbuf, fin_has_outbuf;
	/* be_ops */
	int be_may_fail;
	int en_calls, dis_calls, unlink_calls, adj_calls, flush_calls, ctrl_calls; short en_what, dis_what; int ctrl_op;
	int en_lockdepth, dis_lockdepth;
	int adj_ret;
	/* evbuffer callback registration */
	int addcb_calls, addcb_ok, setflags_calls, clearflags_calls;
	/* user callbacks */
	struct vf_cbrec rd, wr, ev0, ev1; int nseq, nev;   /* nseq: calls of any user callback so far; nev: calls of the event callback */
	int user_mutates;                          /* unit switch: user callbacks change lengths/watermarks/enabled */
};
struct vf_bev_ghost g_e;

#define VF_BEV_LOCKDEPTH() (BEVP.lock ? g_lock_depth[1] : -1)

static void vf_bev_ghost_reset(void)
{
	/* no loops in this file: units run with a small --unwind because bufferevent.c has a (shallow) recursion through bufferevent_inbuf_wm_check */
#define VF_EVST_ZERO(e) do { (e).ins = (e).timer = 0; (e).tv_sec = (e).tv_usec = 0; (e).n_add = (e).n_add_tv = (e).n_add_fail = (e).n_del = (e).n_rmt = 0; } while (0)
	g_e.len_in = g_e.len_out = 0;
	VF_EVST_ZERO(g_e.ev[0]); VF_EVST_ZERO(g_e.ev[1]); VF_EVST_ZERO(g_e.ev[2]);
	g_e.event_add_may_fail = g_e.event_del_may_fail = 0;
	g_e.deferred_queued = g_e.sched_calls = g_e.sched_new = 0;
	g_e.fin_calls = g_e.fin_ncbs = g_e.fin_lockdepth = g_e.fin_cb_ok = 0;
	g_e.fin_has_read = g_e.fin_has_write = g_e.fin_has_deferred = g_e.fin_has_refill = g_e.fin_has_inbuf = g_e.fin_has_outbuf = 0;
	g_e.be_may_fail = 0;
	g_e.en_calls = g_e.dis_calls = g_e.unlink_calls = g_e.adj_calls = g_e.flush_calls = g_e.ctrl_calls = 0;
	g_e.en_what = g_e.dis_what = 0; g_e.ctrl_op = -1; g_e.en_lockdepth = g_e.dis_lockdepth = 0; g_e.adj_ret = 0;
	g_e.addcb_calls = g_e.addcb_ok = g_e.setflags_calls = g_e.clearflags_calls = 0;
#define VF_CBREC_ZERO(r) do { (r).n = (r).at = 0; (r).what = 0; (r).err = 0; (r).lockdepth = 0; (r).refcnt = 0; (r).arg_ok = 0; (r).len_in = (r).len_out = (r).low_r = (r).low_w = 0; (r).enabled = 0; (r).dis_calls = 0; } while (0)
	VF_CBREC_ZERO(g_e.rd); VF_CBREC_ZERO(g_e.wr); VF_CBREC_ZERO(g_e.ev0); VF_CBREC_ZERO(g_e.ev1);
	g_e.nseq = 0; g_e.nev = 0; g_e.user_mutates = 0;
}

/* ------------------------------------------------------------------ evbuffer (outside the TU) */
size_t evbuffer_get_length(const struct evbuffer *buf)
{
	__CPROVER_assert(buf == &INBUF || buf == &OUTBUF, "evbuffer_get_length: a buffer of this bufferevent");
	return buf == &INBUF ? g_e.len_in : g_e.len_out;
}
struct evbuffer_cb_entry *evbuffer_add_cb(struct evbuffer *buffer, evbuffer_cb_func cb, void *cbarg)
{
	g_e.addcb_calls++;
	g_e.addcb_ok = (buffer == &INBUF && cb == bufferevent_inbuf_wm_cb && cbarg == (void *)BEV);
#ifdef VF_C18_ADDCB_MAY_FAIL
	if (VF_CHOOSE() & 1u) return NULL;         /* the real one allocates the entry with mm_calloc */
#endif
	WMCB.cb.cb_func = cb; WMCB.cbarg = cbarg; WMCB.flags = EVBUFFER_CB_ENABLED;
	return &WMCB;
}
int evbuffer_cb_set_flags(struct evbuffer *buffer, struct evbuffer_cb_entry *cb, ev_uint32_t flags)
{
	__CPROVER_assert(buffer == &INBUF, "evbuffer_cb_set_flags: on the input buffer");
	__CPROVER_assert(cb == &WMCB, "evbuffer_cb_set_flags: cb is a callback entry of the buffer (the real one dereferences it)");
	g_e.setflags_calls++;
	if (cb == &WMCB) cb->flags |= (flags & ~(ev_uint32_t)0xffff0000u);
	return 0;
}
int evbuffer_cb_clear_flags(struct evbuffer *buffer, struct evbuffer_cb_entry *cb, ev_uint32_t flags)
{
	__CPROVER_assert(buffer == &INBUF, "evbuffer_cb_clear_flags: on the input buffer");
	__CPROVER_assert(cb == &WMCB, "evbuffer_cb_clear_flags: cb is a callback entry of the buffer");
	g_e.clearflags_calls++;
	if (cb == &WMCB) cb->flags &= ~(flags & ~(ev_uint32_t)0xffff0000u);
	return 0;
}
int evbuffer_get_callbacks_(struct evbuffer *buffer, struct event_callback **cbs, int max_cbs)
{
	__CPROVER_assert(buffer == &INBUF || buffer == &OUTBUF, "evbuffer_get_callbacks_: a buffer of this bufferevent");
	if (buffer->deferred_cbs) {
		if (max_cbs < 1) return -1;
		cbs[0] = &buffer->deferred;
		return 1;
	}
	return 0;
}

/* ------------------------------------------------------------------ events (event.c, outside the TU) */
static int vf_ev_idx(const struct event *ev)
{
	__CPROVER_assert(ev == &BEV->ev_read || ev == &BEV->ev_write || ev == &RLIM.refill_bucket_event, "event argument is an event of this bufferevent");
	return ev == &BEV->ev_read ? 0 : ev == &BEV->ev_write ? 1 : 2;
}
int event_add(struct event *ev, const struct timeval *tv)
{
	int k = vf_ev_idx(ev);
	g_e.ev[k].n_add++;
	if (g_e.event_add_may_fail && (VF_CHOOSE() & 1u)) { g_e.ev[k].n_add_fail++; return -1; }
	g_e.ev[k].ins = 1;
	if (tv) { g_e.ev[k].timer = 1; g_e.ev[k].tv_sec = tv->tv_sec; g_e.ev[k].tv_usec = tv->tv_usec; g_e.ev[k].n_add_tv++; }
	/* event_add(ev, NULL) on an event whose timer is armed leaves the timer armed (event_add_nolock_) */
	return 0;
}
int event_del(struct event *ev)
{
	int k = vf_ev_idx(ev);
	g_e.ev[k].n_del++;
	if (g_e.event_del_may_fail && (VF_CHOOSE() & 1u)) return -1;
	g_e.ev[k].ins = 0; g_e.ev[k].timer = 0;
	return 0;
}
int event_remove_timer(struct event *ev)
{
	int k = vf_ev_idx(ev);
	g_e.ev[k].n_rmt++; g_e.ev[k].timer = 0;
	return 0;
}
int event_pending(const struct event *ev, short what, struct timeval *tv)
{
	int k = vf_ev_idx(ev);
	short evs = (k == 0) ? EV_READ : (k == 1) ? EV_WRITE : 0;
	int r = 0;
	(void)tv;
	if (g_e.ev[k].ins) r |= (what & evs);
	if (g_e.ev[k].timer) r |= (what & EV_TIMEOUT);
	return r;
}
int event_initialized(const struct event *ev) { return (ev->ev_flags & EVLIST_INIT) ? 1 : 0; }

int event_deferred_cb_schedule_(struct event_base *base, struct event_callback *cb)
{
	int r;
	__CPROVER_assert(base == &EVBASE, "event_deferred_cb_schedule_: on the bufferevent's base");
	__CPROVER_assert(cb == &BEVP.deferred, "event_deferred_cb_schedule_: the bufferevent's deferred callback");
	g_e.sched_calls++;
	r = g_e.deferred_queued ? 0 : 1;           /* event_callback_activate_nolock_: 1 iff newly activated */
	g_e.deferred_queued = 1;
	g_e.sched_new += r;
	return r;
}
static void bufferevent_finalize_cb_(struct event_callback *evcb, void *arg_);
int event_callback_finalize_many_(struct event_base *base, int n_cbs, struct event_callback **evcbs, void (*cb)(struct event_callback *, void *))
{
	__CPROVER_assert(base == &EVBASE, "finalize_many: on the bufferevent's base");
	__CPROVER_assert(n_cbs >= 1 && n_cbs <= 16, "finalize_many: 1..MAX_CBS callbacks");
	g_e.fin_calls++; g_e.fin_ncbs = n_cbs; g_e.fin_lockdepth = VF_BEV_LOCKDEPTH();
	g_e.fin_cb_ok = (cb == bufferevent_finalize_cb_);
#define VF_FIN_ONE(k) do { if ((k) < n_cbs) { \
		if (evcbs[(k)] == &BEV->ev_read.ev_evcallback) g_e.fin_has_read++; \
		else if (evcbs[(k)] == &BEV->ev_write.ev_evcallback) g_e.fin_has_write++; \
		else if (evcbs[(k)] == &BEVP.deferred) g_e.fin_has_deferred++; \
		else if (evcbs[(k)] == &RLIM.refill_bucket_event.ev_evcallback) g_e.fin_has_refill++; \
		else if (evcbs[(k)] == &INBUF.deferred) g_e.fin_has_inbuf++; \
		else if (evcbs[(k)] == &OUTBUF.deferred) g_e.fin_has_outbuf++; \
		else __CPROVER_assert(0, "finalize_many: every callback handed over belongs to this bufferevent"); \
	} } while (0)
	__CPROVER_assert(n_cbs <= 8, "finalize_many: at most 8 callbacks (2 events, deferred, refill, 2 buffer callbacks)");
	VF_FIN_ONE(0); VF_FIN_ONE(1); VF_FIN_ONE(2); VF_FIN_ONE(3); VF_FIN_ONE(4); VF_FIN_ONE(5); VF_FIN_ONE(6); VF_FIN_ONE(7);
	return 0;
}

/* ------------------------------------------------------------------ the type's be_ops */
static int vf_be_enable(struct bufferevent *b, short ev)
{
	__CPROVER_assert(b == BEV, "be_ops->enable: on this bufferevent");
	g_e.en_calls++; g_e.en_what = ev; g_e.en_lockdepth = VF_BEV_LOCKDEPTH();
	if (g_e.be_may_fail && (VF_CHOOSE() & 1u)) return -1;
	return 0;
}
static int vf_be_disable(struct bufferevent *b, short ev)
{
	__CPROVER_assert(b == BEV, "be_ops->disable: on this bufferevent");
	g_e.dis_calls++; g_e.dis_what = ev; g_e.dis_lockdepth = VF_BEV_LOCKDEPTH();
	if (g_e.be_may_fail && (VF_CHOOSE() & 1u)) return -1;
	return 0;
}
static void vf_be_unlink(struct bufferevent *b) { __CPROVER_assert(b == BEV, "be_ops->unlink: on this bufferevent"); g_e.unlink_calls++; }
static void vf_be_destruct(struct bufferevent *b) { (void)b; }
static int vf_be_adj_timeouts(struct bufferevent *b) { __CPROVER_assert(b == BEV, "be_ops->adj_timeouts: on this bufferevent"); g_e.adj_calls++; return g_e.adj_ret; }
static int vf_be_flush(struct bufferevent *b, short iotype, enum bufferevent_flush_mode mode) { (void)b; (void)iotype; (void)mode; g_e.flush_calls++; return 0; }
static int vf_be_ctrl(struct bufferevent *b, enum bufferevent_ctrl_op op, union bufferevent_ctrl_data *d)
{
	__CPROVER_assert(b == BEV, "be_ops->ctrl: on this bufferevent");
	(void)d; g_e.ctrl_calls++; g_e.ctrl_op = (int)op;
	return -1;                                  /* no fd, no underlying (pair-like type) */
}
static struct bufferevent_ops VF_OPS;
#define VF_INSTALL_OPS() do { VF_OPS.type = "vf"; VF_OPS.mem_offset = 0; VF_OPS.enable = vf_be_enable; VF_OPS.disable = vf_be_disable; \
	VF_OPS.unlink = vf_be_unlink; VF_OPS.destruct = vf_be_destruct; VF_OPS.adj_timeouts = vf_be_adj_timeouts; VF_OPS.flush = vf_be_flush; VF_OPS.ctrl = vf_be_ctrl; \
	BEV->be_ops = &VF_OPS; } while (0)

/* ------------------------------------------------------------------ user callbacks */
static size_t vf_choose_size(void) { size_t hi = VF_CHOOSE(), lo = VF_CHOOSE(); return (hi << 32) | lo; }
/* C19 "no callback runs after bufferevent_free or after callbacks are cleared": with VF_C19_CLEAR_ACTION a user
 * callback may clear the callbacks (what bufferevent_setcb(bev, NULL, NULL, NULL, NULL) and bufferevent_free do first);
 * any user callback invoked after that is an obligation failure (asserted in vf_seq_push) */
int g_cb_cleared;
static void vf_user_action(void)
{
	unsigned c;
#ifdef VF_C19_CLEAR_ACTION
	if (VF_CHOOSE() & 1u) { BEV->readcb = NULL; BEV->writecb = NULL; BEV->errorcb = NULL; g_cb_cleared = 1; }
#endif
	if (!g_e.user_mutates) return;
	c = VF_CHOOSE();
	if (c & 1u) g_e.len_in = vf_choose_size();              /* evbuffer_drain / _remove / _add on the input */
	if (c & 2u) g_e.len_out = vf_choose_size();             /* bufferevent_write … */
	if (c & 4u) BEV->enabled = (short)((c >> 8) & (EV_READ|EV_WRITE));   /* bufferevent_enable/disable */
	if (c & 8u) { BEV->wm_read.low = vf_choose_size(); BEV->wm_read.high = vf_choose_size(); }   /* bufferevent_setwatermark */
}
#define VF_CBREC_FILL(r, what_, arg_) do { (r).n++; (r).at = g_e.nseq; (r).what = (what_); (r).err = errno; (r).lockdepth = VF_BEV_LOCKDEPTH(); (r).refcnt = BEVP.refcnt; (r).arg_ok = ((arg_) == VF_CBARG); \
	(r).len_in = g_e.len_in; (r).len_out = g_e.len_out; (r).low_r = BEV->wm_read.low; (r).low_w = BEV->wm_write.low; (r).enabled = BEV->enabled; (r).dis_calls = g_e.dis_calls; } while (0)
static void vf_seq_push(int kind, short what, void *arg)
{
#ifdef VF_C19_CLEAR_ACTION
	__CPROVER_assert(!g_cb_cleared, "C19: no user callback runs after the callbacks were cleared (bufferevent_setcb NULL / bufferevent_free) from inside a callback");
#endif
	g_e.nseq++;
	if (kind == VF_CB_READ) VF_CBREC_FILL(g_e.rd, what, arg);
	else if (kind == VF_CB_WRITE) VF_CBREC_FILL(g_e.wr, what, arg);
	else { if (g_e.nev == 0) VF_CBREC_FILL(g_e.ev0, what, arg); else VF_CBREC_FILL(g_e.ev1, what, arg); g_e.nev++; }
}
static void vf_user_readcb(struct bufferevent *b, void *ctx) { __CPROVER_assert(b == BEV, "readcb: called with this bufferevent"); vf_seq_push(VF_CB_READ, 0, ctx); vf_user_action(); }
static void vf_user_writecb(struct bufferevent *b, void *ctx) { __CPROVER_assert(b == BEV, "writecb: called with this bufferevent"); vf_seq_push(VF_CB_WRITE, 0, ctx); vf_user_action(); }
static void vf_user_eventcb(struct bufferevent *b, short what, void *ctx) { __CPROVER_assert(b == BEV, "eventcb: called with this bufferevent"); vf_seq_push(VF_CB_EVENT, what, ctx); vf_user_action(); }

/* Build the bufferevent from scalars of IN (each unit passes its own record's fields). */
#define VF_BEV_BASIC(locking) do { \
	VF_INSTALL_LOCKS(); vf_bev_ghost_reset(); VF_INSTALL_OPS(); \
	BEV->ev_base = &EVBASE; BEV->input = &INBUF; BEV->output = &OUTBUF; \
	BEVP.lock = (locking) ? VF_LOCK_COOKIE(1) : NULL; BEVP.rate_limiting = NULL; \
	INBUF.deferred_cbs = 0; OUTBUF.deferred_cbs = 0; \
	} while (0)
#endif
