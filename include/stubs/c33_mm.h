/* stubs/c33_mm.h — event_mm_* for the evdns.c units: like stubs/mm.h (bodies over the verifier's malloc/free, failure
 * drawn from the choice stream, ghost counters g_mm_live / g_mm_allocs / g_mm_frees), but every object has one of the
 * CONSTANT sizes the unit lists (UNIT_GUIDE pitfall 5: an object of symbolic size — reply_parse's
 * mm_malloc(MAX(length - j, EVDNS_NAME_MAX)) — makes the array theory blow up even when only one value is feasible).
 * The unit defines, before including this file,
 *     #define VF_C33_MM_SIZES(X) X(255) X(sizeof(struct server_request)) ...
 * a request of any other size is an obligation failure ("allocation size outside the unit's shape").
 * mm_strdup is left to the unit (strings are abstract in most units).  g_mm_last_size: size of the last request. */
#ifndef VF_STUB_C33_MM_H_
#define VF_STUB_C33_MM_H_
#include <stdlib.h>
#include "mm-internal.h"
long g_mm_live, g_mm_allocs, g_mm_frees; size_t g_mm_last_size;
#define VF_MM_RESET() do { g_mm_live = 0; g_mm_allocs = 0; g_mm_frees = 0; g_mm_last_size = 0; } while (0)
#ifdef VF_MM_NOFAIL
#define VF_MM_FAIL_() 0
#else
#define VF_MM_FAIL_() (VF_CHOOSE() & 1u)
#endif
static void *c33_const_malloc(size_t sz, int zero)
{
	void *p = NULL;
#define VF_C33_MM_ONE_(n) if (sz == (size_t)(n)) { p = zero ? calloc(1, (n)) : malloc(n); } else
	VF_C33_MM_SIZES(VF_C33_MM_ONE_)
	{ __CPROVER_assert(0, "allocation size outside the unit's shape"); __CPROVER_assume(0); }
#undef VF_C33_MM_ONE_
#ifndef VF_NATIVE
	__CPROVER_assume(p != NULL);
#endif
	return p;
}
void *event_mm_malloc_(size_t sz)
{
	void *p;
	g_mm_last_size = sz;
	if (sz == 0) return NULL;
	if (VF_MM_FAIL_()) { errno = ENOMEM; return NULL; }
	p = c33_const_malloc(sz, 0);
	g_mm_live++; g_mm_allocs++;
	return p;
}
void *event_mm_calloc_(size_t count, size_t size)
{
	void *p;
	if (count == 0 || size == 0) return NULL;
	if (count > ((size_t)-1) / size) { errno = ENOMEM; return NULL; }
	g_mm_last_size = count * size;
	if (VF_MM_FAIL_()) { errno = ENOMEM; return NULL; }
	p = c33_const_malloc(count * size, 1);
	g_mm_live++; g_mm_allocs++;
	return p;
}
void event_mm_free_(void *p)
{
	if (p) { g_mm_live--; g_mm_frees++; }
	free(p);
}
#endif
