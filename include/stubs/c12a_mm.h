/* stubs/c12a_mm.h — allocator for the c12a units (replaces stubs/mm.h there).  Same model as
 * stubs/mm.h (bodies over the verifier's malloc, failure drawn from the choice stream); in
 * addition every successful allocation is registered in g_new[] and every failure counted in
 * g_allocfail (contracts/c12a_shape.h): in these units the only allocations are evbuffer chains. */
#ifndef VF_STUB_C12A_MM_H_
#define VF_STUB_C12A_MM_H_
#include <stdlib.h>
#include "mm-internal.h"
/* own position counter inside g_al (already an assigns target of the chain_new contracts) instead of vf.h's vf_nchoice_ */
#ifdef VF_NATIVE
#define C12A_CHOOSE() (g_al.nchoice < VF_NCHOICE ? VF_CHOICES[g_al.nchoice++] : 0u)
#else
#define C12A_CHOOSE() (g_al.nchoice < VF_NCHOICE ? VF_CHOICES[g_al.nchoice++] : nondet_unsigned())
#endif
void *event_mm_malloc_(size_t sz)
{
	void *p;
	if (sz == 0) return NULL;
	if (C12A_CHOOSE() & 1u) { errno = ENOMEM; g_allocfail++; return NULL; }
	p = malloc(sz);
	__CPROVER_assume(p != NULL);
	g_mm_last_size = sz;
	if (g_nnew == 0) g_new[0] = p; else if (g_nnew == 1) g_new[1] = p;
	g_nnew++;
	return p;
}
void *event_mm_calloc_(size_t count, size_t size)
{
	void *p;
	if (count == 0 || size == 0 || count > ((size_t)-1) / size) return NULL;
	p = event_mm_malloc_(count * size);
	if (p) { size_t i_; for (i_ = 0; i_ < count * size; i_++) ((char *)p)[i_] = 0; }
	return p;
}
void event_mm_free_(void *p) { free(p); }
#endif
