/* stubs/c20g_filter_env.h — environment of ONE filtering bufferevent for units over the INPUT side of the real
 * bufferevent_filter.c (be_filter_process_input, be_filter_read_nolock_, be_filter_readcb).  Same style as units/c18_filter_output:
 *   - the four evbuffers are opaque cookies; the lengths of the filter's input (FIN) and of the underlying input (UIN) are ghost numbers
 *   - the user's INPUT filter is a stub called at most VF_MAXCALLS times: it checks its arguments against the spec, records the
 *     state it was called in, returns OK / NEED_MORE / ERROR by choice and moves a chosen number of bytes over the ghost lengths
 *     (consumes any prefix of the source, produces at most `limit` bytes when limit >= 0 — the documented contract of bufferevent_filter_cb)
 *   - event_add is a recording stub (only re-arming of the generic READ timeout is legal here), bufferevent_run_readcb_ and
 *     evbuffer_cb_set_flags are recorded with the state at the moment of the call; the read callback may drain the input (IN.rcb_drains)
 * Include AFTER the real bufferevent_filter.c, `struct in IN;` (with the fields used by vf_filter_build) and stubs/lock.h. */
#ifndef VF_C20G_FILTER_ENV_H_
#define VF_C20G_FILTER_ENV_H_
#ifndef VF_MAXCALLS
#define VF_MAXCALLS 3
#endif
struct evbuffer { int vf_id; };
static struct bufferevent_filtered F;
static struct bufferevent_private U;
static struct evbuffer FOUT, UOUT, FIN, UIN;
static struct evbuffer_cb_entry *INCB = (struct evbuffer_cb_entry *)&FIN;     /* cookies, never dereferenced here */
static struct evbuffer_cb_entry *OUTCB = (struct evbuffer_cb_entry *)&FOUT;
#define FBEV (&F.bev.bev)
#define VF_FLOCKDEPTH() (F.bev.lock ? g_lock_depth[1] : -1)

struct vf_filter_ghost {
	size_t len_in, len_uin;               /* ghost lengths of FIN (the filter's input) and UIN (the underlying input) */
	/* the input filter's calls */
	int calls, ok_calls, moved_calls, last_res;
	int bad_args, bad_mode, bad_limit, called_when_full, late_bad, over_high, lock_bad;
	/* the generic read timer */
	int ev_add, ev_add_at_calls, ev_other;
	/* read callback / input-buffer callback */
	int rcb, rcb_at_calls, rcb_opts, rcb_after_timer, rcb_lockdepth; size_t rcb_len_in;
	int setf, setf_after_rcb; size_t setf_len_in, setf_len_uin;
	int clrf;
	int want_lockdepth;                   /* lock depth the callees must observe (-1: no lock) */
};
struct vf_filter_ghost g_f;

static void vf_filter_ghost_reset(void)
{
	g_f.len_in = g_f.len_uin = 0;
	g_f.calls = g_f.ok_calls = g_f.moved_calls = 0; g_f.last_res = -1;
	g_f.bad_args = g_f.bad_mode = g_f.bad_limit = g_f.called_when_full = g_f.late_bad = g_f.over_high = g_f.lock_bad = 0;
	g_f.ev_add = g_f.ev_other = 0; g_f.ev_add_at_calls = -1;
	g_f.rcb = g_f.rcb_opts = g_f.rcb_after_timer = g_f.rcb_lockdepth = 0; g_f.rcb_at_calls = -1; g_f.rcb_len_in = 0;
	g_f.setf = g_f.setf_after_rcb = 0; g_f.setf_len_in = g_f.setf_len_uin = 0; g_f.clrf = 0;
	g_f.want_lockdepth = -1;
}

/* ------------------------------------------------------------------ evbuffer (outside the TU) */
size_t evbuffer_get_length(const struct evbuffer *b)
{
	__CPROVER_assert(b == &FIN || b == &UIN, "evbuffer_get_length: one of the two INPUT buffers");
	return b == &FIN ? g_f.len_in : g_f.len_uin;
}
int evbuffer_cb_set_flags(struct evbuffer *b, struct evbuffer_cb_entry *cb, ev_uint32_t flags)
{
	__CPROVER_assert(b == &FIN && cb == INCB && flags == EVBUFFER_CB_ENABLED, "set_flags: the filter's own input-buffer callback");
	g_f.setf++; g_f.setf_after_rcb = g_f.rcb; g_f.setf_len_in = g_f.len_in; g_f.setf_len_uin = g_f.len_uin;
	return 0;
}
int evbuffer_cb_clear_flags(struct evbuffer *b, struct evbuffer_cb_entry *cb, ev_uint32_t flags)
{
	__CPROVER_assert(b == &FIN && cb == INCB && flags == EVBUFFER_CB_ENABLED, "clear_flags: the filter's own input-buffer callback");
	g_f.clrf++;
	return 0;
}
/* evbuffer_remove_buffer as used by the real be_null_filter: moves min(datlen, len(src)) bytes (all of src when datlen < 0) */
int evbuffer_remove_buffer(struct evbuffer *src, struct evbuffer *dst, size_t datlen)
{
	size_t n = datlen;
	__CPROVER_assert(src == &UIN && dst == &FIN, "remove_buffer: from the underlying input into the filter's input");
	if (n > g_f.len_uin) n = g_f.len_uin;
	g_f.len_uin -= n; g_f.len_in += n; g_f.ok_calls++; if (n > 0) g_f.moved_calls++;
	return (int)n;
}

/* ------------------------------------------------------------------ events / callbacks (outside the TU) */
int event_add(struct event *ev, const struct timeval *tv)
{
	if (ev == &FBEV->ev_read && tv == &FBEV->timeout_read) { g_f.ev_add++; g_f.ev_add_at_calls = g_f.calls; }
	else g_f.ev_other++;
	return 0;
}
int event_del(struct event *ev) { (void)ev; g_f.ev_other++; return 0; }
void bufferevent_run_readcb_(struct bufferevent *b, int options)
{
	__CPROVER_assert(b == FBEV, "read callback of the filtering bufferevent");
	g_f.rcb++; g_f.rcb_at_calls = g_f.calls; g_f.rcb_opts = options; g_f.rcb_len_in = g_f.len_in; g_f.rcb_after_timer = g_f.ev_add; g_f.rcb_lockdepth = VF_FLOCKDEPTH();
	if (g_f.setf) g_f.late_bad++;                                               /* rescheduling is decided after the application saw the data */
	if (IN.rcb_drains) {                                                        /* a non-deferred read callback: the application drains some of the input */
		size_t d = ((size_t)VF_CHOOSE() << 32) | VF_CHOOSE();
		if (d > g_f.len_in) d = g_f.len_in;
		g_f.len_in -= d;
	}
}
void bufferevent_run_writecb_(struct bufferevent *b, int options) { (void)b; (void)options; __CPROVER_assert(0, "no write callback from the input path"); }

/* ------------------------------------------------------------------ the user's input filter */
static enum bufferevent_filter_result vf_filter_in(struct evbuffer *src, struct evbuffer *dst, ev_ssize_t limit, enum bufferevent_flush_mode mode, void *ctx)
{
	unsigned c; size_t take, put;
	int normal = (mode == BEV_NORMAL);
	if (!(src == &UIN && dst == &FIN && ctx == (void *)&F)) g_f.bad_args++;     /* C17: source = underlying input, destination = the filter's own input */
	if ((int)mode != IN.state) g_f.bad_mode++;
	g_f.calls++;
	__CPROVER_assume(g_f.calls <= VF_MAXCALLS);                                 /* BOUND */
	if (VF_FLOCKDEPTH() != g_f.want_lockdepth) g_f.lock_bad++;
	if (normal && FBEV->wm_read.high && g_f.len_in >= FBEV->wm_read.high) g_f.called_when_full++;
	if (normal && FBEV->wm_read.high ? (limit <= 0 || (size_t)limit != FBEV->wm_read.high - g_f.len_in) : limit != -1) g_f.bad_limit++;
	/* every call after the first: the previous one returned OK, reading is enabled, there is underlying input */
	if (g_f.calls >= 2 && (g_f.last_res != BEV_OK || !(FBEV->enabled & EV_READ) || g_f.len_uin == 0)) g_f.late_bad++;
	/* normal mode, first call: reading is enabled */
	if (g_f.calls == 1 && normal && !(FBEV->enabled & EV_READ)) g_f.late_bad++;
	if (g_f.ev_add || g_f.rcb || g_f.setf) g_f.late_bad++;                      /* timer restart, read callback and rescheduling come after the filter ran */
	c = VF_CHOOSE();
	if ((c & 3u) == 1) { g_f.last_res = BEV_NEED_MORE; return BEV_NEED_MORE; }
	if ((c & 3u) == 2) { g_f.last_res = BEV_ERROR; return BEV_ERROR; }
	take = ((size_t)VF_CHOOSE() << 32) | VF_CHOOSE(); put = ((size_t)VF_CHOOSE() << 32) | VF_CHOOSE();
	if (take > g_f.len_uin) take = g_f.len_uin;
	if (limit >= 0 && put > (size_t)limit) put = (size_t)limit;                 /* a conforming filter */
	__CPROVER_assume(put <= ((size_t)1 << 40));
#ifdef VF_OK_MOVES
	__CPROVER_assume(put > 0 || take > 0);                                      /* optional: BEV_OK means "something was transferred" */
#endif
	g_f.len_uin -= take; g_f.len_in += put; g_f.ok_calls++;
	if (put > 0 || take > 0) g_f.moved_calls++;
	if (normal && FBEV->wm_read.high && g_f.len_in > FBEV->wm_read.high) g_f.over_high++;
	g_f.last_res = BEV_OK;
	return BEV_OK;
}

/* Build the filtering bufferevent from the scalars of IN. */
static void vf_filter_build(void)
{
	VF_INSTALL_LOCKS(); vf_filter_ghost_reset();
	__CPROVER_assume(IN.state == BEV_NORMAL || IN.state == BEV_FLUSH || IN.state == BEV_FINISHED);
	__CPROVER_assume(IN.len_in <= ((size_t)1 << 62) && IN.len_uin <= ((size_t)1 << 62) && IN.high <= (size_t)EV_SSIZE_MAX);
	FBEV->be_ops = &bufferevent_ops_filter; FBEV->output = &FOUT; FBEV->input = &FIN; FBEV->enabled = IN.enabled;
	FBEV->wm_read.high = IN.high; FBEV->wm_read.low = IN.low;
	FBEV->timeout_read.tv_sec = IN.tr_sec; FBEV->timeout_read.tv_usec = IN.tr_usec;
	F.bev.lock = IN.locking ? VF_LOCK_COOKIE(1) : NULL; F.bev.refcnt = IN.refcnt;
	F.underlying = &U.bev; F.outbuf_cb = OUTCB; F.inbuf_cb = INCB; F.context = (void *)&F; F.got_eof = IN.got_eof ? 1 : 0;
#ifdef VF_NULL_FILTER
	F.process_in = be_null_filter;                                              /* the library's own filter for a NULL input filter */
#else
	F.process_in = vf_filter_in;
#endif
	F.process_out = NULL;
	U.bev.output = &UOUT; U.bev.input = &UIN;
	g_f.len_in = IN.len_in; g_f.len_uin = IN.len_uin;
}
#define B(x) ((x) ? 1 : 0)
#endif
