/* stubs/c28_ctype.h — evutil.c's locale-free ctype replacements and ASCII case-insensitive compare are
 * OUTSIDE the http.c translation unit.  Reference bodies: the ASCII classes the tables of evutil.c encode
 * (EVUTIL_IS*_TABLE / EVUTIL_TOLOWER_TABLE), written as range tests.  Trusted base item
 * "EVUTIL_IS*_/TOLOWER_/evutil_ascii_strcasecmp: ASCII reference bodies (evutil.c is another TU)". */
#ifndef VF_STUB_C28_CTYPE_H_
#define VF_STUB_C28_CTYPE_H_
#include "util-internal.h"
int EVUTIL_ISALPHA_(char c) { return (c >= 'a' && c <= 'z') || (c >= 'A' && c <= 'Z'); }
int EVUTIL_ISDIGIT_(char c) { return c >= '0' && c <= '9'; }
int EVUTIL_ISALNUM_(char c) { return (c >= 'a' && c <= 'z') || (c >= 'A' && c <= 'Z') || (c >= '0' && c <= '9'); }
int EVUTIL_ISXDIGIT_(char c) { return (c >= '0' && c <= '9') || (c >= 'a' && c <= 'f') || (c >= 'A' && c <= 'F'); }
int EVUTIL_ISSPACE_(char c) { return c == ' ' || (c >= 9 && c <= 13); }
int EVUTIL_ISPRINT_(char c) { return c >= 32 && c <= 126; }
int EVUTIL_ISLOWER_(char c) { return c >= 'a' && c <= 'z'; }
int EVUTIL_ISUPPER_(char c) { return c >= 'A' && c <= 'Z'; }
char EVUTIL_TOLOWER_(char c) { return (c >= 'A' && c <= 'Z') ? (char)(c - 'A' + 'a') : c; }
char EVUTIL_TOUPPER_(char c) { return (c >= 'a' && c <= 'z') ? (char)(c - 'a' + 'A') : c; }
#ifndef VF_C28_STRCAP
#define VF_C28_STRCAP 64
#endif
int evutil_ascii_strcasecmp(const char *s1, const char *s2)
{
	char c1, c2; unsigned k_;
	for (k_ = 0; k_ < VF_C28_STRCAP; k_++) {
		c1 = EVUTIL_TOLOWER_(s1[k_]);
		c2 = EVUTIL_TOLOWER_(s2[k_]);
		if (c1 < c2) return -1;
		else if (c1 > c2) return 1;
		else if (c1 == 0) return 0;
	}
	__CPROVER_assert(0, "stub capacity: evutil_ascii_strcasecmp operand longer than VF_C28_STRCAP");
	return 0;
}
#endif
