/* stubs/c39_evdns_env.h — what lies OUTSIDE evdns.c and is reached by the resolver-configuration
 * code (units c39_*, c38_* on evdns.c).  Included after `struct in IN;`.
 *
 *   event_logv_, evutil_vsnprintf       logging sinks: no-ops (evdns_log_fn is pinned to NULL by the harness)
 *   evutil_parse_sockaddr_port          MODEL (the real one lives in evutil.c): outcome taken from the input
 *                                       record: IN.psp_ok (0 => -1, nothing written), IN.psp_v6, IN.psp_addr[16],
 *                                       IN.psp_port, IN.psp_scope; on success writes a sockaddr_in / sockaddr_in6
 *                                       of exactly that content and sets *outlen; -1 when *outlen is too small.
 *                                       Every call is recorded (g_psp_calls, g_psp_arg).
 *   memcpy                              bounds-checked byte loop (UNIT_GUIDE pitfall 2) — only when the unit asks
 *                                       for it with C39_OWN_MEMCPY <cap>
 */
#ifndef VF_STUB_C39_EVDNS_ENV_H_
#define VF_STUB_C39_EVDNS_ENV_H_
#include <stdarg.h>
#include <string.h>

/* the one indirect call of evdns_log_ (evdns_log_fn) is pinned to this stub by "restrict_fp":
 *   "evdns_log_.function_pointer_call.1/c39_logfn_stub"   — otherwise CBMC resolves it to every
 * address-taken function of a loosely compatible type and half of evdns.c becomes reachable. */
void c39_logfn_stub(int is_warning, const char *msg) { (void)is_warning; (void)msg; }
#ifndef C39_NO_EVDNS_LOG
void event_logv_(int severity, const char *errstr, const char *fmt, va_list ap) { (void)severity; (void)errstr; (void)fmt; (void)ap; }
#ifndef VF_NATIVE
int evutil_vsnprintf(char *buf, size_t buflen, const char *format, va_list ap) { (void)format; (void)ap; if (buflen) buf[0] = 0; return 0; }
#endif
#endif /* C39_NO_EVDNS_LOG */

struct c39_b28_ { unsigned long long a, b, c; unsigned d; } __attribute__((packed));
#if defined(C39_OWN_MEMCPY) && !defined(VF_NATIVE)
/* memcpy with a symbolic length (UNIT_GUIDE pitfall 2): bounds-checked byte loop, capacity C39_OWN_MEMCPY */
void *memcpy(void *dst, const void *src, size_t n)
{
	size_t i;
	__CPROVER_assert(n <= C39_OWN_MEMCPY, "memcpy model: length within the unit's capacity");
	__CPROVER_assert(n == 0 || (__CPROVER_r_ok(src, n) && __CPROVER_w_ok(dst, n)), "memcpy: source readable and destination writable for n bytes");
#ifdef VF_STUB_C39_MM_H_   /* a unit that models the heap defines this and c39_room_of() before including this header */
	__CPROVER_assert(n <= c39_room_of(dst), "memcpy: the copy stays inside the REQUESTED size of the heap block it writes");
#endif
	/* multiples of 8 word by word, sockaddr_in6 (28) as one typed store, everything else byte by byte */
	if (n == 28) { *(struct c39_b28_ *)dst = *(const struct c39_b28_ *)src; return dst; }
	if ((n & 7) == 0) {
		for (i = 0; i < C39_OWN_MEMCPY; i += 8) { if (i >= n) break; *(unsigned long long *)((char *)dst + i) = *(const unsigned long long *)((const char *)src + i); }
		return dst;
	}
	for (i = 0; i < C39_OWN_MEMCPY; i++) { if (i >= n) break; ((char *)dst)[i] = ((const char *)src)[i]; }
	return dst;
}
#endif

#if defined(C39_OWN_MEMSET) && !defined(VF_NATIVE)
/* memset: CBMC's built-in goes through __CPROVER_array_set/array_replace on a variable-length array — the array
 * theory's Ackermann constraints then blow up on struct-typed targets.  Model: words for multiples of 8,
 * a typed store for 28 (sockaddr_in6), bytes otherwise; capacity C39_OWN_MEMSET bytes. */
void *memset(void *dst, int c, size_t n)
{
	size_t i;
	unsigned long long w = (unsigned char)c; 
	__CPROVER_assert(n <= C39_OWN_MEMSET, "memset model: length within the unit's capacity");
	__CPROVER_assert(n == 0 || __CPROVER_w_ok(dst, n), "memset: destination writable for n bytes");
	w |= w << 8; w |= w << 16; w |= w << 32;
	if (n == sizeof(struct sockaddr_storage) && c == 0) { struct sockaddr_storage z = {0}; *(struct sockaddr_storage *)dst = z; return dst; }   /* one typed store */
	if (n == 28) { struct c39_b28_ v; v.a = w; v.b = w; v.c = w; v.d = (unsigned)w; *(struct c39_b28_ *)dst = v; return dst; }
	if ((n & 7) == 0) {
		for (i = 0; i < C39_OWN_MEMSET; i += 8) { if (i >= n) break; *(unsigned long long *)((char *)dst + i) = w; }
		return dst;
	}
	for (i = 0; i < C39_OWN_MEMSET; i++) { if (i >= n) break; ((char *)dst)[i] = (char)c; }
	return dst;
}
#endif

#ifdef C39_USE_PSP
int g_psp_calls; const char *g_psp_arg;
/* the real function clears *outlen bytes first; every caller in evdns.c passes a sockaddr_storage */
static void c39_zero_(void *p, int n)
{
	struct sockaddr_storage zero_ss = {0};     /* one typed store instead of a byte loop (a byte loop into a struct member is very expensive) */
	__CPROVER_assert(n == (int)sizeof(struct sockaddr_storage), "evutil_parse_sockaddr_port model: *outlen == sizeof(sockaddr_storage) at every call site in evdns.c");
	*(struct sockaddr_storage *)p = zero_ss;
}
int evutil_parse_sockaddr_port(const char *str, struct sockaddr *out, int *outlen)
{
	int i;
	__CPROVER_assert(str != NULL, "evutil_parse_sockaddr_port: string argument is not NULL");
	g_psp_calls++; g_psp_arg = str;
	if (!IN.psp_ok)
		return -1;
	if (IN.psp_v6) {
		struct sockaddr_in6 s6;
		memset(&s6, 0, sizeof(s6));
		s6.sin6_family = AF_INET6;
		s6.sin6_port = htons(IN.psp_port);
		s6.sin6_scope_id = IN.psp_scope;
		for (i = 0; i < 16; i++) s6.sin6_addr.s6_addr[i] = IN.psp_addr[i];
		if (*outlen < (int)sizeof(s6)) return -1;
		c39_zero_(out, *outlen);
		*(struct sockaddr_in6 *)out = s6;
		*outlen = (int)sizeof(s6);
	} else {
		struct sockaddr_in s4;
		memset(&s4, 0, sizeof(s4));
		s4.sin_family = AF_INET;
		s4.sin_port = htons(IN.psp_port);
		s4.sin_addr.s_addr = ((ev_uint32_t)IN.psp_addr[0]) | ((ev_uint32_t)IN.psp_addr[1] << 8) | ((ev_uint32_t)IN.psp_addr[2] << 16) | ((ev_uint32_t)IN.psp_addr[3] << 24);
		if (*outlen < (int)sizeof(s4)) return -1;
		c39_zero_(out, *outlen);
		*(struct sockaddr_in *)out = s4;
		*outlen = (int)sizeof(s4);
	}
	return 0;
}
/* struct in fields the unit declares: int psp_ok; int psp_v6; unsigned char psp_addr[16]; unsigned short psp_port; unsigned psp_scope; */
#endif

#endif
