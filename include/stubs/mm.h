/* stubs/mm.h — event_mm_* live in event.c; for every other TU they are modelled as bodies
 * over the verifier's own malloc/free with failure drawn from the choice stream (DESIGN §5,
 * P11: bodies, not contracts).  g_mm_live counts live allocations made through them (ghost).
 * Define VF_MM_NOFAIL before including to model an allocator that always succeeds. */
#ifndef VF_STUB_MM_H_
#define VF_STUB_MM_H_
#include <stdlib.h>
#include <string.h>
#include "mm-internal.h"
long g_mm_live;      /* ghost: allocations minus frees through event_mm_* */
long g_mm_allocs;    /* ghost: successful allocations */
long g_mm_frees;     /* ghost: frees of non-NULL */
#define VF_MM_RESET() do { g_mm_live = 0; g_mm_allocs = 0; g_mm_frees = 0; } while (0)
#ifdef VF_MM_NOFAIL
#define VF_MM_FAIL_() 0
#else
#define VF_MM_FAIL_() (VF_CHOOSE() & 1u)
#endif
void *event_mm_malloc_(size_t sz)
{
	void *p;
	if (sz == 0) return NULL;
	if (VF_MM_FAIL_()) { errno = ENOMEM; return NULL; }
	p = malloc(sz);
#ifndef VF_NATIVE
	__CPROVER_assume(p != NULL);
#endif
	g_mm_live++; g_mm_allocs++;
	return p;
}
void *event_mm_calloc_(size_t count, size_t size)
{
	void *p;
	if (count == 0 || size == 0) return NULL;
	if (count > ((size_t)-1) / size) { errno = ENOMEM; return NULL; }
	if (VF_MM_FAIL_()) { errno = ENOMEM; return NULL; }
	p = calloc(count, size);
#ifndef VF_NATIVE
	__CPROVER_assume(p != NULL);
#endif
	g_mm_live++; g_mm_allocs++;
	return p;
}
void event_mm_free_(void *p)
{
	if (p) { g_mm_live--; g_mm_frees++; }
	free(p);
}
#ifndef VF_MM_NO_REALLOC
void *event_mm_realloc_(void *p, size_t sz)
{
	void *q;
	if (VF_MM_FAIL_()) { errno = ENOMEM; return NULL; }
	q = realloc(p, sz);
#ifndef VF_NATIVE
	__CPROVER_assume(q != NULL || sz == 0);
#endif
	if (!p && q) { g_mm_live++; g_mm_allocs++; }
	return q;
}
#endif
#ifndef VF_MM_NO_STRDUP
char *event_mm_strdup_(const char *str)
{
	size_t n; char *p;
	if (!str) { errno = EINVAL; return NULL; }
	n = strlen(str);
	p = event_mm_malloc_(n + 1);
	if (p) memcpy(p, str, n + 1);
	return p;
}
#endif
#endif
