/* stubs/c15_sys.h — models of everything the c15/c16 units reach OUTSIDE buffer.c (bodies; include after
 * contracts/c15_shape.h).  System calls arrive here through stubs/c15_sys_redirect.h.
 *   close / munmap            counted (m_sys); munmap must be given the mapping and its length (else m_sys.bad)
 *   mmap64 / pread / sysconf / evutil_fd_filesize   results drawn from the choice stream
 *   read / readv / write / writev / sendfile / ioctl(FIONREAD)   one call is recorded completely in m_io (what was
 *       asked: fd, vectors) and answered with -1 + any errno, or any count in [0, sum of lengths] (choice stream)
 *   event_deferred_cb_cancel_/schedule_, bufferevent_incref/decref   counted (m_dc)
 * Trusted base item "system calls". */
#ifndef VF_STUB_C15_SYS_H_
#define VF_STUB_C15_SYS_H_
long m_pread_done;     /* bytes delivered by pread so far */
long m_fsize; int m_fsize_calls;   /* what evutil_fd_filesize answered */
static void c15_io_reset(void);
long m_mmap_len, m_mmap_off; int m_mmap_fd;
#define C15_SYS_RESET() do { m_sys.close = m_sys.munmap = m_sys.mmap = m_sys.pread = m_sys.bad = 0; m_sys.last_closed_fd = -1; m_pread_done = 0; m_fsize = 0; m_fsize_calls = 0; m_mmap_len = m_mmap_off = 0; m_mmap_fd = -1; c15_io_reset(); } while (0)
#ifndef C15_PAGESIZE
#define C15_PAGESIZE 4096
#endif
/* one recorded I/O call */
#define C15_IO_MAXV 4
#define C15_IO_READ 1
#define C15_IO_READV 2
#define C15_IO_WRITE 3
#define C15_IO_WRITEV 4
#define C15_IO_SENDFILE 5
struct c15_io { int calls; int kind; int fd; int in_fd; int nvec; size_t len[C15_IO_MAXV]; size_t total; long ret; long off_in; int ioctl_calls; int ioctl_ret; int ioctl_n; } m_io;
const void *m_io_base[C15_IO_MAXV];
static void c15_io_reset(void)
{
	int k; m_io.calls = 0; m_io.kind = 0; m_io.fd = -1; m_io.in_fd = -1; m_io.nvec = 0; m_io.total = 0; m_io.ret = 0; m_io.off_in = 0;
	m_io.ioctl_calls = 0; m_io.ioctl_ret = 0; m_io.ioctl_n = 0;
	for (k = 0; k < C15_IO_MAXV; k++) { m_io.len[k] = 0; m_io_base[k] = NULL; }
}
/* result of a transfer of at most `total` bytes: -1 with an arbitrary errno, or any count in [0, min(total, 0x7ffff000)]
 * (Linux never transfers more than MAX_RW_COUNT per call) */
static long c15_io_result(size_t total)
{
	unsigned c = VF_CHOOSE();
	size_t n;
	if (c & 1u) { errno = (int)(VF_CHOOSE() & 0xffu); m_io.ret = -1; return -1; }
	n = (size_t)VF_CHOOSE();
	__CPROVER_assume(n <= total && n <= (size_t)0x7ffff000);
	m_io.ret = (long)n;
	return (long)n;
}
ssize_t c15_read(int fd, void *buf, size_t n)
{
	__CPROVER_assert(m_io.calls == 0, "at most one transfer system call per evbuffer call");
	m_io.calls++; m_io.kind = C15_IO_READ; m_io.fd = fd; m_io.nvec = 1; m_io_base[0] = buf; m_io.len[0] = n; m_io.total = n;
	return c15_io_result(n);
}
ssize_t c15_write(int fd, const void *buf, size_t n)
{
	__CPROVER_assert(m_io.calls == 0, "at most one transfer system call per evbuffer call");
	m_io.calls++; m_io.kind = C15_IO_WRITE; m_io.fd = fd; m_io.nvec = 1; m_io_base[0] = buf; m_io.len[0] = n; m_io.total = n;
	return c15_io_result(n);
}
static ssize_t c15_iov_(int kind, int fd, const struct iovec *iov, int n)
{
	int k; size_t total = 0;
	__CPROVER_assert(m_io.calls == 0, "at most one transfer system call per evbuffer call");
	__CPROVER_assert(n >= 0 && n <= C15_IO_MAXV, "readv/writev: vector count within what the shape can produce");
	m_io.calls++; m_io.kind = kind; m_io.fd = fd; m_io.nvec = n;
	for (k = 0; k < C15_IO_MAXV; k++) { if (k >= n) break; m_io_base[k] = iov[k].iov_base; m_io.len[k] = iov[k].iov_len; total += iov[k].iov_len; }
	m_io.total = total;
	return c15_io_result(total);
}
ssize_t c15_readv(int fd, const struct iovec *iov, int n) { return c15_iov_(C15_IO_READV, fd, iov, n); }
ssize_t c15_writev(int fd, const struct iovec *iov, int n) { return c15_iov_(C15_IO_WRITEV, fd, iov, n); }
ssize_t c15_sendfile(int out_fd, int in_fd, off_t *offset, size_t count)
{
	long r;
	__CPROVER_assert(m_io.calls == 0, "at most one transfer system call per evbuffer call");
	m_io.calls++; m_io.kind = C15_IO_SENDFILE; m_io.fd = out_fd; m_io.in_fd = in_fd; m_io.nvec = 0; m_io.total = count; m_io.off_in = (long)*offset;
	r = c15_io_result(count);
	if (r > 0) *offset += r;
	return r;
}
/* ioctl(FIONREAD): fails, or reports any int */
int c15_ioctl(int fd, unsigned long req, int *argp)
{
	(void)fd; (void)req;
	m_io.ioctl_calls++;
	if (VF_CHOOSE() & 1u) { errno = (int)(VF_CHOOSE() & 0xffu); m_io.ioctl_ret = -1; return -1; }
	*argp = (int)VF_CHOOSE(); m_io.ioctl_n = *argp; m_io.ioctl_ret = 0;
	return 0;
}
int c15_close(int fd) { m_sys.close++; m_sys.last_closed_fd = fd; return 0; }     /* (buffer.c ignores the result) */
int c15_munmap(void *addr, size_t len)
{
	m_sys.munmap++;
	if (addr != (void *)SEGDATA || addr != SEG.mapping || len != (size_t)(SEG.length + (SEG.file_offset % C15_PAGESIZE))) m_sys.bad++;
	return 0;                  /* (a failing munmap only produces a warning in buffer.c) */
}
void *c15_mmap64(void *addr, size_t len, int prot, int flags, int fd, off_t offset)
{
	(void)addr; (void)prot; (void)flags;
	m_sys.mmap++; m_mmap_len = (long)len; m_mmap_off = (long)offset; m_mmap_fd = fd;
	if (VF_CHOOSE() & 1u) { errno = ENOMEM; return MAP_FAILED; }
	return SEGDATA;
}

ssize_t c15_pread(int fd, void *buf, size_t n, off_t offset)
{
	unsigned c = VF_CHOOSE(); size_t k;
	(void)fd; (void)offset;
	m_sys.pread++;
	if ((const void *)buf != (const void *)(SEGDATA + m_pread_done)) m_sys.bad++;      /* reads continue where the last one stopped */
	if (c & 1u) { errno = EIO; return -1; }
	k = (((size_t)VF_CHOOSE()) << 32) | (size_t)VF_CHOOSE();
	__CPROVER_assume(k <= n);
#ifdef C15_PREAD_MAXCALLS      /* modelling bound: the file is delivered in at most this many pread calls (bounds the read loop) */
	if (m_sys.pread >= C15_PREAD_MAXCALLS) __CPROVER_assume(k == n);
#endif
	m_pread_done += (long)k;
	return (ssize_t)k;
}
long c15_sysconf(int name) { (void)name; return C15_PAGESIZE; }
ev_off_t evutil_fd_filesize(evutil_socket_t fd)
{
	unsigned c = VF_CHOOSE(); ev_off_t v;
	(void)fd;
	m_fsize_calls++;
	if (c & 1u) { m_fsize = -1; return -1; }
	v = (ev_off_t)((((ev_uint64_t)VF_CHOOSE()) << 32) | VF_CHOOSE());
	__CPROVER_assume(v >= 0);
	m_fsize = (long)v;
	return v;
}
/* outside buffer.c: event.c / bufferevent.c */
void event_deferred_cb_cancel_(struct event_base *base, struct event_callback *cb) { (void)base; (void)cb; m_dc.cancel++; }
int event_deferred_cb_schedule_(struct event_base *base, struct event_callback *cb) { (void)base; (void)cb; m_dc.sched++; return (int)(VF_CHOOSE() & 1u); }
void bufferevent_incref(struct bufferevent *bev) { (void)bev; m_dc.bevref++; }
int bufferevent_decref(struct bufferevent *bev) { (void)bev; m_dc.bevref--; return 0; }
#endif
