/* stubs/c40_libc_ref.h — reference bodies of the libc functions evutil.c's address-text code calls and
 * for which CBMC 6.11 has no (usable) body (DESIGN P31): sscanf for exactly "%u.%u.%u.%u%c", strtol /
 * strtoul / atoi, vsnprintf for the conversions %d %u %x %s %c, and libevent's own event_strlcpy_
 * (strlcpy.c, outside the TU).  Written from ISO C (7.21.6.2 fscanf, 7.22.1.4 strtol) — TRUSTED.
 * Two places where ISO C leaves the behaviour open are modelled as glibc 2.36+ behaves, because that
 * is the library this build runs on:
 *   - "%u" with a value that does not fit: the digits are converted as by strtoul (saturating at
 *     ULONG_MAX, an optional '-' negates) and the unsigned long is TRUNCATED to unsigned int;
 *   - strtol/strtoul set errno = ERANGE and saturate.
 * Under VF_NATIVE (gcc replay) none of the libc bodies is compiled: the platform's own sscanf/strtol/
 * vsnprintf run, so a native replay confirms a counterexample against the real library.
 * Also here: memcpy/memmove/memset with bounded byte loops (UNIT_GUIDE pitfall 2), CBMC only.
 * Options (define before including): VF_MEM_CAP  capacity of the mem* loops (default 32). */
#ifndef VF_STUB_C40_LIBC_REF_H_
#define VF_STUB_C40_LIBC_REF_H_
#include <stdarg.h>
#include <stddef.h>
#include <limits.h>

#ifndef VF_MEM_CAP
#define VF_MEM_CAP 32
#endif

/* libevent's strlcpy replacement (strlcpy.c): copy at most siz-1 bytes, always NUL-terminate when siz > 0,
 * return strlen(src).  Needed natively too (strlcpy.c is not linked into the replay). */
#ifndef VF_C40_NO_STRLCPY
size_t event_strlcpy_(char *dst, const char *src, size_t siz)
{
	size_t i = 0, n = 0;
	while (src[n] != 0) n++;
	if (siz != 0) {
		while (i + 1 < siz && i < n) { dst[i] = src[i]; i++; }
		dst[i] = 0;
	}
	return n;
}
#endif

#ifndef VF_NATIVE
/* ------------------------------------------------------------------ character classes ("C" locale) */
static int vf_isspace_c(int c) { return c == ' ' || (c >= '\t' && c <= '\r'); }
static int vf_digitval(int c, int base)
{
	int d;
	if (c >= '0' && c <= '9') d = c - '0';
	else if (c >= 'a' && c <= 'z') d = c - 'a' + 10;
	else if (c >= 'A' && c <= 'Z') d = c - 'A' + 10;
	else return -1;
	return d < base ? d : -1;
}

/* ------------------------------------------------------------------ strtoul core (ISO C 7.22.1.4)
 * Subject sequence: optional white space, optional sign, for base 16 an optional 0x/0X (only when a hex
 * digit follows), then the longest run of digits of the base.  *endp = nptr when there is no digit. */
static unsigned long vf_strtoul_core(const char *nptr, const char **endp, int base, int *neg, int *ovf)
{
	const char *p = nptr, *start;
	unsigned long acc = 0;
	int d;
	__CPROVER_assert(base == 10 || base == 16, "libc reference: strtol/strtoul modelled for base 10 and 16 only");
	*neg = 0; *ovf = 0;
	while (vf_isspace_c((unsigned char)*p)) p++;
	if (*p == '+' || *p == '-') { *neg = (*p == '-'); p++; }
	if (base == 16 && p[0] == '0' && (p[1] == 'x' || p[1] == 'X') && vf_digitval((unsigned char)p[2], 16) >= 0) p += 2;
	start = p;
	while ((d = vf_digitval((unsigned char)*p, base)) >= 0) {
		if (base == 16) {
			if (acc >> 60) *ovf = 1; else acc = (acc << 4) | (unsigned long)d;
		} else {
			if (acc > 1844674407370955161UL || (acc == 1844674407370955161UL && d > 5)) *ovf = 1;
			else acc = (acc << 3) + (acc << 1) + (unsigned long)d;
		}
		p++;
	}
	if (p == start) { *endp = nptr; return 0; }
	*endp = p;
	return acc;
}
long strtol(const char *nptr, char **endptr, int base)
{
	const char *e; int neg, ovf;
	unsigned long v = vf_strtoul_core(nptr, &e, base, &neg, &ovf);
	if (endptr) *endptr = (char *)e;
	if (ovf || (!neg && v > (unsigned long)LONG_MAX) || (neg && v > (unsigned long)LONG_MAX + 1UL)) { errno = ERANGE; return neg ? LONG_MIN : LONG_MAX; }
	return neg ? (long)(0UL - v) : (long)v;
}
unsigned long strtoul(const char *nptr, char **endptr, int base)
{
	const char *e; int neg, ovf;
	unsigned long v = vf_strtoul_core(nptr, &e, base, &neg, &ovf);
	if (endptr) *endptr = (char *)e;
	if (ovf) { errno = ERANGE; return ULONG_MAX; }
	return neg ? 0UL - v : v;
}
int atoi(const char *nptr) { return (int)strtol(nptr, (char **)0, 10); }

/* ------------------------------------------------------------------ sscanf, format "%u.%u.%u.%u%c" only
 * %u: skip white space; optional sign; >= 1 decimal digit, else matching failure; value as strtoul, stored
 * truncated to unsigned.  Literal '.': must match.  %c: next byte, no white-space skip; end of input =
 * input failure.  Return value: number of conversions stored, EOF if input ends before the first one. */
int sscanf(const char *s, const char *fmt, ...)
{
	va_list ap; unsigned *o[4]; char *oc; const char *p = s; int k, n = 0;
	__CPROVER_assert(fmt[0] == '%' && fmt[1] == 'u' && fmt[2] == '.' && fmt[3] == '%' && fmt[4] == 'u' && fmt[5] == '.' &&
	    fmt[6] == '%' && fmt[7] == 'u' && fmt[8] == '.' && fmt[9] == '%' && fmt[10] == 'u' && fmt[11] == '%' && fmt[12] == 'c' && fmt[13] == 0,
	    "libc reference: sscanf modelled for the format \"%u.%u.%u.%u%c\" only");
	va_start(ap, fmt);
	o[0] = va_arg(ap, unsigned *); o[1] = va_arg(ap, unsigned *); o[2] = va_arg(ap, unsigned *); o[3] = va_arg(ap, unsigned *);
	oc = va_arg(ap, char *);
	va_end(ap);
	for (k = 0; k < 4; k++) {
		unsigned long acc = 0; int neg = 0, nd = 0, d;
		if (k > 0) {
			if (*p != '.') return n;
			p++;
		}
		while (vf_isspace_c((unsigned char)*p)) p++;
		if (*p == 0) return n == 0 ? -1 : n;
		if (*p == '+' || *p == '-') { neg = (*p == '-'); p++; }
		while ((d = vf_digitval((unsigned char)*p, 10)) >= 0) {
			if (acc > 1844674407370955161UL || (acc == 1844674407370955161UL && d > 5)) acc = ULONG_MAX;
			else acc = (acc << 3) + (acc << 1) + (unsigned long)d;
			nd++; p++;
		}
		if (nd == 0) return n;
		*o[k] = (unsigned)(neg ? 0UL - acc : acc);
		n++;
	}
	if (*p == 0) return n;
	*oc = *p;
	return n + 1;
}

/* ------------------------------------------------------------------ vsnprintf: %d %u %x %s %c %% and literals
 * Writes at most n-1 bytes and a NUL (when n > 0); returns the length the full output would have. */
static char *vf_pf_buf; static size_t vf_pf_n, vf_pf_pos;
static void vf_pf_out(char c) { if (vf_pf_pos + 1 < vf_pf_n) vf_pf_buf[vf_pf_pos] = c; vf_pf_pos++; }
unsigned char nondet_uchar(void);
static void vf_pf_udec(unsigned long v)
{
	/* decimal digits by guess-and-verify (SAT-friendly: no division): the ten digits are the unique d[] with
	 * d[i] <= 9 and sum d[i]*10^i == v; the first emitted digit is the most significant non-zero one */
	unsigned char d[10]; unsigned long acc = 0; int k, started = 0;
	__CPROVER_assert(v <= 0xffffffffUL, "libc reference: vsnprintf decimal conversion modelled for values < 2^32");
	for (k = 9; k >= 0; k--) { d[k] = nondet_uchar(); __CPROVER_assume(d[k] <= 9); acc = (acc << 3) + (acc << 1) + d[k]; }
	__CPROVER_assume(acc == v);
	for (k = 9; k >= 0; k--)
		if (d[k] != 0 || started || k == 0) { vf_pf_out((char)('0' + d[k])); started = 1; }
}
static void vf_pf_hex(unsigned v)
{
	int sh, started = 0;
	for (sh = 28; sh >= 0; sh -= 4) {
		unsigned d = (v >> sh) & 0xfu;
		if (d != 0 || started || sh == 0) { vf_pf_out((char)(d < 10 ? '0' + d : 'a' + (d - 10))); started = 1; }
	}
}
int vsnprintf(char *buf, size_t n, const char *fmt, va_list ap)
{
	size_t i = 0;
	vf_pf_buf = buf; vf_pf_n = n; vf_pf_pos = 0;
	while (fmt[i] != 0) {
		if (fmt[i] != '%') { vf_pf_out(fmt[i]); i++; continue; }
		i++;
		if (fmt[i] == 'd') { int v = va_arg(ap, int); if (v < 0) { vf_pf_out('-'); vf_pf_udec(0UL - (unsigned long)(long)v); } else vf_pf_udec((unsigned long)v); }
		else if (fmt[i] == 'u') { unsigned v = va_arg(ap, unsigned); vf_pf_udec(v); }
		else if (fmt[i] == 'x') { unsigned v = va_arg(ap, unsigned); vf_pf_hex(v); }
		else if (fmt[i] == 'c') { int v = va_arg(ap, int); vf_pf_out((char)v); }
		else if (fmt[i] == 's') { const char *s = va_arg(ap, const char *); size_t j = 0; while (s[j] != 0) { vf_pf_out(s[j]); j++; } }
		else if (fmt[i] == '%') vf_pf_out('%');
		else __CPROVER_assert(0, "libc reference: vsnprintf conversion not modelled");
		i++;
	}
	if (n > 0) buf[vf_pf_pos < n ? vf_pf_pos : n - 1] = 0;
	__CPROVER_assert(vf_pf_pos <= (size_t)INT_MAX, "libc reference: vsnprintf result fits int");
	return (int)vf_pf_pos;
}

/* ------------------------------------------------------------------ mem* with bounded byte loops */
#ifndef VF_C40_NO_MEM
void *memcpy(void *dst, const void *src, size_t n)
{
	size_t i;
	__CPROVER_assert(n <= VF_MEM_CAP, "model capacity: memcpy length <= VF_MEM_CAP");
	__CPROVER_assert(n == 0 || (__CPROVER_r_ok(src, n) && __CPROVER_w_ok(dst, n)), "memcpy: source readable and destination writable for n bytes");
	for (i = 0; i < VF_MEM_CAP; i++) { if (i >= n) break; ((char *)dst)[i] = ((const char *)src)[i]; }
	return dst;
}
void *memmove(void *dst, const void *src, size_t n)
{
	size_t i; char tmp[VF_MEM_CAP];
	__CPROVER_assert(n <= VF_MEM_CAP, "model capacity: memmove length <= VF_MEM_CAP");
	__CPROVER_assert(n == 0 || (__CPROVER_r_ok(src, n) && __CPROVER_w_ok(dst, n)), "memmove: source readable and destination writable for n bytes");
	for (i = 0; i < VF_MEM_CAP; i++) { if (i >= n) break; tmp[i] = ((const char *)src)[i]; }
	for (i = 0; i < VF_MEM_CAP; i++) { if (i >= n) break; ((char *)dst)[i] = tmp[i]; }
	return dst;
}
void *memset(void *dst, int c, size_t n)
{
	size_t i;
	__CPROVER_assert(n <= VF_MEM_CAP, "model capacity: memset length <= VF_MEM_CAP");
	__CPROVER_assert(n == 0 || __CPROVER_w_ok(dst, n), "memset: destination writable for n bytes");
	for (i = 0; i < VF_MEM_CAP; i++) { if (i >= n) break; ((char *)dst)[i] = (char)c; }
	return dst;
}
#endif
#endif /* !VF_NATIVE */
#endif
