/* stubs/c12a_mem.h — include BEFORE buffer.c.  Redirects the memcpy/memmove calls written in
 * buffer.c to c12a_memcpy/c12a_memmove (same idea as the errno redirect in vf.h): libc's
 * memcpy with a symbolic length is imprecise and slow in CBMC 6.11 (UNIT_GUIDE pitfall 2).
 * A macro redirect rather than a definition of `memcpy` itself, so that compiler-generated
 * struct copies in the native replay keep using the real memcpy.
 * The bodies live in contracts/c12a_shape.h (bookkeeping: bounds-checked against the chain windows, logged,
 * no bytes moved). */
#ifndef VF_STUB_C12A_MEM_H_
#define VF_STUB_C12A_MEM_H_
#include <string.h>
void *c12a_memcpy(void *d, const void *s, size_t n);
void *c12a_memmove(void *d, const void *s, size_t n);
#undef memcpy
#undef memmove
#define memcpy(d, s, n) c12a_memcpy((d), (s), (n))
#define memmove(d, s, n) c12a_memmove((d), (s), (n))
#endif
