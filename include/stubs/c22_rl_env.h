/* stubs/c22_rl_env.h — environment for units over the real bufferevent_ratelim.c: ONE bufferevent (BEVP) with its
 * rate-limit record RL, a configuration CFG, a group GRP with up to 3 further members MB0..MB2 (each with its own RLMk).
 * Outside the TU, modelled as bodies over ghost state g_r:
 *  bufferevent.c  suspend/unsuspend_read_/write_: flag-word models (c18_suspend_*), counted per bufferevent
 *  event.c        event_base_gettimeofday_cached (time chosen by the unit), event_add/event_del/event_assign/event_initialized on the
 *                 refill events: ghost record
 *  evutil.c       evutil_weakrand_range_: REPLACED by its contract (c46_weakrand_range) in the units that reach it
 *  locks          stubs/lock.h (lock 1: the bufferevents' shared lock, lock 2: the group lock) with a TRY-aware front: a
 *                 try-lock may report "busy" (choice stream) */
#ifndef VF_C22_RL_ENV_H_
#define VF_C22_RL_ENV_H_
struct evbuffer { int vf_id; };
static struct bufferevent_private BEVP;
#define BEV (&BEVP.bev)
static struct bufferevent_rate_limit RL;
static struct ev_token_bucket_cfg CFG;
static struct bufferevent_rate_limit_group GRP;
/* separate objects, not arrays: an array of large structs updated through a symbolic index costs a whole-array mux per write */
static struct bufferevent_private MB0, MB1, MB2;
static struct bufferevent_rate_limit RLM0, RLM1, RLM2;
static struct event_base EVBASE;
static struct evbuffer INBUF;
struct vf_rl_ghost {
	long now_sec, now_usec;
	int sus_r[4], sus_w[4], unsus_r[4], unsus_w[4];      /* calls per bufferevent: 0..2 = MB[k], 3 = BEVP */
	unsigned short sus_r_what, sus_w_what, unsus_r_what, unsus_w_what;   /* last `what` */
	int order[4], norder;                                  /* position (1-based) of the first (un)suspend call on bufferevent k */
	int ev_ins, ev_timer, n_add, n_add_fail, n_del, n_assign; long tv_sec, tv_usec;   /* BEVP's refill event */
	int add_may_fail;
	int g_ev_add;                                          /* group master refill event adds */
	int try_may_fail, try_fails;
	int gsr_calls, gsw_calls, gur_calls, guw_calls;        /* ghost of the REPLACED group (un)suspend functions */
};
struct vf_rl_ghost g_r;
static void vf_rl_ghost_reset(void)
{
	g_r.now_sec = g_r.now_usec = 0;
	g_r.sus_r[0] = g_r.sus_r[1] = g_r.sus_r[2] = g_r.sus_r[3] = 0; g_r.sus_w[0] = g_r.sus_w[1] = g_r.sus_w[2] = g_r.sus_w[3] = 0;
	g_r.unsus_r[0] = g_r.unsus_r[1] = g_r.unsus_r[2] = g_r.unsus_r[3] = 0; g_r.unsus_w[0] = g_r.unsus_w[1] = g_r.unsus_w[2] = g_r.unsus_w[3] = 0;
	g_r.sus_r_what = g_r.sus_w_what = g_r.unsus_r_what = g_r.unsus_w_what = 0;
	g_r.order[0] = g_r.order[1] = g_r.order[2] = g_r.order[3] = 0; g_r.norder = 0;
	g_r.ev_ins = g_r.ev_timer = g_r.n_add = g_r.n_add_fail = g_r.n_del = g_r.n_assign = 0; g_r.tv_sec = g_r.tv_usec = 0; g_r.add_may_fail = 0; g_r.g_ev_add = 0;
	g_r.try_may_fail = g_r.try_fails = 0; g_r.gsr_calls = g_r.gsw_calls = g_r.gur_calls = g_r.guw_calls = 0;
}
static int vf_bidx(const struct bufferevent *b)
{
	__CPROVER_assert(b == BEV || b == &MB0.bev || b == &MB1.bev || b == &MB2.bev, "a bufferevent of this unit");
	return b == &MB0.bev ? 0 : b == &MB1.bev ? 1 : b == &MB2.bev ? 2 : 3;
}
static struct bufferevent_private *vf_bp(int k) { return k == 3 ? &BEVP : k == 0 ? &MB0 : k == 1 ? &MB1 : &MB2; }
#define VF_ORDER(k) do { if (!g_r.order[k]) g_r.order[k] = ++g_r.norder; } while (0)
void bufferevent_suspend_read_(struct bufferevent *b, bufferevent_suspend_flags what) { int k = vf_bidx(b); g_r.sus_r[k]++; g_r.sus_r_what = what; VF_ORDER(k); vf_bp(k)->read_suspended |= what; }
void bufferevent_suspend_write_(struct bufferevent *b, bufferevent_suspend_flags what) { int k = vf_bidx(b); g_r.sus_w[k]++; g_r.sus_w_what = what; VF_ORDER(k); vf_bp(k)->write_suspended |= what; }
void bufferevent_unsuspend_read_(struct bufferevent *b, bufferevent_suspend_flags what) { int k = vf_bidx(b); g_r.unsus_r[k]++; g_r.unsus_r_what = what; VF_ORDER(k); vf_bp(k)->read_suspended &= (bufferevent_suspend_flags)~what; }
void bufferevent_unsuspend_write_(struct bufferevent *b, bufferevent_suspend_flags what) { int k = vf_bidx(b); g_r.unsus_w[k]++; g_r.unsus_w_what = what; VF_ORDER(k); vf_bp(k)->write_suspended &= (bufferevent_suspend_flags)~what; }
int event_base_gettimeofday_cached(struct event_base *base, struct timeval *tv) { __CPROVER_assert(base == &EVBASE, "gettimeofday_cached: the base of this unit"); tv->tv_sec = g_r.now_sec; tv->tv_usec = g_r.now_usec; return 0; }
struct event_base *event_get_base(const struct event *ev) { __CPROVER_assert(ev == &GRP.master_refill_event, "event_get_base: the group's refill event"); return &EVBASE; }
int event_add(struct event *ev, const struct timeval *tv)
{
	if (ev == &GRP.master_refill_event) { g_r.g_ev_add++; return 0; }
	__CPROVER_assert(ev == &BEVP.rate_limiting->refill_bucket_event, "event_add: the refill event of this bufferevent");
	g_r.n_add++;
	if (g_r.add_may_fail && (VF_CHOOSE() & 1u)) { g_r.n_add_fail++; return -1; }
	g_r.ev_ins = 1;
	if (tv) { g_r.ev_timer = 1; g_r.tv_sec = tv->tv_sec; g_r.tv_usec = tv->tv_usec; }
	return 0;
}
int event_del(struct event *ev) { __CPROVER_assert(ev == &BEVP.rate_limiting->refill_bucket_event, "event_del: the refill event of this bufferevent"); g_r.n_del++; g_r.ev_ins = g_r.ev_timer = 0; return 0; }
int event_initialized(const struct event *ev) { return (ev->ev_flags & EVLIST_INIT) ? 1 : 0; }
int event_assign(struct event *ev, struct event_base *base, evutil_socket_t fd, short events, event_callback_fn cb, void *arg)
{
	__CPROVER_assert(ev == &BEVP.rate_limiting->refill_bucket_event && base == &EVBASE && fd == -1 && events == EV_FINALIZE && arg == (void *)&BEVP, "event_assign: the refill timer of this bufferevent");
	__CPROVER_assert(!g_r.ev_ins, "event_assign: never on an added event");
	(void)cb; g_r.n_assign++; ev->ev_flags = EVLIST_INIT;
	return 0;
}
int evbuffer_set_max_read(struct evbuffer *buf, size_t max) { (void)buf; return max > INT_MAX ? -1 : 0; }
/* TRY-aware lock front */
static int vf_rl_lock(unsigned mode, void *lock)
{
	if ((mode & EVTHREAD_TRY) && g_r.try_may_fail && (VF_CHOOSE() & 1u)) { g_r.try_fails++; return 1; }
	return vf_lock(mode, lock);
}
#define VF_RL_INSTALL() do { VF_INSTALL_LOCKS(); evthread_lock_fns_.lock = vf_rl_lock; vf_rl_ghost_reset(); } while (0)
#endif
