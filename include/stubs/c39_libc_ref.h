/* stubs/c39_libc_ref.h — ISO-C / POSIX reference bodies for exactly the libc string and number
 * functions that the resolver-configuration code of evdns.c / evutil.c calls (DESIGN §3 P31:
 * CBMC 6.11 has no usable body for strtok_r, strtol, strtod, strspn, strpbrk).  TRUSTED BASE:
 * these bodies ARE the meaning of the libc calls in every unit that includes this header.
 *
 *   strlen strcmp strncmp strchr            ISO C 7.24 (byte loops; natural loops, the unit's
 *                                            --unwind K with unwinding assertions bounds them)
 *   strtok_r                                 POSIX.1-2017 (skip delimiters, cut the token in place)
 *   strtol (base 10 only; asserted)          ISO C 7.22.1.4, "C" locale: isspace*, [+-], digits,
 *                                            saturates at LONG_MIN/LONG_MAX with errno = ERANGE,
 *                                            no digits => 0 and *endptr = nptr
 *   strtod                                   MODEL, not a parser: returns an arbitrary double
 *                                            (any finite value, +-inf, NaN) and an arbitrary end
 *                                            position inside the string, both taken from the input
 *                                            record (body in contracts/c39_option_ref.h), with the only
 *                                            ISO guarantees the callers rely on: the end pointer lies
 *                                            in [nptr, nptr+strlen(nptr)] and "no conversion" gives 0
 *                                            with end == nptr.  Every behaviour of a real strtod
 *                                            is included (over-approximation).
 *
 * Natively (replay) the real libc runs for everything except strtod (the model is kept so that the
 * counterexample's IN record determines the run).
 */
#ifndef VF_STUB_C39_LIBC_REF_H_
#define VF_STUB_C39_LIBC_REF_H_
#include <stddef.h>
#include <limits.h>

/* ghost: what the last strtol call answered (contracts speak about "the value libc assigns to this numeral") */
long g_strtol_val; const char *g_strtol_arg; size_t g_strtol_calls;
#ifdef VF_NATIVE
#include <stdlib.h>
/* natively the real libc parses (strtoll is the same parser for LP64 long); the ghosts are still recorded */
long strtol(const char *nptr, char **endptr, int base)
{
	long v = (long)strtoll(nptr, endptr, base);
	g_strtol_val = v; g_strtol_arg = nptr; g_strtol_calls++;
	return v;
}
#endif
#ifndef VF_NATIVE
size_t strlen(const char *s)
{
	size_t n = 0;
	while (s[n] != '\0')
		n++;
	return n;
}

int strcmp(const char *a, const char *b)
{
	size_t i = 0;
	while (a[i] != '\0' && a[i] == b[i])
		i++;
	return (int)(unsigned char)a[i] - (int)(unsigned char)b[i];
}

int strncmp(const char *a, const char *b, size_t n)
{
	size_t i = 0;
	while (i < n) {
		if (a[i] != b[i])
			return (int)(unsigned char)a[i] - (int)(unsigned char)b[i];
		if (a[i] == '\0')
			return 0;
		i++;
	}
	return 0;
}

char *strchr(const char *s, int c)
{
	size_t i = 0;
	for (;;) {
		if (s[i] == (char)c)
			return (char *)s + i;
		if (s[i] == '\0')
			return NULL;
		i++;
	}
}

/* membership in a delimiter set of at most 3 characters (evdns.c only ever passes " \t"): no inner loop */
static int vf_in_set_(char c, const char *set)
{
	if (set[0] == '\0') return 0;
	if (set[0] == c) return 1;
	if (set[1] == '\0') return 0;
	if (set[1] == c) return 1;
	if (set[2] == '\0') return 0;
	if (set[2] == c) return 1;
	__CPROVER_assert(set[3] == '\0', "strtok_r reference: delimiter sets of at most 3 characters are modelled");
	return 0;
}

char *strtok_r(char *s, const char *delim, char **save)
{
	char *tok;
	if (s == NULL)
		s = *save;
	while (*s != '\0' && vf_in_set_(*s, delim))      /* s += strspn(s, delim) */
		s++;
	if (*s == '\0') {
		*save = s;
		return NULL;
	}
	tok = s;
	while (*s != '\0' && !vf_in_set_(*s, delim))     /* s += strcspn(s, delim) */
		s++;
	if (*s == '\0') {
		*save = s;
		return tok;
	}
	*s = '\0';
	*save = s + 1;
	return tok;
}

static int vf_isspace_(char c)
{
	return c == ' ' || c == '\t' || c == '\n' || c == '\v' || c == '\f' || c == '\r';
}

static long vf_strtol_(const char *nptr, char **endptr, int base);
long strtol(const char *nptr, char **endptr, int base)
{
	long v = vf_strtol_(nptr, endptr, base);
	g_strtol_val = v; g_strtol_arg = nptr; g_strtol_calls++;
	return v;
}
static long vf_strtol_(const char *nptr, char **endptr, int base)
{
	const char *s = nptr;
	int neg = 0, any = 0, over = 0;
	unsigned long acc = 0;          /* magnitude */
	__CPROVER_assert(base == 10, "strtol reference: only base 10 is modelled");
	while (vf_isspace_(*s))
		s++;
	if (*s == '-') { neg = 1; s++; }
	else if (*s == '+') s++;
	{
		/* overflow test without a run-time division: acc*10 + d > cut  <=>  acc > cut/10 || (acc == cut/10 && d > cut%10) */
		const unsigned long cut = neg ? (unsigned long)LONG_MAX + 1ul : (unsigned long)LONG_MAX;
		const unsigned long cutoff = neg ? ((unsigned long)LONG_MAX + 1ul) / 10ul : (unsigned long)LONG_MAX / 10ul;
		const unsigned long cutlim = neg ? ((unsigned long)LONG_MAX + 1ul) % 10ul : (unsigned long)LONG_MAX % 10ul;
		(void)cut;
		while (*s >= '0' && *s <= '9') {
			unsigned long d = (unsigned long)(*s - '0');
			if (over || acc > cutoff || (acc == cutoff && d > cutlim)) over = 1;
			else acc = (acc << 3) + (acc << 1) + d;
			any = 1;
			s++;
		}
	}
	if (endptr)
		*endptr = (char *)(any ? s : nptr);
	if (!any)
		return 0;
	if (over) {
		errno = ERANGE;
		return neg ? LONG_MIN : LONG_MAX;
	}
	if (neg)
		return acc == (unsigned long)LONG_MAX + 1ul ? LONG_MIN : -(long)acc;
	return (long)acc;
}
#endif /* !VF_NATIVE */

/* ---- specification helper (not a libc function) */
/* Decimal integer in atoi's syntax: [white space] [+|-] digits, nothing after it; the empty string
 * counts as 0 (atoi("") == 0).  *ok = 0 for anything else.  The SYNTAX is decided here, independently
 * of the code; the VALUE of a well-formed numeral is the one the trusted strtol reference assigns to it
 * (stubs/c39_libc_ref.h records it in the ghost g_strtol_val: contracts say "(int) g_strtol_val") — an
 * independent re-computation of sum(digit*10^k) is a multiplier-equivalence problem that SAT does not
 * decide (UNIT_GUIDE pitfall 9), and running the reference twice is not much better. */
static void c39_ref_int(const char *s, int *ok)
{
	size_t i = 0; int nd = 0;
	if (s[0] == '\0') { *ok = 1; return; }
	while (s[i] == ' ' || s[i] == '\t' || s[i] == '\n' || s[i] == '\v' || s[i] == '\f' || s[i] == '\r')
		i++;
	if (s[i] == '-' || s[i] == '+') i++;
	while (s[i] >= '0' && s[i] <= '9') { nd++; i++; }
	*ok = (nd > 0 && s[i] == '\0');
}

/* strtod: see contracts/c39_option_ref.h (C39_STRTOD_MODEL) — the model needs the unit's ghost inputs. */

#endif
