/* stubs/c40g_snprintf.h — reference vsnprintf (%d %u %x %c %s %% and literal characters) for the units that reach
 * the IPv4-mapped / IPv4-compatible branch of evutil_inet_ntop, plus libevent's event_strlcpy_ (strlcpy.c, outside
 * the TU).  Written from ISO C 7.21.6.1/7.21.6.12 - TRUSTED.  Self-contained (do not combine with
 * stubs/c40_libc_ref.h, which defines the same functions).
 *
 * Why not stubs/c40_libc_ref.h: CBMC 6.11 stores variadic arguments UNPROMOTED.  evutil_inet_ntop passes
 * ev_uint8_t (addr->s6_addr[12..15], "%d") and ev_uint16_t (words[5], "%x") objects; they arrive as 1- and 2-byte
 * objects and a va_arg(ap, int) on them fails the pointer check.  C's default argument promotions turn both into an
 * int of the same (non-negative) value, so this body reads each integer argument AT ITS OWN SIZE and widens it:
 *   object size >= sizeof(int): va_arg(ap, int) / va_arg(ap, unsigned)
 *   object size 2:              (int) va_arg(ap, unsigned short)
 *   object size 1:              (int) va_arg(ap, unsigned char)
 * A 1-/2-byte argument is read as UNSIGNED: CBMC gives no access to the signedness of the argument expression; the
 * only sub-int arguments in evutil.c's snprintf calls are ev_uint8_t / ev_uint16_t.  Any other object size is an
 * obligation failure (an alarm, not a silent misread).
 * The decimal conversion is deterministic (repeated subtraction of powers of ten: no division, no nondeterminism).
 * Under VF_NATIVE (gcc replay) only event_strlcpy_ is compiled: the platform's own vsnprintf runs. */
#ifndef VF_STUB_C40G_SNPRINTF_H_
#define VF_STUB_C40G_SNPRINTF_H_
#include <stdarg.h>
#include <stddef.h>
#include <limits.h>

/* libevent's strlcpy replacement (strlcpy.c): copy at most siz-1 bytes, always NUL-terminate when siz > 0,
 * return strlen(src). */
size_t event_strlcpy_(char *dst, const char *src, size_t siz)
{
	size_t i = 0, n = 0;
	while (src[n] != 0) n++;
	if (siz != 0) {
		while (i + 1 < siz && i < n) { dst[i] = src[i]; i++; }
		dst[i] = 0;
	}
	return n;
}

#ifndef VF_NATIVE
static char *vf_g_buf; static size_t vf_g_n, vf_g_pos;
/* ISO C: at most n-1 characters are written, the rest is counted only */
static void vf_g_out(char c) { if (vf_g_pos + 1 < vf_g_n) vf_g_buf[vf_g_pos] = c; vf_g_pos++; }
static void vf_g_udec(unsigned v)
{
	static const unsigned p10[10] = { 1000000000u, 100000000u, 10000000u, 1000000u, 100000u, 10000u, 1000u, 100u, 10u, 1u };
	int k, j, started = 0;
	for (k = 0; k < 10; k++) {
		int d = 0;
		for (j = 0; j < 9; j++) if (v >= p10[k]) { v -= p10[k]; d++; }
		if (d != 0 || started || k == 9) { vf_g_out((char)('0' + d)); started = 1; }
	}
}
static void vf_g_hex(unsigned v)
{
	int sh, started = 0;
	for (sh = 28; sh >= 0; sh -= 4) {
		unsigned d = (v >> sh) & 0xfu;
		if (d != 0 || started || sh == 0) { vf_g_out((char)(d < 10 ? '0' + d : 'a' + (d - 10))); started = 1; }
	}
}
/* the next integer argument, read at its own size (see the head comment); s_: type read when it is a full int */
#define VF_G_ARG(ap, v, T) do { \
		void *argp_ = *(void **)(ap); size_t sz_ = __CPROVER_OBJECT_SIZE(argp_); \
		__CPROVER_assert(sz_ == 1 || sz_ == 2 || sz_ >= sizeof(int), "libc reference: integer variadic argument of 1, 2 or >= 4 bytes"); \
		if (sz_ >= sizeof(int)) v = va_arg(ap, T); \
		else if (sz_ == 2) v = (T)va_arg(ap, unsigned short); \
		else v = (T)va_arg(ap, unsigned char); \
	} while (0)
int vsnprintf(char *buf, size_t n, const char *fmt, va_list ap)
{
	size_t i = 0;
	vf_g_buf = buf; vf_g_n = n; vf_g_pos = 0;
	while (fmt[i] != 0) {
		if (fmt[i] != '%') { vf_g_out(fmt[i]); i++; continue; }
		i++;
		if (fmt[i] == 'd') {
			int v; VF_G_ARG(ap, v, int);
			if (v < 0) { vf_g_out('-'); vf_g_udec(0u - (unsigned)v); } else vf_g_udec((unsigned)v);
		}
		else if (fmt[i] == 'u') { unsigned v; VF_G_ARG(ap, v, unsigned); vf_g_udec(v); }
		else if (fmt[i] == 'x') { unsigned v; VF_G_ARG(ap, v, unsigned); vf_g_hex(v); }
		else if (fmt[i] == 'c') { int v; VF_G_ARG(ap, v, int); vf_g_out((char)v); }
		else if (fmt[i] == 's') { const char *s = va_arg(ap, const char *); size_t j = 0; while (s[j] != 0) { vf_g_out(s[j]); j++; } }
		else if (fmt[i] == '%') vf_g_out('%');
		else __CPROVER_assert(0, "libc reference: vsnprintf conversion not modelled");
		i++;
	}
	if (n > 0) buf[vf_g_pos < n ? vf_g_pos : n - 1] = 0;
	__CPROVER_assert(vf_g_pos <= (size_t)INT_MAX, "libc reference: vsnprintf result fits int");
	return (int)vf_g_pos;
}
#endif /* !VF_NATIVE */
#endif
