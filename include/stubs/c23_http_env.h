/* stubs/c23_http_env.h — the environment of ONE evhttp_connection + ONE evhttp_request for
 * book-keeping units over the real http.c (size accounting, body framing decisions).
 * http.c sees `struct evbuffer` as an opaque type and reaches buffers / the bufferevent only
 * through public entry points of buffer.c / bufferevent.c (outside the TU).  They are modelled
 * as stub BODIES over ghost LENGTHS (fully symbolic size_t): no byte contents here — units about
 * contents use stubs/evbuffer_model.h or stubs/c23_evb_bytes.h instead.
 *   E_IN   the connection's input buffer    (bufferevent_get_input)
 *   E_OUT  the connection's output buffer   (bufferevent_get_output)
 *   E_RIN  req->input_buffer                E_ROUT  req->output_buffer
 * EB[k].len ghost length; EB[k].drained bytes drained; EB[k].moved_in bytes appended by a buffer move;
 * bufferevent_enable/disable/setcb record their arguments.
 * Trusted: these bodies are the abstract behaviour C12 establishes for buffer.c (lengths only)
 * and the argument-recording view of bufferevent.c.
 * Include AFTER the real http.c and `struct in IN;`. */
#ifndef VF_STUB_C23_HTTP_ENV_H_
#define VF_STUB_C23_HTTP_ENV_H_
struct evbuffer { size_t len, drained, moved_in; };     /* ghost length, bytes drained, bytes appended by buffer moves */
enum { E_IN = 0, E_OUT = 1, E_RIN = 2, E_ROUT = 3, E_NBUF = 4 };
static struct evbuffer EB[E_NBUF];
/* the bufferevent is only ever passed back to these stubs: an opaque cookie, never dereferenced
 * (a real struct bufferevent object costs ~20 s of byte-operator lowering per unit: unions in struct event) */
static char vf_bev_cookie_;
#define BEV (*(struct bufferevent *)&vf_bev_cookie_)
int e_bev_enabled_calls, e_bev_disabled_calls; short e_bev_enable_what, e_bev_disable_what;
int e_setcb_calls;

#define VF_HTTP_ENV_RESET() do { EB[0].len = EB[0].drained = EB[0].moved_in = 0; EB[1].len = EB[1].drained = EB[1].moved_in = 0; \
	EB[2].len = EB[2].drained = EB[2].moved_in = 0; EB[3].len = EB[3].drained = EB[3].moved_in = 0; \
	e_bev_enabled_calls = e_bev_disabled_calls = 0; e_bev_enable_what = e_bev_disable_what = 0; e_setcb_calls = 0; } while (0)

#define E_CHK(b) __CPROVER_assert((b) == &EB[0] || (b) == &EB[1] || (b) == &EB[2] || (b) == &EB[3], "evbuffer argument is a buffer of this connection/request")
size_t evbuffer_get_length(const struct evbuffer *buf) { E_CHK(buf); return buf->len; }
int evbuffer_drain(struct evbuffer *buf, size_t len)
{
	size_t n;
	E_CHK(buf);
	n = len < buf->len ? len : buf->len;
	buf->len -= n; buf->drained += n;
	return 0;
}
/* move all of src to the end of dst (buffer.c evbuffer_add_buffer) */
int evbuffer_add_buffer(struct evbuffer *dst, struct evbuffer *src)
{
	E_CHK(dst); E_CHK(src);
	__CPROVER_assert(dst != src, "evbuffer_add_buffer: distinct buffers");
	dst->len += src->len; dst->moved_in += src->len; src->len = 0;
	return 0;
}
/* move the first min(datlen, len(src)) bytes of src to the end of dst */
int evbuffer_remove_buffer(struct evbuffer *src, struct evbuffer *dst, size_t datlen)
{
	size_t n;
	E_CHK(dst); E_CHK(src);
	n = datlen < src->len ? datlen : src->len;
	__CPROVER_assert(dst != src, "evbuffer_remove_buffer: distinct buffers");
	dst->len += n; dst->moved_in += n; src->len -= n;
	return (int)n;
}
struct evbuffer *bufferevent_get_input(struct bufferevent *b) { __CPROVER_assert(b == &BEV, "bufferevent_get_input: the connection's bufferevent"); return &EB[E_IN]; }
struct evbuffer *bufferevent_get_output(struct bufferevent *b) { __CPROVER_assert(b == &BEV, "bufferevent_get_output: the connection's bufferevent"); return &EB[E_OUT]; }
int bufferevent_enable(struct bufferevent *b, short what) { __CPROVER_assert(b == &BEV, "bufferevent_enable: the connection's bufferevent"); e_bev_enabled_calls++; e_bev_enable_what = what; return 0; }
int bufferevent_disable(struct bufferevent *b, short what) { __CPROVER_assert(b == &BEV, "bufferevent_disable: the connection's bufferevent"); e_bev_disabled_calls++; e_bev_disable_what = what; return 0; }
void bufferevent_setcb(struct bufferevent *b, bufferevent_data_cb r, bufferevent_data_cb w, bufferevent_event_cb e, void *arg)
{ __CPROVER_assert(b == &BEV, "bufferevent_setcb: the connection's bufferevent"); (void)r; (void)w; (void)e; (void)arg; e_setcb_calls++; }
evutil_socket_t bufferevent_getfd(struct bufferevent *b) { (void)b; return 7; }
#endif
