/* stubs/c17_pair_env.h — environment of ONE bufferevent pair for units over the real bufferevent_pair.c.
 * P0 and P1 are partners sharing one lock (or none).  Outside the TU, modelled as bodies over ghost state g_p:
 *  buffer.c      four buffers as ghost lengths; evbuffer_remove_buffer(src,dst,n) moves min(n,len(src)) bytes from the FRONT of
 *                src to the END of dst and evbuffer_add_buffer(dst,src) moves all of src (that IS C12's contract for them); both
 *                are refused (-1, nothing moved) when the source's front / the destination's end is frozen
 *  bufferevent.c incref_and_lock_/decref_and_unlock_ (c19_incref/c19_decref), run_readcb_/run_writecb_/run_eventcb_ (recorded
 *                per side with the state at that moment)
 *  event.c       event_add/event_del on the four generic timer events: ghost record per event */
#ifndef VF_C17_PAIR_ENV_H_
#define VF_C17_PAIR_ENV_H_
#include "event-internal.h"
struct evbuffer { int vf_id; };
static struct bufferevent_pair P0, P1;     /* separate objects (an array of large structs under a symbolic index is very expensive) */
#define PP(k) ((k) == 0 ? &P0 : &P1)
static struct evbuffer EB[4];                 /* 0: P0.input 1: P0.output 2: P1.input 3: P1.output */
static struct event_base EVBASE;
#define PBEV(k) (&(*PP(k)).bev.bev)
struct vf_evst { int ins; int timer; long tv_sec, tv_usec; int n_add, n_add_tv, n_del; };
struct vf_pair_ghost {
	size_t len[4]; int frozen[4];              /* frozen: input end / output front */
	struct vf_evst ev[4];                      /* 0: P0.ev_read 1: P0.ev_write 2: P1.ev_read 3: P1.ev_write */
	int nrep;
	struct { int n, options, at; size_t len, low; } rcb[2], wcb[2];
	struct { int n, options, at; short what; } ecb[2];
	size_t moved; int move_calls, move_refused, move_bad_args; size_t move_req;
	int freed[2];
};
struct vf_pair_ghost g_p;
#define VF_EVST_ZERO(e) do { (e).ins = (e).timer = 0; (e).tv_sec = (e).tv_usec = 0; (e).n_add = (e).n_add_tv = (e).n_del = 0; } while (0)
static void vf_pair_ghost_reset(void)
{
	g_p.len[0] = g_p.len[1] = g_p.len[2] = g_p.len[3] = 0; g_p.frozen[0] = g_p.frozen[1] = g_p.frozen[2] = g_p.frozen[3] = 1;
	VF_EVST_ZERO(g_p.ev[0]); VF_EVST_ZERO(g_p.ev[1]); VF_EVST_ZERO(g_p.ev[2]); VF_EVST_ZERO(g_p.ev[3]);
	g_p.nrep = 0;
#define VF_CB_ZERO(c) do { (c).n = (c).options = (c).at = 0; (c).len = (c).low = 0; } while (0)
	VF_CB_ZERO(g_p.rcb[0]); VF_CB_ZERO(g_p.rcb[1]); VF_CB_ZERO(g_p.wcb[0]); VF_CB_ZERO(g_p.wcb[1]);
	g_p.ecb[0].n = g_p.ecb[0].options = g_p.ecb[0].at = 0; g_p.ecb[0].what = 0; g_p.ecb[1].n = g_p.ecb[1].options = g_p.ecb[1].at = 0; g_p.ecb[1].what = 0;
	g_p.moved = 0; g_p.move_calls = g_p.move_refused = g_p.move_bad_args = 0; g_p.move_req = 0; g_p.freed[0] = g_p.freed[1] = 0;
}
static int vf_side(const struct bufferevent *b) { __CPROVER_assert(b == PBEV(0) || b == PBEV(1), "a bufferevent of this pair"); return b == PBEV(0) ? 0 : 1; }
static int vf_bufidx(const struct evbuffer *e)     /* comparisons, not pointer subtraction: folds to a constant for concrete pointers */
{
	__CPROVER_assert(e == &EB[0] || e == &EB[1] || e == &EB[2] || e == &EB[3], "a buffer of this pair");
	return e == &EB[0] ? 0 : e == &EB[1] ? 1 : e == &EB[2] ? 2 : 3;
}
size_t evbuffer_get_length(const struct evbuffer *buf) { return g_p.len[vf_bufidx(buf)]; }
int evbuffer_freeze(struct evbuffer *buf, int at_front) { int k = vf_bufidx(buf); __CPROVER_assert(at_front == (k & 1), "freeze: input end / output front"); g_p.frozen[k] = 1; return 0; }
int evbuffer_unfreeze(struct evbuffer *buf, int at_front) { int k = vf_bufidx(buf); __CPROVER_assert(at_front == (k & 1), "unfreeze: input end / output front"); g_p.frozen[k] = 0; return 0; }
static int vf_move(int s, int d, size_t n)
{
	size_t m;
	g_p.move_calls++; g_p.move_req = n;
	if (!((s == 1 && d == 2) || (s == 3 && d == 0))) g_p.move_bad_args++;    /* always from one side's output to the OTHER side's input */
	if (g_p.frozen[s] || g_p.frozen[d]) { g_p.move_refused++; return -1; }
	m = n < g_p.len[s] ? n : g_p.len[s];
	g_p.len[s] -= m; g_p.len[d] += m; g_p.moved += m;
	return (int)m;
}
int evbuffer_remove_buffer(struct evbuffer *src, struct evbuffer *dst, size_t datlen) { return vf_move(vf_bufidx(src), vf_bufidx(dst), datlen); }
int evbuffer_add_buffer(struct evbuffer *dst, struct evbuffer *src) { return vf_move(vf_bufidx(src), vf_bufidx(dst), g_p.len[vf_bufidx(src)]) < 0 ? -1 : 0; }
static int vf_ev_idx(const struct event *ev)
{
	__CPROVER_assert(ev == &PBEV(0)->ev_read || ev == &PBEV(0)->ev_write || ev == &PBEV(1)->ev_read || ev == &PBEV(1)->ev_write, "a timer event of this pair");
	return ev == &PBEV(0)->ev_read ? 0 : ev == &PBEV(0)->ev_write ? 1 : ev == &PBEV(1)->ev_read ? 2 : 3;
}
int event_add(struct event *ev, const struct timeval *tv)
{
	int k = vf_ev_idx(ev);
	g_p.ev[k].n_add++; g_p.ev[k].ins = 1;
	if (tv) { g_p.ev[k].timer = 1; g_p.ev[k].tv_sec = tv->tv_sec; g_p.ev[k].tv_usec = tv->tv_usec; g_p.ev[k].n_add_tv++; }
	return 0;
}
int event_del(struct event *ev) { int k = vf_ev_idx(ev); g_p.ev[k].n_del++; g_p.ev[k].ins = g_p.ev[k].timer = 0; return 0; }
void bufferevent_incref_and_lock_(struct bufferevent *b) { int k = vf_side(b); EVLOCK_LOCK((*PP(k)).bev.lock, 0); ++(*PP(k)).bev.refcnt; }
int bufferevent_decref_and_unlock_(struct bufferevent *b)
{
	int k = vf_side(b);
	__CPROVER_assert((*PP(k)).bev.refcnt > 0, "decref_and_unlock_: caller holds a reference");
	if (--(*PP(k)).bev.refcnt) { EVLOCK_UNLOCK((*PP(k)).bev.lock, 0); return 0; }
	g_p.freed[k]++; EVLOCK_UNLOCK((*PP(k)).bev.lock, 0);
	return 1;
}
#define VF_PLOCKED(k) ((*PP(k)).bev.lock == NULL || g_lock_depth[1] >= 1)
void bufferevent_run_readcb_(struct bufferevent *b, int options)
{
	int k = vf_side(b);
	__CPROVER_assert(VF_PLOCKED(k) && (*PP(k)).bev.refcnt >= 1, "run_readcb_: lock and reference held");
	g_p.nrep++; g_p.rcb[k].n++; g_p.rcb[k].options = options; g_p.rcb[k].at = g_p.nrep; g_p.rcb[k].len = g_p.len[2 * k]; g_p.rcb[k].low = b->wm_read.low;
}
void bufferevent_run_writecb_(struct bufferevent *b, int options)
{
	int k = vf_side(b);
	__CPROVER_assert(VF_PLOCKED(k) && (*PP(k)).bev.refcnt >= 1, "run_writecb_: lock and reference held");
	g_p.nrep++; g_p.wcb[k].n++; g_p.wcb[k].options = options; g_p.wcb[k].at = g_p.nrep; g_p.wcb[k].len = g_p.len[2 * k + 1]; g_p.wcb[k].low = b->wm_write.low;
}
void bufferevent_run_eventcb_(struct bufferevent *b, short what, int options)
{
	int k = vf_side(b);
	__CPROVER_assert(VF_PLOCKED(k) && (*PP(k)).bev.refcnt >= 1, "run_eventcb_: lock and reference held");
	g_p.nrep++; g_p.ecb[k].n++; g_p.ecb[k].options = options; g_p.ecb[k].at = g_p.nrep; g_p.ecb[k].what = what;
}
#endif
