/* stubs/log.h — log.c is outside every verified TU.  Warnings/debug output are no-ops; the
 * fatal entry points are obligations: reaching one is a failure ("event_err* reached").
 * Trusted base item "logging". */
#ifndef VF_STUB_LOG_H_
#define VF_STUB_LOG_H_
#include "log-internal.h"
#ifdef VF_NATIVE
#define VF_FATAL_(what) do { printf("VF-NATIVE: ASSERT-FAIL [%s reached]\n", what); fflush(stdout); _Exit(4); } while (0)
#else
#define VF_FATAL_(what) do { __CPROVER_assert(0, what " reached"); __CPROVER_assume(0); } while (0)
#endif
void event_warn(const char *fmt, ...) { (void)fmt; }
void event_warnx(const char *fmt, ...) { (void)fmt; }
void event_msgx(const char *fmt, ...) { (void)fmt; }
void event_debugx_(const char *fmt, ...) { (void)fmt; }
void event_sock_warn(evutil_socket_t sock, const char *fmt, ...) { (void)sock; (void)fmt; }
void event_err(int eval, const char *fmt, ...) { (void)eval; (void)fmt; VF_FATAL_("event_err"); while (1) ; }
void event_errx(int eval, const char *fmt, ...) { (void)eval; (void)fmt; VF_FATAL_("event_errx"); while (1) ; }
void event_sock_err(int eval, evutil_socket_t sock, const char *fmt, ...) { (void)eval; (void)sock; (void)fmt; VF_FATAL_("event_sock_err"); while (1) ; }
#ifndef VF_NO_DEBUG_MASK_DEF
ev_uint32_t event_debug_logging_mask_ = 0;
#endif
#endif
