/* stubs/c28_mm.h — event_mm_* for the http.c URI/escaping/routing units (event.c is another TU).
 * Same model as stubs/mm.h (bodies over malloc/free, failure drawn from the choice stream unless
 * VF_MM_NOFAIL, ghost counters g_mm_live/g_mm_allocs/g_mm_frees) with two changes forced by the tool:
 *   - objects of symbolic size blow up the array encoding (pitfall 5): every allocation is a constant-size
 *     object of VF_C28_MMCAP bytes and the returned pointer is RIGHT-ALIGNED in it (p + CAP - sz), so that
 *     p[sz] is one past the object and any overrun of the requested size is an out-of-bounds obligation
 *     (an underrun p[-1] is not caught); a request above VF_C28_MMCAP is an obligation failure
 *     ("stub capacity"), never silently rounded;
 *   - event_mm_strdup_ is a bounded byte loop (no strlen + memcpy with a symbolic length: pitfall 2).
 * Natively (replay) the C library's malloc/calloc/realloc/free run. */
#ifndef VF_STUB_C28_MM_H_
#define VF_STUB_C28_MM_H_
#include <stdlib.h>
#include <string.h>
#include "mm-internal.h"
#ifndef VF_C28_MMCAP
#define VF_C28_MMCAP 24
#endif
long g_mm_live; long g_mm_allocs; long g_mm_frees;
long g_mm_calls;     /* ghost: allocation attempts */
long g_mm_failed;    /* ghost: attempts that were made to fail */
long g_mm_failat;    /* VF_C28_MM_FAILAT mode: the attempt with this number (0-based) fails, no other; -1 = none */
#define VF_MM_RESET() do { g_mm_live = 0; g_mm_allocs = 0; g_mm_frees = 0; g_mm_calls = 0; g_mm_failed = 0; g_mm_failat = -1; } while (0)
/* Failure model: VF_MM_NOFAIL = never; VF_C28_MM_FAILAT = exactly the attempt number g_mm_failat (set by the
 * harness from IN: every single-failure scenario, cheaper than independent bits); default = independent draw
 * from the choice stream per attempt. */
#ifdef VF_MM_NOFAIL
#define VF_MM_FAIL_() (g_mm_calls++, 0)
#elif defined(VF_C28_MM_FAILAT)
#define VF_MM_FAIL_() (g_mm_calls++ == g_mm_failat ? (g_mm_failed++, 1) : 0)
#else
#define VF_MM_FAIL_() (g_mm_calls++, (VF_CHOOSE() & 1u) ? (g_mm_failed++, 1) : 0)
#endif
static void *vf_c28_exact_malloc_(size_t sz, int zero)
{
#ifdef VF_NATIVE
	return zero ? calloc(1, sz) : malloc(sz);
#else
	char *p;
#ifdef VF_C28_BIGTYPE
	/* size classes: a request of exactly sizeof(VF_C28_BIGTYPE) bytes (the unit's one struct type; the size is a
	 * constant at every call site) gets an object of exactly that size AND that type — CBMC types a dynamic
	 * object from the sizeof in the allocation; an untyped (byte-array) object makes every pointer field alias every
	 * other one (value sets are not field-sensitive for byte arrays), which costs a factor of 10-100.
	 * Everything else (strings) is right-aligned in VF_C28_MMCAP bytes. */
	if (sz == sizeof(VF_C28_BIGTYPE)) {
		VF_C28_BIGTYPE *q_ = zero ? calloc(1, sizeof(VF_C28_BIGTYPE)) : malloc(sizeof(VF_C28_BIGTYPE));
		__CPROVER_assume(q_ != NULL);
		return q_;
	}
#endif
	__CPROVER_assert(sz <= VF_C28_MMCAP, "stub capacity: allocation size within VF_C28_MMCAP");
	if (sz > VF_C28_MMCAP) { __CPROVER_assume(0); return NULL; }
	p = zero ? calloc(1, VF_C28_MMCAP) : malloc(VF_C28_MMCAP);
	__CPROVER_assume(p != NULL);
#ifdef VF_C28_MM_LEFT
	return p;                         /* left-aligned (functional units): overruns inside the slack are NOT caught */
#else
	return p + (VF_C28_MMCAP - sz);   /* right-aligned: p[sz] is one past the object */
#endif
#endif
}
void *event_mm_malloc_(size_t sz)
{
	void *p;
	if (sz == 0) return NULL;
	if (VF_MM_FAIL_()) { errno = ENOMEM; return NULL; }
	p = vf_c28_exact_malloc_(sz, 0);
	g_mm_live++; g_mm_allocs++;
	return p;
}
void *event_mm_calloc_(size_t count, size_t size)
{
	void *p;
	if (count == 0 || size == 0) return NULL;
	if (count > ((size_t)-1) / size) { errno = ENOMEM; return NULL; }
	if (VF_MM_FAIL_()) { errno = ENOMEM; return NULL; }
	p = vf_c28_exact_malloc_(count * size, 1);
	g_mm_live++; g_mm_allocs++;
	return p;
}
void event_mm_free_(void *p)
{
	if (p) { g_mm_live--; g_mm_frees++; }
#ifdef VF_NATIVE
	free(p);
#else
	if (p) {
		__CPROVER_assert(__CPROVER_DYNAMIC_OBJECT(p), "mm_free: argument is a heap object");
		free((char *)p - __CPROVER_POINTER_OFFSET(p));   /* the allocation is right-aligned in its object */
	}
#endif
}
char *event_mm_strdup_(const char *str)
{
	size_t n, k_; char *p;
	if (!str) { errno = EINVAL; return NULL; }
	for (n = 0; n < VF_C28_MMCAP; n++) if (str[n] == '\0') break;
	__CPROVER_assert(n < VF_C28_MMCAP, "stub capacity: strdup operand shorter than VF_C28_MMCAP");
	p = event_mm_malloc_(n + 1);
	if (p) { for (k_ = 0; k_ < VF_C28_MMCAP; k_++) { p[k_] = str[k_]; if (k_ >= n) break; } }
	return p;
}
#endif
