/* stubs/c33_mem.h — include BEFORE evdns.c.  Redirects the memcpy calls written in evdns.c to
 * c33_memcpy (same idea as stubs/c12a_mem.h): libc's memcpy with a symbolic length is
 * imprecise and slow in CBMC 6.11 (UNIT_GUIDE pitfall 2).
 *   default            bounds-checked (r_ok/w_ok on the whole range) bounded byte loop of at most
 *                      VF_C33_MEMCAP bytes; a longer copy is an obligation failure ("model capacity")
 *   VF_C33_MEM_PREFIX  bounds-checked on the whole range, but only the first VF_C33_MEMCAP bytes are copied (no capacity
 *                      obligation): the rest of the destination keeps its old, for fresh objects nondeterministic, value
 *   VF_C33_MEM_NOCOPY  bounds-checked no-op (bookkeeping units: content of the destination is whatever
 *                      it was — nondeterministic for fresh objects)
 * g_mc_calls counts calls, g_mc_bytes sums lengths (ghost); VF_C33_MEM_NOSTATS: no counters (fewer assigns
 * targets in --dfcc units: the write-set inclusion loop of the contracts library is unwound once per target). */
#ifndef VF_STUB_C33_MEM_H_
#define VF_STUB_C33_MEM_H_
#include <string.h>
#ifndef VF_C33_MEMCAP
#define VF_C33_MEMCAP 64
#endif
#ifndef VF_C33_MEM_NOSTATS
long g_mc_calls; unsigned long g_mc_bytes;
#endif
static void *c33_memcpy(void *d, const void *s, size_t n)
{
	size_t i_;
#ifndef VF_C33_MEM_NOSTATS
	g_mc_calls++; g_mc_bytes += n;
#endif
	if (n == 0) return d;
	__CPROVER_assert(__CPROVER_r_ok(s, n), "memcpy: source range readable");
	__CPROVER_assert(__CPROVER_w_ok(d, n), "memcpy: destination range writable");
#ifndef VF_C33_MEM_NOCOPY
	/* the GET16/GET32/APPEND16/APPEND32 macros copy 2 or 4 bytes: no loop for those */
	if (n == 2) { ((unsigned char *)d)[0] = ((const unsigned char *)s)[0]; ((unsigned char *)d)[1] = ((const unsigned char *)s)[1]; return d; }
	if (n == 4) { ((unsigned char *)d)[0] = ((const unsigned char *)s)[0]; ((unsigned char *)d)[1] = ((const unsigned char *)s)[1]; ((unsigned char *)d)[2] = ((const unsigned char *)s)[2]; ((unsigned char *)d)[3] = ((const unsigned char *)s)[3]; return d; }
#ifndef VF_C33_MEM_PREFIX
	__CPROVER_assert(n <= VF_C33_MEMCAP, "memcpy: model capacity (unit must size VF_C33_MEMCAP for its inputs)");
#endif
	for (i_ = 0; i_ < VF_C33_MEMCAP; i_++) { if (i_ >= n) break; ((unsigned char *)d)[i_] = ((const unsigned char *)s)[i_]; }
#endif
	return d;
}
#undef memcpy
#define memcpy(d, s, n) c33_memcpy((d), (s), (n))
#endif
