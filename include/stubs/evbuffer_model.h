/* stubs/evbuffer_model.h — evbuffer as the byte string the C12 contracts say it is, for
 * translation units OTHER than buffer.c (event_tagging.c, ws.c, …).  Trusted relative to
 * C12: each function below is the abstract behaviour that C12's units establish for the
 * real buffer.c function of the same name.
 *
 * A buffer k holds bytes g_eb[k].d[start .. start+len).  The data is kept RIGHT-ALIGNED in
 * the object (start + len == VF_EB_CAP) whenever the unit sets g_eb_right_aligned, so that a
 * read past the buffer's data is a read past the object and is caught by the bounds check.
 */
#ifndef VF_STUB_EVBUFFER_MODEL_H_
#define VF_STUB_EVBUFFER_MODEL_H_
#include <string.h>
#include "event2/buffer.h"
#ifndef VF_EB_CAP
#define VF_EB_CAP 16
#endif
#ifndef VF_EB_N
#define VF_EB_N 2
#endif
#ifndef EVBUFFER_INTERNAL_H_INCLUDED_
struct evbuffer { int vf_id; };
#endif
struct vf_eb { unsigned char d[VF_EB_CAP]; size_t start, len; size_t drained, added; int pullups; };
struct vf_eb g_eb[VF_EB_N];
struct evbuffer EVB[VF_EB_N];
int g_eb_add_may_fail;    /* unit switch: evbuffer_add may report allocation failure */
int g_eb_pullup_may_fail; /* unit switch: pullup of a range spanning chains may fail (allocation) */
size_t g_eb_contig[VF_EB_N]; /* ghost: bytes in the first chain (pullup within it cannot fail) */

#define VF_EB_RESET() do { int k_; for (k_ = 0; k_ < VF_EB_N; k_++) { g_eb[k_].start = g_eb[k_].len = g_eb[k_].drained = g_eb[k_].added = 0; g_eb[k_].pullups = 0; g_eb_contig[k_] = 0; } g_eb_add_may_fail = 0; g_eb_pullup_may_fail = 0; } while (0)
static struct vf_eb *vf_eb_of(const struct evbuffer *b)
{
	__CPROVER_assert(b == &EVB[0] || (VF_EB_N > 1 && b == &EVB[VF_EB_N - 1]) || (b >= &EVB[0] && b < &EVB[VF_EB_N]), "evbuffer argument is a buffer of this unit");
	return &g_eb[b - &EVB[0]];
}
size_t evbuffer_get_length(const struct evbuffer *buf) { return vf_eb_of(buf)->len; }
unsigned char *evbuffer_pullup(struct evbuffer *buf, ev_ssize_t size)
{
	struct vf_eb *e = vf_eb_of(buf);
	size_t want = size < 0 ? e->len : (size_t)size;
	e->pullups++;
	if (want > e->len) return NULL;
	if (want == 0) return NULL;   /* buffer.c: "if (size == 0 || size > total_len) goto done" with result NULL */
	if (g_eb_pullup_may_fail && want > g_eb_contig[buf - &EVB[0]] && (VF_CHOOSE() & 1u)) return NULL;
	return &e->d[e->start];
}
int evbuffer_drain(struct evbuffer *buf, size_t len)
{
	struct vf_eb *e = vf_eb_of(buf);
	size_t n = len < e->len ? len : e->len;
	e->start += n; e->len -= n; e->drained += n;
	return 0;
}
int evbuffer_add(struct evbuffer *buf, const void *data, size_t datlen)
{
	struct vf_eb *e = vf_eb_of(buf);
	if (g_eb_add_may_fail && (VF_CHOOSE() & 1u)) return -1;
	__CPROVER_assert(datlen == 0 || data != NULL, "evbuffer_add: data present");
	__CPROVER_assert(e->start + e->len + datlen <= VF_EB_CAP, "model capacity (unit must size VF_EB_CAP for its inputs)");
	if (e->start + e->len + datlen > VF_EB_CAP) { __CPROVER_assume(0); return -1; }
	{ size_t i_; for (i_ = 0; i_ < VF_EB_CAP; i_++) { if (i_ >= datlen) break; e->d[e->start + e->len + i_] = ((const unsigned char *)data)[i_]; } }
	e->len += datlen; e->added += datlen;
	return 0;
}
int evbuffer_remove(struct evbuffer *buf, void *data_out, size_t datlen)
{
	struct vf_eb *e = vf_eb_of(buf);
	size_t n = datlen < e->len ? datlen : e->len;
	{ size_t i_; for (i_ = 0; i_ < VF_EB_CAP; i_++) { if (i_ >= n) break; ((unsigned char *)data_out)[i_] = e->d[e->start + i_]; } }
	e->start += n; e->len -= n; e->drained += n;
	return (int)n;
}
#endif
