/* stubs/c23_evb_readln.h — evbuffer_readln(buf, &n, EVBUFFER_EOL_CRLF) on top of the byte-string
 * model stubs/evbuffer_model.h (include that first).  buffer.c semantics (what C12's readln unit
 * establishes): the line ends at the first LF; ONE CR directly before that LF belongs to the
 * terminator; the line (without terminator) is returned as a fresh NUL-terminated heap string
 * and line + terminator are drained; no LF in the buffer => NULL, nothing drained.
 * The returned object has the constant capacity VF_EB_CAP + 1 (no symbolic-size malloc); it is
 * counted in g_mm_live like every mm_malloc'ed object (mm_free releases it). */
#ifndef VF_STUB_C23_EVB_READLN_H_
#define VF_STUB_C23_EVB_READLN_H_
int e_readln_calls; int e_readln_may_fail;
char *evbuffer_readln(struct evbuffer *buffer, size_t *n_read_out, enum evbuffer_eol_style eol_style)
{
	struct vf_eb *e = vf_eb_of(buffer);
	size_t i, nl = (size_t)-1, len; char *line;
	__CPROVER_assert(eol_style == EVBUFFER_EOL_CRLF, "evbuffer_readln model: EOL_CRLF (the only style http.c uses)");
	e_readln_calls++;
	for (i = 0; i < VF_EB_CAP; i++) { if (i >= e->len) break; if (e->d[e->start + i] == '\n') { nl = i; break; } }
	if (nl == (size_t)-1) return NULL;
	if (e_readln_may_fail && (VF_CHOOSE() & 1u)) return NULL;          /* allocation failure inside readln: indistinguishable from "no line yet" */
	len = (nl > 0 && e->d[e->start + nl - 1] == '\r') ? nl - 1 : nl;
	line = malloc(VF_EB_CAP + 1);
#ifndef VF_NATIVE
	__CPROVER_assume(line != NULL);
#endif
	g_mm_live++; g_mm_allocs++;
	for (i = 0; i < VF_EB_CAP; i++) { if (i >= len) break; line[i] = (char)e->d[e->start + i]; }
	line[len] = '\0';
	e->start += nl + 1; e->len -= nl + 1; e->drained += nl + 1;
	if (n_read_out) *n_read_out = len;
	return line;
}
#endif
