/* stubs/c23_libc_ref.h — ISO C reference bodies for the libc string functions http.c uses and
 * for which CBMC 6.11 has no (usable) body (DESIGN §3 P31, §5 "libc: assumed conforming to
 * ISO C").  Only compiled for the verifier: the native replay runs the machine's real libc.
 * Every loop is bounded by VF_STRMAX (+ a few): units state the string bound in "bound" and
 * run with unwinding assertions, so an input longer than the bound is an UNWIND failure, not
 * a silent truncation.
 * Also here: evutil.c helpers that http.c calls (evutil.c is a different TU): exact copies of
 * their ISO-C meaning, listed as trusted by the units that use them.
 */
#ifndef VF_STUB_C23_LIBC_REF_H_
#define VF_STUB_C23_LIBC_REF_H_
#ifndef VF_STRMAX
#define VF_STRMAX 16
#endif
#ifndef VF_NATIVE
#include <stdarg.h>

/* ISO C 7.24.5.4: pointer to the first character of s that is in accept, or NULL */
char *strpbrk(const char *s, const char *accept)
{
	size_t i, j;
	for (i = 0; i <= VF_STRMAX + 1; i++) {
		if (s[i] == '\0') return NULL;
		for (j = 0; j <= 4; j++) {           /* accept sets used by http.c have <= 4 characters */
			if (accept[j] == '\0') break;
			if (s[i] == accept[j]) return (char *)(s + i);
		}
		__CPROVER_assert(j <= 4, "strpbrk model: accept set has <= 4 characters");
	}
	__CPROVER_assert(0, "strpbrk model: string within VF_STRMAX");
	__CPROVER_assume(0);
	return NULL;
}
/* ISO C 7.24.5.6: length of the maximal initial segment of s consisting of characters in accept */
size_t strspn(const char *s, const char *accept)
{
	size_t i, j; int hit;
	for (i = 0; i <= VF_STRMAX + 1; i++) {
		if (s[i] == '\0') return i;
		hit = 0;
		for (j = 0; j <= 4; j++) {
			if (accept[j] == '\0') break;
			if (s[i] == accept[j]) { hit = 1; break; }
		}
		if (!hit) return i;
	}
	__CPROVER_assert(0, "strspn model: string within VF_STRMAX");
	__CPROVER_assume(0);
	return 0;
}
/* ISO C 7.24.5.2 (c may be 0: then the terminator is found) */
char *strchr(const char *s, int c)
{
	size_t i;
	for (i = 0; i <= VF_STRMAX + 1; i++) {
		if (s[i] == (char)c) return (char *)(s + i);
		if (s[i] == '\0') return NULL;
	}
	__CPROVER_assert(0, "strchr model: string within VF_STRMAX");
	__CPROVER_assume(0);
	return NULL;
}
/* ISO C 7.24.5.5 */
char *strrchr(const char *s, int c)
{
	size_t i; const char *r = NULL;
	for (i = 0; i <= VF_STRMAX + 1; i++) {
		if (s[i] == (char)c) r = s + i;
		if (s[i] == '\0') return (char *)r;
	}
	__CPROVER_assert(0, "strrchr model: string within VF_STRMAX");
	__CPROVER_assume(0);
	return NULL;
}
size_t strlen(const char *s)
{
	size_t i;
	for (i = 0; i <= VF_STRMAX + 1; i++)
		if (s[i] == '\0') return i;
	__CPROVER_assert(0, "strlen model: string within VF_STRMAX");
	__CPROVER_assume(0);
	return 0;
}
int strcmp(const char *a, const char *b)
{
	size_t i;
	for (i = 0; i <= VF_STRMAX + 1; i++) {
		if ((unsigned char)a[i] != (unsigned char)b[i]) return (unsigned char)a[i] < (unsigned char)b[i] ? -1 : 1;
		if (a[i] == '\0') return 0;
	}
	__CPROVER_assert(0, "strcmp model: string within VF_STRMAX");
	__CPROVER_assume(0);
	return 0;
}
/* BSD/glibc strsep(3): token = *sp; first delimiter replaced by NUL, *sp moved behind it
 * (or set to NULL if none) */
char *strsep(char **sp, const char *delim)
{
	char *s = *sp, *p;
	if (s == NULL) return NULL;
	p = strpbrk(s, delim);
	if (p == NULL) *sp = NULL;
	else { *p = '\0'; *sp = p + 1; }
	return s;
}
/* ISO C 7.22.1.2 atoi == (int)strtol(s, NULL, 10); out-of-range is undefined in ISO C, glibc
 * returns (int) of the saturated long.  Modelled: optional white space, optional sign, digits,
 * accumulated in a saturating 64-bit value, then converted like glibc does. */
static int vf_isspace_(int c) { return c == ' ' || c == '\t' || c == '\n' || c == '\v' || c == '\f' || c == '\r'; }
int atoi(const char *s)
{
	size_t i = 0, k; int neg = 0; long long v = 0; int sat = 0;
	for (k = 0; k <= VF_STRMAX + 1; k++) { if (!vf_isspace_((unsigned char)s[i])) break; i++; }
	if (s[i] == '-') { neg = 1; i++; } else if (s[i] == '+') i++;
	for (k = 0; k <= VF_STRMAX + 1; k++) {
		if (s[i] < '0' || s[i] > '9') break;
		if (v > (0x7fffffffffffffffLL - (s[i] - '0')) / 10) sat = 1;
		else v = v * 10 + (s[i] - '0');
		i++;
	}
	__CPROVER_assert(k <= VF_STRMAX + 1, "atoi model: string within VF_STRMAX");
	if (sat) return neg ? 0 : -1;          /* (int)LONG_MIN == 0, (int)LONG_MAX == -1 */
	return (int)(unsigned)(unsigned long long)(neg ? -v : v);
}
/* ISO C 7.22.1.4 strtoll for base 10 and 16 (the two bases http.c passes to evutil_strtoll):
 * optional white space, optional sign, optional 0x/0X for base 16, digits; *endptr = first
 * unconverted character (= s when no digits); overflow saturates to LLONG_MAX / LLONG_MIN
 * with errno = ERANGE. */
static int vf_digit_(int c, int base)
{
	int d = -1;
	if (c >= '0' && c <= '9') d = c - '0';
	else if (c >= 'a' && c <= 'f') d = c - 'a' + 10;
	else if (c >= 'A' && c <= 'F') d = c - 'A' + 10;
	return (d >= 0 && d < base) ? d : -1;
}
long long strtoll(const char *s, char **endptr, int base)
{
	size_t i = 0, k, start; int neg = 0, sat = 0, any = 0; unsigned long long v = 0, lim;
	__CPROVER_assert(base == 10 || base == 16, "strtoll model: base 10 or 16");
	for (k = 0; k <= VF_STRMAX + 1; k++) { if (!vf_isspace_((unsigned char)s[i])) break; i++; }
	if (s[i] == '-') { neg = 1; i++; } else if (s[i] == '+') i++;
	if (base == 16 && s[i] == '0' && (s[i + 1] == 'x' || s[i + 1] == 'X') && vf_digit_((unsigned char)s[i + 2], 16) >= 0) i += 2;
	start = i;
	lim = neg ? 0x8000000000000000ULL : 0x7fffffffffffffffULL;
	{
		/* overflow test without a division circuit: v*base + d > lim  <=>  v > cut || (v == cut && d > rem) */
		unsigned long long cut = base == 10 ? (neg ? 0x8000000000000000ULL / 10 : 0x7fffffffffffffffULL / 10) : (neg ? 0x8000000000000000ULL / 16 : 0x7fffffffffffffffULL / 16);
		unsigned rem = base == 10 ? (neg ? (unsigned)(0x8000000000000000ULL % 10) : (unsigned)(0x7fffffffffffffffULL % 10)) : (neg ? (unsigned)(0x8000000000000000ULL % 16) : (unsigned)(0x7fffffffffffffffULL % 16));
		for (k = 0; k <= VF_STRMAX + 1; k++) {
			int d = vf_digit_((unsigned char)s[i], base);
			if (d < 0) break;
			any = 1;
			if (v > cut || (v == cut && (unsigned)d > rem)) sat = 1;
			else v = (base == 10 ? v * 10 : v * 16) + (unsigned)d;
			i++;
		}
	}
	__CPROVER_assert(k <= VF_STRMAX + 1, "strtoll model: string within VF_STRMAX");
	(void)start; (void)lim;
	if (endptr) *endptr = (char *)(any ? s + i : s);
	if (sat) { errno = ERANGE; return neg ? (-0x7fffffffffffffffLL - 1) : 0x7fffffffffffffffLL; }
	if (neg) return v == 0x8000000000000000ULL ? (-0x7fffffffffffffffLL - 1) : -(long long)v;
	return (long long)v;
}
/* ISO C 7.21.6.2 fscanf semantics for the ONE format http.c uses: "HTTP/%c.%c%c".
 * Ordinary characters must match exactly; %c reads one character (no white-space skipping) and
 * fails with "input failure" at end of string.  Return: number of assignments, or EOF if an
 * input failure occurs before the first conversion completed. */
int sscanf(const char *s, const char *fmt, ...)
{
	va_list ap; char *a, *b, *c; int n = 0;
	__CPROVER_assert(fmt[0] == 'H' && fmt[1] == 'T' && fmt[2] == 'T' && fmt[3] == 'P' && fmt[4] == '/' && fmt[5] == '%' && fmt[6] == 'c' && fmt[7] == '.' && fmt[8] == '%' && fmt[9] == 'c' && fmt[10] == '%' && fmt[11] == 'c' && fmt[12] == '\0', "sscanf model: format is \"HTTP/%c.%c%c\"");
	va_start(ap, fmt); a = va_arg(ap, char *); b = va_arg(ap, char *); c = va_arg(ap, char *); va_end(ap);
	if (s[0] == '\0') return -1;                       /* input failure before any conversion */
	if (s[0] != 'H') return 0;
	if (s[1] == '\0') return -1; if (s[1] != 'T') return 0;
	if (s[2] == '\0') return -1; if (s[2] != 'T') return 0;
	if (s[3] == '\0') return -1; if (s[3] != 'P') return 0;
	if (s[4] == '\0') return -1; if (s[4] != '/') return 0;
	if (s[5] == '\0') return -1;
	*a = s[5]; n = 1;
	if (s[6] != '.') return n;                          /* matching failure (or end of input) after 1 assignment */
	if (s[7] == '\0') return n;
	*b = s[7]; n = 2;
	if (s[8] == '\0') return n;
	*c = s[8]; n = 3;
	return n;
}
#endif /* !VF_NATIVE */

/* ---- evutil.c (another TU) — used by http.c through util-internal.h; also compiled natively
 * (the native replay links no other libevent object) */
/* evutil_strtoll = strtoll (evutil.c:624, EVENT__HAVE_STRTOLL); the last call is recorded so that units can state
 * "the stored number is the one ISO C strtoll assigns to this string" without re-deriving the decimal value */
ev_int64_t e_strtoll_last; const char *e_strtoll_arg; int e_strtoll_base; int e_strtoll_calls;
ev_int64_t evutil_strtoll(const char *s, char **endptr, int base)
{
	ev_int64_t r = (ev_int64_t)strtoll(s, endptr, base);
	e_strtoll_last = r; e_strtoll_arg = s; e_strtoll_base = base; e_strtoll_calls++;
	return r;
}
/* evutil_rtrim_lws_: remove trailing SP/HT in place (evutil.c:2675) */
void evutil_rtrim_lws_(char *str)
{
	size_t n, k;
	if (str == NULL) return;
	n = strlen(str);
	for (k = 0; k <= VF_STRMAX + 1; k++) {
		if (n == 0) break;
		if (str[n - 1] != ' ' && str[n - 1] != '\t') break;
		str[n - 1] = '\0'; n--;
	}
}
static char vf_tolower_(char c) { return (c >= 'A' && c <= 'Z') ? (char)(c - 'A' + 'a') : c; }
/* evutil_ascii_strcasecmp / strncasecmp: ASCII-only case folding (evutil.c EVUTIL_TOLOWER_ table) */
int evutil_ascii_strcasecmp(const char *s1, const char *s2)
{
	size_t i;
	for (i = 0; i <= VF_STRMAX + 1; i++) {
		char c1 = vf_tolower_(s1[i]), c2 = vf_tolower_(s2[i]);
		/* decided at the first terminator of EITHER string (written so that symbolic execution stops at the end of a literal) */
		if (c1 == 0 || c2 == 0) return c1 == c2 ? 0 : (c1 < c2 ? -1 : 1);
		if (c1 < c2) return -1;
		if (c1 > c2) return 1;
	}
	__CPROVER_assert(0, "evutil_ascii_strcasecmp model: string within VF_STRMAX");
	__CPROVER_assume(0);
	return 0;
}
int evutil_ascii_strncasecmp(const char *s1, const char *s2, size_t n)
{
	size_t i;
	for (i = 0; i <= VF_STRMAX + 1; i++) {
		char c1, c2;
		if (i >= n) return 0;
		c1 = vf_tolower_(s1[i]); c2 = vf_tolower_(s2[i]);
		if (c1 == 0 || c2 == 0) return c1 == c2 ? 0 : (c1 < c2 ? -1 : 1);
		if (c1 < c2) return -1;
		if (c1 > c2) return 1;
	}
	__CPROVER_assert(0, "evutil_ascii_strncasecmp model: string within VF_STRMAX");
	__CPROVER_assume(0);
	return 0;
}
#endif
