/* stubs/c31_ws_rec.h — evbuffer_add as a RECORDER for the outgoing-frame units (C32), so that
 * the payload length can be a fully symbolic size_t: the first add of a run is the frame header
 * (<= 16 bytes, copied into g_hdr and checked readable), the second add is recorded by pointer
 * and length only.  What evbuffer_add does with (pointer, length) — append exactly those bytes —
 * is C12's statement about buffer.c; allocation failure inside evbuffer_add is outside C32's
 * quantifier (make_ws_frame ignores the return value: see the unit's notes).
 * Also: the bufferevent environment of ws.c (lock/unlock/get_output) as ghost counters. */
#ifndef VF_STUB_C31_WS_REC_H_
#define VF_STUB_C31_WS_REC_H_
struct evbuffer { int vf_id; };
struct evbuffer EVB[2];                /* EVB[1] = output of the connection's bufferevent */
struct bufferevent BEV;
int g_nadd; struct evbuffer *g_add_buf0, *g_add_buf1; unsigned char g_hdr[16]; size_t g_hdrlen; const void *g_pay_ptr; size_t g_pay_len;
int g_add_locked;                      /* adds performed while the bufferevent lock was held */
int g_bev_lock, g_bev_lock_calls;
int evbuffer_add(struct evbuffer *b, const void *data, size_t n)
{
	size_t i;
	if (g_nadd == 0) {
		__CPROVER_assert(n <= 16, "first add is a frame header of <= 16 bytes");
		__CPROVER_assert(n == 0 || __CPROVER_r_ok(data, n), "header bytes readable");
		g_hdrlen = n; g_add_buf0 = b;
		for (i = 0; i < 16; i++) g_hdr[i] = (i < n) ? ((const unsigned char *)data)[i] : 0;
	} else if (g_nadd == 1) { g_pay_ptr = data; g_pay_len = n; g_add_buf1 = b; }
	if (g_bev_lock > 0) g_add_locked++;
	g_nadd++;
	return 0;
}
struct evbuffer *bufferevent_get_output(struct bufferevent *b) { __CPROVER_assert(b == &BEV, "bufferevent_get_output: the connection's bufferevent"); return &EVB[1]; }
void bufferevent_lock(struct bufferevent *b) { __CPROVER_assert(b == &BEV, "bufferevent_lock: the connection's bufferevent"); g_bev_lock++; g_bev_lock_calls++; }
void bufferevent_unlock(struct bufferevent *b) { __CPROVER_assert(b == &BEV, "bufferevent_unlock: the connection's bufferevent"); __CPROVER_assert(g_bev_lock > 0, "bufferevent_unlock: lock held"); g_bev_lock--; }
#endif
