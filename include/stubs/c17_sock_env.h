/* stubs/c17_sock_env.h — environment of ONE socket bufferevent for units over the real bufferevent_sock.c.
 * Everything the TU calls lives in other TUs and is modelled here as stub BODIES over ghost state g_s:
 *  bufferevent.c   incref_and_lock_/decref_and_unlock_ (refcnt +-1 under the lock; c19_incref/c19_decref),
 *                  bufferevent_disable/enable (enabled bits, then the type's REAL op be_socket_disable/enable through be_ops),
 *                  bufferevent_suspend_read_ (c18_suspend_read), run_eventcb_/run_readcb_/run_writecb_ (RECORD the report:
 *                  what, and the state at that moment; the user-visible delivery is C19's bufferevent.c units),
 *                  bufferevent_getfd/setfd through the type's REAL ctrl op
 *  ratelim.c       get_read_max_/get_write_max_: any value 0..IN.rmax chosen by the unit (c22_rlim_max: result >= 0,
 *                  <= max_single; may suspend for BEV_SUSPEND_BW_GROUP when the group is suspended), decrement_*: recorded
 *  buffer.c        evbuffer_read / evbuffer_write_atmost over ghost lengths: result kinds  n>0 | 0 (EOF) | -1 + errno;
 *                  as the real ones: refuse (-1) on a frozen end, a request for 0 bytes reads nothing and returns 0,
 *                  write_atmost(…,0) / on an empty buffer returns -1 WITHOUT touching errno
 *  event.c         event_add/del/pending/assign: ghost record per event (as in stubs/c18_bev_env.h)
 *  evutil.c        evutil_socket_finished_connecting_ (-1/0/1), evutil_socket_connect_ (-1/0/1/2), evutil_socket_, closesocket */
#ifndef VF_C17_SOCK_ENV_H_
#define VF_C17_SOCK_ENV_H_
#include "event-internal.h"      /* complete struct event_base for the static EVBASE */
struct evbuffer { int vf_id; };
static struct bufferevent_private BEVP;
#define BEV (&BEVP.bev)
static struct evbuffer INBUF, OUTBUF;
static struct event_base EVBASE;

struct vf_evst { int ins; int timer; long tv_sec, tv_usec; int n_add, n_add_tv, n_add_fail, n_del, n_rmt; };
struct vf_report { int n; short what; int options; short enabled; int connecting; int ev_ins0, ev_ins1; int err; int at; };
struct vf_sock_ghost {
	size_t len_in, len_out;
	int in_end_frozen, out_start_frozen;          /* evbuffer_freeze(input, 0) / evbuffer_freeze(output, 1) */
	int freeze_violations;
	struct vf_evst ev[2];
	int event_add_may_fail;
	/* reports */
	struct vf_report ev0, ev1; int nev; int nrep;  /* event reports (at most two recorded), total reports of any kind */
	struct { int n; int options; size_t len_in, low_r; int at; } rcb;       /* bufferevent_run_readcb_ */
	struct { int n; int options; size_t len_out, low_w; int at; } wcb;      /* bufferevent_run_writecb_ */
	int disable_calls; short disable_what;
	int suspend_r_calls; unsigned short suspend_r_what;
	/* I/O */
	int io_kind; int io_n; int io_errno;            /* unit-chosen outcome: 1: n>0 bytes, 0: EOF, -1: error io_errno */
	int read_calls, read_fd, read_howmuch, read_unfrozen, read_ret;
	int write_calls, write_fd, write_unfrozen, write_ret; ev_ssize_t write_atmost;
	/* rate limits */
	ev_ssize_t rmax, wmax; int grp_susp_r, grp_susp_w;
	int get_rmax_calls, get_wmax_calls, dec_r_calls, dec_w_calls; ev_ssize_t dec_r_bytes, dec_w_bytes;
	/* connect */
	int fin_conn_ret, fin_conn_errno, fin_conn_calls; int sock_connect_ret, sock_connect_calls; int new_fd, socket_calls, close_calls, close_fd;
	int fd;                                          /* fd of ev_read/ev_write */
	int setfd_calls, assign_calls, enable_calls; short enable_what; int cancel_calls;
	int freed;
};
struct vf_sock_ghost g_s;
#define VF_BEV_LOCKDEPTH() (BEVP.lock ? g_lock_depth[1] : -1)
#define VF_EVST_ZERO(e) do { (e).ins = (e).timer = 0; (e).tv_sec = (e).tv_usec = 0; (e).n_add = (e).n_add_tv = (e).n_add_fail = (e).n_del = (e).n_rmt = 0; } while (0)
#define VF_REP_ZERO(r) do { (r).n = 0; (r).what = 0; (r).options = 0; (r).enabled = 0; (r).connecting = 0; (r).ev_ins0 = (r).ev_ins1 = 0; (r).err = 0; (r).at = 0; } while (0)
static void vf_sock_ghost_reset(void)
{
	g_s.len_in = g_s.len_out = 0; g_s.in_end_frozen = g_s.out_start_frozen = 1; g_s.freeze_violations = 0;
	VF_EVST_ZERO(g_s.ev[0]); VF_EVST_ZERO(g_s.ev[1]); g_s.event_add_may_fail = 0;
	VF_REP_ZERO(g_s.ev0); VF_REP_ZERO(g_s.ev1); g_s.nev = g_s.nrep = 0;
	g_s.rcb.n = 0; g_s.rcb.options = 0; g_s.rcb.len_in = g_s.rcb.low_r = 0; g_s.rcb.at = 0;
	g_s.wcb.n = 0; g_s.wcb.options = 0; g_s.wcb.len_out = g_s.wcb.low_w = 0; g_s.wcb.at = 0;
	g_s.disable_calls = 0; g_s.disable_what = 0; g_s.suspend_r_calls = 0; g_s.suspend_r_what = 0;
	g_s.io_kind = 0; g_s.io_n = 0; g_s.io_errno = 0;
	g_s.read_calls = g_s.read_fd = g_s.read_howmuch = g_s.read_unfrozen = g_s.read_ret = 0;
	g_s.write_calls = g_s.write_fd = g_s.write_unfrozen = g_s.write_ret = 0; g_s.write_atmost = 0;
	g_s.rmax = g_s.wmax = 0; g_s.grp_susp_r = g_s.grp_susp_w = 0;
	g_s.get_rmax_calls = g_s.get_wmax_calls = g_s.dec_r_calls = g_s.dec_w_calls = 0; g_s.dec_r_bytes = g_s.dec_w_bytes = 0;
	g_s.fin_conn_ret = g_s.fin_conn_errno = g_s.fin_conn_calls = 0; g_s.sock_connect_ret = g_s.sock_connect_calls = 0; g_s.new_fd = g_s.socket_calls = g_s.close_calls = 0; g_s.close_fd = -1;
	g_s.fd = -1; g_s.setfd_calls = g_s.assign_calls = g_s.enable_calls = 0; g_s.enable_what = 0; g_s.cancel_calls = 0; g_s.freed = 0;
}

/* ------------------------------------------------------------------ event.c */
static int vf_ev_idx(const struct event *ev)
{
	__CPROVER_assert(ev == &BEV->ev_read || ev == &BEV->ev_write, "event argument is an event of this bufferevent");
	return ev == &BEV->ev_read ? 0 : 1;
}
int event_add(struct event *ev, const struct timeval *tv)
{
	int k = vf_ev_idx(ev);
	g_s.ev[k].n_add++;
	if (g_s.event_add_may_fail && (VF_CHOOSE() & 1u)) { g_s.ev[k].n_add_fail++; return -1; }
	g_s.ev[k].ins = 1;
	if (tv) { g_s.ev[k].timer = 1; g_s.ev[k].tv_sec = tv->tv_sec; g_s.ev[k].tv_usec = tv->tv_usec; g_s.ev[k].n_add_tv++; }
	return 0;
}
int event_del(struct event *ev) { int k = vf_ev_idx(ev); g_s.ev[k].n_del++; g_s.ev[k].ins = 0; g_s.ev[k].timer = 0; return 0; }
int event_pending(const struct event *ev, short what, struct timeval *tv)
{
	int k = vf_ev_idx(ev); int r = 0; (void)tv;
	if (g_s.ev[k].ins) r |= (what & (k == 0 ? EV_READ : EV_WRITE));
	if (g_s.ev[k].timer) r |= (what & EV_TIMEOUT);
	return r;
}
evutil_socket_t event_get_fd(const struct event *ev) { (void)vf_ev_idx(ev); return g_s.fd; }
int event_assign(struct event *ev, struct event_base *base, evutil_socket_t fd, short events, event_callback_fn cb, void *arg)
{
	int k = vf_ev_idx(ev);
	__CPROVER_assert(base == &EVBASE && arg == (void *)BEV, "event_assign: base and argument of this bufferevent");
	__CPROVER_assert(!g_s.ev[k].ins, "event_assign: never on an added event");
	__CPROVER_assert(events == ((k == 0 ? EV_READ : EV_WRITE)|EV_PERSIST|EV_FINALIZE), "event_assign: persistent I/O event of the right direction");
	(void)cb; g_s.assign_calls++; g_s.fd = fd;
	return 0;
}

/* ------------------------------------------------------------------ bufferevent.c */
int bufferevent_add_event_(struct event *ev, const struct timeval *tv)     /* c20_add_event: zero timeval = no timeout */
{
	if (tv->tv_sec == 0 && tv->tv_usec == 0) return event_add(ev, NULL);
	return event_add(ev, tv);
}
void bufferevent_incref_and_lock_(struct bufferevent *b)
{
	__CPROVER_assert(b == BEV, "incref_and_lock_: this bufferevent");
	EVLOCK_LOCK(BEVP.lock, 0);
	++BEVP.refcnt;
}
int bufferevent_decref_and_unlock_(struct bufferevent *b)
{
	__CPROVER_assert(b == BEV, "decref_and_unlock_: this bufferevent");
	__CPROVER_assert(BEVP.refcnt > 0, "decref_and_unlock_: caller holds a reference (refcnt > 0)");
	if (--BEVP.refcnt) { EVLOCK_UNLOCK(BEVP.lock, 0); return 0; }
	g_s.freed++;
	EVLOCK_UNLOCK(BEVP.lock, 0);
	return 1;
}
int bufferevent_disable(struct bufferevent *b, short event)
{
	int r = 0;
	__CPROVER_assert(b == BEV, "bufferevent_disable: this bufferevent");
	EVLOCK_LOCK(BEVP.lock, 0);
	g_s.disable_calls++; g_s.disable_what |= event;
	b->enabled &= ~event;
	if (b->be_ops->disable(b, event) < 0) r = -1;
	EVLOCK_UNLOCK(BEVP.lock, 0);
	return r;
}
int bufferevent_enable(struct bufferevent *b, short event)
{
	short impl = event; int r = 0;
	__CPROVER_assert(b == BEV, "bufferevent_enable: this bufferevent");
	g_s.enable_calls++; g_s.enable_what = event;
	if (BEVP.read_suspended) impl &= ~EV_READ;
	if (BEVP.write_suspended) impl &= ~EV_WRITE;
	b->enabled |= event;
	if (impl && b->be_ops->enable(b, impl) < 0) r = -1;
	return r;
}
void bufferevent_suspend_read_(struct bufferevent *b, bufferevent_suspend_flags what)
{
	__CPROVER_assert(b == BEV, "suspend_read_: this bufferevent");
	g_s.suspend_r_calls++; g_s.suspend_r_what |= what;
	if (!BEVP.read_suspended) b->be_ops->disable(b, EV_READ);
	BEVP.read_suspended |= what;
}
void bufferevent_suspend_write_(struct bufferevent *b, bufferevent_suspend_flags what)
{
	__CPROVER_assert(b == BEV, "suspend_write_: this bufferevent");
	if (!BEVP.write_suspended) b->be_ops->disable(b, EV_WRITE);
	BEVP.write_suspended |= what;
}
#define VF_REP_FILL(r, what_, opt_) do { (r).n++; (r).what = (what_); (r).options = (opt_); (r).enabled = BEV->enabled; (r).connecting = BEVP.connecting; \
	(r).ev_ins0 = g_s.ev[0].ins; (r).ev_ins1 = g_s.ev[1].ins; (r).err = errno; (r).at = g_s.nrep; } while (0)
void bufferevent_run_eventcb_(struct bufferevent *b, short what, int options)
{
	__CPROVER_assert(b == BEV, "run_eventcb_: this bufferevent");
	__CPROVER_assert(BEVP.refcnt >= 1 && VF_BEV_LOCKDEPTH() != 0, "run_eventcb_: caller holds the lock and a reference");
	g_s.nrep++;
	if (g_s.nev == 0) VF_REP_FILL(g_s.ev0, what, options); else VF_REP_FILL(g_s.ev1, what, options);
	g_s.nev++;
}
void bufferevent_run_readcb_(struct bufferevent *b, int options)
{
	__CPROVER_assert(b == BEV, "run_readcb_: this bufferevent");
	__CPROVER_assert(BEVP.refcnt >= 1 && VF_BEV_LOCKDEPTH() != 0, "run_readcb_: caller holds the lock and a reference");
	g_s.nrep++; g_s.rcb.n++; g_s.rcb.options = options; g_s.rcb.len_in = g_s.len_in; g_s.rcb.low_r = BEV->wm_read.low; g_s.rcb.at = g_s.nrep;
}
void bufferevent_run_writecb_(struct bufferevent *b, int options)
{
	__CPROVER_assert(b == BEV, "run_writecb_: this bufferevent");
	__CPROVER_assert(BEVP.refcnt >= 1 && VF_BEV_LOCKDEPTH() != 0, "run_writecb_: caller holds the lock and a reference");
	g_s.nrep++; g_s.wcb.n++; g_s.wcb.options = options; g_s.wcb.len_out = g_s.len_out; g_s.wcb.low_w = BEV->wm_write.low; g_s.wcb.at = g_s.nrep;
}
evutil_socket_t bufferevent_getfd(struct bufferevent *b)
{
	union bufferevent_ctrl_data d; int res;
	d.fd = -1;
	res = b->be_ops->ctrl(b, BEV_CTRL_GET_FD, &d);
	return res < 0 ? -1 : d.fd;
}
int bufferevent_setfd(struct bufferevent *b, evutil_socket_t fd)
{
	union bufferevent_ctrl_data d;
	d.fd = fd; g_s.setfd_calls++;
	return b->be_ops->ctrl(b, BEV_CTRL_SET_FD, &d);
}

/* ------------------------------------------------------------------ bufferevent_ratelim.c */
ev_ssize_t bufferevent_get_read_max_(struct bufferevent_private *p)
{
	__CPROVER_assert(p == &BEVP, "get_read_max_: this bufferevent");
	g_s.get_rmax_calls++;
	if (g_s.grp_susp_r) { bufferevent_suspend_read_(BEV, BEV_SUSPEND_BW_GROUP); return 0; }
	return g_s.rmax;
}
ev_ssize_t bufferevent_get_write_max_(struct bufferevent_private *p)
{
	__CPROVER_assert(p == &BEVP, "get_write_max_: this bufferevent");
	g_s.get_wmax_calls++;
	if (g_s.grp_susp_w) { bufferevent_suspend_write_(BEV, BEV_SUSPEND_BW_GROUP); return 0; }
	return g_s.wmax;
}
int bufferevent_decrement_read_buckets_(struct bufferevent_private *p, ev_ssize_t bytes) { __CPROVER_assert(p == &BEVP, "decrement_read_buckets_: this bufferevent"); g_s.dec_r_calls++; g_s.dec_r_bytes += bytes; return 0; }
int bufferevent_decrement_write_buckets_(struct bufferevent_private *p, ev_ssize_t bytes) { __CPROVER_assert(p == &BEVP, "decrement_write_buckets_: this bufferevent"); g_s.dec_w_calls++; g_s.dec_w_bytes += bytes; return 0; }

/* ------------------------------------------------------------------ buffer.c */
size_t evbuffer_get_length(const struct evbuffer *buf)
{
	__CPROVER_assert(buf == &INBUF || buf == &OUTBUF, "evbuffer_get_length: a buffer of this bufferevent");
	return buf == &INBUF ? g_s.len_in : g_s.len_out;
}
int evbuffer_freeze(struct evbuffer *buf, int at_front)
{
	if (buf == &INBUF && !at_front) g_s.in_end_frozen = 1;
	else if (buf == &OUTBUF && at_front) g_s.out_start_frozen = 1;
	else { __CPROVER_assert(0, "evbuffer_freeze: only input-end / output-start are frozen by a socket bufferevent"); }
	return 0;
}
int evbuffer_unfreeze(struct evbuffer *buf, int at_front)
{
	if (buf == &INBUF && !at_front) g_s.in_end_frozen = 0;
	else if (buf == &OUTBUF && at_front) g_s.out_start_frozen = 0;
	else { __CPROVER_assert(0, "evbuffer_unfreeze: only input-end / output-start"); }
	return 0;
}
int evbuffer_read(struct evbuffer *buf, evutil_socket_t fd, int howmuch)
{
	int n;
	__CPROVER_assert(buf == &INBUF, "evbuffer_read: into the input buffer");
	g_s.read_calls++; g_s.read_fd = fd; g_s.read_howmuch = howmuch; g_s.read_unfrozen = !g_s.in_end_frozen;
	if (g_s.in_end_frozen) { g_s.read_ret = -1; return -1; }
	if (howmuch == 0) { g_s.read_ret = 0; return 0; }         /* readv() of nothing: 0, although the peer has not closed */
	if (g_s.io_kind < 0) { errno = g_s.io_errno; g_s.read_ret = -1; return -1; }
	if (g_s.io_kind == 0) { g_s.read_ret = 0; return 0; }    /* peer closed */
	n = g_s.io_n;                                             /* 1 <= n, n <= howmuch when howmuch > 0 (unit assumes) */
	if (howmuch > 0 && n > howmuch) n = howmuch;
	g_s.len_in += (size_t)n; g_s.read_ret = n;
	return n;
}
int evbuffer_write_atmost(struct evbuffer *buf, evutil_socket_t fd, ev_ssize_t howmuch)
{
	int n;
	__CPROVER_assert(buf == &OUTBUF, "evbuffer_write_atmost: from the output buffer");
	g_s.write_calls++; g_s.write_fd = fd; g_s.write_atmost = howmuch; g_s.write_unfrozen = !g_s.out_start_frozen;
	if (g_s.out_start_frozen) { g_s.write_ret = -1; return -1; }
	if (howmuch < 0 || (size_t)howmuch > g_s.len_out) howmuch = (ev_ssize_t)g_s.len_out;
	if (howmuch == 0) { g_s.write_ret = -1; return -1; }     /* nothing attempted: -1 and errno is whatever it was */
	if (g_s.io_kind < 0) { errno = g_s.io_errno; g_s.write_ret = -1; return -1; }
	if (g_s.io_kind == 0) { g_s.write_ret = 0; return 0; }
	n = g_s.io_n;
	if ((ev_ssize_t)n > howmuch) n = (int)howmuch;
	g_s.len_out -= (size_t)n; g_s.write_ret = n;
	return n;
}

/* ------------------------------------------------------------------ evutil.c / libc */
int evutil_socket_finished_connecting_(evutil_socket_t fd)
{
	__CPROVER_assert(fd == g_s.fd || 1, "finished_connecting: any fd");
	g_s.fin_conn_calls++;
	if (g_s.fin_conn_ret < 0) errno = g_s.fin_conn_errno;
	return g_s.fin_conn_ret;
}
int evutil_socket_connect_(evutil_socket_t *fd_ptr, const struct sockaddr *sa, int socklen)
{
	(void)sa; (void)socklen; g_s.sock_connect_calls++;
	__CPROVER_assert(*fd_ptr >= 0, "bufferevent_socket_connect always passes an open fd to evutil_socket_connect_");
	return g_s.sock_connect_ret;
}
evutil_socket_t evutil_socket_(int domain, int type, int protocol) { (void)domain; (void)type; (void)protocol; g_s.socket_calls++; return g_s.new_fd; }
int evutil_closesocket(evutil_socket_t s) { g_s.close_calls++; g_s.close_fd = s; return 0; }
int getpeername(int fd, struct sockaddr *addr, socklen_t *len) { (void)fd; (void)addr; (void)len; return 0; }
void evutil_getaddrinfo_cancel_async_(struct evdns_getaddrinfo_request *data) { (void)data; g_s.cancel_calls++; }
#endif
