/* stubs/c15_mm.h — allocator for the c15/c16 units (replaces stubs/mm.h there).  Same model as stubs/mm.h (bodies
 * over the verifier's malloc, failure drawn from the choice stream) plus bookkeeping (contracts/c15_shape.h):
 *   - every successful allocation is registered in m_new[] (m_al.n), every failure counted (m_al.fail);
 *   - event_mm_free_ of a HARNESS object (XC[], PC[], BUF, SRC, SEG, SEGDATA: statics, cannot be handed to free())
 *     records the object as released in m_al.sfreed; releasing it a second time is an obligation failure;
 *   - event_mm_free_ of an object allocated during the call really frees it (a second free is the verifier's
 *     double-free failure) and is recorded in m_al.hfreed; anything else is an obligation failure.
 * Requests of a non-constant size (file-segment contents) are served from the static SEGDATA anchor when the unit
 * defines C15_MM_BIG_IS_SEGDATA (symbolic-size objects blow up, UNIT_GUIDE pitfall 5). */
#ifndef VF_STUB_C15_MM_H_
#define VF_STUB_C15_MM_H_
#include <stdlib.h>
#include <string.h>
#include "mm-internal.h"
#ifndef C15_MM_CONST_MAX
#define C15_MM_CONST_MAX 512
#endif
#define m_segdata_live m_al.seglive      /* SEGDATA handed out by the allocator and not yet freed */
#define m_seg_live m_al.segobj           /* the unit's segment object SEG is live (handed out by the allocator / built by the harness) */
void *event_mm_malloc_(size_t sz)
{
	void *p;
	if (sz == 0) return NULL;
#ifndef C15_MM_NOFAIL          /* define for an allocator that always succeeds */
	if (VF_CHOOSE() & 1u) { errno = ENOMEM; m_al.fail++; return NULL; }
#endif
#ifdef C15_MM_BIG_IS_SEGDATA
	if (sz > C15_MM_CONST_MAX) {
		__CPROVER_assert(!m_segdata_live, "allocator model: one large allocation at a time");
		m_segdata_live = 1; m_al.n_big++; return SEGDATA;
	}
#endif
#ifdef C15_MM_HEADER_ONLY      /* chain allocations of symbolic size: only the header is an object of the verifier, the data area behind it is ghost (pitfall 5) */
	__CPROVER_assert(sz >= sizeof(struct evbuffer_chain), "allocator model: a chain allocation");
	p = malloc(sizeof(struct evbuffer_chain));
#else
	__CPROVER_assert(sz <= C15_MM_CONST_MAX, "allocator model: request of a constant small size (chain header + extra, evbuffer, segment)");
	p = malloc(sz <= C15_MM_CONST_MAX ? sz : C15_MM_CONST_MAX);
#endif
#ifndef VF_NATIVE
	__CPROVER_assume(p != NULL);
#endif
	if (m_al.n < C15_MAXNEW) m_new[m_al.n] = p;
	m_al.n++;
	return p;
}
void *event_mm_calloc_(size_t count, size_t size)
{
	void *p; size_t i_;
	if (count == 0 || size == 0 || count > ((size_t)-1) / size) return NULL;
#ifdef C15_MM_SEG_IS_STATIC     /* the one file segment of a unit is the static SEG (so that contracts can name it) */
	if (count * size == sizeof(struct evbuffer_file_segment)) {
		if (VF_CHOOSE() & 1u) { errno = ENOMEM; m_al.fail++; return NULL; }
		__CPROVER_assert(!m_seg_live, "allocator model: one file segment at a time");
		memset(&SEG, 0, sizeof(SEG)); m_seg_live = 1; m_al.sfreed &= ~(1u << 11);
		return &SEG;
	}
#endif
	p = event_mm_malloc_(count * size);
	if (p && p != (void *)SEGDATA) { for (i_ = 0; i_ < C15_MM_CONST_MAX; i_++) { if (i_ >= count * size) break; ((char *)p)[i_] = 0; } }
	return p;
}
void event_mm_free_(void *p)
{
	int code;
	if (!p) return;
	code = C15_CODE(p);
	m_al.frees++;
	if (code >= 6 && code <= 8) { m_al.heap_frees++; m_al.hfreed |= 1u << (code - 6); free(p); return; }
	__CPROVER_assert(code >= 0, "event_mm_free_: argument is an object of this unit (chain, buffer, segment, segment contents)");
	if (code < 0) return;
	__CPROVER_assert(!(m_al.sfreed & (1u << code)), "event_mm_free_: object released twice");
	m_al.sfreed |= 1u << code;
	if (code == 12) m_segdata_live = 0;
	if (code == 11) m_seg_live = 0;
}
#endif
