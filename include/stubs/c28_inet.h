/* stubs/c28_inet.h — evutil_inet_pton (evutil.c, another TU) as bracket_addr_ok uses it: AF_INET6 text -> 1/0.
 * Model: a DETERMINISTIC predicate on the text that over-approximates the shape of an IPv6 literal:
 * accepted iff non-empty, every character is a hex digit, ':' or '.', and there are at least two ':'.
 * The URI units only need (a) determinism (the same text is judged the same way when re-parsed) and
 * (b) that no URI delimiter other than ':' is accepted inside brackets, both of which the real function has
 * (it accepts a subset of this language).  The exact IPv6 grammar is evutil's property, not http.c's.
 * dst is left untouched (bracket_addr_ok discards it).  Trusted base item:
 * "evutil_inet_pton(AF_INET6): deterministic shape predicate hex/':'/'.' with >= 2 colons (stubs/c28_inet.h)". */
#ifndef VF_STUB_C28_INET_H_
#define VF_STUB_C28_INET_H_
#include "event2/util.h"
#ifndef VF_NATIVE
int evutil_inet_pton(int af, const char *src, void *dst)
{
	unsigned k_, colons = 0;
	(void)dst;
	__CPROVER_assert(af == AF_INET6, "stub: only AF_INET6 is modelled");
	for (k_ = 0; k_ < 64; k_++) {
		char c = src[k_];
		if (c == '\0') break;
		if (c == ':') colons++;
		else if (!((c >= '0' && c <= '9') || (c >= 'a' && c <= 'f') || (c >= 'A' && c <= 'F') || c == '.')) return 0;
	}
	return k_ > 0 && colons >= 2;
}
#else
/* natively the same predicate (the real evutil.c is not linked into the replay) */
int evutil_inet_pton(int af, const char *src, void *dst)
{
	unsigned k_, colons = 0; (void)dst; (void)af;
	for (k_ = 0; src[k_]; k_++) { char c = src[k_]; if (c == ':') colons++; else if (!((c >= '0' && c <= '9') || (c >= 'a' && c <= 'f') || (c >= 'A' && c <= 'F') || c == '.')) return 0; }
	return k_ > 0 && colons >= 2;
}
#endif
#endif
