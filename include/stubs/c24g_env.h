/* stubs/c24g_env.h — connection-level environment for the c24g units (evhttp_error_cb,
 * evhttp_connection_reset_/_reset_hard_, read_body state): stubs/c23_http_env.h (ghost-LENGTH
 * evbuffers EB[E_IN|E_OUT|E_RIN|E_ROUT], recording bufferevent stubs) plus what the connection
 * life-cycle functions additionally reach outside http.c:
 *   evbuffer_drain        c23 model + FREEZE: a socket bufferevent keeps the FRONT of its output
 *                         buffer frozen (bufferevent_sock.c: evbuffer_freeze(bufev->output, 1));
 *                         buffer.c evbuffer_drain on a non-empty buffer with freeze_start returns
 *                         -1 and drains NOTHING.  e_out_frozen models that bit for EB[E_OUT].
 *   evbuffer_freeze/unfreeze(buf, at_front)  set/clear e_out_frozen for (EB[E_OUT], 1); recorded.
 *   bufferevent_replacefd(bev, fd)  bufferevent.c: closes the old fd (evutil_closesocket), installs
 *                         fd; be_socket_setfd UNFREEZES both buffers.  Recorded: call count, new fd,
 *                         "old fd closed"; always succeeds (trusted: close() does not fail).
 *   bufferevent_disable_hard_, bufferevent_setcb (arguments recorded, wraps the c23 counter),
 *   event_deferred_cb_schedule_ (counted).
 *   vf_close_cb           the user's close callback: records the call and the state it saw.
 * Include AFTER the real http.c and `struct in IN;`. */
#ifndef VF_STUB_C24G_ENV_H_
#define VF_STUB_C24G_ENV_H_
#define evbuffer_drain vf_c23_evbuffer_drain_
#define bufferevent_setcb vf_c23_bufferevent_setcb_
#include "stubs/c23_http_env.h"
#undef evbuffer_drain
#undef bufferevent_setcb

int e_out_frozen;                           /* freeze_start of the connection's output buffer */
int e_drain_fail_calls;                     /* evbuffer_drain calls that returned -1 */
int e_freeze_calls, e_unfreeze_calls;
int e_replacefd_calls, e_replacefd_fd, e_fd_closed_calls;
int e_disable_hard_calls; short e_disable_hard_what;
int e_setcb_cleared;                        /* the LAST bufferevent_setcb installed NULL for all three callbacks */
int e_setcb_http;                           /* the LAST bufferevent_setcb installed evhttp_read_cb/evhttp_write_cb/evhttp_error_cb with the connection as argument */
void *e_setcb_arg;
int e_deferred_calls;
int e_closecb_calls, e_closecb_state; void *e_closecb_arg;

#define VF_C24G_ENV_RESET() do { VF_HTTP_ENV_RESET(); e_out_frozen = 0; e_drain_fail_calls = 0; e_freeze_calls = e_unfreeze_calls = 0; \
	e_replacefd_calls = 0; e_replacefd_fd = 0; e_fd_closed_calls = 0; e_disable_hard_calls = 0; e_disable_hard_what = 0; \
	e_setcb_cleared = 0; e_setcb_http = 0; e_setcb_arg = 0; e_deferred_calls = 0; e_closecb_calls = 0; e_closecb_state = -1; e_closecb_arg = 0; } while (0)

int evbuffer_drain(struct evbuffer *buf, size_t len)
{
	E_CHK(buf);
	if (buf == &EB[E_OUT] && e_out_frozen && buf->len > 0) { e_drain_fail_calls++; return -1; }   /* buffer.c: freeze_start => -1, nothing removed */
	return vf_c23_evbuffer_drain_(buf, len);
}
int evbuffer_freeze(struct evbuffer *buf, int at_front)
{
	E_CHK(buf); e_freeze_calls++;
	if (buf == &EB[E_OUT] && at_front) e_out_frozen = 1;
	return 0;
}
int evbuffer_unfreeze(struct evbuffer *buf, int at_front)
{
	E_CHK(buf); e_unfreeze_calls++;
	if (buf == &EB[E_OUT] && at_front) e_out_frozen = 0;
	return 0;
}
int bufferevent_replacefd(struct bufferevent *b, evutil_socket_t fd)
{
	__CPROVER_assert(b == &BEV, "bufferevent_replacefd: the connection's bufferevent");
	e_replacefd_calls++; e_replacefd_fd = (int)fd; e_fd_closed_calls++;
	e_out_frozen = 0;                       /* be_socket_setfd: evbuffer_unfreeze(bufev->output, 1) */
	return 0;
}
int bufferevent_disable_hard_(struct bufferevent *b, short what)
{
	__CPROVER_assert(b == &BEV, "bufferevent_disable_hard_: the connection's bufferevent");
	e_disable_hard_calls++; e_disable_hard_what = what;
	return 0;
}
void bufferevent_setcb(struct bufferevent *b, bufferevent_data_cb r, bufferevent_data_cb w, bufferevent_event_cb e, void *arg)
{
	vf_c23_bufferevent_setcb_(b, r, w, e, arg);
	e_setcb_cleared = (r == NULL && w == NULL && e == NULL);
	e_setcb_http = (r == evhttp_read_cb && w == evhttp_write_cb && e == evhttp_error_cb);
	e_setcb_arg = arg;
}
int event_deferred_cb_schedule_(struct event_base *base, struct event_callback *cb)
{
	(void)base; (void)cb; e_deferred_calls++;
	return 1;
}
static void vf_close_cb(struct evhttp_connection *evcon, void *arg)
{
	e_closecb_calls++; e_closecb_state = (int)evcon->state; e_closecb_arg = arg;
}
#endif
