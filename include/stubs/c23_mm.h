/* stubs/c23_mm.h — allocator environment for http.c units: stubs/mm.h (bodies over malloc, failure
 * from the choice stream) with a strdup/realloc that allocate CONSTANT-size objects (UNIT_GUIDE
 * pitfalls 2 and 5: no symbolic-size malloc, no symbolic-length memcpy).  The copy is a bounded
 * byte loop; a source string longer than VF_STRMAX is an obligation failure (never truncated).
 * Include after `struct in IN;`. */
#ifndef VF_STUB_C23_MM_H_
#define VF_STUB_C23_MM_H_
#ifndef VF_STRMAX
#define VF_STRMAX 16
#endif
#ifndef VF_HEAPSTR
#define VF_HEAPSTR (2 * VF_STRMAX + 2)     /* capacity of a heap string object (room for one obs-fold append) */
#endif
#define VF_MM_NO_STRDUP
#define VF_MM_NO_REALLOC
#include "stubs/mm.h"
char *event_mm_strdup_(const char *str)
{
	char *p; size_t i;
	if (!str) { errno = EINVAL; return NULL; }
	if (VF_MM_FAIL_()) { errno = ENOMEM; return NULL; }
	p = malloc(VF_HEAPSTR);
#ifndef VF_NATIVE
	__CPROVER_assume(p != NULL);
#endif
	g_mm_live++; g_mm_allocs++;
	for (i = 0; i < VF_HEAPSTR; i++) { p[i] = str[i]; if (str[i] == '\0') break; }
	__CPROVER_assert(i < VF_HEAPSTR, "mm_strdup model: source string fits the modelled heap string");
	return p;
}
/* realloc of a heap STRING obtained from event_mm_strdup_ (the only use in the parsing code:
 * evhttp_append_to_last_header): same object when the request fits, failure from the choice stream */
void *event_mm_realloc_(void *p, size_t sz)
{
	if (VF_MM_FAIL_()) { errno = ENOMEM; return NULL; }
	__CPROVER_assert(p != NULL, "mm_realloc model: reallocating an existing heap string");
	__CPROVER_assert(sz <= VF_HEAPSTR, "mm_realloc model: new size fits the modelled heap string (unit must size VF_HEAPSTR)");
	return p;
}
#endif
