/* stubs/c44_listener_env.h — everything listener.c calls outside its translation unit, as ghost models
 * (TRUSTED), for the C44 units.  Include AFTER "listener.c", struct in / IN, stubs/log.h, stubs/mm.h,
 * stubs/lock.h.  The unit provides `static struct evconnlistener_event *L;` BEFORE including this file.
 *
 * Ghost ledger g_l (reset by VF_C44_RESET()):
 *   accept4      every call is counted; a success hands out a fresh descriptor (pending = that fd) with a
 *                peer address of socklen bytes (socklen in 0..sizeof(sockaddr_storage), 0 = the "nmap" case);
 *                a failure sets errno to any value.  A new accept while a descriptor is still pending is an
 *                obligation failure ("a connection was leaked"); so is an accept while the listener is disabled.
 *   closesocket  of the pending descriptor disposes of it (closed++); of the listening descriptor counts
 *                lfd_closed; of anything else is an obligation failure (double close / foreign fd).
 *   user cb      receives the pending descriptor (delivered++) - see the units for what it may do.
 *   event_add/event_del/event_assign/event_get_fd/event_get_base/event_debug_unassign: ghost of event.c
 *                (what C02 establishes): a pending bit for the listener's event, results drawn from the
 *                choice stream; listen/bind/socket helpers: counters, results from the choice stream. */
#ifndef VF_STUB_C44_LISTENER_ENV_H_
#define VF_STUB_C44_LISTENER_ENV_H_

struct c44_ghost {
	unsigned accept_calls, accepted, delivered, closed;   /* ledger (unsigned: the loop is unbounded, equalities are modulo 2^32) */
	int pending_fd;                                   /* descriptor accepted but not yet delivered/closed, or -1 */
	int accept_failed, fail_errno;                    /* the last accept4 failed with this errno */
	int errcb_set_at_fail;                            /* an error callback was installed at that moment */
	int last_socklen;
	unsigned char peer0, peer1;                       /* first two bytes of the peer address of the pending connection */
	int lfd_closed;                                   /* closes of the LISTENING descriptor */
	int bad_close;                                    /* closes of any other descriptor */
	unsigned err_calls; int err_ok;                            /* error callback */
	int cb_ok;                                        /* every delivery had the right arguments / lock state */
	int user_freed;                                   /* the user callback called evconnlistener_free (ghost of it) */
	unsigned user_disabled;
	int lock_freed;
	int ev_pending;                                   /* ghost of event.c: the listener's event is added */
	unsigned add_calls, del_calls, assign_calls, unassign_calls; int add_ret, del_ret;
	int last_del, unassign_after_del;                 /* event_debug_unassign came directly after an event_del of the event */
	unsigned listen_calls; int listen_backlog, listen_ret;
	int lockdepth_at_accept_ok;
	int assign_ok; struct event_base *assign_base;
	int add_lockdepth, del_lockdepth;                 /* lock depth at the last event_add / event_del */
};
struct c44_ghost g_l;
#define VF_C44_LFD 7        /* the listening descriptor used by the units */
#define VF_C44_RESET() do { struct c44_ghost z_ = {0}; g_l = z_; g_l.pending_fd = -1; g_l.cb_ok = 1; g_l.err_ok = 1; g_l.lockdepth_at_accept_ok = 1; } while (0)
#define C44_HELD (L->base.lock != NULL ? 1 : 0)

evutil_socket_t evutil_accept4_(evutil_socket_t sockfd, struct sockaddr *addr, ev_socklen_t *addrlen, int flags)
{
	unsigned c = VF_CHOOSE();
	g_l.accept_calls++;
	__CPROVER_assert(g_mm_frees == 0, "accept4: the listener is still alive");
	__CPROVER_assert(sockfd == VF_C44_LFD, "accept4 on the listening descriptor");
	__CPROVER_assert(g_l.pending_fd == -1, "accept4: the previously accepted connection was delivered or closed (never leaked)");
	__CPROVER_assert(L->base.enabled, "accept4 only while the listener is enabled (it accepts nothing while disabled)");
	__CPROVER_assert(flags == L->base.accept4_flags, "accept4 with the flags chosen at creation");
	if (g_lock_depth[1] != C44_HELD) g_l.lockdepth_at_accept_ok = 0;
	if (c & 1u) {
		unsigned sl = (c >> 1) % (sizeof(struct sockaddr_storage) + 1);
		g_l.accept_failed = 0;
		g_l.accepted++;
		g_l.pending_fd = 100 + (int)((c >> 9) % 1000u);   /* any descriptor other than the listening one */
		g_l.last_socklen = (int)sl;
		g_l.peer0 = (unsigned char)(c >> 16); g_l.peer1 = (unsigned char)(c >> 24);
		((unsigned char *)addr)[0] = g_l.peer0; ((unsigned char *)addr)[1] = g_l.peer1;
		*addrlen = (ev_socklen_t)sl;
		return g_l.pending_fd;
	}
	g_l.accept_failed = 1;
	g_l.errcb_set_at_fail = (L->base.errorcb != NULL);
	g_l.fail_errno = (int)(c >> 1);
	errno = g_l.fail_errno;
	return -1;
}

int evutil_closesocket(evutil_socket_t s)
{
	if (s == g_l.pending_fd && s != -1) { g_l.closed++; g_l.pending_fd = -1; }
	else if (s == VF_C44_LFD) g_l.lfd_closed++;
	else { g_l.bad_close++; __CPROVER_assert(0, "closesocket: only the pending accepted descriptor or the listening descriptor is ever closed, once"); }
	return 0;
}

/* ---- event.c ghost */
int event_add(struct event *ev, const struct timeval *tv)
{
	g_l.add_calls++; g_l.last_del = 0; g_l.add_lockdepth = g_lock_depth[1];
	__CPROVER_assert(ev == &L->listener && tv == NULL, "event_add on the listener's event, no timeout");
	g_l.add_ret = (VF_CHOOSE() & 1u) ? -1 : 0;
	if (g_l.add_ret == 0) g_l.ev_pending = 1;
	return g_l.add_ret;
}
int event_del(struct event *ev)
{
	g_l.del_calls++; g_l.last_del = 1; g_l.del_lockdepth = g_lock_depth[1];
	__CPROVER_assert(ev == &L->listener, "event_del on the listener's event");
	g_l.del_ret = (VF_CHOOSE() & 1u) ? -1 : 0;
	if (g_l.del_ret == 0) g_l.ev_pending = 0;
	return g_l.del_ret;
}
int event_assign(struct event *ev, struct event_base *base, evutil_socket_t fd, short events, event_callback_fn cb, void *arg)
{
	g_l.assign_calls++;
	if (L == NULL) L = EVUTIL_UPCAST(ev, struct evconnlistener_event, listener);   /* evconnlistener_new: the object under construction */
	g_l.assign_ok = (ev == &L->listener && fd == VF_C44_LFD && events == (EV_READ | EV_PERSIST) && cb == listener_read_cb && arg == (void *)L);
	g_l.assign_base = base;
	ev->ev_base = base; ev->ev_fd = fd; ev->ev_events = events; ev->ev_evcallback.evcb_cb_union.evcb_callback = cb; ev->ev_evcallback.evcb_arg = arg;
	return 0;
}
evutil_socket_t event_get_fd(const struct event *ev) { return ev->ev_fd; }
struct event_base *event_get_base(const struct event *ev) { return ev->ev_base; }
void event_debug_unassign(struct event *ev) { (void)ev; g_l.unassign_calls++; g_l.unassign_after_del = g_l.last_del; }
int listen(int fd, int backlog)
{
	g_l.listen_calls++; g_l.listen_backlog = backlog;
	__CPROVER_assert(fd == VF_C44_LFD, "listen on the descriptor given to evconnlistener_new");
	g_l.listen_ret = (VF_CHOOSE() & 1u) ? -1 : 0;
	return g_l.listen_ret;
}

/* ---- lock allocation (evthread.c): cookie 1 of stubs/lock.h, may fail */
static void *vf_c44_lock_alloc(unsigned locktype) { (void)locktype; return (VF_CHOOSE() & 1u) ? NULL : VF_LOCK_COOKIE(1); }
static void vf_c44_lock_free(void *lock, unsigned locktype)
{
	(void)locktype;
	__CPROVER_assert(lock == VF_LOCK_COOKIE(1), "lock free: the listener's lock");
	__CPROVER_assert(g_lock_depth[1] == 0, "lock free: the lock is not held");
	g_l.lock_freed++;
}
#define VF_C44_INSTALL() do { VF_INSTALL_LOCKS(); evthread_lock_fns_.alloc = vf_c44_lock_alloc; evthread_lock_fns_.free = vf_c44_lock_free; VF_MM_RESET(); VF_C44_RESET(); } while (0)
#endif
