/* stubs/c28_libc_ref.h — ISO C / POSIX reference bodies for libc functions that CBMC 6.11 has no (usable)
 * body for (DESIGN P31) or whose built-in model is imprecise with symbolic lengths (UNIT_GUIDE pitfall 2).
 * Each body is the text of the standard's description, as a bounded loop.  Trusted base items:
 *   "strtol: ISO C 7.22.1.4 reference body (c28_libc_ref.h)"
 *   "strsep: BSD/glibc man-page reference body (c28_libc_ref.h)"
 *   "strstr: ISO C 7.24.5.7 reference body (c28_libc_ref.h)"
 *   "memcpy: byte loop with r_ok/w_ok checks, capacity VF_C28_MEMCAP (c28_libc_ref.h)"
 *   "strchr: ISO C 7.24.5.2 reference body, capacity VF_C28_MEMCAP (c28_libc_ref.h)" — CBMC has a body, but it
 *   costs ~10x more per call in the URI scanners (strchr(SUBDELIMS, c) in every loop iteration)
 * Select with VF_C28_WANT_STRTOL / _STRSEP / _STRSTR / _MEMCPY / _STRCHR before including.
 */
#ifndef VF_STUB_C28_LIBC_REF_H_
#define VF_STUB_C28_LIBC_REF_H_
#include <stddef.h>
#include <limits.h>
#include <string.h>
#include <stdlib.h>

#ifndef VF_C28_MEMCAP
#define VF_C28_MEMCAP 64
#endif

#ifndef VF_C28_STRTOL_CAP
#define VF_C28_STRTOL_CAP 3    /* digits (and leading blanks) the loops can take; more = obligation failure. http.c passes 2 hex digits */
#endif
#if defined(VF_C28_WANT_STRTOL) && !defined(VF_NATIVE)   /* natively the C library's own function runs */
/* ISO C 7.22.1.4: optional white space, optional sign, optional 0x/0X when base is 16 (or 0), then the
 * longest sequence of digits of the base; value clamped to LONG_MIN/LONG_MAX with errno = ERANGE. */
static int vf_c28_digit_(char c)
{
	if (c >= '0' && c <= '9') return c - '0';
	if (c >= 'a' && c <= 'z') return c - 'a' + 10;
	if (c >= 'A' && c <= 'Z') return c - 'A' + 10;
	return 99;
}
long strtol(const char *nptr, char **endptr, int base)
{
	const char *s = nptr; int neg = 0, any = 0, over = 0; unsigned long acc = 0, lim;
	unsigned k_;
	for (k_ = 0; k_ < VF_C28_STRTOL_CAP; k_++) { if (!(*s == ' ' || (*s >= 9 && *s <= 13))) break; s++; }
	if (*s == '-') { neg = 1; s++; } else if (*s == '+') s++;
	if ((base == 0 || base == 16) && s[0] == '0' && (s[1] == 'x' || s[1] == 'X') && vf_c28_digit_(s[2]) < 16) { s += 2; base = 16; }
	if (base == 0) base = (s[0] == '0') ? 8 : 10;
	lim = neg ? (unsigned long)LONG_MAX + 1ul : (unsigned long)LONG_MAX;
	for (k_ = 0; k_ < VF_C28_STRTOL_CAP; k_++) {
		int d = vf_c28_digit_(*s);
		if (d >= base) break;
		any = 1;
		if (over || acc > (lim - (unsigned long)d) / (unsigned long)base) over = 1;
		else acc = acc * (unsigned long)base + (unsigned long)d;
		s++;
	}
	__CPROVER_assert(k_ < VF_C28_STRTOL_CAP, "stub capacity: strtol operand has fewer than VF_C28_STRTOL_CAP digits");
	if (endptr) *endptr = (char *)(any ? s : nptr);
	if (over) { errno = ERANGE; return neg ? LONG_MIN : LONG_MAX; }
	if (neg) return acc == (unsigned long)LONG_MAX + 1ul ? LONG_MIN : -(long)acc;
	return (long)acc;
}
#endif

#if defined(VF_C28_WANT_STRSEP) && !defined(VF_NATIVE)
/* strsep(3): if *stringp is NULL return NULL; otherwise find the first byte of *stringp that is in delim
 * (or the terminator); overwrite a delimiter with NUL and set *stringp past it, or to NULL at the end of
 * the string; return the original *stringp. */
char *strsep(char **stringp, const char *delim)
{
	char *tok, *s; unsigned k_, d_;
	if (!stringp || !*stringp) return NULL;
	tok = s = *stringp;
	for (k_ = 0; k_ < VF_C28_MEMCAP; k_++) {
		char c = s[k_];
		if (c == '\0') { *stringp = NULL; return tok; }
		for (d_ = 0; d_ < 4; d_++) {
			if (delim[d_] == '\0') break;
			if (delim[d_] == c) { s[k_] = '\0'; *stringp = s + k_ + 1; return tok; }
		}
	}
	__CPROVER_assert(0, "stub capacity: strsep operand longer than VF_C28_MEMCAP");
	return tok;
}
#endif

#if defined(VF_C28_WANT_STRSTR) && !defined(VF_NATIVE)
char *strstr(const char *h, const char *n)
{
	unsigned i_, j_;
	for (i_ = 0; i_ < VF_C28_MEMCAP; i_++) {
		for (j_ = 0; j_ < VF_C28_MEMCAP; j_++) {
			if (n[j_] == '\0') return (char *)(h + i_);
			if (h[i_ + j_] != n[j_]) break;
		}
		if (h[i_] == '\0') return NULL;
	}
	__CPROVER_assert(0, "stub capacity: strstr operand longer than VF_C28_MEMCAP");
	return NULL;
}
#endif

#if defined(VF_C28_WANT_MEMCPY) && !defined(VF_NATIVE)
void *memcpy(void *dst, const void *src, size_t n)
{
	size_t i_;
	__CPROVER_assert(n <= VF_C28_MEMCAP, "stub capacity: memcpy length within VF_C28_MEMCAP");
#ifndef VF_NATIVE
	__CPROVER_assert(n == 0 || (__CPROVER_r_ok(src, n) && __CPROVER_w_ok(dst, n)), "memcpy: source readable and destination writable for n bytes");
#endif
	for (i_ = 0; i_ < VF_C28_MEMCAP; i_++) { if (i_ >= n) break; ((unsigned char *)dst)[i_] = ((const unsigned char *)src)[i_]; }
	return dst;
}
#endif
#if defined(VF_C28_WANT_STRCHR) && !defined(VF_NATIVE)
/* ISO C 7.24.5.2: first occurrence of (char)c in s, the terminating NUL being part of the string */
char *strchr(const char *s, int c)
{
	unsigned k_;
	for (k_ = 0; k_ < VF_C28_MEMCAP; k_++) {
		if (s[k_] == (char)c) return (char *)(s + k_);
		if (s[k_] == '\0') return NULL;
	}
	__CPROVER_assert(0, "stub capacity: strchr operand longer than VF_C28_MEMCAP");
	return NULL;
}
#endif
#endif
