/* contracts/c12a_contracts.h — contracts of buffer.c helpers that the c12a units REPLACE in callers and
 * ENFORCE in their own unit (same text).  Include after contracts/c12a_shape.h.
 *   chain_new_c          evbuffer_chain_new          enforced in c12a_chain_new
 *   chain_new_membuf_c   evbuffer_chain_new_membuf   enforced in c12a_chain_new_membuf
 *   chain_free_c         evbuffer_chain_free         (C15's unit; here: ghost record + havoc of the freed chain)
 *   invoke_cb_c          evbuffer_invoke_callbacks_  (C13's unit; here: ghost record of what the callbacks are shown)
 */
#ifndef VF_C12A_CONTRACTS_H_
#define VF_C12A_CONTRACTS_H_

#define C12A_RV __CPROVER_return_value
#define C12A_PEQ(a, b) __CPROVER_pointer_equals((a), (b))
/* a brand-new chain: header fields as evbuffer_chain_new leaves them.  Only the header is an object of the
 * verifier (constant size, pitfall 5); the data area [buffer, buffer+buffer_len) directly behind it is ghost:
 * copies into it are checked against buffer_len by c12a_memcpy. */
#define C12A_NEWCHAIN_(p) (__CPROVER_is_fresh((p), sizeof(struct evbuffer_chain)) && (p)->next == NULL && (p)->misalign == 0 && (p)->off == 0 && \
	(p)->flags == 0 && (p)->refcnt == 1 && __CPROVER_pointer_equals((p)->buffer, (unsigned char *)((p) + 1)))
#define C12A_REGISTERED_(p) \
	IMP(__CPROVER_old(g_nnew) == 0, __CPROVER_pointer_equals(g_new[0], (p))) && IMP(__CPROVER_old(g_nnew) == 1, __CPROVER_pointer_equals(g_new[1], (p)))

#define C12A_CHOICE_MADE_ (g_al.nchoice == __CPROVER_old(g_al.nchoice) + 1 && \
	IMP(__CPROVER_old(g_al.nchoice) < VF_NCHOICE, (C12A_RV == NULL) == ((VF_CHOICES[__CPROVER_old(g_al.nchoice) < VF_NCHOICE ? __CPROVER_old(g_al.nchoice) : 0] & 1u) != 0)))
VF_CONTRACT(struct evbuffer_chain *, chain_new_c, size_t size)
__CPROVER_requires(g_nnew == 0 || g_nnew == 1)
__CPROVER_assigns(g_new[0], g_new[1], g_al, errno)
/* 1 over-large requests are refused without calling the allocator */
__CPROVER_ensures(IMP(size > EVBUFFER_CHAIN_MAX - EVBUFFER_CHAIN_SIZE, C12A_RV == NULL && g_allocfail == __CPROVER_old(g_allocfail) && g_al.nchoice == __CPROVER_old(g_al.nchoice)))
/* 2 otherwise NULL exactly when the allocator failed; the allocator's decision is the next element of the choice stream IN.ch
 * (so that a counterexample's IN makes the native replay fail the same allocation) */
__CPROVER_ensures(IMP(size <= EVBUFFER_CHAIN_MAX - EVBUFFER_CHAIN_SIZE, g_allocfail == __CPROVER_old(g_allocfail) + (C12A_RV == NULL ? 1 : 0)))
__CPROVER_ensures(IMP(size <= EVBUFFER_CHAIN_MAX - EVBUFFER_CHAIN_SIZE, C12A_CHOICE_MADE_))
/* 3 a new chain of exactly the requested capacity */
__CPROVER_ensures(C12A_RV == NULL || (C12A_NEWCHAIN_(C12A_RV) && C12A_RV->buffer_len == size && g_mm_last_size == size + EVBUFFER_CHAIN_SIZE))
/* 4 registered */
__CPROVER_ensures(g_nnew == __CPROVER_old(g_nnew) + (C12A_RV != NULL ? 1 : 0))
__CPROVER_ensures(C12A_RV == NULL || (C12A_REGISTERED_(C12A_RV)))
;

/* capacity rule of evbuffer_chain_new_membuf: header+data is the smallest power of two >= max(MIN_BUFFER_SIZE, size+header)
 * for requests below EVBUFFER_CHAIN_MAX/2, the exact size above */
#define C12A_TOT_(p) ((p)->buffer_len + EVBUFFER_CHAIN_SIZE)
VF_CONTRACT(struct evbuffer_chain *, chain_new_membuf_c, size_t size)
__CPROVER_requires(g_nnew == 0 || g_nnew == 1)
__CPROVER_assigns(g_new[0], g_new[1], g_al, errno)
__CPROVER_ensures(IMP(size > EVBUFFER_CHAIN_MAX - EVBUFFER_CHAIN_SIZE, C12A_RV == NULL && g_allocfail == __CPROVER_old(g_allocfail) && g_al.nchoice == __CPROVER_old(g_al.nchoice)))
__CPROVER_ensures(IMP(size <= EVBUFFER_CHAIN_MAX - EVBUFFER_CHAIN_SIZE, g_allocfail == __CPROVER_old(g_allocfail) + (C12A_RV == NULL ? 1 : 0)))
__CPROVER_ensures(IMP(size <= EVBUFFER_CHAIN_MAX - EVBUFFER_CHAIN_SIZE, C12A_CHOICE_MADE_))
/* 3 a new chain with room for at least `size` bytes */
__CPROVER_ensures(C12A_RV == NULL || (C12A_NEWCHAIN_(C12A_RV) && C12A_RV->buffer_len >= size && C12A_RV->buffer_len <= EVBUFFER_CHAIN_MAX - EVBUFFER_CHAIN_SIZE && g_mm_last_size == C12A_RV->buffer_len + EVBUFFER_CHAIN_SIZE))
/* 4 the capacity rule */
__CPROVER_ensures(C12A_RV == NULL || IMP(size + EVBUFFER_CHAIN_SIZE >= EVBUFFER_CHAIN_MAX / 2, C12A_RV->buffer_len == size))
__CPROVER_ensures(C12A_RV == NULL || IMP(size + EVBUFFER_CHAIN_SIZE < EVBUFFER_CHAIN_MAX / 2,
	(C12A_TOT_(C12A_RV) & (C12A_TOT_(C12A_RV) - 1)) == 0 && C12A_TOT_(C12A_RV) >= MIN_BUFFER_SIZE &&
	(C12A_TOT_(C12A_RV) == MIN_BUFFER_SIZE || C12A_TOT_(C12A_RV) / 2 < size + EVBUFFER_CHAIN_SIZE)))
/* 6 registered */
__CPROVER_ensures(g_nnew == __CPROVER_old(g_nnew) + (C12A_RV != NULL ? 1 : 0))
__CPROVER_ensures(C12A_RV == NULL || (C12A_REGISTERED_(C12A_RV)))
;

/* evbuffer_chain_free as seen by a buffer that drops a chain: the chain is recorded as freed and its next and off
 * fields become arbitrary (it may really be freed, or merely lose one reference: either way the buffer must not look
 * at it again; following the havocked next pointer is an obligation failure; c12a_memcpy refuses freed chains). */
VF_CONTRACT_V(chain_free_c, struct evbuffer_chain *chain)
__CPROVER_requires(C12A_CODE(chain) >= 0 && chain->refcnt > 0)
__CPROVER_requires(!(g_freed_mask & (1u << C12A_CODE(chain))))      /* never twice */
__CPROVER_requires(!CHAIN_PINNED_R(chain))
__CPROVER_assigns(g_fr, chain->next, chain->off)
__CPROVER_ensures(g_freed == __CPROVER_old(g_freed) + 1)
__CPROVER_ensures(g_freed_mask == (__CPROVER_old(g_freed_mask) | (1u << C12A_CODE(chain))))
;

/* evbuffer_chain_insert(buf, chain) on the harness buffer BUF whose live list is still CH[0..c12a_nch) in index order
 * (offsets may have been changed by the caller), chain being a chain allocated during the call: every chain behind the
 * last chain with data is freed, chain is linked there and becomes buf->last; last_with_datap moves to it iff it carries data. */
#define C12A_LWDNOW_ ((c12a_nch > 2 && CH[2].off) ? 2 : (c12a_nch > 1 && CH[1].off) ? 1 : (c12a_nch > 0 && CH[0].off) ? 0 : -1)
#define C12A_OLDLWD_ ((c12a_nch > 2 && __CPROVER_old(CH[2].off)) ? 2 : (c12a_nch > 1 && __CPROVER_old(CH[1].off)) ? 1 : (c12a_nch > 0 && __CPROVER_old(CH[0].off)) ? 0 : -1)
#define C12A_OLDLWD0_ (C12A_OLDLWD_ < 0 ? 0 : C12A_OLDLWD_)      /* clamped: usable as an index */
#define C12A_HARNESS_LIST_(b) (c12a_nch <= 3 && (b)->first == (c12a_nch ? &CH[0] : NULL) && (b)->last == (c12a_nch ? &CH[c12a_nch - 1] : NULL) && \
	IMP(c12a_nch > 0, CH[0].next == (c12a_nch > 1 ? &CH[1] : NULL)) && IMP(c12a_nch > 1, CH[1].next == (c12a_nch > 2 ? &CH[2] : NULL)) && IMP(c12a_nch > 2, CH[2].next == NULL) && \
	(b)->last_with_datap == (C12A_LWDNOW_ <= 0 ? &(b)->first : &CH[C12A_LWDNOW_ <= 0 ? 0 : C12A_LWDNOW_ - 1].next))
#define C12A_MASK_FROM_(k) ((((1u << c12a_nch) - 1u) >> (k)) << (k))      /* bits k..nch-1 */
VF_CONTRACT_V(chain_insert_c, struct evbuffer *buf, struct evbuffer_chain *chain)
__CPROVER_requires(buf == &BUF && C12A_CODE(chain) >= 6 && chain->next == NULL && g_freed == 0 && g_freed_mask == 0)
__CPROVER_requires(IMP(buf->lock != NULL, g_lock_depth[C12A_LOCKIDX(buf)] >= 1))
__CPROVER_requires(C12A_HARNESS_LIST_(buf))
__CPROVER_requires(chain->off <= EV_SIZE_MAX - buf->total_len)
__CPROVER_assigns(buf->first, buf->last, buf->last_with_datap, buf->total_len, g_fr, CH[0].next, CH[0].off, CH[1].next, CH[1].off, CH[2].next, CH[2].off)
/* (pointer-valued clauses use __CPROVER_pointer_equals: when the contract replaces a call, `==` on a havocked pointer
 * leaves its value set unknown, UNIT_GUIDE pitfall 6) */
__CPROVER_ensures(buf->total_len == __CPROVER_old(buf->total_len) + chain->off && C12A_PEQ(buf->last, chain))
/* 2 no chain with data before: the new chain is the whole list */
__CPROVER_ensures(IMP(C12A_OLDLWD_ < 0, C12A_PEQ(buf->first, chain) && C12A_PEQ(buf->last_with_datap, &buf->first) && g_freed_mask == C12A_MASK_FROM_(0)))
/* 3 otherwise it follows the last chain with data; the chains up to there are untouched */
__CPROVER_ensures(IMP(C12A_OLDLWD_ >= 0, C12A_PEQ(buf->first, &CH[0]) && C12A_PEQ(CH[C12A_OLDLWD0_].next, chain) && g_freed_mask == C12A_MASK_FROM_(C12A_OLDLWD_ + 1)))
__CPROVER_ensures(IMP(C12A_OLDLWD_ >= 0, C12A_PEQ(buf->last_with_datap, (chain->off ? &CH[C12A_OLDLWD0_].next : __CPROVER_old(buf->last_with_datap)))))
__CPROVER_ensures(IMP(C12A_OLDLWD_ >= 1, C12A_PEQ(CH[0].next, &CH[1]) && CH[0].off == __CPROVER_old(CH[0].off)) && IMP(C12A_OLDLWD_ >= 2, C12A_PEQ(CH[1].next, &CH[2]) && CH[1].off == __CPROVER_old(CH[1].off)))
__CPROVER_ensures(IMP(C12A_OLDLWD_ >= 0, CH[C12A_OLDLWD0_].off == (C12A_OLDLWD_ == 2 ? __CPROVER_old(CH[2].off) : C12A_OLDLWD_ == 1 ? __CPROVER_old(CH[1].off) : __CPROVER_old(CH[0].off))))
__CPROVER_ensures(g_freed == (int)c12a_nch - (C12A_OLDLWD_ + 1))
;

/* evbuffer_free_all_chains(chain) on a suffix CH[k..c12a_nch) of BUF's harness list (chain == NULL: nothing) */
#define C12A_IDX_(p) ((p) == &CH[0] ? 0 : (p) == &CH[1] ? 1 : (p) == &CH[2] ? 2 : 3)
VF_CONTRACT_V(free_all_c, struct evbuffer_chain *chain)
__CPROVER_requires(chain == NULL || (C12A_IDX_(chain) < c12a_nch && c12a_nch <= 3))
__CPROVER_requires(IMP(c12a_nch > 0, CH[0].next == (c12a_nch > 1 ? &CH[1] : NULL)) && IMP(c12a_nch > 1, CH[1].next == (c12a_nch > 2 ? &CH[2] : NULL)) && IMP(c12a_nch > 2, CH[2].next == NULL))
__CPROVER_requires((g_freed_mask & 7u) == 0 && IMP(c12a_nch > 0, CH[0].refcnt > 0) && IMP(c12a_nch > 1, CH[1].refcnt > 0) && IMP(c12a_nch > 2, CH[2].refcnt > 0))
__CPROVER_assigns(g_fr, CH[0].next, CH[0].off, CH[1].next, CH[1].off, CH[2].next, CH[2].off)
__CPROVER_ensures(g_freed_mask == (__CPROVER_old(g_freed_mask) | (chain == NULL ? 0u : C12A_MASK_FROM_(C12A_IDX_(chain)))))
__CPROVER_ensures(g_freed == __CPROVER_old(g_freed) + (chain == NULL ? 0 : (int)c12a_nch - C12A_IDX_(chain)))
/* chains in front of `chain` are untouched */
#define C12A_KEPT_(i) IMP(c12a_nch > (i) && (chain == NULL || C12A_IDX_(chain) > (i)), C12A_PEQ(CH[i].next, __CPROVER_old(CH[i].next)) && CH[i].off == __CPROVER_old(CH[i].off))
__CPROVER_ensures(C12A_KEPT_(0))
__CPROVER_ensures(C12A_KEPT_(1))
__CPROVER_ensures(C12A_KEPT_(2))
;
/* evbuffer_free_trailing_empty_chains(buf) on the harness buffer BUF (list still CH[0..c12a_nch), canonical last_with_datap):
 * frees every chain behind the last chain with data, cuts the list there and returns the address of the cut link.
 * buf->last is left to the caller ("The caller must fix up buf->last and buf->first as needed"). */
VF_CONTRACT(struct evbuffer_chain **, free_trailing_c, struct evbuffer *buf)
__CPROVER_requires(buf == &BUF && g_freed == 0 && g_freed_mask == 0 && C12A_HARNESS_LIST_(buf))
__CPROVER_requires(IMP(c12a_nch > 0, CH[0].refcnt > 0) && IMP(c12a_nch > 1, CH[1].refcnt > 0) && IMP(c12a_nch > 2, CH[2].refcnt > 0))
__CPROVER_assigns(buf->first, g_fr, CH[0].next, CH[0].off, CH[1].next, CH[1].off, CH[2].next, CH[2].off)
__CPROVER_ensures(C12A_PEQ(C12A_RV, (C12A_OLDLWD_ < 0 ? &buf->first : &CH[C12A_OLDLWD0_].next)))
__CPROVER_ensures(IMP(C12A_OLDLWD_ < 0, C12A_PEQ(buf->first, NULL) && g_freed_mask == C12A_MASK_FROM_(0)))
__CPROVER_ensures(IMP(C12A_OLDLWD_ >= 0, C12A_PEQ(buf->first, &CH[0]) && C12A_PEQ(CH[C12A_OLDLWD0_].next, NULL) && g_freed_mask == C12A_MASK_FROM_(C12A_OLDLWD_ + 1)))
__CPROVER_ensures(IMP(C12A_OLDLWD_ >= 1, C12A_PEQ(CH[0].next, &CH[1]) && CH[0].off == __CPROVER_old(CH[0].off)) && IMP(C12A_OLDLWD_ >= 2, C12A_PEQ(CH[1].next, &CH[2]) && CH[1].off == __CPROVER_old(CH[1].off)))
__CPROVER_ensures(IMP(C12A_OLDLWD_ >= 0, CH[C12A_OLDLWD0_].off == (C12A_OLDLWD_ == 2 ? __CPROVER_old(CH[2].off) : C12A_OLDLWD_ == 1 ? __CPROVER_old(CH[1].off) : __CPROVER_old(CH[0].off))))
__CPROVER_ensures(g_freed == (int)c12a_nch - (C12A_OLDLWD_ + 1))
;

/* evbuffer_invoke_callbacks_: called with the buffer locked; records what the callbacks are shown (the totals at the
 * moment of the call); afterwards the two counters are either both cleared (callbacks ran or there are none) or both
 * untouched (deferred). */
VF_CONTRACT_V(invoke_cb_c, struct evbuffer *buffer)
__CPROVER_requires(buffer == &BUF || buffer == &BUF2)
__CPROVER_requires(IMP(buffer->lock != NULL, g_lock_depth[C12A_LOCKIDX(buffer)] >= 1))
__CPROVER_assigns(g_cbs, buffer->n_add_for_cb, buffer->n_del_for_cb)
#define C12A_INVOKED_(k, o) (g_cb[k] == __CPROVER_old(g_cb[k]) + 1 && g_cb_total[k] == buffer->total_len && \
	g_cb_nadd[k] == __CPROVER_old(buffer->n_add_for_cb) && g_cb_ndel[k] == __CPROVER_old(buffer->n_del_for_cb) && \
	g_cb[o] == __CPROVER_old(g_cb[o]) && g_cb_total[o] == __CPROVER_old(g_cb_total[o]) && g_cb_nadd[o] == __CPROVER_old(g_cb_nadd[o]) && g_cb_ndel[o] == __CPROVER_old(g_cb_ndel[o]))
__CPROVER_ensures(IMP(buffer == &BUF, C12A_INVOKED_(0, 1)))
__CPROVER_ensures(IMP(buffer == &BUF2, C12A_INVOKED_(1, 0)))
__CPROVER_ensures((buffer->n_add_for_cb == __CPROVER_old(buffer->n_add_for_cb) && buffer->n_del_for_cb == __CPROVER_old(buffer->n_del_for_cb)) || (buffer->n_add_for_cb == 0 && buffer->n_del_for_cb == 0))
;
#endif
