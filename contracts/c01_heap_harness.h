/* contracts/c01_heap_harness.h — plain assert-harness for minheap-internal.h (included by the
 * real event.c).  The including unit defines C01_HEAP_OP (1 push, 2 erase, 3 pop, 4 adjust) and
 * C01_HEAPK (maximal heap size; bounded stand-in: the sift loops write p[i]->min_heap_idx through
 * pointers loaded from the array, which CBMC loop contracts cannot close — DESIGN §3 P6/P21).
 * All deadlines are symbolic (valid timevals, equal values included).
 *
 * HInv  = for i < n: p[i] is an event of the pool, p[i]->min_heap_idx == i, and
 *         p[(i-1)/2]->ev_timeout <= p[i]->ev_timeout                      (TInv(ii) of DESIGN §8 C01)
 * Each operation: HInv before => HInv after, the element set changes by exactly the operand,
 * no deadline is touched, plus the caller-view postcondition that event.c's contracts rely on
 * (C01_*_POST of contracts/c01_timer_contracts.h — same macro text as the replaced contracts). */
#ifndef C01_HEAPK
#define C01_HEAPK 7
#endif
#define KK C01_HEAPK
struct in { unsigned n; long sec[KK + 1], usec[KK + 1]; unsigned w; long nsec, nusec; int detached; };
struct in IN;
/* the pool: SEPARATE objects (an array of struct event would turn every p[i]->field access into a
 * byte-level update at a symbolic offset of one big object) */
static struct event E_0, E_1, E_2, E_3, E_4, E_5, E_6, E_7;
static struct event *const EP[8] = { &E_0, &E_1, &E_2, &E_3, &E_4, &E_5, &E_6, &E_7 };
#define E(j) (*EP[j])
static struct event *P[KK + 1];
static min_heap_t H;
static int is_pool(const struct event *e);
#define C01_HEAP_MEMBER(x) is_pool(x)
#define C01_PLAIN
#include "c02_event_contracts.h"
static struct event EV, HEV[2];          /* unused here; named by the default macros of the contracts header */
#include "c01_timer_contracts.h"

#define LE(a, b) (!evutil_timercmp(&(a)->ev_timeout, &(b)->ev_timeout, >))
static int is_pool(const struct event *e) { unsigned j; for (j = 0; j <= KK; j++) if (e == EP[j]) return 1; return 0; }
static int hinv(void)
{
	unsigned i;
	if (H.n > H.a || H.p != P) return 0;
	for (i = 0; i <= KK; i++) {
		if (i >= H.n) break;
		if (!is_pool(P[i])) return 0;
		if (P[i]->ev_timeout_pos.min_heap_idx != i) return 0;
		if (i > 0 && !LE(P[(i - 1) / 2], P[i])) return 0;
	}
	return 1;
}
/* E(j) is in the heap (at the slot its index names) */
static int in_heap(unsigned j) { size_t x = E(j).ev_timeout_pos.min_heap_idx; return x < H.n && P[x] == EP[j]; }
static int deadlines_untouched(void)
{
	unsigned j;
	for (j = 0; j <= KK; j++) if (E(j).ev_timeout.tv_sec != IN.sec[j] || E(j).ev_timeout.tv_usec != IN.usec[j]) return 0;
	return 1;
}
static void build(unsigned n)
{
	unsigned i;
	H.p = P; H.n = n; H.a = KK + 1;
	for (i = 0; i <= KK; i++) {
		__CPROVER_assume(IN.sec[i] >= 0 && IN.sec[i] <= ((long)1 << 40) && IN.usec[i] >= 0 && IN.usec[i] < 1000000);
		E(i).ev_timeout.tv_sec = IN.sec[i]; E(i).ev_timeout.tv_usec = IN.usec[i];
		E(i).ev_timeout_pos.min_heap_idx = (i < n) ? i : (size_t)-1;
		P[i] = (i < n) ? EP[i] : NULL;
	}
	__CPROVER_assume(hinv());            /* heap order on the symbolic deadlines (slot i holds E(i): a naming convention, no loss) */
}

void harness(void)
{
	unsigned j; int r; size_t on; struct event *otop; size_t oidx;
	VF_LOAD_IN();
	mm_malloc_fn_ = NULL; mm_realloc_fn_ = NULL; mm_free_fn_ = NULL;
#if C01_HEAP_OP == 1      /* ---------------------------------------------------------------- push */
	__CPROVER_assume(IN.n < KK + 1);
	build(IN.n);
	on = H.n; otop = P[0];
	r = min_heap_push_(&H, EP[IN.n]);
	__CPROVER_assert(hinv(), "push: heap order + index invariant hold afterwards");
	for (j = 0; j <= KK; j++) { if (j <= IN.n) __CPROVER_assert(in_heap(j), "push: every old element and the new one are in the heap"); }
	__CPROVER_assert(H.n == IN.n + 1 && H.a == KK + 1 && H.p == P, "push: size grows by exactly one, no reallocation when room was reserved");
	__CPROVER_assert(deadlines_untouched(), "push: no deadline is modified");
	__CPROVER_assert(C01_PUSH_POST(&H, EP[IN.n], r, on, otop), "push: caller-view postcondition (contracts/c01_timer_contracts.h)");
#ifdef VF_CANARY
	__CPROVER_assert(E(IN.n).ev_timeout_pos.min_heap_idx == IN.n, "canary: must fail (an early deadline sifts up)");
#endif
#elif C01_HEAP_OP == 2    /* ---------------------------------------------------------------- erase */
	__CPROVER_assume(IN.n >= 1 && IN.n <= KK + 1 && IN.w < IN.n);
	build(IN.n);
	on = H.n; otop = P[0]; oidx = IN.w;
	if (IN.detached) {        /* an element that is not in the heap: refused, nothing changes */
		__CPROVER_assume(IN.n <= KK);
		r = min_heap_erase_(&H, EP[KK]);
		__CPROVER_assert(r == -1 && H.n == IN.n && hinv(), "erase of a detached element: -1, heap untouched");
	} else {
		r = min_heap_erase_(&H, EP[IN.w]);
		__CPROVER_assert(hinv(), "erase: heap order + index invariant hold afterwards");
		for (j = 0; j <= KK; j++) { if (j < IN.n && j != IN.w) __CPROVER_assert(in_heap(j), "erase: every other element stays in the heap"); }
		__CPROVER_assert(H.n == IN.n - 1 && E(IN.w).ev_timeout_pos.min_heap_idx == (size_t)-1, "erase: size shrinks by exactly one, the element is marked detached");
		__CPROVER_assert(deadlines_untouched(), "erase: no deadline is modified");
		__CPROVER_assert(C01_ERASE_POST(&H, EP[IN.w], r, on, oidx, otop), "erase: caller-view postcondition (contracts/c01_timer_contracts.h)");
	}
#ifdef VF_CANARY
	__CPROVER_assert(P[0] == otop, "canary: must fail (erasing the top changes the top)");
#endif
#elif C01_HEAP_OP == 3    /* ---------------------------------------------------------------- pop */
	{
	struct event *e;
	__CPROVER_assume(IN.n <= KK + 1);
	build(IN.n);
	otop = IN.n ? P[0] : NULL;
	e = min_heap_pop_(&H);
	__CPROVER_assert(e == otop, "pop: returns the top (NULL on an empty heap)");
	__CPROVER_assert(hinv(), "pop: heap order + index invariant hold afterwards");
	if (IN.n) {
		for (j = 0; j <= KK; j++) { if (j < IN.n) { __CPROVER_assert(LE(e, EP[j]), "pop: the returned element has the minimal deadline");
			if (EP[j] != e) __CPROVER_assert(in_heap(j), "pop: every other element stays in the heap"); } }
		__CPROVER_assert(H.n == IN.n - 1 && e->ev_timeout_pos.min_heap_idx == (size_t)-1, "pop: size shrinks by one, element detached");
	}
	__CPROVER_assert(deadlines_untouched(), "pop: no deadline is modified");
	__CPROVER_assert(min_heap_empty_(&H) == (H.n == 0) && min_heap_size_(&H) == H.n && min_heap_top_(&H) == (H.n ? P[0] : NULL), "accessors: empty/size/top");
#ifdef VF_CANARY
	__CPROVER_assert(H.n == IN.n, "canary: must fail (pop removes an element)");
#endif
	}
#elif C01_HEAP_OP == 4    /* ---------------------------------------------------------------- adjust */
	__CPROVER_assume(IN.n >= 1 && IN.n <= KK + 1 && IN.w < IN.n);
	build(IN.n);
	/* the element's deadline changes arbitrarily (event_queue_reinsert_timeout's use), then adjust restores the order */
	__CPROVER_assume(IN.nsec >= 0 && IN.nsec <= ((long)1 << 40) && IN.nusec >= 0 && IN.nusec < 1000000);
	E(IN.w).ev_timeout.tv_sec = IN.nsec; E(IN.w).ev_timeout.tv_usec = IN.nusec;
	r = min_heap_adjust_(&H, EP[IN.w]);
	__CPROVER_assert(r == 0 && hinv(), "adjust: heap order + index invariant restored");
	for (j = 0; j <= KK; j++) { if (j < IN.n) __CPROVER_assert(in_heap(j), "adjust: same element set"); }
	__CPROVER_assert(H.n == IN.n, "adjust: size unchanged");
	__CPROVER_assert(min_heap_elt_is_top_(EP[IN.w]) == (P[0] == EP[IN.w]), "elt_is_top: exactly the element in slot 0");
#ifdef VF_CANARY
	__CPROVER_assert(E(IN.w).ev_timeout_pos.min_heap_idx == IN.w, "canary: must fail (a changed deadline moves the element)");
#endif
#endif
}
