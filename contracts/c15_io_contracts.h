/* contracts/c15_io_contracts.h — contracts REPLACED in the c16 (socket I/O) units.  Include after c15_contracts.h.
 *   drain_c            evbuffer_drain              caller-visible summary (the function itself: unit c12_drain, whose contract
 *                                                   states total_len' == total_len - min(len, total_len), n_del_for_cb accounting,
 *                                                   lock balance; this text is that contract restricted to what evbuffer_write_atmost sees)
 *   chain_new_membuf_c evbuffer_chain_new_membuf   enforced in c16_chain_new_membuf (same clauses as contracts/c12a_contracts.h, with
 *                                                   this cluster's allocation registry m_new[]/m_al) */
#ifndef VF_C15_IO_CONTRACTS_H_
#define VF_C15_IO_CONTRACTS_H_
struct c15_dn { int n; size_t len; int locked; } g_dn;     /* evbuffer_drain calls: count, length of the last one, lock held at the call */
VF_CONTRACT(int, drain_c, struct evbuffer *buf, size_t len)
__CPROVER_requires(buf == &BUF)
__CPROVER_assigns(g_dn, buf->total_len, buf->n_del_for_cb, g_cbs)
__CPROVER_ensures(g_dn.n == __CPROVER_old(g_dn.n) + 1 && g_dn.len == len && g_dn.locked == (buf->lock == NULL || g_lock_depth[C15_LOCKIDX(buf)] >= 1))
__CPROVER_ensures(IMP(!buf->freeze_start || __CPROVER_old(buf->total_len) == 0, __CPROVER_return_value == 0 && buf->total_len == __CPROVER_old(buf->total_len) - (len < __CPROVER_old(buf->total_len) ? len : __CPROVER_old(buf->total_len))))
__CPROVER_ensures(IMP(buf->freeze_start && __CPROVER_old(buf->total_len) != 0, __CPROVER_return_value == -1 && buf->total_len == __CPROVER_old(buf->total_len)))
;

#define CNM_RV __CPROVER_return_value
#define CNM_TOT_(p) ((p)->buffer_len + EVBUFFER_CHAIN_SIZE)
/* a brand-new chain as evbuffer_chain_new leaves it; only the header is an object of the verifier (constant size, pitfall 5), the
 * data area [buffer, buffer + buffer_len) directly behind it is ghost */
#define CNM_NEWCHAIN_(p) (__CPROVER_is_fresh((p), sizeof(struct evbuffer_chain)) && (p)->next == NULL && (p)->misalign == 0 && (p)->off == 0 && \
	(p)->flags == 0 && (p)->refcnt == 1 && __CPROVER_pointer_equals((p)->buffer, (unsigned char *)((p) + 1)))
VF_CONTRACT(struct evbuffer_chain *, chain_new_membuf_c, size_t size)
__CPROVER_requires(m_al.n >= 0 && m_al.n < C15_MAXNEW)
__CPROVER_assigns(m_new[0], m_new[1], m_new[2], m_st, errno, vf_nchoice_)
/* 1 over-large requests are refused without calling the allocator; otherwise NULL exactly when the allocator failed */
__CPROVER_ensures(IMP(size > EVBUFFER_CHAIN_MAX - EVBUFFER_CHAIN_SIZE, CNM_RV == NULL && m_al.fail == __CPROVER_old(m_al.fail)))
__CPROVER_ensures(IMP(size <= EVBUFFER_CHAIN_MAX - EVBUFFER_CHAIN_SIZE, m_al.fail == __CPROVER_old(m_al.fail) + (CNM_RV == NULL ? 1 : 0)))
/* 3 a new chain with room for at least `size` bytes; capacity rule: header + data is the smallest power of two >= max(MIN_BUFFER_SIZE,
 *   size + header) for requests below EVBUFFER_CHAIN_MAX/2, the exact size above */
__CPROVER_ensures(CNM_RV == NULL || (CNM_NEWCHAIN_(CNM_RV) && CNM_RV->buffer_len >= size && CNM_RV->buffer_len <= EVBUFFER_CHAIN_MAX - EVBUFFER_CHAIN_SIZE))
__CPROVER_ensures(CNM_RV == NULL || IMP(size + EVBUFFER_CHAIN_SIZE >= EVBUFFER_CHAIN_MAX / 2, CNM_RV->buffer_len == size))
__CPROVER_ensures(CNM_RV == NULL || IMP(size + EVBUFFER_CHAIN_SIZE < EVBUFFER_CHAIN_MAX / 2,
	(CNM_TOT_(CNM_RV) & (CNM_TOT_(CNM_RV) - 1)) == 0 && CNM_TOT_(CNM_RV) >= MIN_BUFFER_SIZE &&
	(CNM_TOT_(CNM_RV) == MIN_BUFFER_SIZE || CNM_TOT_(CNM_RV) / 2 < size + EVBUFFER_CHAIN_SIZE)))
/* 6 registered; nothing else of the allocator state changes */
__CPROVER_ensures(m_al.n == __CPROVER_old(m_al.n) + (CNM_RV != NULL ? 1 : 0) && m_al.frees == __CPROVER_old(m_al.frees) && m_al.heap_frees == __CPROVER_old(m_al.heap_frees) &&
	m_al.sfreed == __CPROVER_old(m_al.sfreed) && m_al.hfreed == __CPROVER_old(m_al.hfreed) && m_al.n_big == __CPROVER_old(m_al.n_big) && m_al.seglive == __CPROVER_old(m_al.seglive))
__CPROVER_ensures(C15_CL_SAME() && C15_SC_SAME() && C15_SYS_SAME() && C15_LK_SAME() && C15_DC_SAME())
__CPROVER_ensures(CNM_RV == NULL || (IMP(__CPROVER_old(m_al.n) == 0, __CPROVER_pointer_equals(m_new[0], CNM_RV)) && IMP(__CPROVER_old(m_al.n) == 1, __CPROVER_pointer_equals(m_new[1], CNM_RV)) && IMP(__CPROVER_old(m_al.n) == 2, __CPROVER_pointer_equals(m_new[2], CNM_RV))))
__CPROVER_ensures(IMP(__CPROVER_old(m_al.n) >= 1, m_new[0] == __CPROVER_old(m_new[0])) && IMP(__CPROVER_old(m_al.n) >= 2, m_new[1] == __CPROVER_old(m_new[1])))
;
#endif
