/* contracts/c18_suspend_unit.h — shared body of the four units c18_suspend_read / c18_suspend_write /
 * c18_unsuspend_read / c18_unsuspend_write (dfcc enforces one contract per run; each unit defines C18_WHICH).
 * C18/C08 — bufferevent_suspend_read_/unsuspend_read_/suspend_write_/unsuspend_write_ (real bufferevent.c).
 * The suspend word is a bit set of reasons; the type's disable op is called exactly on the
 * 0 -> non-0 transition, its enable op exactly on the non-0 -> 0 transition of an ENABLED direction.
 * Loop-free: all flag words x all reasons x enabled bits x locking on/off. */
#define VF_NLOCKS 1
#include "vf.h"
#include "bufferevent.c"
struct in { int locking; unsigned short rs, ws, what; short enabled; int be_fail; unsigned ch[VF_NCHOICE]; };
struct in IN;
#include "stubs/log.h"
#include "stubs/lock.h"
#include "stubs/c18_bev_env.h"

#define FRAME BEVP.read_suspended, BEVP.write_suspended, __CPROVER_object_whole(&g_e), g_lock_depth[1], g_lock_ops, vf_nchoice_
#define PRE(bufev, what) (bufev == BEV && what != 0 /* every caller passes a BEV_SUSPEND_* constant */ && g_e.en_calls == 0 && g_e.dis_calls == 0 && g_lock_depth[1] == 0)
#define HELD (BEVP.lock ? 1 : -1)     /* lock depth seen by the op: the bufferevent lock is held around it */

VF_CONTRACT_V(suspend_read_c, struct bufferevent *bufev, bufferevent_suspend_flags what)
__CPROVER_requires(PRE(bufev, what))
__CPROVER_assigns(FRAME)
__CPROVER_ensures(BEVP.read_suspended == (__CPROVER_old(BEVP.read_suspended) | what))
__CPROVER_ensures(BEVP.write_suspended == __CPROVER_old(BEVP.write_suspended))
/* disable exactly on the 0 -> non-0 transition, for EV_READ, with the lock held */
__CPROVER_ensures(g_e.dis_calls == (__CPROVER_old(BEVP.read_suspended) == 0 ? 1 : 0) && g_e.en_calls == 0)
__CPROVER_ensures(IMP(g_e.dis_calls == 1, g_e.dis_what == EV_READ && g_e.dis_lockdepth == HELD))
__CPROVER_ensures(g_lock_depth[1] == 0)
;
VF_CONTRACT_V(suspend_write_c, struct bufferevent *bufev, bufferevent_suspend_flags what)
__CPROVER_requires(PRE(bufev, what))
__CPROVER_assigns(FRAME)
__CPROVER_ensures(BEVP.write_suspended == (__CPROVER_old(BEVP.write_suspended) | what))
__CPROVER_ensures(BEVP.read_suspended == __CPROVER_old(BEVP.read_suspended))
__CPROVER_ensures(g_e.dis_calls == (__CPROVER_old(BEVP.write_suspended) == 0 ? 1 : 0) && g_e.en_calls == 0)
__CPROVER_ensures(IMP(g_e.dis_calls == 1, g_e.dis_what == EV_WRITE && g_e.dis_lockdepth == HELD))
__CPROVER_ensures(g_lock_depth[1] == 0)
;
VF_CONTRACT_V(unsuspend_read_c, struct bufferevent *bufev, bufferevent_suspend_flags what)
__CPROVER_requires(PRE(bufev, what))
__CPROVER_assigns(FRAME)
__CPROVER_ensures(BEVP.read_suspended == (__CPROVER_old(BEVP.read_suspended) & (unsigned short)~what))
__CPROVER_ensures(BEVP.write_suspended == __CPROVER_old(BEVP.write_suspended))
/* enable exactly when no reason is left and the user has reading enabled ("reading resumes as soon as …") */
__CPROVER_ensures(g_e.en_calls == ((BEVP.read_suspended == 0 && (BEV->enabled & EV_READ)) ? 1 : 0) && g_e.dis_calls == 0)
__CPROVER_ensures(IMP(g_e.en_calls == 1, g_e.en_what == EV_READ && g_e.en_lockdepth == HELD))
__CPROVER_ensures(g_lock_depth[1] == 0)
;
VF_CONTRACT_V(unsuspend_write_c, struct bufferevent *bufev, bufferevent_suspend_flags what)
__CPROVER_requires(PRE(bufev, what))
__CPROVER_assigns(FRAME)
__CPROVER_ensures(BEVP.write_suspended == (__CPROVER_old(BEVP.write_suspended) & (unsigned short)~what))
__CPROVER_ensures(BEVP.read_suspended == __CPROVER_old(BEVP.read_suspended))
__CPROVER_ensures(g_e.en_calls == ((BEVP.write_suspended == 0 && (BEV->enabled & EV_WRITE)) ? 1 : 0) && g_e.dis_calls == 0)
__CPROVER_ensures(IMP(g_e.en_calls == 1, g_e.en_what == EV_WRITE && g_e.en_lockdepth == HELD))
__CPROVER_ensures(g_lock_depth[1] == 0)
;

void harness(void)
{
	VF_LOAD_IN();
	__CPROVER_assume(IN.what != 0);
	VF_BEV_BASIC(IN.locking);
	g_e.be_may_fail = IN.be_fail;        /* the suspend functions ignore the op's result */
	BEVP.read_suspended = IN.rs; BEVP.write_suspended = IN.ws; BEV->enabled = IN.enabled;
#if C18_WHICH == 0
	VF_CALL_V(suspend_read_c, bufferevent_suspend_read_, BEV, IN.what);
#elif C18_WHICH == 1
	VF_CALL_V(suspend_write_c, bufferevent_suspend_write_, BEV, IN.what);
#elif C18_WHICH == 2
	VF_CALL_V(unsuspend_read_c, bufferevent_unsuspend_read_, BEV, IN.what);
#else
	VF_CALL_V(unsuspend_write_c, bufferevent_unsuspend_write_, BEV, IN.what);
#endif
	__CPROVER_assert(BEV->enabled == IN.enabled, "the user's enabled set is not changed by (un)suspending");
#ifdef VF_CANARY
	__CPROVER_assert(g_e.dis_calls == 0 && g_e.en_calls == 0, "canary: must fail (some transitions call the type's enable/disable)");
#endif
}
