/* contracts/c12a_shape.h — shape, ghost state and memory stubs for the units on the MUTATORS of
 * the real buffer.c (units/c12a_*).  Builds on contracts/evbuffer_shape.h (BUF, CH[3], struct
 * eb_in, vf_build_buf) and adds
 *   - data anchors per chain (1 byte in CBMC: data bytes are not modelled in bookkeeping units;
 *     real storage natively so that the replay can decide which chain a pointer belongs to),
 *   - a second buffer BUF2/CH2[3] (same shape record), optionally sharing BUF's lock,
 *   - a registry g_new[] of the chains allocated during the call (evbuffer_chain_new_membuf is
 *     replaced by its contract in the callers; natively the allocator stub registers them),
 *   - c12a_memcpy/c12a_memmove (stubs/c12a_mem.h redirects buffer.c's calls): every copy is
 *     checked against the window [buffer, buffer+buffer_len) of the chain its pointers lie in and
 *     logged (chain, offset, length) so that contracts can say where the bytes went,
 *   - the representation invariant in canonical form (c12a_binv) over harness + new chains.
 * Include after buffer.c, stubs/lock.h and `struct in` (embeds struct eb_in). */
#ifndef VF_C12A_SHAPE_H_
#define VF_C12A_SHAPE_H_
#include "evbuffer_shape.h"
#ifndef C12A_NBUF
#define C12A_NBUF 1
#endif

#ifndef C12A_DATASZ
# ifdef VF_NATIVE
#  define C12A_DATASZ 8192       /* >= VF_EB_MAXSZ of the quick tier, which is what the native replay is compiled with */
# else
#  define C12A_DATASZ 1
# endif
#endif
#ifdef VF_NATIVE
# define C12A_PAD_ 16
#else
# define C12A_PAD_ 0
#endif
static unsigned char C12A_D0[C12A_DATASZ + C12A_PAD_], C12A_D1[C12A_DATASZ + C12A_PAD_], C12A_D2[C12A_DATASZ + C12A_PAD_];
static unsigned char C12A_E0[C12A_DATASZ + C12A_PAD_], C12A_E1[C12A_DATASZ + C12A_PAD_], C12A_E2[C12A_DATASZ + C12A_PAD_];
static unsigned char C12A_USER[C12A_DATASZ + C12A_PAD_];       /* the caller's data argument */
static struct evbuffer BUF2;
static struct evbuffer_chain CH2[VF_EB_MAXCH];

/* ---- ghost state (reset by C12A_RESET).  Grouped into structs so that contracts name few assigns targets
 * (the contracts library checks every assignment against every target in a loop). */
struct evbuffer_chain *g_new[2];   /* chains allocated during the call, in order */
struct c12a_al { int n; int fail; size_t last_size; unsigned nchoice; } g_al;   /* nchoice: position in the choice stream IN.ch (allocator stub) */   /* (no pointers inside a struct that is an assigns target: its havoc is byte-wise and blows up) */
#define g_nnew g_al.n
#define g_allocfail g_al.fail      /* allocator failures during the call */
#define g_mm_last_size g_al.last_size   /* size of the last successful allocation request */
struct c12a_fr { int n; unsigned mask; } g_fr;
#define g_freed g_fr.n             /* evbuffer_chain_free calls */
#define g_freed_mask g_fr.mask     /* bit C12A_CODE(chain) */
struct c12a_cbs { int n[2]; size_t total[2], nadd[2], ndel[2]; } g_cbs;
#define g_cb g_cbs.n               /* evbuffer_invoke_callbacks_ calls on BUF / BUF2 */
#define g_cb_total g_cbs.total     /* total_len / n_add_for_cb / n_del_for_cb seen by the last invocation */
#define g_cb_nadd g_cbs.nadd
#define g_cb_ndel g_cbs.ndel
unsigned c12a_nch, c12a_nch2;       /* number of harness chains of BUF / BUF2 (set by the builders; constant across the call) */
size_t g_userlen;                  /* length of the caller's data argument (set by the harness) */
#define C12A_MAXCP 4
/* log of the copies performed by the function under contract (maintained by c12a_memcpy, also natively) */
struct c12a_cp { int n; int dst[C12A_MAXCP], src[C12A_MAXCP];      /* chain codes (C12A_USERCODE: the caller's data) */
	size_t doff[C12A_MAXCP], soff[C12A_MAXCP], len[C12A_MAXCP]; } m_cp;   /* offsets from chain->buffer / from the data argument */
#define C12A_USERCODE 8
#define C12A_RESET() do { int k_; g_new[0] = g_new[1] = NULL; g_nnew = 0; g_allocfail = 0; g_mm_last_size = 0; g_al.nchoice = 0; g_freed = 0; g_freed_mask = 0; \
	g_cb[0] = g_cb[1] = 0; m_cp.n = 0; g_userlen = 0; \
	for (k_ = 0; k_ < 2; k_++) { g_cb_total[k_] = g_cb_nadd[k_] = g_cb_ndel[k_] = 0; } \
	for (k_ = 0; k_ < C12A_MAXCP; k_++) { m_cp.dst[k_] = m_cp.src[k_] = -1; m_cp.doff[k_] = m_cp.soff[k_] = m_cp.len[k_] = 0; } } while (0)

/* chain code: 0..2 CH[], 3..5 CH2[], 6..7 chains allocated during the call, -1 anything else */
#define C12A_CODE(p) ((p) == &CH[0] ? 0 : (p) == &CH[1] ? 1 : (p) == &CH[2] ? 2 : (p) == &CH2[0] ? 3 : (p) == &CH2[1] ? 4 : (p) == &CH2[2] ? 5 : \
	(g_nnew > 0 && (p) == g_new[0]) ? 6 : (g_nnew > 1 && (p) == g_new[1]) ? 7 : -1)
#define C12A_IS_CH2(p) ((p) == &CH2[0] || (p) == &CH2[1] || (p) == &CH2[2])
#define C12A_BUFIDX(b) ((int)((b) == &BUF2))
#define C12A_LOCKIDX(b) ((int)((char *)(b)->lock - &vf_lockobj_[0]))
static struct evbuffer_chain *c12a_chain(int code)
{
	if (code >= 0 && code < 3) return &CH[code];
	if (code >= 3 && code < 6) return &CH2[code - 3];
	if (code == 6) return g_new[0];
	if (code == 7) return g_new[1];
	return NULL;
}
static unsigned char *c12a_anchor(int code)
{
	switch (code) {
	case 0: return C12A_D0; case 1: return C12A_D1; case 2: return C12A_D2;
	case 3: return C12A_E0; case 4: return C12A_E1; case 5: return C12A_E2;
	case 6: return (unsigned char *)(g_new[0] + 1); case 7: return (unsigned char *)(g_new[1] + 1);
	default: return NULL;
	}
}
/* which chain's data object (or the caller's data) does p point into */
static int c12a_data_code(const void *p)
{
#ifdef VF_NATIVE
#define C12A_IN_(a) ((const unsigned char *)p >= (a) && (const unsigned char *)p <= (a) + C12A_DATASZ)
	if (C12A_IN_(C12A_D0)) return 0; if (C12A_IN_(C12A_D1)) return 1; if (C12A_IN_(C12A_D2)) return 2;
	if (C12A_IN_(C12A_E0)) return 3; if (C12A_IN_(C12A_E1)) return 4; if (C12A_IN_(C12A_E2)) return 5;
	{ int k; for (k = 0; k < 2; k++) if (g_nnew > k && (const unsigned char *)p >= (unsigned char *)(g_new[k] + 1) && (const unsigned char *)p <= (unsigned char *)(g_new[k] + 1) + g_new[k]->buffer_len) return 6 + k; }
	if ((const unsigned char *)p >= C12A_USER && (const unsigned char *)p <= C12A_USER + (g_userlen > C12A_DATASZ ? g_userlen : C12A_DATASZ)) return C12A_USERCODE;   /* (the data argument may be longer than the array: only its address range matters, no byte is read) */
	return -1;
#else
	if (__CPROVER_same_object(p, C12A_D0)) return 0; if (__CPROVER_same_object(p, C12A_D1)) return 1; if (__CPROVER_same_object(p, C12A_D2)) return 2;
	if (__CPROVER_same_object(p, C12A_E0)) return 3; if (__CPROVER_same_object(p, C12A_E1)) return 4; if (__CPROVER_same_object(p, C12A_E2)) return 5;
	if (__CPROVER_same_object(p, C12A_USER)) return C12A_USERCODE;
	if (g_nnew > 0 && __CPROVER_same_object(p, g_new[0])) return 6;
	if (g_nnew > 1 && __CPROVER_same_object(p, g_new[1])) return 7;
	return -1;
#endif
}
/* offset of p from the start of the data area of the chain (or user data) with data code `code`.  In CBMC the data
 * anchors are 1-byte objects and the pointers of bookkeeping units run past them, so the offset is taken from the
 * pointer's offset field, not by a pointer subtraction (which --pointer-check restricts to in-bounds pointers). */
#ifdef VF_NATIVE
#define C12A_OFF_(p, code) ((size_t)((const unsigned char *)(p) - ((code) == C12A_USERCODE ? C12A_USER : c12a_anchor(code))))
#else
#define C12A_OFF_(p, code) ((size_t)__CPROVER_POINTER_OFFSET(p) - (((code) == 6 || (code) == 7) ? sizeof(struct evbuffer_chain) : 0))
#endif
#ifndef C12A_NO_MEM_STUBS
static void c12a_copy_(void *d, const void *s, size_t n, int may_overlap)
{
	int dc = c12a_data_code(d), sc = c12a_data_code(s);
	size_t doff = 0, soff = 0;
	__CPROVER_assert(dc >= 0 && dc < C12A_USERCODE, "memcpy/memmove: destination lies in a chain of the buffer");
	if (dc >= 0 && dc < C12A_USERCODE) {
		const struct evbuffer_chain *c = c12a_chain(dc);
		doff = C12A_OFF_(d, dc);
		__CPROVER_assert(c->buffer == c12a_anchor(dc) && doff <= c->buffer_len && n <= c->buffer_len - doff, "memcpy/memmove: destination range inside [buffer, buffer+buffer_len) of its chain");
		__CPROVER_assert(!(c->flags & EVBUFFER_IMMUTABLE), "memcpy/memmove: destination chain is not immutable");
		__CPROVER_assert(!(g_freed_mask & (1u << dc)), "memcpy/memmove: destination chain has not been freed");
	}
	__CPROVER_assert(sc >= 0, "memcpy/memmove: source lies in a chain of the buffer or in the caller's data");
	if (sc == C12A_USERCODE) {
		soff = C12A_OFF_(s, sc);
		__CPROVER_assert(soff <= g_userlen && n <= g_userlen - soff, "memcpy: source range inside the caller's data");
	} else if (sc >= 0) {
		const struct evbuffer_chain *c = c12a_chain(sc);
		soff = C12A_OFF_(s, sc);
		__CPROVER_assert(c->buffer == c12a_anchor(sc) && soff <= c->buffer_len && n <= c->buffer_len - soff, "memcpy/memmove: source range inside [buffer, buffer+buffer_len) of its chain");
		__CPROVER_assert(!(g_freed_mask & (1u << sc)), "memcpy/memmove: source chain has not been freed");
		if (!may_overlap && sc == dc)
			__CPROVER_assert(n == 0 || doff >= soff + n || soff >= doff + n, "memcpy: ranges do not overlap");
	}
	__CPROVER_assert(m_cp.n < C12A_MAXCP, "copy log capacity");
	if (m_cp.n < C12A_MAXCP) { m_cp.dst[m_cp.n] = dc; m_cp.src[m_cp.n] = sc; m_cp.doff[m_cp.n] = doff; m_cp.soff[m_cp.n] = soff; m_cp.len[m_cp.n] = n; }
	m_cp.n++;
}
#ifdef C12A_DBG_NOCOPY
void *c12a_memcpy(void *d, const void *s, size_t n) { return d; }
void *c12a_memmove(void *d, const void *s, size_t n) { return d; }
#else
void *c12a_memcpy(void *d, const void *s, size_t n) { c12a_copy_(d, s, n, 0); return d; }
void *c12a_memmove(void *d, const void *s, size_t n) { c12a_copy_(d, s, n, 1); return d; }
#endif
#endif

/* quick tier: lengths and counters are bounded too (SAT is slow on equalities of full-width 64-bit sums, UNIT_GUIDE
 * pitfall 9); the thorough tier leaves them unbounded.  Units say so in "bound". */
#ifdef C12A_MAXLEN
#define C12A_QUICK_BOUND(x) __CPROVER_assume((x) <= (size_t)(C12A_MAXLEN))
#else
#define C12A_QUICK_BOUND(x) ((void)0)
#endif
/* stronger form for the quick tier: sizes are taken modulo 2^k (C12A_QMASK = 2^k - 1), which makes their high bits
 * constants for the bit-blaster; every value below 2^k is still covered.  The masking is part of the harness, so the
 * native replay sees the same effective input. */
#ifdef C12A_QMASK
#define C12A_Q(x) ((x) & (size_t)(C12A_QMASK))
#else
#define C12A_Q(x) (x)
#endif
/* CBMC encodes a pointer as object-bits + offset-bits = 64; with --object-bits 10 offsets beyond 2^53 wrap.  Harness chains
 * are <= 2^40; units whose code does pointer arithmetic inside a chain allocated for `datlen` bytes bound datlen by this. */
#ifndef C12A_MAXDAT
#define C12A_MAXDAT ((size_t)1 << 48)
#endif
/* ---- builders */
static struct eb_in C12A_S, C12A_S2;      /* the effective (masked) shape records of BUF / BUF2 */
static void c12a_build(const struct eb_in *s0)
{
	struct eb_in s1 = *s0; const struct eb_in *s = &C12A_S; unsigned i_;
	for (i_ = 0; i_ < VF_EB_MAXCH; i_++) { s1.off[i_] = C12A_Q(s1.off[i_]); s1.mis[i_] = C12A_Q(s1.mis[i_]); s1.blen[i_] = C12A_Q(s1.blen[i_]); }
	s1.n_add = C12A_Q(s1.n_add); s1.n_del = C12A_Q(s1.n_del);
	C12A_S = s1;
	vf_build_buf(s);
#ifdef C12A_MAXNCH
	__CPROVER_assume(s->nch <= C12A_MAXNCH);     /* quick tier of the expensive units: fewer chains (said in "bound") */
#endif
#ifdef VF_NATIVE
	{ unsigned i; for (i = 0; i < VF_EB_MAXCH && i < s->nch; i++) __CPROVER_assume(s->blen[i] <= C12A_DATASZ); }
#endif
	CH[0].buffer = C12A_D0; CH[1].buffer = C12A_D1; CH[2].buffer = C12A_D2;
	c12a_nch = s->nch;
}
/* second buffer: same shape record, lock 2 (or BUF's lock when samelock: a bufferevent's input and output share one lock) */
static void c12a_build2(const struct eb_in *s0, int samelock)
{
	struct eb_in s1 = *s0; const struct eb_in *s = &C12A_S2; unsigned i_;
	unsigned i; size_t total = 0; int lwd;
	for (i_ = 0; i_ < VF_EB_MAXCH; i_++) { s1.off[i_] = C12A_Q(s1.off[i_]); s1.mis[i_] = C12A_Q(s1.mis[i_]); s1.blen[i_] = C12A_Q(s1.blen[i_]); }
	s1.n_add = C12A_Q(s1.n_add); s1.n_del = C12A_Q(s1.n_del);
	C12A_S2 = s1;
	__CPROVER_assume(s->nch <= VF_EB_MAXCH);
#ifdef C12A_MAXNCH
	__CPROVER_assume(s->nch <= C12A_MAXNCH);
#endif
	for (i = 0; i < VF_EB_MAXCH; i++) {
		if (i >= s->nch) break;
		__CPROVER_assume(s->blen[i] <= VF_EB_MAXSZ && s->mis[i] <= s->blen[i] && s->off[i] <= s->blen[i] - s->mis[i]);
#ifdef VF_NATIVE
		__CPROVER_assume(s->blen[i] <= C12A_DATASZ);
#endif
		__CPROVER_assume((s->flags[i] & ~(unsigned)(VF_EB_FLAGMASK)) == 0);
		__CPROVER_assume(s->crefcnt[i] >= 1 && s->crefcnt[i] <= 1000);
		CH2[i].next = (i + 1 < s->nch) ? &CH2[i + 1] : NULL;
		CH2[i].buffer_len = s->blen[i]; CH2[i].misalign = (ev_misalign_t)s->mis[i]; CH2[i].off = s->off[i];
		CH2[i].flags = s->flags[i]; CH2[i].refcnt = s->crefcnt[i];
		total += s->off[i];
	}
	CH2[0].buffer = C12A_E0; CH2[1].buffer = C12A_E1; CH2[2].buffer = C12A_E2;
	lwd = vf_lwd_index(s);
	BUF2.first = s->nch ? &CH2[0] : NULL;
	BUF2.last = s->nch ? &CH2[s->nch - 1] : NULL;
	BUF2.last_with_datap = (lwd <= 0) ? &BUF2.first : &CH2[lwd - 1].next;
	BUF2.total_len = total;
	BUF2.freeze_start = s->freeze_start & 1; BUF2.freeze_end = s->freeze_end & 1; BUF2.deferred_cbs = s->deferred & 1;
	__CPROVER_assume(s->n_add <= ((size_t)1 << 50) && s->n_del <= ((size_t)1 << 50));
	BUF2.n_add_for_cb = s->n_add; BUF2.n_del_for_cb = s->n_del;
	__CPROVER_assume(s->refcnt >= 1 && s->refcnt <= 1000);
	BUF2.refcnt = s->refcnt;
	BUF2.lock = (s->has_lock & 1) ? ((samelock && BUF.lock) ? BUF.lock : VF_LOCK_COOKIE(2)) : NULL;
	LIST_INIT(&BUF2.callbacks);
	c12a_nch2 = s->nch;
}

/* ---- pre-state snapshots (taken by the harness; constant across the call: in no assigns clause) */
struct evbuffer O_BUF, O_BUF2;
struct evbuffer_chain O_CH[VF_EB_MAXCH], O_CH2[VF_EB_MAXCH];
#define C12A_SNAPSHOT() do { int k_; O_BUF = BUF; O_BUF2 = BUF2; for (k_ = 0; k_ < VF_EB_MAXCH; k_++) { O_CH[k_] = CH[k_]; O_CH2[k_] = CH2[k_]; } } while (0)
/* "every field of *buf equals its old value" (the deferred-callback handle and the callback list head included) */
#define C12A_BUF_SAME(b, o) ((b).first == (o).first && (b).last == (o).last && (b).last_with_datap == (o).last_with_datap && \
	(b).total_len == (o).total_len && (b).max_read == (o).max_read && (b).n_add_for_cb == (o).n_add_for_cb && (b).n_del_for_cb == (o).n_del_for_cb && \
	(b).lock == (o).lock && (b).own_lock == (o).own_lock && (b).freeze_start == (o).freeze_start && (b).freeze_end == (o).freeze_end && \
	(b).deferred_cbs == (o).deferred_cbs && (b).flags == (o).flags && (b).cb_queue == (o).cb_queue && (b).refcnt == (o).refcnt && \
	(b).callbacks.lh_first == (o).callbacks.lh_first && (b).parent == (o).parent)
#define C12A_CH_SAME(c, o) ((c).next == (o).next && (c).buffer_len == (o).buffer_len && (c).misalign == (o).misalign && (c).off == (o).off && \
	(c).flags == (o).flags && (c).refcnt == (o).refcnt && (c).buffer == (o).buffer)
#define C12A_ALLCH_SAME() (C12A_CH_SAME(CH[0], O_CH[0]) && C12A_CH_SAME(CH[1], O_CH[1]) && C12A_CH_SAME(CH[2], O_CH[2]))
#define C12A_ALLCH2_SAME() (C12A_CH_SAME(CH2[0], O_CH2[0]) && C12A_CH_SAME(CH2[1], O_CH2[1]) && C12A_CH_SAME(CH2[2], O_CH2[2]))

/* ---- representation invariant, canonical form (exactly the set of states the builders produce, plus new chains):
 * acyclic list of live (not freed) chains of this unit ending in NULL, b->last is its last element, each chain's
 * window inside its buffer, buffer pointers untouched, total_len == sum of off, last_with_datap == address of the
 * next-pointer that points at the last chain with data (&b->first if there is none or it is the first). */
#ifndef C12A_MAXLIVE
#define C12A_MAXLIVE (3 * C12A_NBUF + 1)
#endif
struct c12a_walk { struct evbuffer_chain *c, *last; struct evbuffer_chain *const *lwdp; size_t total; unsigned seen; };
static int c12a_binv_step_(const struct evbuffer *b, struct c12a_walk *w)
{
	struct evbuffer_chain *c = w->c; int code;
	if (!c) return 1;
	code = C12A_CODE(c);
	if (code < 0) return 0;
	if (w->seen & (1u << code)) return 0;
	w->seen |= 1u << code;
	if (g_freed_mask & (1u << code)) return 0;
	if (c->misalign < 0 || (size_t)c->misalign > c->buffer_len || c->off > c->buffer_len - (size_t)c->misalign) return 0;
	if (c->buffer_len > EVBUFFER_CHAIN_MAX) return 0;
	if (c->refcnt < 1) return 0;
	if (c->buffer != c12a_anchor(code)) return 0;
	w->total += c->off;
	if (c->off) w->lwdp = w->last ? &w->last->next : &b->first;
	w->last = c; w->c = c->next;
	return 1;
}
/* (written without a loop: the walk is at most C12A_MAXLIVE steps, and a loop would force the unit's global --unwind up to that) */
static int c12a_binv(const struct evbuffer *b)
{
	struct c12a_walk w; int ok = 1;
	w.c = b->first; w.last = NULL; w.lwdp = &b->first; w.total = 0; w.seen = 0;
	if (w.c == NULL) return b->last == NULL && b->last_with_datap == &b->first && b->total_len == 0;
	ok = ok && c12a_binv_step_(b, &w); ok = ok && c12a_binv_step_(b, &w); ok = ok && c12a_binv_step_(b, &w); ok = ok && c12a_binv_step_(b, &w);
#if C12A_NBUF > 1
	ok = ok && c12a_binv_step_(b, &w); ok = ok && c12a_binv_step_(b, &w); ok = ok && c12a_binv_step_(b, &w);
#endif
	if (!ok || w.c != NULL) return 0;
	return b->last == w.last && b->total_len == w.total && b->last_with_datap == (struct evbuffer_chain **)w.lwdp;
}
/* The same invariant for a list whose sequence of (harness) chains is already known: pos[code] is the position of chain
 * `code` (0..5) in the list, or -1 if it is not in it; n is the list's length.  The caller has checked the links
 * (first, next pointers follow the sequence).  Pure index arithmetic over the six concrete chain objects: much cheaper for
 * the solver than the pointer walk of c12a_binv when two buffers are involved. */
static int c12a_binv_pos(const struct evbuffer *b, const int *pos, int n)
{
	size_t total = 0; int li = -1, ok = 1; struct evbuffer_chain *const *exp = &b->first; const struct evbuffer_chain *lastc = NULL;
#define C12A_POS_A_(k) if (pos[k] >= 0) { const struct evbuffer_chain *c = c12a_chain(k); \
		ok = ok && pos[k] < n && !(g_freed_mask & (1u << (k))) && c->misalign >= 0 && (size_t)c->misalign <= c->buffer_len && c->off <= c->buffer_len - (size_t)c->misalign && \
			c->buffer_len <= EVBUFFER_CHAIN_MAX && c->refcnt >= 1 && c->buffer == c12a_anchor(k); \
		total += c->off; if (c->off && pos[k] > li) li = pos[k]; if (pos[k] == n - 1) lastc = c; }
	C12A_POS_A_(0) C12A_POS_A_(1) C12A_POS_A_(2) C12A_POS_A_(3) C12A_POS_A_(4) C12A_POS_A_(5)
#define C12A_POS_B_(k) if (pos[k] >= 0 && pos[k] == li - 1) exp = &c12a_chain(k)->next;
	C12A_POS_B_(0) C12A_POS_B_(1) C12A_POS_B_(2) C12A_POS_B_(3) C12A_POS_B_(4) C12A_POS_B_(5)
	if (n == 0) return b->first == NULL && b->last == NULL && b->last_with_datap == &b->first && b->total_len == 0;
	return ok && b->total_len == total && b->last == lastc && b->last_with_datap == (struct evbuffer_chain **)exp;
}
#endif
