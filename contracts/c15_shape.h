/* contracts/c15_shape.h — harness-built state for the units on REFERENCES, FILE SEGMENTS and SOCKET I/O of the
 * real buffer.c (units/c15_*, units/c16_*).  Same idea as contracts/evbuffer_shape.h (a buffer of <= 3 chains
 * built from a flat input record, every scalar symbolic, the SHAPE is the bound) with what these units need on top:
 *   - every chain is embedded in a struct with room for the "extra" record that buffer.c keeps directly behind the
 *     chain header (EVBUFFER_CHAIN_EXTRA): reference cleanup info / file-segment pointer / multicast parent,
 *   - chain kinds: plain, REFERENCE, FILESEGMENT(+SENDFILE), MULTICAST (and the pin/dangling flags where a unit asks),
 *   - a second buffer SRC with chains PC[] (source of multicast chains / of evbuffer_add_buffer_reference),
 *   - one file segment SEG,
 *   - model state maintained by stub BODIES (m_…: allocator, cleanup-callback log, lock alloc/free, syscalls) and
 *     ghost state assigned only by replaced contracts (g_…).
 * Include after buffer.c, stubs/lock.h and the declaration `struct in` / `struct in IN;`.                         */
#ifndef VF_C15_SHAPE_H_
#define VF_C15_SHAPE_H_
#define C15_MAXCH 3
#ifndef VF_EB_MAXSZ
#define VF_EB_MAXSZ ((size_t)1 << 40)      /* per-chain buffer_len bound */
#endif
#ifndef C15_FLAGMASK
/* chain flags a unit admits; pin flags are excluded by default: chains are pinned only by buffer_iocp.c (Windows) */
#define C15_FLAGMASK (EVBUFFER_FILESEGMENT | EVBUFFER_SENDFILE | EVBUFFER_REFERENCE | EVBUFFER_IMMUTABLE | EVBUFFER_MULTICAST)
#endif

/* the extra record as two untyped pointer slots: (cleanupfn, extra) / (segment, -) / (source, parent).  NOT a union of the three
 * record types: CBMC's value-set analysis follows only the first member of a union when the code reads the record through the
 * EVBUFFER_CHAIN_EXTRA cast, and pointers written through another member come back as invalid objects. */
struct c15_extra { void *a; void *b; };
struct c15_chain { struct evbuffer_chain c; struct c15_extra x; };

/* per-buffer input record */
struct c15_bin {
	unsigned nch;                                  /* 0..3 chains */
	size_t off[C15_MAXCH], mis[C15_MAXCH], blen[C15_MAXCH];
	unsigned flags[C15_MAXCH];
	int crefcnt[C15_MAXCH];
	unsigned has_cleanup[C15_MAXCH];               /* REFERENCE chain: cleanupfn != NULL */
	unsigned par[C15_MAXCH];                       /* MULTICAST chain: index of the parent chain in PC[] */
	unsigned ncb;                                  /* BUF only: 0..2 callback entries */
	unsigned has_lock, own_lock, freeze_start, freeze_end, deferred, has_parent_bev;
	ev_uint32_t bflags;
	size_t n_add, n_del, max_read;
	int refcnt;
};

#ifndef C15_DATASZ
# ifdef VF_NATIVE
#  define C15_DATASZ 8192                      /* >= VF_EB_MAXSZ of the quick tier (what the native replay is compiled with) */
# else
#  define C15_DATASZ 1                         /* data bytes are not modelled in bookkeeping units: 1-byte anchors */
# endif
#endif
static struct evbuffer BUF, SRC;
static struct c15_chain XC[C15_MAXCH], PC[C15_MAXCH];
static struct evbuffer_file_segment SEG;
static struct evbuffer_cb_entry CBE[2];           /* callback entries of BUF (c15_bin.ncb of them) */
/* chain->buffer anchors: one OBJECT per chain (pointers into a chain's data run past the 1-byte anchor in CBMC; the object
 * identity is what tells the chains apart) */
static unsigned char XD0[C15_DATASZ + 16], XD1[C15_DATASZ + 16], XD2[C15_DATASZ + 16], PD0[C15_DATASZ + 16], PD1[C15_DATASZ + 16], PD2[C15_DATASZ + 16];
#define XD(i) ((i) == 0 ? XD0 : (i) == 1 ? XD1 : XD2)
#define PD(i) ((i) == 0 ? PD0 : (i) == 1 ? PD1 : PD2)
static unsigned char SEGDATA[C15_DATASZ + 16];    /* SEG.contents / SEG.mapping anchor */
static unsigned char USERDATA[C15_DATASZ + 16];   /* the caller's bytes (evbuffer_add_reference) */
static char COOKIE[16];   /* XC[i] reference: &COOKIE[i]; PC[i]: &COOKIE[3+i]; a new reference: &COOKIE[6]; segment cleanup: &COOKIE[7] (callback arguments are addresses of these bytes) */
static struct event_base *const C15_BASE = (struct event_base *)&COOKIE[8];      /* never dereferenced (stubs) */
static struct bufferevent *const C15_BEV = (struct bufferevent *)&COOKIE[9];      /* never dereferenced (stubs) */

/* ---------------------------------------------------------------- object codes
 * 0..2 XC[], 3..5 PC[], 6..8 chains allocated during the call (m_new[]), 9 BUF, 10 SRC, 11 SEG, 12 SEGDATA, 13..14 CBE[], -1 other */
#define C15_MAXNEW 3
void *m_new[C15_MAXNEW];                           /* objects allocated through event_mm_* during the call, in order */
/* all model state of the stub bodies is ONE object (one assigns target: the contracts library checks every assignment against every
 * target, and every replaced contract's targets against the caller's) */
struct c15_al { int n; int fail; int frees; int heap_frees; int n_big; int seglive; int segobj; unsigned sfreed; unsigned hfreed; };
struct c15_cl { int n; unsigned mask; int twice; };
struct c15_sc { int n; int bad; };
struct c15_lk { int allocs; int frees; int bad_free; };
struct c15_dc { int cancel; int sched; int bevref; };
struct c15_sys { int close; int munmap; int mmap; int pread; int bad; int last_closed_fd; };
struct c15_st { struct c15_al al; struct c15_cl cl; struct c15_sc sc; struct c15_lk lk; struct c15_dc dc; struct c15_sys sys; } m_st;
#define m_al m_st.al
#define m_cl m_st.cl
#define m_sc m_st.sc
#define m_lk m_st.lk
#define m_dc m_st.dc
#define m_sys m_st.sys
/* n: successful allocations, fail: failed ones, frees: event_mm_free_ of non-NULL, heap_frees: of those, objects of m_new[];
 * sfreed: bit per harness object (code) handed to event_mm_free_ ("released"); hfreed: bit per m_new[] index freed */
#define C15_IS_XC(p) ((p) == &XC[0].c || (p) == &XC[1].c || (p) == &XC[2].c)
#define C15_IS_PC(p) ((p) == &PC[0].c || (p) == &PC[1].c || (p) == &PC[2].c)
#define C15_CODE(p) ((const void *)(p) == (const void *)&XC[0] ? 0 : (const void *)(p) == (const void *)&XC[1] ? 1 : (const void *)(p) == (const void *)&XC[2] ? 2 : \
	(const void *)(p) == (const void *)&PC[0] ? 3 : (const void *)(p) == (const void *)&PC[1] ? 4 : (const void *)(p) == (const void *)&PC[2] ? 5 : \
	(m_al.n > 0 && (const void *)(p) == m_new[0]) ? 6 : (m_al.n > 1 && (const void *)(p) == m_new[1]) ? 7 : (m_al.n > 2 && (const void *)(p) == m_new[2]) ? 8 : \
	(const void *)(p) == (const void *)&BUF ? 9 : (const void *)(p) == (const void *)&SRC ? 10 : (const void *)(p) == (const void *)&SEG ? 11 : \
	(const void *)(p) == (const void *)SEGDATA ? 12 : (const void *)(p) == (const void *)&CBE[0] ? 13 : (const void *)(p) == (const void *)&CBE[1] ? 14 : -1)
#define C15_BIT(p) (1u << C15_CODE(p))
static struct evbuffer_chain *c15_chain(int code)
{
	if (code >= 0 && code < 3) return &XC[code].c;
	if (code >= 3 && code < 6) return &PC[code - 3].c;
	if (code >= 6 && code < 6 + C15_MAXNEW && m_al.n > code - 6) return (struct evbuffer_chain *)m_new[code - 6];
	return NULL;
}
/* which chain's DATA area does p point into: 0..2 XC[], 3..5 PC[], 6..8 a chain allocated during the call (its data area lies
 * directly behind its header: only the header is an object of the verifier, UNIT_GUIDE pitfall 5), 12 SEGDATA, 15 USERDATA, -1 other */
static int c15_data_code(const void *p)
{
#ifdef VF_NATIVE
#define C15_IN_(a) ((const unsigned char *)p >= (a) && (const unsigned char *)p <= (a) + C15_DATASZ)
	if (C15_IN_(XD0)) return 0; if (C15_IN_(XD1)) return 1; if (C15_IN_(XD2)) return 2;
	if (C15_IN_(PD0)) return 3; if (C15_IN_(PD1)) return 4; if (C15_IN_(PD2)) return 5;
	if (C15_IN_(SEGDATA)) return 12; if (C15_IN_(USERDATA)) return 15;
	{ int k; for (k = 0; k < C15_MAXNEW; k++) if (m_al.n > k && !(m_al.hfreed & (1u << k)) && (const unsigned char *)p >= (unsigned char *)((struct evbuffer_chain *)m_new[k] + 1) &&
		(const unsigned char *)p <= (unsigned char *)((struct evbuffer_chain *)m_new[k] + 1) + ((struct evbuffer_chain *)m_new[k])->buffer_len) return 6 + k; }
	return -1;
#else
	if (__CPROVER_same_object(p, XD0)) return 0; if (__CPROVER_same_object(p, XD1)) return 1; if (__CPROVER_same_object(p, XD2)) return 2;
	if (__CPROVER_same_object(p, PD0)) return 3; if (__CPROVER_same_object(p, PD1)) return 4; if (__CPROVER_same_object(p, PD2)) return 5;
	if (__CPROVER_same_object(p, SEGDATA)) return 12; if (__CPROVER_same_object(p, USERDATA)) return 15;
	if (m_al.n > 0 && __CPROVER_same_object(p, m_new[0])) return 6;
	if (m_al.n > 1 && __CPROVER_same_object(p, m_new[1])) return 7;
	if (m_al.n > 2 && __CPROVER_same_object(p, m_new[2])) return 8;
	return -1;
#endif
}
static const unsigned char *c15_data_anchor(int code)
{
	switch (code) {
	case 0: return XD0; case 1: return XD1; case 2: return XD2; case 3: return PD0; case 4: return PD1; case 5: return PD2;
	case 12: return SEGDATA; case 15: return USERDATA;
	case 6: case 7: case 8: return (const unsigned char *)((struct evbuffer_chain *)m_new[code - 6] + 1);
	default: return NULL;
	}
}
/* offset of p from the start of the data area with data code `code` (in CBMC from the pointer's offset field: the pointers of
 * bookkeeping units run past the 1-byte anchors, and a pointer subtraction is restricted to in-bounds pointers) */
#ifdef VF_NATIVE
#define C15_DOFF(p, code) ((size_t)((const unsigned char *)(p) - c15_data_anchor(code)))
#else
#define C15_DOFF(p, code) ((size_t)__CPROVER_POINTER_OFFSET(p) - (((code) >= 6 && (code) <= 8) ? sizeof(struct evbuffer_chain) : 0))
#endif
#define C15_EXTRA(t, ch) (EVBUFFER_CHAIN_EXTRA(t, ch))
#define C15_LOCKIDX(b) ((int)((char *)(b)->lock - &vf_lockobj_[0]))

/* ---------------------------------------------------------------- model state of the stub bodies */
/* reference cleanup callback (installed as cleanupfn of REFERENCE chains): logs WHICH chain's (buffer, buffer_len, extra)
 * triple it was called with; a call with a triple that belongs to no chain of the unit is an obligation failure */
static void c15_cleanup_cb(const void *data, size_t datalen, void *extra)
{
	int k, hit = -1;
	for (k = 0; k < 6 + C15_MAXNEW; k++) {
		struct evbuffer_chain *c = (k >= 6 && (m_al.hfreed & (1u << (k - 6)))) ? NULL : c15_chain(k);
		if (c && hit < 0 && (c->flags & EVBUFFER_REFERENCE) && (const void *)c->buffer == data && c->buffer_len == datalen &&
		    C15_EXTRA(struct evbuffer_chain_reference, c)->extra == extra && !(m_cl.mask & (1u << k)))
			hit = k;
	}
	__CPROVER_assert(hit >= 0, "reference cleanup callback: called with the (data, length, extra) of a not yet cleaned-up reference chain of this unit");
	if (hit >= 0) m_cl.mask |= 1u << hit; else m_cl.twice++;
	m_cl.n++;
}
/* file-segment cleanup callback */
static void c15_seg_cleanup_cb(struct evbuffer_file_segment const *seg, int flags, void *arg)
{
	if (seg != &SEG || arg != (void *)&COOKIE[7] || (unsigned)flags != SEG.flags) m_sc.bad++;
	m_sc.n++;
}
/* lock allocation (evthread_lock_fns_.alloc/free): lock 3 is the one handed out; counts */
static void *c15_lock_alloc(unsigned locktype) { (void)locktype; m_lk.allocs++; return VF_LOCK_COOKIE(3); }
static void c15_lock_free(void *lock, unsigned locktype)
{
	long k = (char *)lock - &vf_lockobj_[0];
	(void)locktype;
	if (!(k >= 1 && k <= VF_NLOCKS) || g_lock_depth[k] != 0) m_lk.bad_free++;     /* freeing a held lock / a foreign pointer */
	m_lk.frees++;
}
/* ghost state of replaced contracts */
struct c15_cb { int n[2]; size_t total[2], nadd[2], ndel[2]; } g_cbs;   /* evbuffer_invoke_callbacks_ on BUF / SRC: what the callbacks are shown */

#define C15_RESET() do { int k_; for (k_ = 0; k_ < C15_MAXNEW; k_++) m_new[k_] = NULL; \
	m_al.n = m_al.fail = m_al.frees = m_al.heap_frees = 0; m_al.sfreed = 0; m_al.hfreed = 0; m_al.n_big = 0; m_al.seglive = 0; m_al.segobj = 0; m_cl.n = 0; m_cl.mask = 0; m_cl.twice = 0; m_sc.n = m_sc.bad = 0; \
	m_lk.allocs = m_lk.frees = m_lk.bad_free = 0; m_dc.cancel = m_dc.sched = m_dc.bevref = 0; \
	for (k_ = 0; k_ < 2; k_++) { g_cbs.n[k_] = 0; g_cbs.total[k_] = g_cbs.nadd[k_] = g_cbs.ndel[k_] = 0; } \
	evthread_lock_fns_.alloc = c15_lock_alloc; evthread_lock_fns_.free = c15_lock_free; } while (0)

/* ---------------------------------------------------------------- builders */
/* type invariant of chain flags: each of REFERENCE / FILESEGMENT / MULTICAST is set only by its constructor on a fresh
 * chain (evbuffer_add_reference_with_offset, evbuffer_add_file_segment, APPEND_CHAIN_MULTICAST), always together with
 * IMMUTABLE; SENDFILE only on FILESEGMENT chains; DANGLING only on pinned chains (evbuffer_chain_free). */
static int c15_flags_ok(unsigned f)
{
	int kinds = !!(f & EVBUFFER_REFERENCE) + !!(f & EVBUFFER_FILESEGMENT) + !!(f & EVBUFFER_MULTICAST);
	if (f & ~(unsigned)(C15_FLAGMASK)) return 0;
	if (kinds > 1) return 0;
	if (kinds == 1 && !(f & EVBUFFER_IMMUTABLE)) return 0;
	if ((f & EVBUFFER_SENDFILE) && !(f & EVBUFFER_FILESEGMENT)) return 0;
	if ((f & EVBUFFER_DANGLING) && !(f & EVBUFFER_MEM_PINNED_ANY)) return 0;
	return 1;
}
static int c15_lwd_index(const struct c15_bin *s)
{
	int i, l = -1;
	for (i = 0; i < C15_MAXCH; i++) { if ((unsigned)i < s->nch && s->off[i]) l = i; }
	return l;
}
/* which: 0 = BUF/XC[]/XD[] (lock 1), 1 = SRC/PC[]/PD[] (lock 2, or lock 1 when samelock) */
static void c15_build(const struct c15_bin *s, int which, int samelock)
{
	struct evbuffer *b = which ? &SRC : &BUF;
	struct c15_chain *ch = which ? PC : XC;
	unsigned i; size_t total = 0; int lwd;
	__CPROVER_assume(s->nch <= C15_MAXCH);
#ifdef C15_NCH_MAX           /* a smaller shape for the quick tier */
	__CPROVER_assume(s->nch <= C15_NCH_MAX);
#endif
#ifdef C15_NCH_MAX_DST
	if (!which) __CPROVER_assume(s->nch <= C15_NCH_MAX_DST);
#endif
	for (i = 0; i < C15_MAXCH; i++) {
		/* all three chain records are built (a chain beyond nch is not in the list: e.g. a multicast parent the source has drained) */
		__CPROVER_assume(s->blen[i] <= VF_EB_MAXSZ && s->mis[i] <= s->blen[i] && s->off[i] <= s->blen[i] - s->mis[i]);
#ifdef VF_NATIVE
		__CPROVER_assume(s->blen[i] <= C15_DATASZ);
#endif
		__CPROVER_assume(c15_flags_ok(s->flags[i]));
#ifndef C15_SRC_MAY_BE_MC
		if (which) __CPROVER_assume(!(s->flags[i] & EVBUFFER_MULTICAST));     /* parents are never multicast: evbuffer_add_buffer_reference refuses such sources */
#endif
		__CPROVER_assume(s->crefcnt[i] >= 1 && s->crefcnt[i] <= 1000);
		ch[i].c.next = (i + 1 < s->nch) ? &ch[i + 1].c : NULL;   /* (i >= nch: not linked) */
		ch[i].c.buffer_len = s->blen[i]; ch[i].c.misalign = (ev_misalign_t)s->mis[i]; ch[i].c.off = s->off[i];
		ch[i].c.flags = s->flags[i]; ch[i].c.refcnt = s->crefcnt[i];
		ch[i].c.buffer = which ? PD(i) : XD(i);
		if (s->flags[i] & EVBUFFER_REFERENCE) {
			ch[i].x.a = (s->has_cleanup[i] & 1) ? (void *)c15_cleanup_cb : NULL;
			ch[i].x.b = &COOKIE[(which ? 3 : 0) + i];
		} else if (s->flags[i] & EVBUFFER_FILESEGMENT) {
			ch[i].x.a = &SEG; ch[i].x.b = NULL;
		} else if (s->flags[i] & EVBUFFER_MULTICAST) {
			__CPROVER_assume(s->par[i] < C15_MAXCH);
			ch[i].x.a = &SRC;
			ch[i].x.b = &PC[s->par[i]].c;
			ch[i].c.buffer = PD(s->par[i]);
		} else {
			ch[i].x.a = NULL; ch[i].x.b = NULL;
		}
		if (i < s->nch) total += s->off[i];
	}
	lwd = c15_lwd_index(s);
	b->first = s->nch ? &ch[0].c : NULL;
	b->last = s->nch ? &ch[s->nch - 1].c : NULL;
	b->last_with_datap = (lwd <= 0) ? &b->first : &ch[lwd - 1].c.next;
	b->total_len = total;
	b->freeze_start = s->freeze_start & 1; b->freeze_end = s->freeze_end & 1; b->deferred_cbs = s->deferred & 1; b->own_lock = s->own_lock & 1;
	__CPROVER_assume(s->n_add <= ((size_t)1 << 50) && s->n_del <= ((size_t)1 << 50));
	b->n_add_for_cb = s->n_add; b->n_del_for_cb = s->n_del;
	__CPROVER_assume(s->max_read <= INT_MAX);           /* evbuffer_set_max_read refuses more; evbuffer_new sets 4096 */
	b->max_read = s->max_read;
	__CPROVER_assume(s->refcnt >= 1 && s->refcnt <= 1000);
	b->refcnt = s->refcnt;
	b->flags = s->bflags;
	b->lock = (s->has_lock & 1) ? ((which && samelock && BUF.lock) ? BUF.lock : VF_LOCK_COOKIE(which ? 2 : 1)) : NULL;
	if (!b->lock) b->own_lock = 0;                       /* own_lock is set only together with a lock (evbuffer_enable_locking) */
	b->cb_queue = (s->deferred & 1) ? C15_BASE : NULL;
	b->parent = (s->has_parent_bev & 1) ? C15_BEV : NULL;
	LIST_INIT(&b->callbacks);
	if (!which) {
		__CPROVER_assume(s->ncb <= 2);
		if (s->ncb >= 1) { b->callbacks.lh_first = &CBE[0]; CBE[0].next.le_prev = &b->callbacks.lh_first; CBE[0].next.le_next = NULL; CBE[0].cb.cb_func = NULL; CBE[0].cbarg = NULL; CBE[0].flags = EVBUFFER_CB_ENABLED; }
		if (s->ncb >= 2) { CBE[0].next.le_next = &CBE[1]; CBE[1].next.le_prev = &CBE[0].next.le_next; CBE[1].next.le_next = NULL; CBE[1].cb.cb_func = NULL; CBE[1].cbarg = NULL; CBE[1].flags = EVBUFFER_CB_ENABLED; }
	}
}
/* reference counts count the references that exist: a chain linked into a buffer holds one reference on itself, every multicast
 * chain one on its parent chain and one on the source buffer, every file-segment chain one on the segment.  (b: BUF's record,
 * s: SRC's record or NULL; seg_refcnt: SEG.refcnt) */
static void c15_assume_refs(const struct c15_bin *b, const struct c15_bin *s, int seg_refcnt, int src_refcnt)
{
	unsigned i, k; int nfs = 0, nmc = 0;
	for (i = 0; i < C15_MAXCH; i++) {
		if (i < b->nch && (b->flags[i] & EVBUFFER_FILESEGMENT)) nfs++;
		if (s && i < s->nch && (s->flags[i] & EVBUFFER_FILESEGMENT)) nfs++;
		if (i < b->nch && (b->flags[i] & EVBUFFER_MULTICAST)) nmc++;
	}
	__CPROVER_assume(seg_refcnt >= nfs && src_refcnt >= nmc);
	if (s) for (k = 0; k < C15_MAXCH; k++) {
		int need = (k < s->nch) ? 1 : 0;
		for (i = 0; i < C15_MAXCH; i++) if (i < b->nch && (b->flags[i] & EVBUFFER_MULTICAST) && b->par[i] == k) need++;
		__CPROVER_assume(s->crefcnt[k] >= need);
	}
}

/* ---------------------------------------------------------------- pre-state snapshots (constant across the call) */
struct evbuffer O_BUF, O_SRC;
struct c15_chain O_XC[C15_MAXCH], O_PC[C15_MAXCH];
struct evbuffer_file_segment O_SEG;
#define C15_SNAPSHOT() do { int k_; O_BUF = BUF; O_SRC = SRC; O_SEG = SEG; for (k_ = 0; k_ < C15_MAXCH; k_++) { O_XC[k_] = XC[k_]; O_PC[k_] = PC[k_]; } } while (0)
#define C15_BUF_SAME(b, o) ((b).first == (o).first && (b).last == (o).last && (b).last_with_datap == (o).last_with_datap && \
	(b).total_len == (o).total_len && (b).max_read == (o).max_read && (b).n_add_for_cb == (o).n_add_for_cb && (b).n_del_for_cb == (o).n_del_for_cb && \
	(b).lock == (o).lock && (b).own_lock == (o).own_lock && (b).freeze_start == (o).freeze_start && (b).freeze_end == (o).freeze_end && \
	(b).deferred_cbs == (o).deferred_cbs && (b).flags == (o).flags && (b).cb_queue == (o).cb_queue && (b).refcnt == (o).refcnt && \
	(b).callbacks.lh_first == (o).callbacks.lh_first && (b).parent == (o).parent)
#define C15_CH_SAME(c, o) ((c).next == (o).next && (c).buffer_len == (o).buffer_len && (c).misalign == (o).misalign && (c).off == (o).off && \
	(c).flags == (o).flags && (c).refcnt == (o).refcnt && (c).buffer == (o).buffer)
#define C15_ALLXC_SAME() (C15_CH_SAME(XC[0].c, O_XC[0].c) && C15_CH_SAME(XC[1].c, O_XC[1].c) && C15_CH_SAME(XC[2].c, O_XC[2].c))
#define C15_ALLPC_SAME() (C15_CH_SAME(PC[0].c, O_PC[0].c) && C15_CH_SAME(PC[1].c, O_PC[1].c) && C15_CH_SAME(PC[2].c, O_PC[2].c))

/* ---------------------------------------------------------------- representation invariant (canonical form)
 * acyclic list of live (not released) chains of this unit ending in NULL, b->last its last element, each chain's window
 * inside its buffer, total_len == sum of off, last_with_datap == address of the next-pointer that points at the last
 * chain with data (&b->first if none or it is the first).  `dead`: mask of chain codes that must not be in the list. */
#ifndef C15_MAXLIVE
#define C15_MAXLIVE (C15_MAXCH + C15_MAXNEW)
#endif
static int c15_binv(const struct evbuffer *b, unsigned dead)
{
	struct evbuffer_chain *c = b->first, *last = NULL;
	struct evbuffer_chain *const *lwdp = &b->first;
	size_t total = 0; int n; unsigned seen = 0;
	if (c == NULL) return b->last == NULL && b->last_with_datap == &b->first && b->total_len == 0;
	for (n = 0; n < C15_MAXLIVE; n++) {
		int code;
		if (!c) break;
		code = C15_CODE(c);
		if (code < 0 || code > 8) return 0;
		if (seen & (1u << code)) return 0;
		seen |= 1u << code;
		if (dead & (1u << code)) return 0;
		if (c->misalign < 0 || (size_t)c->misalign > c->buffer_len || c->off > c->buffer_len - (size_t)c->misalign) return 0;
		if (c->refcnt < 1) return 0;
		total += c->off;
		if (c->off) lwdp = last ? &last->next : &b->first;
		last = c; c = c->next;
	}
	if (c != NULL) return 0;
	return b->last == last && b->total_len == total && b->last_with_datap == (struct evbuffer_chain **)lwdp;
}
#endif
