/* c11_reinit.h — shared text of the C11 units (evmap_io_reinit_iter_fn, evmap_signal_reinit_iter_fn,
 * evmap_reinit_): small fd and signal tables whose records are static, recording backend stubs for
 * base->evsel / base->evsigsel, and the two iterator contracts (enforced in c11_io_reinit_iter /
 * c11_signal_reinit_iter, replaced in c11_reinit). */
#include "vf.h"
#include "evmap.c"
#define NIO 4
#define NSG 3
#define FDI 4                       /* fdinfo_len of the I/O backend in these units (poll / epoll changelist) */
struct in {
	int nio, nsg;                        /* table sizes, 0..NIO / 0..NSG */
	int io_null[NIO], sg_null[NSG];      /* slot without record */
	unsigned short nread[NIO], nwrite[NIO], nclose[NIO];
	int io_has_ev[NIO]; short io_ev_events[NIO];     /* first event on the fd's list */
	unsigned char fdinfo[NIO][FDI];      /* stale fdinfo inherited from before the fork */
	int sg_has_ev[NSG];
	int w, ws;                           /* witness fd / witness signal */
	int fd;                              /* (iterator units) the slot the iterator is called for */
	int result0;                         /* (iterator units) *arg before the call */
	unsigned ch[VF_NCHOICE];
};
struct in IN;
#include "stubs/log.h"
#include "stubs/mm.h"
#undef ev_io_next
#undef ev_signal_next
struct c11_iorec { struct evmap_io io; unsigned char fdinfo[FDI]; };
struct c11_sgrec { struct evmap_signal sg; };
static struct event_base BASE; static struct eventop OPS, SIGOPS;
/* the per-fd records are separate objects (CBMC loses byte-wise writes into an array of structs that is indexed symbolically) */
static struct c11_iorec IOR0, IOR1, IOR2, IOR3; static struct c11_sgrec SGR[NSG];
#define IORP(k) ((k) == 0 ? &IOR0 : (k) == 1 ? &IOR1 : (k) == 2 ? &IOR2 : &IOR3)
#define C11_FDINFO(ctx) ((unsigned char *)(ctx) + sizeof(struct evmap_io))
static void *IOTAB[NIO]; static void *SGTAB[NSG];
static struct event IOEV[NIO], SGEV[NSG];
static int RESULT;
/* ghost: what the backends were told */
int g_add_calls, g_w_calls, g_any_failed, g_be_res; evutil_socket_t g_be_fd; short g_be_old, g_be_events; void *g_be_arg; int g_be_fdinfo_zero;
int g_sadd_calls, g_ws_calls, g_sany_failed, g_sbe_res; evutil_socket_t g_sbe_fd; short g_sbe_old, g_sbe_events; void *g_sbe_arg;
int g_del_calls;

static int c11_add(struct event_base *b, evutil_socket_t fd, short old, short events, void *fdinfo)
{
	unsigned char *p = fdinfo;
	g_add_calls++; if (fd == IN.w) g_w_calls++;
	g_be_fd = fd; g_be_old = old; g_be_events = events; g_be_arg = fdinfo;
	g_be_fdinfo_zero = (p[0] == 0 && p[1] == 0 && p[2] == 0 && p[3] == 0);
	g_be_res = (VF_CHOOSE() & 1u) ? -1 : 0;
	if (g_be_res == -1) g_any_failed = 1;
	return g_be_res;
}
static int c11_sadd(struct event_base *b, evutil_socket_t sig, short old, short events, void *p)
{
	g_sadd_calls++; if (sig == IN.ws) g_ws_calls++;
	g_sbe_fd = sig; g_sbe_old = old; g_sbe_events = events; g_sbe_arg = p;
	g_sbe_res = (VF_CHOOSE() & 1u) ? -1 : 0;
	if (g_sbe_res == -1) g_sany_failed = 1;
	return g_sbe_res;
}
static int c11_del(struct event_base *b, evutil_socket_t fd, short old, short events, void *p) { g_del_calls++; return 0; }
#ifndef VF_NATIVE
/* memset(extra, 0, fdinfo_len): symbolic length in the source, FDI here */
void *memset(void *s, int c, size_t n)
{
	size_t k;
	__CPROVER_assert(__CPROVER_w_ok(s, n) && n <= FDI && c == 0, "memset: zero fill of the fd's fdinfo");
	for (k = 0; k < FDI; k++) { if (k >= n) break; ((unsigned char *)s)[k] = 0; }
	return s;
}
#endif

#define SET3(r, w, c) (((r) ? EV_READ : 0) | ((w) ? EV_WRITE : 0) | ((c) ? EV_CLOSED : 0))
/* what the backend must be told for a record: the union of its counts, edge-triggered iff its events are (and it has any condition) */
#define REINIT_EVENTS(x) ((short)(SET3((x)->nread, (x)->nwrite, (x)->nclose) \
	| ((SET3((x)->nread, (x)->nwrite, (x)->nclose) != 0 && (x)->events.lh_first != NULL && ((x)->events.lh_first->ev_events & EV_ET)) ? EV_ET : 0)))

VF_CONTRACT(int, io_reinit_iter_c, struct event_base *base, evutil_socket_t fd, struct evmap_io *ctx, void *arg)
__CPROVER_requires(base == &BASE && fd >= 0 && fd < NIO && ctx == &IORP(fd)->io && __CPROVER_rw_ok((int *)arg, sizeof(int)))
__CPROVER_assigns(g_add_calls, g_w_calls, g_any_failed, g_be_res, g_be_fd, g_be_old, g_be_events, g_be_arg, g_be_fdinfo_zero, vf_nchoice_, *(int *)arg, __CPROVER_object_upto(C11_FDINFO(ctx), FDI))
__CPROVER_ensures(__CPROVER_return_value == 0)
/* C11: the backend is told exactly once, as for a first registration (old = 0), with the union of the fd's counts ... */
__CPROVER_ensures(g_add_calls == __CPROVER_old(g_add_calls) + 1 && g_w_calls == __CPROVER_old(g_w_calls) + (fd == IN.w ? 1 : 0))
__CPROVER_ensures(g_be_fd == fd && g_be_old == 0 && g_be_events == REINIT_EVENTS(ctx) && g_be_arg == (void *)C11_FDINFO(ctx))
/* ... and with the fd's fdinfo reset to zero (the new backend knows nothing about the fd) */
__CPROVER_ensures(g_be_fdinfo_zero == 1)
/* a failed add is recorded in the result and never forgotten */
__CPROVER_ensures(*(int *)arg == (g_be_res == -1 ? -1 : __CPROVER_old(*(int *)arg)) && g_any_failed == (__CPROVER_old(g_any_failed) || g_be_res == -1))
;

VF_CONTRACT(int, signal_reinit_iter_c, struct event_base *base, int signum, struct evmap_signal *ctx, void *arg)
__CPROVER_requires(base == &BASE && signum >= 0 && signum < NSG && ctx == &SGR[signum].sg && __CPROVER_rw_ok((int *)arg, sizeof(int)))
__CPROVER_assigns(g_sadd_calls, g_ws_calls, g_sany_failed, g_sbe_res, g_sbe_fd, g_sbe_old, g_sbe_events, g_sbe_arg, vf_nchoice_, *(int *)arg)
__CPROVER_ensures(__CPROVER_return_value == 0)
/* C11: a signal with events is re-registered exactly once (old = 1 marks a re-registration for the signalfd backend), one without is skipped */
__CPROVER_ensures(g_sadd_calls == __CPROVER_old(g_sadd_calls) + (ctx->events.lh_first != NULL ? 1 : 0) && g_ws_calls == __CPROVER_old(g_ws_calls) + ((ctx->events.lh_first != NULL && signum == IN.ws) ? 1 : 0))
__CPROVER_ensures(IMP(ctx->events.lh_first != NULL, g_sbe_fd == signum && g_sbe_old == 1 && g_sbe_events == EV_SIGNAL && g_sbe_arg == (void *)ctx->events.lh_first))
__CPROVER_ensures(*(int *)arg == ((ctx->events.lh_first != NULL && g_sbe_res == -1) ? -1 : __CPROVER_old(*(int *)arg)))
__CPROVER_ensures(g_sany_failed == (__CPROVER_old(g_sany_failed) || (ctx->events.lh_first != NULL && g_sbe_res == -1)))
;

static void c11_build(void)
{
	int k;
	__CPROVER_assume(IN.nio >= 0 && IN.nio <= NIO && IN.nsg >= 0 && IN.nsg <= NSG);
	OPS.add = c11_add; OPS.del = c11_del; OPS.fdinfo_len = FDI; SIGOPS.add = c11_sadd; SIGOPS.del = c11_del; SIGOPS.fdinfo_len = 0;
	BASE.evsel = &OPS; BASE.evsigsel = &SIGOPS;
	BASE.io.entries = IN.nio ? IOTAB : NULL; BASE.io.nentries = IN.nio; BASE.sigmap.entries = IN.nsg ? SGTAB : NULL; BASE.sigmap.nentries = IN.nsg;
	for (k = 0; k < NIO; k++) {
		IOTAB[k] = IN.io_null[k] ? NULL : (void *)IORP(k);
		IORP(k)->io.nread = IN.nread[k]; IORP(k)->io.nwrite = IN.nwrite[k]; IORP(k)->io.nclose = IN.nclose[k];
		IORP(k)->io.events.lh_first = IN.io_has_ev[k] ? &IOEV[k] : NULL; IOEV[k].ev_events = IN.io_ev_events[k]; IOEV[k].ev_fd = k;
		/* counts are the numbers of listed events wanting each condition: no events, no counts */
		__CPROVER_assume(IMP(!IN.io_has_ev[k], IN.nread[k] == 0 && IN.nwrite[k] == 0 && IN.nclose[k] == 0));
		IORP(k)->fdinfo[0] = IN.fdinfo[k][0]; IORP(k)->fdinfo[1] = IN.fdinfo[k][1]; IORP(k)->fdinfo[2] = IN.fdinfo[k][2]; IORP(k)->fdinfo[3] = IN.fdinfo[k][3];
	}
	for (k = 0; k < NSG; k++) {
		SGTAB[k] = IN.sg_null[k] ? NULL : (void *)&SGR[k];
		SGR[k].sg.events.lh_first = IN.sg_has_ev[k] ? &SGEV[k] : NULL; SGEV[k].ev_events = EV_SIGNAL | EV_PERSIST; SGEV[k].ev_fd = k;
	}
	g_add_calls = 0; g_w_calls = 0; g_any_failed = 0; g_be_res = 0; g_be_fd = 0; g_be_old = 0; g_be_events = 0; g_be_arg = NULL; g_be_fdinfo_zero = 0;
	g_sadd_calls = 0; g_ws_calls = 0; g_sany_failed = 0; g_sbe_res = 0; g_sbe_fd = 0; g_sbe_old = 0; g_sbe_events = 0; g_sbe_arg = NULL; g_del_calls = 0;
	RESULT = IN.result0;
	VF_MM_RESET();
}
