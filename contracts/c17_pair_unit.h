/* contracts/c17_pair_unit.h — common prelude of the units over the real bufferevent_pair.c */
#ifndef VF_C17_PAIR_UNIT_H_
#define VF_C17_PAIR_UNIT_H_
#define VF_NLOCKS 1
#include "vf.h"
#include "bufferevent_pair.c"
struct in {
	int locking, linked, a;                       /* a: which side is the source / the subject */
	size_t len[4], low_r[2], high_r[2], low_w[2];
	short enabled[2]; unsigned short rs[2], ws[2]; int refcnt[2];
	long tr_sec[2], tr_usec[2], tw_sec[2], tw_usec[2];
	int ev_ins[4], ev_timer[4];
	int ignore_wm; short iotype; int mode;
	size_t n_added, n_deleted;
	unsigned ch[VF_NCHOICE];
};
struct in IN;
#include "stubs/log.h"
#include "stubs/lock.h"
#include "stubs/c17_pair_env.h"
static void vf_pair_build1(int k)
{
	struct bufferevent *b = PBEV(k);
	b->be_ops = &bufferevent_ops_pair; b->ev_base = &EVBASE; b->input = &EB[2 * k]; b->output = &EB[2 * k + 1];
	(*PP(k)).bev.lock = IN.locking ? VF_LOCK_COOKIE(1) : NULL; (*PP(k)).bev.rate_limiting = NULL;
	(*PP(k)).partner = IN.linked ? &(*PP(1 - (k))) : NULL; (*PP(k)).unlinked_partner = NULL;
	b->wm_read.low = IN.low_r[k]; b->wm_read.high = IN.high_r[k]; b->wm_write.low = IN.low_w[k]; b->wm_write.high = 0;
	b->enabled = IN.enabled[k]; (*PP(k)).bev.read_suspended = IN.rs[k]; (*PP(k)).bev.write_suspended = IN.ws[k]; (*PP(k)).bev.refcnt = IN.refcnt[k];
	b->timeout_read.tv_sec = IN.tr_sec[k]; b->timeout_read.tv_usec = IN.tr_usec[k]; b->timeout_write.tv_sec = IN.tw_sec[k]; b->timeout_write.tv_usec = IN.tw_usec[k];
	(*PP(k)).bev.options = BEV_OPT_DEFER_CALLBACKS;
}
static void vf_pair_build(void)
{
	VF_INSTALL_LOCKS(); vf_pair_ghost_reset();
	vf_pair_build1(0); vf_pair_build1(1);
	g_p.len[0] = IN.len[0]; g_p.len[1] = IN.len[1]; g_p.len[2] = IN.len[2]; g_p.len[3] = IN.len[3];
	g_p.ev[0].ins = IN.ev_ins[0] & 1; g_p.ev[1].ins = IN.ev_ins[1] & 1; g_p.ev[2].ins = IN.ev_ins[2] & 1; g_p.ev[3].ins = IN.ev_ins[3] & 1;
	g_p.ev[0].timer = g_p.ev[0].ins & IN.ev_timer[0]; g_p.ev[1].timer = g_p.ev[1].ins & IN.ev_timer[1]; g_p.ev[2].timer = g_p.ev[2].ins & IN.ev_timer[2]; g_p.ev[3].timer = g_p.ev[3].ins & IN.ev_timer[3];
}
#define B(x) ((x) ? 1 : 0)
#define TSET(s, u) ((s) != 0 || (u) != 0)
#define PAIR_GHOST_FRAME __CPROVER_object_whole(&g_p), g_lock_depth[1], g_lock_ops, vf_nchoice_
#ifndef VF_LENBOUND
#define VF_LENBOUND ((size_t)1 << 62)     /* buffer lengths are object sizes; the quick tier of some units uses a smaller bound (SAT is slow on 64-bit sums) */
#endif
#define MINZ(a, b) ((a) < (b) ? (a) : (b))
#endif
