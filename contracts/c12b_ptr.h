/* contracts/c12b_ptr.h — evbuffer_ptr against the byte-string model, on the <= 3-chain shape of
 * contracts/evbuffer_shape.h (sizes only; usable in bookkeeping and content units).
 * Canonical form = what evbuffer_ptr_set and the search functions hand out: (chain holding byte p, offset in
 * that chain's data) for p < length, (NULL, 0) for p == length; "not found" = (pos -1, NULL, 0). */
#ifndef VF_C12B_PTR_H_
#define VF_C12B_PTR_H_
/* (chain, pos_in_chain) of byte position p as evbuffer_ptr_set produces it: the chain holding byte p, or (NULL, 0) for p == length */
static void vf_ptr_model(const struct eb_in *s, size_t p, struct evbuffer_ptr *out)
{
	unsigned i; size_t left = p;
	out->pos = (ev_ssize_t)p; out->internal_.chain = NULL; out->internal_.pos_in_chain = 0;
	for (i = 0; i < VF_EB_MAXCH; i++) {
		if (i >= s->nch) break;
		if (left < s->off[i]) { out->internal_.chain = &CH[i]; out->internal_.pos_in_chain = left; return; }
		left -= s->off[i];
	}
}
/* does ptr denote byte position p of the (unchanged) buffer in canonical form? */
static int vf_ptr_is(const struct eb_in *s, const struct evbuffer_ptr *q, size_t p)
{
	struct evbuffer_ptr e;
	vf_ptr_model(s, p, &e);
	return q->pos == e.pos && q->internal_.chain == e.internal_.chain && q->internal_.pos_in_chain == e.internal_.pos_in_chain;
}
#define VF_PTR_IS_NOT_FOUND(q) ((q)->pos == -1 && (q)->internal_.chain == NULL && (q)->internal_.pos_in_chain == 0)

#endif
