/* c05_evmap_shape.h — harness-side state shared by the evmap.c units of C05/C04/C11:
 * a static event_base whose evsel is a recording backend stub, the array fd map, one per-fd
 * record CTX0 (struct evmap_io followed by fdinfo bytes) and up to three events.
 * Included after `struct in IN;` (needs IN.ch for the choice stream) and after evmap.c. */
#ifndef C05_EVMAP_SHAPE_H_
#define C05_EVMAP_SHAPE_H_

/* Shape bound of these units: the fd table before the call has <= C05_NOLD slots, a grown
 * table <= C05_NNEW slots (the allocator model refuses larger requests).  CBMC flattens arrays
 * that are reached through pointers, so tables cannot be left unbounded (2^16 slots: 1 min;
 * a window of one slot at a negative offset is rejected by the pointer checks).  fd, counts,
 * flags are unbounded. */
#ifndef C05_NOLD
#define C05_NOLD 8
#endif
#ifndef C05_NNEW
#define C05_NNEW 64
#endif
#define C05_FDINFO_MAX 8

static struct event_base BASE;
static struct eventop OPS, SIGOPS;
static void *OLDTAB[C05_NOLD];
static void *NEWTAB[C05_NNEW];
#define C05_OLDTAB (IN.nentries == 0 ? (void **)NULL : (void **)OLDTAB)
struct c05_ctx { struct evmap_io io; unsigned char fdinfo[C05_FDINFO_MAX]; };
static struct c05_ctx CTX0;
static struct event EV, EV1, EV2;
int event_debug_mode_on_;

/* list links: event_struct.h defines ev_io_next/ev_signal_next as self-referential macros, which the
 * native replay generator would expand twice.  They are undefined from here on (the real TU is
 * already included) and the links are named by their full path. */
#undef ev_io_next
#undef ev_signal_next
#define C05_IOL(e) ((e)->ev_.ev_io.ev_io_next)
#define C05_SIGL(e) ((e)->ev_.ev_signal.ev_signal_next)

/* ---- ghost: what the backend was told ---- */
int g_add_calls, g_del_calls;
evutil_socket_t g_be_fd; short g_be_old, g_be_events; void *g_be_fdinfo; int g_be_res, g_be_fdinfo_zero;
/* ---- ghost: allocator model ---- */
int g_mm_realloc_calls, g_mm_realloc_ok;
/* ---- pre-state snapshots (never assigned during the call) ---- */
struct evmap_io *O_ctx; struct event *O_first; unsigned O_nread, O_nwrite, O_nclose; 

static int c05_fdinfo_zero(void *fdinfo)      /* fdinfo_len is 0 or 4 in these units; loop-free on purpose */
{
	unsigned char *p = fdinfo;
	if (OPS.fdinfo_len == 0) return 1;
	return p[0] == 0 && p[1] == 0 && p[2] == 0 && p[3] == 0;
}
static int c05_be_add(struct event_base *b, evutil_socket_t fd, short old, short events, void *fdinfo)
{
	__CPROVER_assert(b == &BASE, "backend add: called with the base");
	g_add_calls++; g_be_fd = fd; g_be_old = old; g_be_events = events; g_be_fdinfo = fdinfo;
	g_be_fdinfo_zero = c05_fdinfo_zero(fdinfo);
	g_be_res = (VF_CHOOSE() & 1u) ? -1 : 0;
	return g_be_res;
}
static int c05_be_del(struct event_base *b, evutil_socket_t fd, short old, short events, void *fdinfo)
{
	__CPROVER_assert(b == &BASE, "backend del: called with the base");
	g_del_calls++; g_be_fd = fd; g_be_old = old; g_be_events = events; g_be_fdinfo = fdinfo;
	g_be_res = (VF_CHOOSE() & 1u) ? -1 : 0;
	return g_be_res;
}

#ifdef VF_MM_NO_REALLOC
/* Allocator model for the table growth: the new table is the static NEWTAB (requests beyond its
 * size fail, like any allocation may).  Copying the old contents is realloc's job, not the
 * code's; the units that include this model only look at slot IN.fd, which lies beyond the old
 * table whenever growth happens, so nothing is copied and the other slots stay arbitrary. */
size_t g_mm_realloc_sz;
void *event_mm_realloc_(void *p, size_t sz)
{
	g_mm_realloc_calls++;
	__CPROVER_assert(p == (void *)C05_OLDTAB, "realloc: of the current table");
	__CPROVER_assert(IN.fd >= IN.nentries, "realloc: only when fd is beyond the table");
	__CPROVER_assert(sz / sizeof(void *) > (size_t)IN.fd && sz <= (size_t)INT_MAX, "realloc: new table covers slot fd");
	if (sz > sizeof(NEWTAB) || (VF_CHOOSE() & 1u)) { g_mm_realloc_ok = 0; errno = ENOMEM; return NULL; }
	g_mm_realloc_ok = 1; g_mm_realloc_sz = sz;
	return NEWTAB;
}
#ifndef VF_NATIVE
/* memset of the fresh tail of the grown table (symbolic length, guide pitfall 2): range-checked
 * against the block the allocator model handed out; zeroes slot IN.fd (the only slot these units
 * read), the other slots stay arbitrary (over-approximation of zero). */
void *memset(void *s, int c, size_t n)
{
	size_t off;
	__CPROVER_assert(__CPROVER_same_object(s, NEWTAB) && c == 0, "memset: zeroing inside the new table");
	off = (size_t)((char *)s - (char *)NEWTAB);
	__CPROVER_assert(off <= g_mm_realloc_sz && n <= g_mm_realloc_sz - off, "memset: range inside the new table");
	__CPROVER_assert(off == (size_t)IN.nentries * sizeof(void *) && n == g_mm_realloc_sz - off, "memset: exactly the slots beyond the old table");
	if (IN.fd >= 0 && (size_t)IN.fd * sizeof(void *) >= off && ((size_t)IN.fd + 1) * sizeof(void *) <= off + n) NEWTAB[IN.fd] = NULL;
	return s;
}
#endif
#endif

/* Build the pre-state from IN.  Type invariants assumed (established by evmap_io_add_/del_
 * themselves, units c05_io_add/c05_io_del): each count is the number of events on the fd's list
 * wanting that condition, so an empty list has zero counts and a listed event's conditions have
 * counts >= 1. */
static void c05_build_io(void)
{
	__CPROVER_assume(IN.nentries >= 0 && IN.nentries <= C05_NOLD);
#ifdef C05_NOGROW
	__CPROVER_assume(IN.fd < IN.nentries);
#endif
	OPS.add = c05_be_add; OPS.del = c05_be_del; OPS.fdinfo_len = IN.fdinfo4 ? 4 : 0;
	BASE.evsel = &OPS;
	BASE.io.nentries = IN.nentries; BASE.io.entries = C05_OLDTAB;
	event_debug_mode_on_ = IN.debug_mode != 0;
	EV.ev_fd = IN.fd; EV.ev_events = IN.ev_events;
	EV1.ev_fd = IN.fd; EV1.ev_events = IN.first_events;
	__CPROVER_assume(IMP(!IN.has_first, IN.nread == 0 && IN.nwrite == 0 && IN.nclose == 0));
	__CPROVER_assume(IMP(IN.has_first, (IN.first_events & (EV_READ|EV_WRITE|EV_CLOSED)) != 0));
	__CPROVER_assume(IMP(IN.has_first && (IN.first_events & EV_READ), IN.nread >= 1));
	__CPROVER_assume(IMP(IN.has_first && (IN.first_events & EV_WRITE), IN.nwrite >= 1));
	__CPROVER_assume(IMP(IN.has_first && (IN.first_events & EV_CLOSED), IN.nclose >= 1));
	CTX0.io.nread = IN.nread; CTX0.io.nwrite = IN.nwrite; CTX0.io.nclose = IN.nclose;
	CTX0.io.events.lh_first = IN.has_first ? &EV1 : NULL;
	C05_IOL(&EV1).le_prev = &CTX0.io.events.lh_first; C05_IOL(&EV1).le_next = NULL;
	O_ctx = NULL;
	if (IN.fd >= 0 && IN.fd < IN.nentries) {
		if (IN.slot_null) OLDTAB[IN.fd] = NULL; else { OLDTAB[IN.fd] = &CTX0; O_ctx = &CTX0.io; }
	}
	O_nread = O_ctx ? IN.nread : 0; O_nwrite = O_ctx ? IN.nwrite : 0; O_nclose = O_ctx ? IN.nclose : 0;
	O_first = (O_ctx && IN.has_first) ? &EV1 : NULL;
	g_add_calls = 0; g_del_calls = 0; g_be_fd = 0; g_be_old = 0; g_be_events = 0; g_be_fdinfo = NULL; g_be_res = 0; g_be_fdinfo_zero = 0;
	g_mm_realloc_calls = 0; g_mm_realloc_ok = 0;
	VF_MM_RESET();
}
#endif
