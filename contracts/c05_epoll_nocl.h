/* c05_epoll_nocl.h — shared text of units c05_epoll_nocl_add / c05_epoll_nocl_del (one enforced contract per unit). */
/* C05/C06 — epoll_nochangelist_add / epoll_nochangelist_del (real epoll.c): the direct (no
 * changelist) epoll backend.  epoll_apply_one_change is replaced by its contract (with the
 * additional call-site obligation that the change built here never deletes a condition absent
 * from old_events).  Stated against the ghost kernel registration of the fd: after add the
 * kernel holds old ∪ events, after del old ∖ events, edge-triggered iff requested. */
#include "vf.h"
#include "epoll.c"
#include "stubs/log.h"
struct in {
	int fd; int epfd; int kstate; unsigned stale_mask;
	short old, events;
	unsigned ch[VF_NCHOICE];
};
struct in IN;
#include "c05_epoll_contracts.h"

#define COND (EV_READ|EV_WRITE|EV_CLOSED)
#define EVC (IN.events & COND)
static struct event_base BASE; static struct epollop EPOP;

#define NOCL_REQ \
__CPROVER_requires(base == &BASE && fd == IN.fd && old == IN.old && events == IN.events) \
__CPROVER_requires((old & ~COND) == 0 && k_calls == 0 && k_first_failed == 0) \
__CPROVER_requires(IMP(IN.kstate == 0, k_registered == (old != 0) && (k_mask & KBITS) == XL(old))) \
__CPROVER_requires(IMP(IN.kstate == 1, k_registered == 0 && k_mask == 0)) \
__CPROVER_requires(IMP(IN.kstate == 2, old == 0 && k_registered == 1)) \
__CPROVER_assigns(k_registered, k_mask, k_calls, k_first_failed, k_first_op, k_other_calls, errno, vf_nchoice_)

VF_CONTRACT(int, nocl_add_c, struct event_base *base, evutil_socket_t fd, short old, short events, void *p)
NOCL_REQ
/* 1 nothing to add: no operation */
__CPROVER_ensures(IMP(EVC == 0, k_calls == 0 && __CPROVER_return_value == 0))
/* 2 kernel in step with evmap (holds old): one accepted operation, success */
__CPROVER_ensures(IMP(EVC != 0 && IN.kstate == 0, __CPROVER_return_value == 0 && k_calls == 1 && k_first_failed == 0))
/* 3 C05: afterwards the kernel holds old ∪ events */
__CPROVER_ensures(IMP(EVC != 0 && IN.kstate == 0, k_registered == 1 && (k_mask & KBITS) == XL(IN.old | EVC)))
/* 4 ... edge-triggered iff the add asked for it */
__CPROVER_ensures(IMP(EVC != 0 && IN.kstate == 0, ((k_mask & EPOLLET) != 0) == ((IN.events & EV_ET) != 0)))
/* 5 fd closed and reopened (registration lost) or stale duplicate: recovered, same final state */
__CPROVER_ensures(IMP(EVC != 0 && IN.kstate != 0, __CPROVER_return_value == 0 && k_registered == 1 && (k_mask & KBITS) == XL(IN.old | EVC)))
;

VF_CONTRACT(int, nocl_del_c, struct event_base *base, evutil_socket_t fd, short old, short events, void *p)
NOCL_REQ
/* evmap_io_del_ only ever deletes what it counted: events ⊆ old (unit c05_io_del, postcondition 7) */
__CPROVER_requires((events & COND & ~old) == 0)
__CPROVER_ensures(IMP(EVC == 0, k_calls == 0 && __CPROVER_return_value == 0))
/* 2 kernel holds old: the one operation issued is accepted by the kernel */
__CPROVER_ensures(IMP(EVC != 0 && IN.kstate == 0, __CPROVER_return_value == 0 && k_calls == 1 && k_first_failed == 0))
/* 3 C05: afterwards the kernel holds old ∖ events */
__CPROVER_ensures(IMP(EVC != 0 && IN.kstate == 0, k_registered == ((IN.old & ~EVC) != 0) && IMP((IN.old & ~EVC) != 0, (k_mask & KBITS) == XL(IN.old & ~EVC))))
/* 4 what stays registered keeps the edge-trigger mode the delete was called with (evmap passes the event's ET flag) */
__CPROVER_ensures(IMP(EVC != 0 && IN.kstate == 0 && (IN.old & ~EVC) != 0, ((k_mask & EPOLLET) != 0) == ((IN.events & EV_ET) != 0)))
/* 5 registration already gone (fd closed): tolerated */
__CPROVER_ensures(IMP(EVC != 0 && IN.kstate == 1, __CPROVER_return_value == 0 && IMP((IN.old & ~EVC) == 0, k_registered == 0)))
;

