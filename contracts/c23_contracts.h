/* contracts/c23_contracts.h — contracts of http.c functions that are REPLACED in some c23/c24/c25/c26
 * units (connection state machine continuations: the units verify per-element decisions, the
 * continuations are recorded in ghost state).  Same text wherever used. */
#ifndef VF_C23_CONTRACTS_H_
#define VF_C23_CONTRACTS_H_
/* ghost: which continuation of the connection state machine was taken */
int g_fail_calls, g_fail_error;           /* evhttp_connection_fail_(evcon, error) */
int g_done_calls;                         /* evhttp_connection_done(evcon) */
int g_lfail_calls;                        /* evhttp_lingering_fail(evcon, req) */
int g_cont_calls;                         /* evhttp_send_continue(evcon, req) */
int g_senderr_calls, g_senderr_code;      /* evhttp_send_error(req, code, reason) */
int g_readbody_calls;                     /* evhttp_read_body(evcon, req) */
int g_trailer_calls;                      /* evhttp_read_trailer(evcon, req) */
int g_freeauto_calls;                     /* evhttp_request_free_auto(req) */
/* state observed at the moment evhttp_connection_done was called */
size_t g_done_body_size;
#define VF_C23_GHOST_RESET() do { g_fail_calls = 0; g_fail_error = -1; g_done_calls = 0; g_lfail_calls = 0; g_cont_calls = 0; \
	g_senderr_calls = 0; g_senderr_code = 0; g_readbody_calls = 0; g_trailer_calls = 0; g_freeauto_calls = 0; g_done_body_size = 0; } while (0)

VF_CONTRACT_V(conn_fail_c, struct evhttp_connection *evcon, enum evhttp_request_error error)
__CPROVER_requires(evcon != NULL)
__CPROVER_assigns(g_fail_calls, g_fail_error)
__CPROVER_ensures(g_fail_calls == __CPROVER_old(g_fail_calls) + 1 && g_fail_error == (int)error)
;
VF_CONTRACT_V(conn_done_c, struct evhttp_connection *evcon)
__CPROVER_requires(evcon != NULL)
__CPROVER_assigns(g_done_calls)
__CPROVER_ensures(g_done_calls == __CPROVER_old(g_done_calls) + 1)
;
VF_CONTRACT_V(lingering_fail_c, struct evhttp_connection *evcon, struct evhttp_request *req)
__CPROVER_requires(evcon != NULL && req != NULL)
__CPROVER_assigns(g_lfail_calls)
__CPROVER_ensures(g_lfail_calls == __CPROVER_old(g_lfail_calls) + 1)
;
VF_CONTRACT_V(send_continue_c, struct evhttp_connection *evcon, struct evhttp_request *req)
__CPROVER_requires(evcon != NULL && req != NULL)
__CPROVER_assigns(g_cont_calls)
__CPROVER_ensures(g_cont_calls == __CPROVER_old(g_cont_calls) + 1)
;
VF_CONTRACT_V(send_error_c, struct evhttp_request *req, int error, const char *reason)
__CPROVER_requires(req != NULL)
__CPROVER_assigns(g_senderr_calls, g_senderr_code)
__CPROVER_ensures(g_senderr_calls == __CPROVER_old(g_senderr_calls) + 1 && g_senderr_code == error)
;
VF_CONTRACT_V(read_body_cont_c, struct evhttp_connection *evcon, struct evhttp_request *req)
__CPROVER_requires(evcon != NULL && req != NULL)
__CPROVER_assigns(g_readbody_calls)
__CPROVER_ensures(g_readbody_calls == __CPROVER_old(g_readbody_calls) + 1)
;
VF_CONTRACT_V(read_trailer_c, struct evhttp_connection *evcon, struct evhttp_request *req)
__CPROVER_requires(evcon != NULL && req != NULL)
__CPROVER_assigns(g_trailer_calls)
__CPROVER_ensures(g_trailer_calls == __CPROVER_old(g_trailer_calls) + 1)
;
VF_CONTRACT_V(free_auto_c, struct evhttp_request *req)
__CPROVER_requires(req != NULL)
__CPROVER_assigns(g_freeauto_calls)
__CPROVER_ensures(g_freeauto_calls == __CPROVER_old(g_freeauto_calls) + 1)
;
/* evhttp_handle_chunked_read as seen by evhttp_read_body: consumes input, appends decoded data, updates the
 * accounting; whenever it asks to go on (MORE_DATA_EXPECTED / ALL_DATA_READ) the accumulated body size is
 * within the limit (established, bounded, by unit c23_chunked_read). */
int g_chunk_calls;
VF_CONTRACT(enum message_read_status, chunked_read_c, struct evhttp_request *req, struct evbuffer *buf)
__CPROVER_requires(req != NULL && buf != NULL && req->evcon != NULL)
/* a chunked body is being read: evhttp_get_body starts it with ntoread = -1; it stays -1 (expecting a size line) or > 0 (inside a chunk) */
__CPROVER_requires(req->ntoread != 0)
/* the chunks accepted so far are within the limit (body_size starts at 0 and every size line is checked before it counts) */
__CPROVER_requires(req->body_size <= req->evcon->max_body_size)
__CPROVER_assigns(g_chunk_calls, req->body_size, req->ntoread, req->flags, EB[E_IN].len, EB[E_RIN].len, EB[E_RIN].moved_in)
__CPROVER_ensures(g_chunk_calls == __CPROVER_old(g_chunk_calls) + 1)
__CPROVER_ensures(__CPROVER_return_value == ALL_DATA_READ || __CPROVER_return_value == MORE_DATA_EXPECTED || __CPROVER_return_value == DATA_CORRUPTED || __CPROVER_return_value == REQUEST_CANCELED || __CPROVER_return_value == DATA_TOO_LONG)
__CPROVER_ensures(IMP(__CPROVER_return_value == ALL_DATA_READ || __CPROVER_return_value == MORE_DATA_EXPECTED, req->body_size <= req->evcon->max_body_size))
__CPROVER_ensures(IMP(__CPROVER_return_value == ALL_DATA_READ, req->ntoread == 0))
__CPROVER_ensures(IMP(__CPROVER_return_value == MORE_DATA_EXPECTED, req->ntoread != 0))
;
/* evhttp_get_body_length as seen by evhttp_get_body (established by unit c23_get_body_length): 0 with a length
 * >= 0 (Content-Length) or -1/0 (none), or -1 for a malformed Content-Length */
int g_gbl_calls;
VF_CONTRACT(int, get_body_length_c, struct evhttp_request *req)
__CPROVER_requires(req != NULL)
__CPROVER_assigns(g_gbl_calls, req->ntoread)
__CPROVER_ensures(g_gbl_calls == __CPROVER_old(g_gbl_calls) + 1)
__CPROVER_ensures(__CPROVER_return_value == 0 || __CPROVER_return_value == -1)
__CPROVER_ensures(IMP(__CPROVER_return_value == 0, req->ntoread >= -1))
;
/* evhttp_parse_headers_ as seen by its callers evhttp_read_header / evhttp_read_trailer: consumes lines, returns a
 * status (units c23_header_line, c25_headers_size) */
int g_ph_calls, g_ph_status;
VF_CONTRACT(enum message_read_status, parse_headers_c, struct evhttp_request *req, struct evbuffer *buffer)
__CPROVER_requires(req != NULL && buffer != NULL)
__CPROVER_assigns(g_ph_calls, g_ph_status, req->headers_size)
__CPROVER_ensures(g_ph_calls == __CPROVER_old(g_ph_calls) + 1 && g_ph_status == (int)__CPROVER_return_value)
__CPROVER_ensures(__CPROVER_return_value == ALL_DATA_READ || __CPROVER_return_value == MORE_DATA_EXPECTED || __CPROVER_return_value == DATA_CORRUPTED || __CPROVER_return_value == DATA_TOO_LONG)
;
int g_getbody_calls, g_startwrite_calls;
VF_CONTRACT_V(get_body_cont_c, struct evhttp_connection *evcon, struct evhttp_request *req)
__CPROVER_requires(evcon != NULL && req != NULL)
__CPROVER_assigns(g_getbody_calls)
__CPROVER_ensures(g_getbody_calls == __CPROVER_old(g_getbody_calls) + 1)
;
VF_CONTRACT_V(start_write_c, struct evhttp_connection *evcon)
__CPROVER_requires(evcon != NULL)
__CPROVER_assigns(g_startwrite_calls)
__CPROVER_ensures(g_startwrite_calls == __CPROVER_old(g_startwrite_calls) + 1)
;
#endif
