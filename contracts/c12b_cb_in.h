/* contracts/c12b_cb_in.h — input record of the callback-list harness (see c12b_cb.h) */
#ifndef VF_C12B_CB_IN_H_
#define VF_C12B_CB_IN_H_
#define VF_CB_MAX 3
struct cb_in {
	unsigned ncb;                         /* 0..3 entries, list order ENT[0], ENT[1], ENT[2] */
	unsigned flags[VF_CB_MAX];            /* subset of ENABLED|NODEFER|OBSOLETE */
	unsigned act[VF_CB_MAX], tgt[VF_CB_MAX], nf[VF_CB_MAX];
	unsigned has_parent;
};
#endif
