/* contracts/c02_event_contracts.h — contracts of the eight queue helpers of event.c
 * (event_queue_insert_* / remove_*).  ENFORCED in units c02_q_* and REPLACED (same text) in the
 * units of their callers (event_add_nolock_, event_del_nolock_, event_active_nolock_, ...).
 *
 * Vocabulary of the documented state machine (event2/event.h "initialized / pending / active"):
 *   EVLIST_INSERTED  pending for I/O or signal      EVLIST_TIMEOUT       pending for a timeout
 *   EVLIST_ACTIVE    active (callback queued)        EVLIST_ACTIVE_LATER  active next iteration
 * event_count counts, per non-internal event, every one of the four flags that is set
 * (ACTIVE and ACTIVE_LATER exclude each other); event_count_active counts ACTIVE|ACTIVE_LATER
 * callbacks, internal ones included.
 *
 * The heap/common-queue halves of insert_timeout/remove_timeout are stated through the C01
 * contracts of min_heap_push_/min_heap_erase_/insert_common_timeout_inorder
 * (contracts/c01_timer_contracts.h), which units c01_* establish for bounded heaps/queues.
 */
#ifndef VF_C02_EVENT_CONTRACTS_H_
#define VF_C02_EVENT_CONTRACTS_H_

#define C02_NONINT(f) (((f) & EVLIST_INTERNAL) ? 0 : 1)          /* 1 for user-visible events/callbacks */
#define C02_MAX(a, b) ((a) > (b) ? (a) : (b))
/* counters stay inside int (see c02_build_base for why this is a type invariant) */
#define C02_CNT_ROOM(base) ((base)->event_count >= 0 && (base)->event_count <= INT_MAX - 4 && \
	(base)->event_count_active >= 0 && (base)->event_count_active <= INT_MAX - 4)
#define C02_AQ(base, evcb) ((base)->activequeues[(evcb)->evcb_pri])
#define C02_LNK(evcb) ((evcb)->evcb_active_next)
#define C02_TLNK(ev) ((ev)->ev_timeout_pos.ev_next_with_common_timeout)
#define C02_IS_COMMON(tv, base) ((((tv)->tv_usec & 0xf0000000) == 0x50000000) && \
	(int)(((tv)->tv_usec & 0x0ff00000) >> 20) < (base)->n_common_timeouts)
#define C02_CTL_OF(base, tv) ((base)->common_timeout_queues[((tv)->tv_usec & 0x0ff00000) >> 20])
#define C02_TV_LE(a, b) ((a)->tv_sec == (b)->tv_sec ? (a)->tv_usec <= (b)->tv_usec : (a)->tv_sec <= (b)->tv_sec)
#define C02_TV_LT(a, b) ((a)->tv_sec == (b)->tv_sec ? (a)->tv_usec < (b)->tv_usec : (a)->tv_sec < (b)->tv_sec)

/* ------------------------------------------------------------------ INSERTED */
VF_CONTRACT_V(q_insert_inserted_c, struct event_base *base, struct event *ev)
__CPROVER_requires(!(ev->ev_flags & EVLIST_INSERTED))              /* call site: event_add_nolock_ tests it; the code treats a violation as fatal */
__CPROVER_requires(C02_CNT_ROOM(base))
__CPROVER_assigns(ev->ev_flags, base->event_count, base->event_count_max)
__CPROVER_ensures(ev->ev_flags == (__CPROVER_old(ev->ev_flags) | EVLIST_INSERTED))
__CPROVER_ensures(base->event_count == __CPROVER_old(base->event_count) + C02_NONINT(ev->ev_flags))
__CPROVER_ensures(base->event_count_max == C02_MAX(__CPROVER_old(base->event_count_max), base->event_count))
;
VF_CONTRACT_V(q_remove_inserted_c, struct event_base *base, struct event *ev)
__CPROVER_requires(ev->ev_flags & EVLIST_INSERTED)
__CPROVER_requires(base->event_count >= C02_NONINT(ev->ev_flags))      /* counter invariant: the flag being cleared was counted */
__CPROVER_assigns(ev->ev_flags, base->event_count)
__CPROVER_ensures(ev->ev_flags == (__CPROVER_old(ev->ev_flags) & ~EVLIST_INSERTED))
__CPROVER_ensures(base->event_count == __CPROVER_old(base->event_count) - C02_NONINT(ev->ev_flags))
;

/* ------------------------------------------------------------------ ACTIVE */
VF_CONTRACT_V(q_insert_active_c, struct event_base *base, struct event_callback *evcb)
__CPROVER_requires(!(evcb->evcb_flags & EVLIST_ACTIVE_LATER))      /* callers take it off the later-queue first: one link field serves both queues */
__CPROVER_requires((int)evcb->evcb_pri < base->nactivequeues)
__CPROVER_requires(C02_CNT_ROOM(base))
__CPROVER_requires(IMP(!(evcb->evcb_flags & EVLIST_ACTIVE), *(C02_AQ(base, evcb).tqh_last) == NULL))   /* TAILQ: tqh_last addresses the terminating NULL */
__CPROVER_assigns(!(evcb->evcb_flags & EVLIST_ACTIVE): evcb->evcb_flags, base->event_count, base->event_count_max,
	base->event_count_active, base->event_count_active_max,
	C02_LNK(evcb).tqe_next, C02_LNK(evcb).tqe_prev, *(C02_AQ(base, evcb).tqh_last), C02_AQ(base, evcb).tqh_last)
/* double activation is a no-op (whole frame is conditional) */
__CPROVER_ensures(evcb->evcb_flags == (__CPROVER_old(evcb->evcb_flags) | EVLIST_ACTIVE))
__CPROVER_ensures(IMP(!(__CPROVER_old(evcb->evcb_flags) & EVLIST_ACTIVE),
	base->event_count == __CPROVER_old(base->event_count) + C02_NONINT(evcb->evcb_flags) &&
	base->event_count_max == C02_MAX(__CPROVER_old(base->event_count_max), base->event_count) &&
	base->event_count_active == __CPROVER_old(base->event_count_active) + 1 &&
	base->event_count_active_max == C02_MAX(__CPROVER_old(base->event_count_active_max), base->event_count_active)))
/* appended at the TAIL of the queue of its priority (FIFO within a priority) */
__CPROVER_ensures(IMP(!(__CPROVER_old(evcb->evcb_flags) & EVLIST_ACTIVE),
	*__CPROVER_old(C02_AQ(base, evcb).tqh_last) == evcb &&
	C02_LNK(evcb).tqe_prev == __CPROVER_old(C02_AQ(base, evcb).tqh_last) &&
	C02_LNK(evcb).tqe_next == NULL &&
	C02_AQ(base, evcb).tqh_last == &C02_LNK(evcb).tqe_next))
;
VF_CONTRACT_V(q_remove_active_c, struct event_base *base, struct event_callback *evcb)
__CPROVER_requires(evcb->evcb_flags & EVLIST_ACTIVE)
__CPROVER_requires((int)evcb->evcb_pri < base->nactivequeues)
__CPROVER_requires(base->event_count >= C02_NONINT(evcb->evcb_flags) && base->event_count_active >= 1)
/* evcb is linked in the queue of its priority */
__CPROVER_requires(*(C02_LNK(evcb).tqe_prev) == evcb)
__CPROVER_requires(IMP(C02_LNK(evcb).tqe_next != NULL, C02_LNK(C02_LNK(evcb).tqe_next).tqe_prev == &C02_LNK(evcb).tqe_next))
__CPROVER_requires(IMP(C02_LNK(evcb).tqe_next == NULL, C02_AQ(base, evcb).tqh_last == &C02_LNK(evcb).tqe_next))
__CPROVER_assigns(evcb->evcb_flags, base->event_count, base->event_count_active, *(C02_LNK(evcb).tqe_prev);
	C02_LNK(evcb).tqe_next != NULL: C02_LNK(C02_LNK(evcb).tqe_next).tqe_prev;
	C02_LNK(evcb).tqe_next == NULL: C02_AQ(base, evcb).tqh_last)
__CPROVER_ensures(evcb->evcb_flags == (__CPROVER_old(evcb->evcb_flags) & ~EVLIST_ACTIVE))
__CPROVER_ensures(base->event_count == __CPROVER_old(base->event_count) - C02_NONINT(evcb->evcb_flags))
__CPROVER_ensures(base->event_count_active == __CPROVER_old(base->event_count_active) - 1)
/* unlinked: predecessor's next is the old successor, successor's (or the head's) back link is the old predecessor slot */
__CPROVER_ensures(*__CPROVER_old(C02_LNK(evcb).tqe_prev) == __CPROVER_old(C02_LNK(evcb).tqe_next))
__CPROVER_ensures(IMP(__CPROVER_old(C02_LNK(evcb).tqe_next) != NULL,
	C02_LNK(__CPROVER_old(C02_LNK(evcb).tqe_next)).tqe_prev == __CPROVER_old(C02_LNK(evcb).tqe_prev)))
__CPROVER_ensures(IMP(__CPROVER_old(C02_LNK(evcb).tqe_next) == NULL,
	C02_AQ(base, evcb).tqh_last == __CPROVER_old(C02_LNK(evcb).tqe_prev)))
;

/* ------------------------------------------------------------------ ACTIVE_LATER */
VF_CONTRACT_V(q_insert_active_later_c, struct event_base *base, struct event_callback *evcb)
__CPROVER_requires((int)evcb->evcb_pri < base->nactivequeues)
__CPROVER_requires(C02_CNT_ROOM(base))
__CPROVER_requires(IMP(!(evcb->evcb_flags & (EVLIST_ACTIVE|EVLIST_ACTIVE_LATER)), *(base->active_later_queue.tqh_last) == NULL))
__CPROVER_assigns(!(evcb->evcb_flags & (EVLIST_ACTIVE|EVLIST_ACTIVE_LATER)): evcb->evcb_flags, base->event_count, base->event_count_max,
	base->event_count_active, base->event_count_active_max,
	C02_LNK(evcb).tqe_next, C02_LNK(evcb).tqe_prev, *(base->active_later_queue.tqh_last), base->active_later_queue.tqh_last)
/* an already active (now or later) callback is left alone */
__CPROVER_ensures(IMP(__CPROVER_old(evcb->evcb_flags) & (EVLIST_ACTIVE|EVLIST_ACTIVE_LATER), evcb->evcb_flags == __CPROVER_old(evcb->evcb_flags)))
__CPROVER_ensures(IMP(!(__CPROVER_old(evcb->evcb_flags) & (EVLIST_ACTIVE|EVLIST_ACTIVE_LATER)),
	evcb->evcb_flags == (__CPROVER_old(evcb->evcb_flags) | EVLIST_ACTIVE_LATER) &&
	base->event_count == __CPROVER_old(base->event_count) + C02_NONINT(evcb->evcb_flags) &&
	base->event_count_max == C02_MAX(__CPROVER_old(base->event_count_max), base->event_count) &&
	base->event_count_active == __CPROVER_old(base->event_count_active) + 1 &&
	base->event_count_active_max == C02_MAX(__CPROVER_old(base->event_count_active_max), base->event_count_active)))
__CPROVER_ensures(IMP(!(__CPROVER_old(evcb->evcb_flags) & (EVLIST_ACTIVE|EVLIST_ACTIVE_LATER)),
	*__CPROVER_old(base->active_later_queue.tqh_last) == evcb &&
	C02_LNK(evcb).tqe_prev == __CPROVER_old(base->active_later_queue.tqh_last) &&
	C02_LNK(evcb).tqe_next == NULL &&
	base->active_later_queue.tqh_last == &C02_LNK(evcb).tqe_next))
;
VF_CONTRACT_V(q_remove_active_later_c, struct event_base *base, struct event_callback *evcb)
__CPROVER_requires(evcb->evcb_flags & EVLIST_ACTIVE_LATER)
__CPROVER_requires(base->event_count >= C02_NONINT(evcb->evcb_flags) && base->event_count_active >= 1)
__CPROVER_requires(*(C02_LNK(evcb).tqe_prev) == evcb)
__CPROVER_requires(IMP(C02_LNK(evcb).tqe_next != NULL, C02_LNK(C02_LNK(evcb).tqe_next).tqe_prev == &C02_LNK(evcb).tqe_next))
__CPROVER_requires(IMP(C02_LNK(evcb).tqe_next == NULL, base->active_later_queue.tqh_last == &C02_LNK(evcb).tqe_next))
__CPROVER_assigns(evcb->evcb_flags, base->event_count, base->event_count_active, *(C02_LNK(evcb).tqe_prev);
	C02_LNK(evcb).tqe_next != NULL: C02_LNK(C02_LNK(evcb).tqe_next).tqe_prev;
	C02_LNK(evcb).tqe_next == NULL: base->active_later_queue.tqh_last)
__CPROVER_ensures(evcb->evcb_flags == (__CPROVER_old(evcb->evcb_flags) & ~EVLIST_ACTIVE_LATER))
__CPROVER_ensures(base->event_count == __CPROVER_old(base->event_count) - C02_NONINT(evcb->evcb_flags))
__CPROVER_ensures(base->event_count_active == __CPROVER_old(base->event_count_active) - 1)
__CPROVER_ensures(*__CPROVER_old(C02_LNK(evcb).tqe_prev) == __CPROVER_old(C02_LNK(evcb).tqe_next))
__CPROVER_ensures(IMP(__CPROVER_old(C02_LNK(evcb).tqe_next) != NULL,
	C02_LNK(__CPROVER_old(C02_LNK(evcb).tqe_next)).tqe_prev == __CPROVER_old(C02_LNK(evcb).tqe_prev)))
__CPROVER_ensures(IMP(__CPROVER_old(C02_LNK(evcb).tqe_next) == NULL,
	base->active_later_queue.tqh_last == __CPROVER_old(C02_LNK(evcb).tqe_prev)))
;

#endif
