/* contracts/c17_sock_unit.h — common prelude of the units over the real bufferevent_sock.c: the TU, one flat input
 * record, the environment (stubs/c17_sock_env.h) and a builder for the socket bufferevent. */
#ifndef VF_C17_SOCK_UNIT_H_
#define VF_C17_SOCK_UNIT_H_
#define VF_NLOCKS 1
#include "vf.h"
#include "bufferevent_sock.c"
struct in {
	int locking; unsigned short rs, ws; short enabled;
	size_t len_in, len_out, low_r, high_r, low_w, high_w;
	int refcnt, connecting, refused;
	ev_ssize_t rmax, wmax; int grp_r, grp_w;
	int io_kind, io_n, io_errno;
	short event; int fd; short a_event;
	int ev_ins[2], ev_timer[2];
	long tr_sec, tr_usec, tw_sec, tw_usec;
	int fin_ret, fin_errno, sc_ret, new_fd, has_sa, cur_fd, add_fail, err;
	int n_added;
	unsigned ch[VF_NCHOICE];
};
struct in IN;
#include "stubs/log.h"
#include "stubs/lock.h"
#include "stubs/c17_sock_env.h"
static void vf_sock_build(void)
{
	VF_INSTALL_LOCKS(); vf_sock_ghost_reset();
	BEV->be_ops = &bufferevent_ops_socket; BEV->ev_base = &EVBASE; BEV->input = &INBUF; BEV->output = &OUTBUF;
	BEVP.lock = IN.locking ? VF_LOCK_COOKIE(1) : NULL; BEVP.rate_limiting = NULL; BEVP.dns_request = NULL;
	g_s.len_in = IN.len_in; g_s.len_out = IN.len_out;
	BEV->wm_read.low = IN.low_r; BEV->wm_read.high = IN.high_r; BEV->wm_write.low = IN.low_w; BEV->wm_write.high = IN.high_w;
	BEV->enabled = IN.enabled;
	BEV->timeout_read.tv_sec = IN.tr_sec; BEV->timeout_read.tv_usec = IN.tr_usec; BEV->timeout_write.tv_sec = IN.tw_sec; BEV->timeout_write.tv_usec = IN.tw_usec;
	BEVP.refcnt = IN.refcnt; BEVP.connecting = IN.connecting & 1; BEVP.connection_refused = IN.refused & 1;
	BEVP.read_suspended = IN.rs; BEVP.write_suspended = IN.ws;
	g_s.ev[0].ins = IN.ev_ins[0] & 1; g_s.ev[0].timer = IN.ev_timer[0] & 1; g_s.ev[1].ins = IN.ev_ins[1] & 1; g_s.ev[1].timer = IN.ev_timer[1] & 1;
	g_s.event_add_may_fail = IN.add_fail & 1;
	g_s.rmax = IN.rmax; g_s.wmax = IN.wmax; g_s.grp_susp_r = IN.grp_r & 1; g_s.grp_susp_w = IN.grp_w & 1;
	g_s.io_kind = IN.io_kind; g_s.io_n = IN.io_n; g_s.io_errno = IN.io_errno;
	g_s.fin_conn_ret = IN.fin_ret; g_s.fin_conn_errno = IN.fin_errno; g_s.sock_connect_ret = IN.sc_ret; g_s.new_fd = IN.new_fd; g_s.fd = IN.cur_fd;
	errno = IN.err;
}
#define B(x) ((x) ? 1 : 0)
#define HELD(n) (BEVP.lock ? (n) : -1)
#define SOCK_GHOST_FRAME __CPROVER_object_whole(&g_s), g_lock_depth[1], g_lock_ops, vf_nchoice_, errno
#define RETRIABLE(e) ((e) == EINTR || (e) == EAGAIN || (e) == EWOULDBLOCK)
#endif
