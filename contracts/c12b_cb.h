/* contracts/c12b_cb.h — callback machinery of the real buffer.c (C13): harness-built callback list
 * of <= 3 entries on the shape buffer BUF (contracts/evbuffer_shape.h), user callbacks as stubs that
 * record their arguments in ghost state, a reference model of "who must be called with what", and
 * the contract run_cb_c of evbuffer_run_callbacks (enforced in c12b_run_callbacks, replaced in
 * c12b_invoke_callbacks and c12b_deferred_callback — same text).
 *
 * Include after buffer.c, stubs/lock.h, evbuffer_shape.h and the definition of IN.  `struct in` must embed
 * `struct cb_in c;` (from c12b_cb_in.h).
 *
 * What a user callback may do here (C13 quantifier: "callbacks that modify or remove themselves",
 * "flags toggled at any point"):
 *   act 0  nothing
 *   act 1  remove itself from the list (LIST_REMOVE on its own entry; the entries are statics, so
 *          the "free" half of evbuffer_remove_cb_entry is not modelled)
 *   act 2  rewrite the ENABLED/NODEFER bits of entry `tgt` (any entry, itself included) to `nf`
 * The dispatcher must read `next` before the call (act 1) and must evaluate an entry's flags when
 * the walk reaches it (act 2: an entry disabled by an earlier callback of the same run is not called,
 * one enabled by it is).
 */
#ifndef VF_C12B_CB_H_
#define VF_C12B_CB_H_
#include "c12b_cb_in.h"
static struct evbuffer_cb_entry ENT[VF_CB_MAX];
static struct bufferevent *VF_PARENT;     /* cookie: address of a static byte, never dereferenced by buffer.c */
static char vf_parent_obj_;
static struct event_base *VF_CBQ;
static char vf_cbq_obj_;

/* ghost record of what the user callbacks saw (one object: every assigns target costs a comparison per checked write under dfcc) */
struct vf_cb_ghost {
	int calls[VF_CB_MAX];                 /* how often entry k's callback ran */
	int seq[VF_CB_MAX];                   /* position of that call in the global call order (1-based) */
	int n;                                /* total user-callback invocations */
	size_t orig[VF_CB_MAX], added[VF_CB_MAX], deleted[VF_CB_MAX];   /* info seen (new style) */
	size_t old_len[VF_CB_MAX], new_len[VF_CB_MAX];                  /* old_len/new_len seen (obsolete style) */
	int obs[VF_CB_MAX];                   /* 1: called through cb_obsolete */
	int badarg;                           /* a callback got a wrong buffer / cbarg / NULL info */
	size_t len_then[VF_CB_MAX];           /* buffer length at the moment of the call */
	int lock_then[VF_CB_MAX];             /* lock depth at the moment of the call */
	unsigned flags_then[VF_CB_MAX];       /* the entry's own flags at the moment of the call */
};
struct vf_cb_ghost g_cb;

/* pre-state snapshots and the reference model's verdict, computed by the harness before the call */
size_t O_cb_total, O_cb_nadd, O_cb_ndel;
int O_cb_expect[VF_CB_MAX];              /* model: entry k is called (exactly once) */
int O_cb_nexpect;
unsigned O_cb_fflags[VF_CB_MAX];         /* model: entry k's flags after the run */
int O_cb_removed[VF_CB_MAX];             /* model: entry k removed itself */

#define VF_CB_RESET() do { int k_; for (k_ = 0; k_ < VF_CB_MAX; k_++) { g_cb.calls[k_] = 0; g_cb.seq[k_] = 0; g_cb.orig[k_] = g_cb.added[k_] = g_cb.deleted[k_] = 0; \
	g_cb.old_len[k_] = g_cb.new_len[k_] = 0; g_cb.obs[k_] = 0; g_cb.len_then[k_] = 0; g_cb.lock_then[k_] = 0; g_cb.flags_then[k_] = 0; } g_cb.n = 0; g_cb.badarg = 0; } while (0)

/* All indices below are literals on purpose: a write through &ENT[k] with symbolic k is a byte-level
 * update of the whole array for the solver (measured: 7x the formula, 100x the time). */
/* LIST_REMOVE(e, next) spelled with literal lvalues (case split on the two link pointers, which can only
 * point into the harness list): same stores as the macro in compat/sys/queue.h, cheap for the solver.
 * A link pointing anywhere else is an obligation failure. */
static void vf_list_remove_(struct evbuffer_cb_entry *e)
{
	struct evbuffer_cb_entry *nx = e->next.le_next, **pv = e->next.le_prev;
	if (nx == &ENT[0]) ENT[0].next.le_prev = pv; else if (nx == &ENT[1]) ENT[1].next.le_prev = pv; else if (nx == &ENT[2]) ENT[2].next.le_prev = pv;
	else __CPROVER_assert(nx == NULL, "callback list: le_next stays inside the list");
	if (pv == &BUF.callbacks.lh_first) BUF.callbacks.lh_first = nx; else if (pv == &ENT[0].next.le_next) ENT[0].next.le_next = nx;
	else if (pv == &ENT[1].next.le_next) ENT[1].next.le_next = nx; else if (pv == &ENT[2].next.le_next) ENT[2].next.le_next = nx;
	else __CPROVER_assert(0, "callback list: le_prev stays inside the list");
	/* the entry is now freed memory for the dispatcher (evbuffer_remove_cb_entry frees it); its links may hold anything.
	 * We let them point back at the entry itself: a dispatcher that follows them after the callback calls the entry a
	 * second time (calls == 2, and the walk never ends), a dispatcher that saved `next` before the call never notices.
	 * (No separate poison object: it would join every points-to set of the walk.) */
	e->next.le_next = e; e->next.le_prev = &e->next.le_next;
}
#define VF_CB_SETFL_(t, v) (ENT[t].flags = (ENT[t].flags & ~(ev_uint32_t)(EVBUFFER_CB_ENABLED | EVBUFFER_CB_NODEFER)) | ((v) & (EVBUFFER_CB_ENABLED | EVBUFFER_CB_NODEFER)))
#define VF_CB_EFFECT_(k) do { \
	if (IN.c.act[k] == 1) { vf_list_remove_(&ENT[k]); } \
	else if (IN.c.act[k] == 2 && IN.c.tgt[k] < IN.c.ncb) { \
		if (IN.c.tgt[k] == 0) VF_CB_SETFL_(0, IN.c.nf[k]); else if (IN.c.tgt[k] == 1) VF_CB_SETFL_(1, IN.c.nf[k]); else VF_CB_SETFL_(2, IN.c.nf[k]); } \
} while (0)
static void vf_cb_effect(int k)
{
	if (k == 0) VF_CB_EFFECT_(0); else if (k == 1) VF_CB_EFFECT_(1); else if (k == 2) VF_CB_EFFECT_(2);
}
static void vf_cb_common(struct evbuffer *buffer, void *arg, int *kout)
{
	int k = (arg == &ENT[0]) ? 0 : (arg == &ENT[1]) ? 1 : (arg == &ENT[2]) ? 2 : -1;   /* no pointer subtraction: a division circuit per call is expensive */
	if (buffer != &BUF || k < 0) { g_cb.badarg = 1; *kout = -1; return; }
	g_cb.calls[k]++;
	g_cb.n++;
	g_cb.seq[k] = g_cb.n;
	g_cb.len_then[k] = BUF.total_len;
	g_cb.lock_then[k] = g_lock_depth[1];
	g_cb.flags_then[k] = ENT[k].flags;
	*kout = k;
}
/* the user callbacks (cbarg of entry k is &ENT[k]) */
static void vf_user_cb(struct evbuffer *buffer, const struct evbuffer_cb_info *info, void *arg)
{
	int k;
	vf_cb_common(buffer, arg, &k);
	if (k < 0) return;
	if (info == NULL) { g_cb.badarg = 1; return; }
	g_cb.orig[k] = info->orig_size; g_cb.added[k] = info->n_added; g_cb.deleted[k] = info->n_deleted;
	vf_cb_effect(k);
}
static void vf_user_cb_obsolete(struct evbuffer *buffer, size_t old_len, size_t new_len, void *arg)
{
	int k;
	vf_cb_common(buffer, arg, &k);
	if (k < 0) return;
	g_cb.obs[k] = 1;
	g_cb.old_len[k] = old_len; g_cb.new_len[k] = new_len;
	vf_cb_effect(k);
}

/* The dispatcher functions never look at a chain: for them the buffer is (total_len, counters, flags, lock, refcnt,
 * callback list).  This builder sets exactly those from the shape record (total_len := b.off[0], any value; no chains),
 * a superset of the reachable states, and a far smaller formula than the 3-chain shape. */
static void vf_build_buf_nochains(const struct eb_in *s)
{
	BUF.first = NULL; BUF.last = NULL; BUF.last_with_datap = &BUF.first;
	BUF.total_len = s->off[0];
	BUF.freeze_start = s->freeze_start & 1; BUF.freeze_end = s->freeze_end & 1; BUF.deferred_cbs = s->deferred & 1;
	BUF.n_add_for_cb = s->n_add; BUF.n_del_for_cb = s->n_del;
	__CPROVER_assume(s->refcnt >= 1 && s->refcnt <= 1000);
	BUF.refcnt = s->refcnt;
	BUF.lock = (s->has_lock & 1) ? VF_LOCK_COOKIE(1) : NULL;
	LIST_INIT(&BUF.callbacks);
}
/* build the list on BUF (after vf_build_buf / vf_build_buf_nochains) */
static void vf_build_cbs(const struct cb_in *s)
{
	unsigned i;
#ifdef VF_CB_MAXN
	__CPROVER_assume(s->ncb <= VF_CB_MAXN);
#endif
	__CPROVER_assume(s->ncb <= VF_CB_MAX);
	LIST_INIT(&BUF.callbacks);
	for (i = 0; i < VF_CB_MAX; i++) {
		if (i >= s->ncb) break;
		__CPROVER_assume((s->flags[i] & ~(unsigned)(EVBUFFER_CB_ENABLED | EVBUFFER_CB_NODEFER | EVBUFFER_CB_OBSOLETE)) == 0);
#ifdef VF_CB_MAXACT
		__CPROVER_assume(s->act[i] <= VF_CB_MAXACT);
#else
		__CPROVER_assume(s->act[i] <= 2);
#endif
		ENT[i].flags = s->flags[i];
		ENT[i].cbarg = &ENT[i];
		if (s->flags[i] & EVBUFFER_CB_OBSOLETE) ENT[i].cb.cb_obsolete = vf_user_cb_obsolete;
		else ENT[i].cb.cb_func = vf_user_cb;
		ENT[i].next.le_next = (i + 1 < s->ncb) ? &ENT[i + 1] : NULL;
		ENT[i].next.le_prev = i ? &ENT[i - 1].next.le_next : &BUF.callbacks.lh_first;
	}
	BUF.callbacks.lh_first = s->ncb ? &ENT[0] : NULL;
	VF_PARENT = (struct bufferevent *)&vf_parent_obj_;
	VF_CBQ = (struct event_base *)&vf_cbq_obj_;
	BUF.parent = (s->has_parent & 1) ? VF_PARENT : NULL;
	BUF.cb_queue = VF_CBQ;
}

/* Reference model (C13 text): which entries a dispatch pass must call.
 *   pass 0 on a non-deferred buffer : every ENABLED entry
 *   pass 0 on a deferred buffer     : the ENABLED entries flagged NODEFER (immediate delivery)
 *   pass 1 (the deferred run)       : the ENABLED entries not flagged NODEFER
 * evaluated in list order with each entry's flags as they are when the walk reaches it.  Nothing is
 * called when nothing changed since the last report. */
static void vf_cb_model(const struct cb_in *s, int running_deferred)
{
	unsigned fl[VF_CB_MAX]; unsigned i;
	int active = (BUF.n_add_for_cb != 0 || BUF.n_del_for_cb != 0);
	O_cb_total = BUF.total_len; O_cb_nadd = BUF.n_add_for_cb; O_cb_ndel = BUF.n_del_for_cb;
	O_cb_nexpect = 0;
	for (i = 0; i < VF_CB_MAX; i++) { fl[i] = (i < s->ncb) ? s->flags[i] : 0; O_cb_expect[i] = 0; O_cb_removed[i] = 0; }
	for (i = 0; i < VF_CB_MAX; i++) {
		int want;
		if (i >= s->ncb) break;
		if (!(fl[i] & EVBUFFER_CB_ENABLED)) want = 0;
		else if (running_deferred) want = !(fl[i] & EVBUFFER_CB_NODEFER);
		else if (BUF.deferred_cbs) want = !!(fl[i] & EVBUFFER_CB_NODEFER);
		else want = 1;
		if (!active) want = 0;
		O_cb_expect[i] = want;
		if (want) {
			O_cb_nexpect++;
			if (s->act[i] == 1) O_cb_removed[i] = 1;
			if (s->act[i] == 2 && s->tgt[i] < s->ncb)
				fl[s->tgt[i]] = (fl[s->tgt[i]] & ~(unsigned)(EVBUFFER_CB_ENABLED | EVBUFFER_CB_NODEFER)) | (s->nf[i] & (EVBUFFER_CB_ENABLED | EVBUFFER_CB_NODEFER));
		}
	}
	for (i = 0; i < VF_CB_MAX; i++) O_cb_fflags[i] = fl[i];
}

/* per-entry clauses of run_cb_c */
#ifdef VF_CB_NOEQ
#define VF_CB_EQN(k) 1
#else
#define VF_CB_EQN(k) (g_cb.orig[k] + g_cb.added[k] - g_cb.deleted[k] == g_cb.len_then[k])
#endif
#define VF_CB_CALLED_OK(k) \
	(g_cb.calls[k] == O_cb_expect[k] && \
	 IMP(O_cb_expect[k] && !(IN.c.flags[k] & EVBUFFER_CB_OBSOLETE), !g_cb.obs[k] && VF_CB_EQN(k) && \
		g_cb.added[k] == O_cb_nadd && g_cb.deleted[k] == O_cb_ndel && g_cb.orig[k] == O_cb_total + O_cb_ndel - O_cb_nadd) && \
	 IMP(O_cb_expect[k] && (IN.c.flags[k] & EVBUFFER_CB_OBSOLETE), g_cb.obs[k] && g_cb.new_len[k] == g_cb.len_then[k] && g_cb.old_len[k] == O_cb_total + O_cb_ndel - O_cb_nadd) && \
	 IMP(O_cb_expect[k], g_cb.len_then[k] == O_cb_total && g_cb.lock_then[k] == O_cb_lockdepth))
int O_cb_lockdepth;                      /* lock depth when the dispatcher was entered */
/* the counters were cleared by the pass <=> the pass is a reporting pass for ordinary entries */
#define VF_CB_CLEARS(rd) ((rd) || !BUF.deferred_cbs)

VF_CONTRACT_V(run_cb_c, struct evbuffer *buffer, int running_deferred)
__CPROVER_requires(buffer == &BUF)
__CPROVER_requires(IMP(BUF.lock != NULL, g_lock_depth[1] >= 1))          /* ASSERT_EVBUFFER_LOCKED: every caller holds the buffer lock */
__CPROVER_requires(g_cb.n == 0 && g_cb.badarg == 0 && g_cb.calls[0] == 0 && g_cb.calls[1] == 0 && g_cb.calls[2] == 0)
__CPROVER_requires(O_cb_total == BUF.total_len && O_cb_nadd == BUF.n_add_for_cb && O_cb_ndel == BUF.n_del_for_cb && O_cb_lockdepth == g_lock_depth[1])
__CPROVER_requires(running_deferred == 0 || running_deferred == 1)
__CPROVER_assigns(BUF.n_add_for_cb, BUF.n_del_for_cb, BUF.callbacks.lh_first, __CPROVER_object_whole(ENT), __CPROVER_object_whole(&g_cb))
/* 1 every callback got the buffer and its own cbarg (and a non-NULL info) */
__CPROVER_ensures(g_cb.badarg == 0)
/* 2-4 each entry the model selects is called exactly once, nobody else, with info satisfying
 *     orig_size + n_added - n_deleted == length at that moment, n_added/n_deleted == the accumulated counters */
__CPROVER_ensures(VF_CB_CALLED_OK(0))
__CPROVER_ensures(VF_CB_CALLED_OK(1))
__CPROVER_ensures(VF_CB_CALLED_OK(2))
/* 5 nothing else was called; calls happen in list order */
__CPROVER_ensures(g_cb.n == O_cb_nexpect)
__CPROVER_ensures(IMP(O_cb_expect[0] && O_cb_expect[1], g_cb.seq[0] < g_cb.seq[1]) && IMP(O_cb_expect[1] && O_cb_expect[2], g_cb.seq[1] < g_cb.seq[2]) && IMP(O_cb_expect[0] && O_cb_expect[2], g_cb.seq[0] < g_cb.seq[2]))
/* 7 counters: no callbacks registered => dropped; otherwise reset exactly by a reporting pass
 *   (the immediate pass on a deferred buffer leaves them for the deferred run = aggregation) */
__CPROVER_ensures(IMP(IN.c.ncb == 0, BUF.n_add_for_cb == 0 && BUF.n_del_for_cb == 0))
__CPROVER_ensures(IMP(IN.c.ncb != 0 && VF_CB_CLEARS(running_deferred), BUF.n_add_for_cb == 0 && BUF.n_del_for_cb == 0))
__CPROVER_ensures(IMP(IN.c.ncb != 0 && !VF_CB_CLEARS(running_deferred), BUF.n_add_for_cb == O_cb_nadd && BUF.n_del_for_cb == O_cb_ndel))
/* 10 an ordinary (non-NODEFER) entry is only ever told about changes in a pass that also resets the
 *    counters: what it was told is never told to it again (no change reported twice) */
#define VF_CB_ONCE(k) IMP(g_cb.calls[k] != 0 && !(g_cb.flags_then[k] & EVBUFFER_CB_NODEFER), BUF.n_add_for_cb == 0 && BUF.n_del_for_cb == 0)
__CPROVER_ensures(VF_CB_ONCE(0) && VF_CB_ONCE(1) && VF_CB_ONCE(2))
/* 11 the list afterwards: entries that removed themselves are gone, the others are linked in order; flags as the model says */
__CPROVER_ensures(ENT[0].flags == O_cb_fflags[0] || IN.c.ncb < 1)
__CPROVER_ensures(ENT[1].flags == O_cb_fflags[1] || IN.c.ncb < 2)
__CPROVER_ensures(ENT[2].flags == O_cb_fflags[2] || IN.c.ncb < 3)
__CPROVER_ensures(BUF.callbacks.lh_first == ((IN.c.ncb >= 1 && !O_cb_removed[0]) ? &ENT[0] : (IN.c.ncb >= 2 && !O_cb_removed[1]) ? &ENT[1] : (IN.c.ncb >= 3 && !O_cb_removed[2]) ? &ENT[2] : (struct evbuffer_cb_entry *)0))
;
#endif
