/* contracts/c35_labels_unit.h — harness for dnsname_to_labels (+ dnslabel_table_get_pos /
 * dnslabel_table_add inlined) of the real evdns.c against a reference ENCODER written from RFC 1035
 * §3.1/§4.1.4 and the function's own header comment ("abc.def -> <3>abc<3>def<0>", -1 label > 63,
 * -2 no room).  Plain assert-harness, every loop fully unwound.
 *
 * Inputs: every NUL-free name of <= NAME_CAP characters (name_len == strlen(name), as every caller
 * passes), buf_len in [0,BUF_CAP] or [0x3ffc,0x3ffc+BUF_CAP] or [65536-BUF_CAP,65536] and every start offset j0
 * with max(0, buf_len-BUF_CAP) <= j0 <= buf_len + 2
 * (evdns_server_request_format_response can pass j0 up to buf_len + 2), with or without a compression
 * table holding <= TBL_N earlier names of <= TSTR_CAP characters at positions < min(j0, 0x4000).
 * The buffer is a WINDOW: the BUF_CAP-byte object BUF stands for buf[buf_len-BUF_CAP .. buf_len),
 * right-aligned, so buf[buf_len] is one past the object and a write there is a pointer obligation;
 * j0 >= buf_len - BUF_CAP by construction so that all legal writes fall into the window (BUF_CAP >=
 * NAME_CAP + 3: every room situation of such names is covered).
 *
 * Three candidate defects are selected by predicates over the inputs (computed by the reference
 * encoder) so that the integrator can register them (VF_KF_EXCLUDE / VF_KF_ONLY):
 *   P1 ends_exact: the last label is non-empty and ends exactly at buf_len: the terminating 0 is
 *      written to buf[buf_len] and buf_len+1 is returned (specification: -2)              [C35/C36, DESIGN §10.2]
 *   P2 invalid: the name has an empty label that is not a single trailing dot ("a..b", ".a", "."):
 *      a 0 length byte is emitted in the middle, i.e. a malformed name (specification: < 0) [C36, C35]
 *   P3 reg_high: a label is registered in the compression table at a position >= 0x4000, which a
 *      14-bit pointer cannot express (a later `ref | 0xc000` points elsewhere)              [C35]
 */
#ifndef NAME_CAP
#define NAME_CAP 6
#endif
#ifndef TBL_N
#define TBL_N 1
#endif
#ifndef TSTR_CAP
#define TSTR_CAP 3
#endif
#define BUF_CAP (NAME_CAP + 4)
#ifndef LBL_HI_MAX
#define LBL_HI_MAX 2
#endif
#define VF_C33_MEMCAP (NAME_CAP + 1)
#define VF_MM_NOFAIL 1
#define VF_MM_NO_STRDUP 1
#include "vf.h"
#include "stubs/c33_mem.h"
#include "evdns.c"
struct in {
	char name[NAME_CAP]; unsigned name_len;
	int hi; unsigned len_lo; unsigned d;      /* buffer geometry, see harness */
	unsigned buf_len; long j0;                /* derived from hi/len_lo/d by the harness (kept in IN for the replay file) */
	int use_table; int tn; char tstr[TBL_N][TSTR_CAP]; unsigned tlen[TBL_N]; long tpos[TBL_N];
	unsigned char buf0; unsigned ch[VF_NCHOICE];
};
struct in IN;
#include "stubs/log.h"
#include "stubs/mm.h"
#include "c36_labels_contract.h"

/* every string a table entry can point to lives in ONE object (rows of STRS): TBL_N rows for the earlier names,
 * the rest is the pool of mm_strdup.  (Separate objects per string make every `table->labels[i].v[k]` a case split
 * over all of them: 13 M clauses.)  mm_strdup never fails: a failed strdup only loses a compression opportunity
 * (dnslabel_table_add's result is ignored by design); no symbolic-size objects (UNIT_GUIDE pitfall 5). */
#define STR_W (NAME_CAP + 1)
static char STRS[TBL_N + NAME_CAP + 2][STR_W]; static int g_sp_n;
#define TSTR STRS
char *event_mm_strdup_(const char *str)
{
	int i; char *p;
	__CPROVER_assert(g_sp_n < NAME_CAP + 2, "strdup pool: at most one registration per label");
	p = STRS[TBL_N + g_sp_n++];
	for (i = 0; i <= NAME_CAP; i++) { p[i] = str[i]; if (!str[i]) break; }
	__CPROVER_assert(i <= NAME_CAP, "strdup pool: string fits");
	g_mm_live++;
	return p;
}

#ifdef LBL_TABLE
/* strcmp over the unit's short strings: bounded loop instead of CBMC's library model (whose per-byte pointer
 * obligations, nested three loops deep, make a 16 M clause instance) */
int strcmp(const char *a, const char *b)
{
	int i;
	for (i = 0; i <= NAME_CAP; i++) { if (a[i] != b[i]) return (unsigned char)a[i] < (unsigned char)b[i] ? -1 : 1; if (!a[i]) return 0; }
	__CPROVER_assert(0, "strcmp: strings of this unit are at most NAME_CAP long");
	return 0;
}
#endif
static char NAME[NAME_CAP + 1];
static unsigned char BUF[BUF_CAP];
static struct dnslabel_table TBL;
#define WBASE ((long)IN.buf_len - BUF_CAP)           /* absolute index of BUF[0] */

/* ---------------- reference encoder (specification side) ---------------- */
static unsigned char EXPB[BUF_CAP];                 /* expected bytes, same window */
static int x_nlab, x_lab_off[NAME_CAP + 2]; static long x_lab_pos[NAME_CAP + 2];
static int x_invalid, x_ends_exact, x_reg_high, x_ptr;   /* x_ptr: 1 if the encoding ends in a compression pointer */
static void xput(long j, unsigned v) { long k = j - WBASE; if (k >= 0 && k < BUF_CAP) EXPB[k] = (unsigned char)v; }
static int xstreq(const char *a, const char *b)
{
	int i;
	for (i = 0; i <= NAME_CAP; i++) { if (a[i] != b[i]) return 0; if (!a[i]) return 1; }
	return 0;
}
/* empty label that is not the last one, anywhere in the name (no table here, so every label is reached) */
static int x_syn_invalid;
static void ref_syntax(void)
{
	int i; x_syn_invalid = 0;
	for (i = 0; i < NAME_CAP; i++) if (i < (int)IN.name_len && NAME[i] == '.' && (i == 0 || NAME[i - 1] == '.')) x_syn_invalid = 1;
}
static long ref_encode(void)
{
	long j = IN.j0; int pos = 0, it, i, t, last_nonempty = 0;
	x_nlab = 0; x_invalid = 0; x_ends_exact = 0; x_reg_high = 0; x_ptr = 0;
	for (it = 0; it <= NAME_CAP + 1; it++) {
		int dot = -1, L;
		if (IN.use_table)
			for (t = 0; t < TBL_N; t++) {
				if (t < IN.tn && xstreq(TSTR[t], NAME + pos)) {        /* the remaining suffix occurred earlier: pointer to it */
					if (j + 2 > (long)IN.buf_len) return -2;
					xput(j, 0xc0 | (IN.tpos[t] >> 8)); xput(j + 1, IN.tpos[t] & 0xff); x_ptr = 1;
					return j + 2;
				}
			}
		for (i = NAME_CAP - 1; i >= 0; i--) if (i >= pos && i < (int)IN.name_len && NAME[i] == '.') dot = i;
		L = (dot < 0 ? (int)IN.name_len : dot) - pos;
		if (L > 63) return -1;
		if (j + 1 + L > (long)IN.buf_len) return -2;
		if (L == 0 && dot >= 0) x_invalid = 1;            /* empty label that is not the last one */
		if (IN.use_table && j >= 0x4000) x_reg_high = 1;
		x_lab_off[x_nlab] = pos; x_lab_pos[x_nlab] = j; x_nlab++;
		xput(j, (unsigned)L);
		for (i = 0; i < NAME_CAP; i++) { if (i >= L) break; xput(j + 1 + i, (unsigned char)NAME[pos + i]); }
		j += 1 + L;
		if (dot < 0) { last_nonempty = L > 0; break; }
		pos = dot + 1;
	}
	if (last_nonempty) {                                      /* the labels must be terminated by a 0 (a trailing dot / the empty name already is) */
		if (j + 1 > (long)IN.buf_len) { x_ends_exact = 1; return -2; }
		xput(j, 0); j++;
	}
	return j;
}

void harness(void)
{
	long r, xr; int i, k; u8 *buf;
	VF_LOAD_IN(); VF_MM_RESET(); g_sp_n = 0; g_mc_calls = 0; g_mc_bytes = 0;
	__CPROVER_assume(IN.name_len <= NAME_CAP);
	for (i = 0; i < NAME_CAP; i++) { __CPROVER_assume(i >= (int)IN.name_len || IN.name[i] != 0); NAME[i] = i < (int)IN.name_len ? IN.name[i] : 0; }
	NAME[NAME_CAP] = 0;                                       /* name_len == strlen(name): request_new, format_response */
	/* geometry: buf_len = W + len_lo with W one of three constants (SAT is slow on free 64-bit offsets, UNIT_GUIDE
	 * pitfall 9): 0 (small buffers: request_new's are <= 368 bytes), 0x4000-4 (window straddles the 14-bit pointer
	 * limit), 65536-BUF_CAP (window ends where evdns_server_request_format_response's 64 KiB buffer ends);
	 * j0 = buf_len - BUF_CAP + d: anywhere in the window, up to 2 past its end */
	__CPROVER_assume(IN.hi >= 0 && IN.hi <= LBL_HI_MAX && IN.len_lo <= BUF_CAP && IN.d <= BUF_CAP + 2);
	IN.buf_len = (IN.hi == 0 ? 0u : IN.hi == 1 ? 0x4000u - 4u : 65536u - BUF_CAP) + IN.len_lo;
	IN.j0 = (long)IN.buf_len - BUF_CAP + (long)IN.d;
	__CPROVER_assume(IN.j0 >= 0);
	IN.use_table = IN.use_table != 0;
#ifndef LBL_TABLE
	IN.use_table = 0;                                         /* unit c35_labels: no compression table (the evdns_request_data_build call); c35_labels_tbl: with table */
#endif
	__CPROVER_assume(IN.tn >= 0 && IN.tn <= TBL_N);
	for (k = 0; k < TBL_N; k++) {
		__CPROVER_assume(IN.tlen[k] <= TSTR_CAP);
		for (i = 0; i < TSTR_CAP; i++) { __CPROVER_assume(i >= (int)IN.tlen[k] || IN.tstr[k][i] != 0); TSTR[k][i] = i < (int)IN.tlen[k] ? IN.tstr[k][i] : 0; }
		for (i = TSTR_CAP; i < STR_W; i++) TSTR[k][i] = 0;
		/* table invariant: an entry names an EARLIER position that a 14-bit pointer can express */
		__CPROVER_assume(IN.tpos[k] >= 0 && IN.tpos[k] < IN.j0 && IN.tpos[k] <= 0x3fff);
		TBL.labels[k].v = TSTR[k]; TBL.labels[k].pos = IN.tpos[k];
	}
	TBL.n_labels = IN.tn;
	for (i = 0; i < BUF_CAP; i++) { BUF[i] = IN.buf0; EXPB[i] = IN.buf0; }
	buf = BUF + (BUF_CAP - (long)IN.buf_len);                /* buf[buf_len-BUF_CAP .. buf_len) is the object BUF */

	xr = ref_encode(); ref_syntax();
	/* the inputs on which the unchanged code fails, one term per candidate defect; once a defect is repaired in
	 * /repo add -DVF_KF_P1_FIXED (..P2.., ..P3..) to "defines" in unit.json and its inputs are verified like all others */
#ifdef VF_KF_P1_FIXED
#define KF_P1 0
#else
#define KF_P1 x_ends_exact
#endif
#ifdef VF_KF_P2_FIXED
#define KF_P2 0
#else
#define KF_P2 x_syn_invalid      /* a superset of the failing inputs: invalid names that also do not fit are refused (-2) already */
#endif
#ifdef VF_KF_P3_FIXED
#define KF_P3 0
#else
#define KF_P3 x_reg_high
#endif
#ifdef VF_KF_EXCLUDE
	__CPROVER_assume(!(KF_P1 || KF_P2 || KF_P3));
#endif
#ifdef VF_KF_ONLY
	__CPROVER_assume(KF_P1 || KF_P2 || KF_P3);
#endif

	r = dnsname_to_labels(buf, IN.buf_len, IN.j0, NAME, IN.name_len, IN.use_table ? &TBL : NULL);

	/* O1 (C35/C36): error codes and room */
	__CPROVER_assert(r == -1 || r == -2 || (r > IN.j0 && r <= (long)IN.buf_len), "returns -1, -2 or an index in (j0, buf_len]");
	__CPROVER_assert(IMP(!x_syn_invalid, IFF(xr == -2, r == -2)), "-2 exactly when the encoding (terminator included) does not fit buf[0..buf_len)");
	__CPROVER_assert(IMP(!x_syn_invalid, IFF(xr == -1, r == -1)), "-1 exactly when a label is longer than 63");
#ifndef LBL_TABLE
	/* the clauses of contract labels_nt_c (contracts/c36_labels_contract.h) that c36_build relies on, literally */
	__CPROVER_assert(C36_LBL_ENS2(r, IN.j0, IN.buf_len), "labels_nt_c clause 2");
	__CPROVER_assert(C36_LBL_ENS3(r, IN.j0, IN.name_len), "labels_nt_c clause 3: an encoded name takes at most name_len + 2 bytes");
	__CPROVER_assert(C36_LBL_ENS4(r, IN.j0, IN.name_len, IN.buf_len), "labels_nt_c clause 4: -2 only if name_len + 2 bytes do not fit");
#endif
	/* O2 (C36): names that have no valid label sequence */
	__CPROVER_assert(IMP(x_syn_invalid, r < 0), "a name with an empty label that is not a single trailing dot is rejected, not encoded malformed");
	/* C35/C36: the bytes */
	if (xr >= 0 && !x_syn_invalid) {
		__CPROVER_assert(r == xr, "returns the first index after the encoded name");
		for (i = 0; i < BUF_CAP; i++) __CPROVER_assert(BUF[i] == EXPB[i], "output is exactly <len>label...<0> (or ...<pointer to the earlier occurrence of the remaining suffix>); nothing else written");
		__CPROVER_assert(IMP(x_ptr, (BUF[xr - 2 - WBASE] & 0xc0) == 0xc0 && (((BUF[xr - 2 - WBASE] & 0x3f) << 8) | BUF[xr - 1 - WBASE]) < IN.j0), "a compression pointer points below the name's own start");
	}
	for (i = 0; i < BUF_CAP; i++) __CPROVER_assert(i + WBASE >= IN.j0 || BUF[i] == IN.buf0, "nothing written below j0");
	/* C35: the compression table */
	if (IN.use_table) {
		__CPROVER_assert(TBL.n_labels >= IN.tn && TBL.n_labels <= IN.tn + NAME_CAP + 1, "table only grows");
		for (k = 0; k < TBL_N; k++) __CPROVER_assert(k >= IN.tn || (TBL.labels[k].v == TSTR[k] && TBL.labels[k].pos == IN.tpos[k]), "earlier table entries unchanged");
		if (xr >= 0 && !x_syn_invalid) {
			__CPROVER_assert(TBL.n_labels == IN.tn + x_nlab, "one table entry per label written");
			for (k = 0; k < NAME_CAP + 1; k++) { if (k >= x_nlab) break; __CPROVER_assert(TBL.labels[IN.tn + k].pos == x_lab_pos[k] && xstreq(TBL.labels[IN.tn + k].v, NAME + x_lab_off[k]), "new table entry = (suffix of the name, position where that suffix is encoded)"); }
		}
		/* O3 */
		for (k = 0; k < TBL_N + NAME_CAP + 1; k++) { if (k >= TBL.n_labels) break; __CPROVER_assert(TBL.labels[k].pos <= 0x3fff, "every table position can be expressed by a 14-bit compression pointer"); }
	} else {
		__CPROVER_assert(g_sp_n == 0, "no table: nothing registered");
	}
#ifdef VF_CANARY
	__CPROVER_assert(r != IN.j0 + (long)IN.name_len + 2, "canary: must fail (plain names take name_len + 2 bytes)");
#endif
}
