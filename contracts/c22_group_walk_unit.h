/* contracts/c22_group_walk_unit.h — shared body of c22_group_suspend_reading / _suspend_writing / _unsuspend_reading / _unsuspend_writing
 * (unit defines C22_WALK 0..3).  Real bufferevent_ratelim.c, group of <= 3 members (BOUNDED: the member list is a linked list).
 * C22/C08: suspending sets the group's flag and clears the pending-unsuspend flag, then suspends EVERY member it can lock for
 * BEV_SUSPEND_BW_GROUP (a member whose lock is busy is skipped: it finds the group flag on its next budget query, c22_rlim_max);
 * unsuspending clears the group's flag and visits every member EXACTLY ONCE starting at a random one (bev_group_random_element_ with
 * evutil_weakrand_range_ replaced by its contract: `top >= 1` is an obligation at the call site), unsuspending those it can lock and
 * recording in pending_unsuspend_* whether some were busy.  Every member lock taken is released. */
#include "c22_rl_unit.h"
#if C22_WALK == 0
#define FN bev_group_suspend_reading_
#define IS_SUSPEND 1
#define CALLS g_r.sus_r
#define OTHERCALLS g_r.unsus_r
#define WHAT g_r.sus_r_what
#define GFLAG GRP.read_suspended
#define GPEND GRP.pending_unsuspend_read
#define MWORD(k) MB##k.read_suspended
#define MOTHER(k) MB##k.write_suspended
#elif C22_WALK == 1
#define FN bev_group_suspend_writing_
#define IS_SUSPEND 1
#define CALLS g_r.sus_w
#define OTHERCALLS g_r.unsus_w
#define WHAT g_r.sus_w_what
#define GFLAG GRP.write_suspended
#define GPEND GRP.pending_unsuspend_write
#define MWORD(k) MB##k.write_suspended
#define MOTHER(k) MB##k.read_suspended
#elif C22_WALK == 2
#define FN bev_group_unsuspend_reading_
#define IS_SUSPEND 0
#define CALLS g_r.unsus_r
#define OTHERCALLS g_r.sus_r
#define WHAT g_r.unsus_r_what
#define GFLAG GRP.read_suspended
#define GPEND GRP.pending_unsuspend_read
#define MWORD(k) MB##k.read_suspended
#define MOTHER(k) MB##k.write_suspended
#else
#define FN bev_group_unsuspend_writing_
#define IS_SUSPEND 0
#define CALLS g_r.unsus_w
#define OTHERCALLS g_r.sus_w
#define WHAT g_r.unsus_w_what
#define GFLAG GRP.write_suspended
#define GPEND GRP.pending_unsuspend_write
#define MWORD(k) MB##k.write_suspended
#define MOTHER(k) MB##k.read_suspended
#endif
#define NMB_ IN.nmb
#ifndef VF_C22_NMB
#define VF_C22_NMB 3
#endif
#if !IS_SUSPEND
/* evutil_weakrand_range_ (evutil.c): model body = its contract weakrand_range_c (enforced in c46_weakrand_range): requires top >= 1
 * (obligation at the call site), result in [0, top) */
ev_int32_t evutil_weakrand_range_(struct evutil_weakrand_state *state, ev_int32_t top)
{
	ev_int32_t r;
	__CPROVER_assert(state == &GRP.weakrand_seed, "weakrand_range_: the group's generator");
	__CPROVER_assert(top >= 1, "weakrand_range_: top >= 1 at the call site (C46)");
	r = (ev_int32_t)(VF_CHOOSE() & 0x7fffffffu);
	__CPROVER_assume(r < top);
	state->seed = (ev_uint32_t)r;
	return r;
}
#endif
/* PLAIN assert-harness (dfcc + unwound list walk + try-lock choices did not decide within the budget): the contract clauses are
 * asserted after the call; the frame is checked by comparing the untouched fields. */
int RET_, O_d2;
static void walk_post(void)
{
#define ENS(c) __CPROVER_assert(c, #c)
#if IS_SUSPEND
	ENS(RET_ == 0 && GFLAG == 1 && GPEND == 0);
	ENS(IMP(CALLS[0], MWORD(0) == (IN.mrs[0] | BEV_SUSPEND_BW_GROUP)) && IMP(CALLS[1], MWORD(1) == (IN.mrs[1] | BEV_SUSPEND_BW_GROUP)) && IMP(CALLS[2], MWORD(2) == (IN.mrs[2] | BEV_SUSPEND_BW_GROUP)));
#else
	ENS(GFLAG == 0 && GPEND == B(g_r.try_fails > 0));
	ENS(IMP(CALLS[0], MWORD(0) == (IN.mrs[0] & ~BEV_SUSPEND_BW_GROUP)) && IMP(CALLS[1], MWORD(1) == (IN.mrs[1] & ~BEV_SUSPEND_BW_GROUP)) && IMP(CALLS[2], MWORD(2) == (IN.mrs[2] & ~BEV_SUSPEND_BW_GROUP)));
#endif
	ENS(IMP(!CALLS[0], MWORD(0) == IN.mrs[0]) && IMP(!CALLS[1], MWORD(1) == IN.mrs[1]) && IMP(!CALLS[2], MWORD(2) == IN.mrs[2]));
	ENS(CALLS[0] <= 1 && CALLS[1] <= 1 && CALLS[2] <= 1 && CALLS[3] == 0);
	ENS(IMP(NMB_ < 1, CALLS[0] == 0) && IMP(NMB_ < 2, CALLS[1] == 0) && IMP(NMB_ < 3, CALLS[2] == 0));
	ENS(CALLS[0] + CALLS[1] + CALLS[2] == NMB_ - g_r.try_fails && g_r.try_fails >= 0 && g_r.try_fails <= NMB_);
	ENS(OTHERCALLS[0] == 0 && OTHERCALLS[1] == 0 && OTHERCALLS[2] == 0 && IMP(CALLS[0] + CALLS[1] + CALLS[2] > 0, WHAT == BEV_SUSPEND_BW_GROUP));
	ENS(g_lock_depth[1] == 0 && g_lock_depth[2] == O_d2);
	/* frame */
	ENS(GRP.n_members == IN.nmb && GRP.min_share == IN.min_share && GRP.rate_limit.read_limit == IN.glim_r && GRP.rate_limit.write_limit == IN.glim_w);
#if C22_WALK == 0 || C22_WALK == 2
	ENS(GRP.write_suspended == (IN.g_ws & 1) && GRP.pending_unsuspend_write == (IN.g_puw & 1) && MOTHER(0) == IN.mws[0] && MOTHER(1) == IN.mws[1] && MOTHER(2) == IN.mws[2]);
#else
	ENS(GRP.read_suspended == (IN.g_rs & 1) && GRP.pending_unsuspend_read == (IN.g_pur & 1) && MOTHER(0) == IN.mws[0] && MOTHER(1) == IN.mws[1] && MOTHER(2) == IN.mws[2]);
#endif
}
static void vf_group_build(void)
{
	/* the group's member list: MB[0] -> … -> MB[nmb-1]; n_members == its length (maintained by bufferevent_add_to_/remove_from_rate_limit_group) */
	GRP.n_members = IN.nmb;
	GRP.members.lh_first = IN.nmb > 0 ? &MB0 : NULL;
#define VF_MB(k, nxt) do { MB##k.rate_limiting = &RLM##k; RLM##k.group = &GRP; MB##k.lock = IN.locking ? VF_LOCK_COOKIE(1) : NULL; \
	MWORD(k) = IN.mrs[k]; MOTHER(k) = IN.mws[k]; MB##k.bev.enabled = IN.enabled; RLM##k.next_in_group.le_next = (nxt); } while (0)
	VF_MB(0, IN.nmb > 1 ? &MB1 : NULL); VF_MB(1, IN.nmb > 2 ? &MB2 : NULL); VF_MB(2, NULL);
}
void harness(void)
{
	VF_LOAD_IN();
	vf_rl_build();
	__CPROVER_assume(IN.nmb >= 0 && IN.nmb <= VF_C22_NMB);
	vf_group_build();
	if (GRP.lock) g_lock_depth[2] = 1;           /* "Needs group lock" */
	O_d2 = g_lock_depth[2]; RET_ = 0;
#if IS_SUSPEND
	RET_ = FN(&GRP);
#else
	FN(&GRP);
#endif
	walk_post();
	if (!g_r.try_may_fail) __CPROVER_assert(CALLS[0] + CALLS[1] + CALLS[2] == IN.nmb, "with no busy lock every member is visited exactly once");
#ifdef VF_CANARY
	__CPROVER_assert(CALLS[1] == 0, "canary: must fail (the second member is visited)");
#endif
}
