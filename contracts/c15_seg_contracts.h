/* contracts/c15_seg_contracts.h — contracts of the file-segment entry points that unit c15_add_file REPLACES and the units
 * c15_seg_new / c15_add_file_segment ENFORCE (same text).  Include after c15_contracts.h.  The one segment of a unit is the static SEG:
 * the allocator model serves the request for a `struct evbuffer_file_segment` from it (stubs/c15_mm.h, C15_MM_SEG_IS_STATIC). */
#ifndef VF_C15_SEG_CONTRACTS_H_
#define VF_C15_SEG_CONTRACTS_H_
#define SG_RV __CPROVER_return_value
#define SG_MATERIALIZED(s) ((s)->contents != NULL || (s)->is_mapping)
#define SG_LEFTOVER(off) ((off) % C15_PAGESIZE)

/* ------------------------------------------------------------------------------------------------ evbuffer_file_segment_new */
/* the length that is meant: the caller's, or (length == -1) the file size as evutil_fd_filesize reported it (m_fsize, < 0: failed) */
#define SN_LEN (length == -1 ? m_fsize : length)
#define SN_ARGS_OK (offset >= 0 && SN_LEN >= 0 && (ev_uint64_t)SN_LEN <= EVBUFFER_CHAIN_MAX && (ev_uint64_t)offset <= (ev_uint64_t)(EVBUFFER_CHAIN_MAX - SN_LEN))
VF_CONTRACT(struct evbuffer_file_segment *, segnew_c, int fd, ev_off_t offset, ev_off_t length, unsigned flags)
__CPROVER_requires(!m_seg_live && m_al.fail == 0 && m_al.seglive == 0 && m_lk.allocs == 0 && m_sys.mmap == 0 && m_sys.pread == 0 && m_pread_done == 0 && m_fsize_calls == 0)
__CPROVER_assigns(errno, vf_nchoice_, m_st, m_pread_done, m_mmap_len, m_mmap_off, m_mmap_fd, m_fsize, m_fsize_calls, m_seg_live, __CPROVER_object_whole(&SEG))
/* 1 the result is the unit's segment or NULL; NULL leaves nothing behind: no segment, no contents, no mapping, no lock */
__CPROVER_ensures(SG_RV == NULL || SG_RV == &SEG)
__CPROVER_ensures(IMP(SG_RV == NULL, !m_seg_live && m_al.seglive == 0 && m_lk.allocs == 0))
/* 3 invalid ranges are refused: negative offset or length, length or offset + length beyond EVBUFFER_CHAIN_MAX, unknown file size */
__CPROVER_ensures(IMP(!SN_ARGS_OK, SG_RV == NULL))
/* 4 with valid arguments NULL only for a reason: allocation failure, or the contents could not be brought into memory */
__CPROVER_ensures(IMP(SN_ARGS_OK && SG_RV == NULL, m_al.fail > 0 || ((flags & EVBUF_FS_DISABLE_SENDFILE) && ((m_sys.pread > 0 && m_pread_done < (long)SN_LEN) || SN_LEN == 0))))
/* 5 a new segment: one reference (the caller's), the arguments recorded, no cleanup callback */
__CPROVER_ensures(IMP(SG_RV != NULL, m_seg_live && SEG.refcnt == 1 && SEG.fd == fd && SEG.flags == flags && SEG.file_offset == offset && SEG.length == SN_LEN && SEG.cleanup_cb == NULL && SEG.cleanup_cb_arg == NULL))
/* 6 sendfile-capable unless disabled (then nothing is read yet); otherwise the contents are in memory: mapped … */
__CPROVER_ensures(IMP(SG_RV != NULL && !(flags & EVBUF_FS_DISABLE_SENDFILE), SEG.can_sendfile && !SG_MATERIALIZED(&SEG) && m_sys.mmap == 0 && m_sys.pread == 0))
__CPROVER_ensures(IMP(SG_RV != NULL && (flags & EVBUF_FS_DISABLE_SENDFILE), !SEG.can_sendfile && SG_MATERIALIZED(&SEG)))
__CPROVER_ensures(IMP(SG_RV != NULL && SEG.is_mapping, !(flags & EVBUF_FS_DISABLE_MMAP) && SEG.mapping == (void *)SEGDATA && SEG.contents == (char *)SEGDATA + SG_LEFTOVER(offset) &&
	m_sys.mmap == 1 && m_mmap_fd == fd && m_mmap_off == (long)(offset - SG_LEFTOVER(offset)) && m_mmap_len == (long)(SN_LEN + SG_LEFTOVER(offset)) && m_al.seglive == 0))
/* 9 … or read completely (every byte of [offset, offset + length)) into a buffer of the allocator */
__CPROVER_ensures(IMP(SG_RV != NULL && (flags & EVBUF_FS_DISABLE_SENDFILE) && !SEG.is_mapping, SEG.contents == (char *)SEGDATA && m_al.seglive == 1 && m_pread_done == (long)SN_LEN && m_sys.bad == 0))
/* 10 success leaves the allocator clean but for the segment and its contents; the bit-fields agree with their non-bit-field equivalents */
__CPROVER_ensures(IMP(SG_RV != NULL, m_al.fail == 0 && m_al.n == 0 && m_al.frees == 0 && m_al.sfreed == 0 && IFF(SEG.is_mapping, SEG.mapping != NULL) && IMP(SEG.contents == NULL || SEG.is_mapping, m_al.seglive == 0) && (SEG.lock == NULL || SEG.lock == VF_LOCK_COOKIE(3))))
/* 11 a lock unless disabled */
__CPROVER_ensures(IMP(SG_RV != NULL, m_lk.allocs == ((flags & EVBUF_FS_DISABLE_LOCKING) ? 0 : 1) && IFF(SEG.lock != NULL, !(flags & EVBUF_FS_DISABLE_LOCKING))))
;

/* ------------------------------------------------------------------------------------------------ evbuffer_add_file_segment */
/* Pre-state of the segment through __CPROVER_old (the contract is also used in the middle of evbuffer_add_file); the two bit-fields
 * are read through their non-bit-field equivalents: can_sendfile <=> !(flags & EVBUF_FS_DISABLE_SENDFILE) (evbuffer_file_segment_new),
 * is_mapping <=> mapping != NULL (evbuffer_file_segment_materialize).  The pre-state of the buffer is the harness snapshot O_BUF /
 * O_XC[], which the first requires clause pins to the state at the call. */
#define AF_OSEG(f) __CPROVER_old(SEG.f)
#define AF_LEN (length < 0 ? AF_OSEG(length) - offset : length)              /* the length that is meant (negative: the rest of the segment) */
#define AF_RANGE_OK (offset <= AF_OSEG(length) && AF_LEN <= AF_OSEG(length) - offset)
#define AF_DRAINS ((O_BUF.flags & EVBUFFER_FLAG_DRAINS_TO_FD) != 0)
#define AF_CAN_SENDFILE (!(AF_OSEG(flags) & EVBUF_FS_DISABLE_SENDFILE))
#define AF_WAS_MAT (AF_OSEG(contents) != NULL || AF_OSEG(mapping) != NULL)
#define AF_NEEDS_MAT (!AF_DRAINS && !AF_WAS_MAT)
#define AF_NEWCH ((struct evbuffer_chain *)m_new[0])
/* where the contents live in this cluster's model: a mapping is SEGDATA (contents = mapping + page leftover), a copy is SEGDATA from the allocator */
#define AF_SEG_MEM_OK (IMP(SEG.is_mapping, SEG.mapping == (void *)SEGDATA && SEG.contents == (char *)SEGDATA + SG_LEFTOVER(SEG.file_offset)) && \
	IMP(!SEG.is_mapping && SEG.contents != NULL, SEG.contents == (char *)SEGDATA && m_al.seglive == 1 && !(m_al.sfreed & (1u << 12))) && IMP(SEG.contents == NULL || SEG.is_mapping, m_al.seglive == 0))
#define AF_SEG_LINKS (IFF(SEG.can_sendfile, !(SEG.flags & EVBUF_FS_DISABLE_SENDFILE)) && IFF(SEG.is_mapping, SEG.mapping != NULL))
VF_CONTRACT(int, afs_c, struct evbuffer *buf, struct evbuffer_file_segment *seg, ev_off_t offset, ev_off_t length)
__CPROVER_requires(buf == &BUF && C15_BUF_SAME(BUF, O_BUF) && C15_ALLXC_SAME())
__CPROVER_requires(seg == &SEG && m_seg_live && !(m_al.sfreed & (1u << 11)) && SEG.refcnt >= 1 && SEG.refcnt < 1000000)
/* what evbuffer_file_segment_new establishes */
__CPROVER_requires(SEG.length >= 0 && SEG.file_offset >= 0 && (ev_uint64_t)SEG.length <= EVBUFFER_CHAIN_MAX && (ev_uint64_t)SEG.file_offset <= (ev_uint64_t)(EVBUFFER_CHAIN_MAX - SEG.length))
__CPROVER_requires(AF_SEG_LINKS && (SEG.can_sendfile || SEG.contents != NULL))
__CPROVER_requires(AF_SEG_MEM_OK)
__CPROVER_requires((SEG.lock == NULL || SEG.lock == VF_LOCK_COOKIE(3)) && (SEG.cleanup_cb == NULL || SEG.cleanup_cb == c15_seg_cleanup_cb))
/* the offset lies in the segment's coordinate system (see the report: a negative offset is NOT rejected by the code), and offset + length
 * does not overflow ev_off_t (the code adds them in signed arithmetic before comparing) */
__CPROVER_requires(offset >= 0 && (length < 0 || length <= EV_SSIZE_MAX - offset))
__CPROVER_requires(g_lock_depth[1] == 0 && g_lock_depth[2] == 0 && g_lock_depth[3] == 0 && m_al.n == 0 && m_al.fail == 0 && m_al.frees == 0 && m_al.sfreed == 0 && g_cbs.n[0] == 0 && m_sys.mmap == 0 && m_sys.pread == 0 && m_pread_done == 0 && m_sc.n == 0 && m_cl.n == 0 && m_sys.close == 0)
__CPROVER_assigns(errno, vf_nchoice_, __CPROVER_object_whole(g_lock_depth), g_lock_ops, m_new[0], m_new[1], m_new[2], m_st, g_cbs, m_pread_done, m_mmap_len, m_mmap_off, m_mmap_fd,
	__CPROVER_object_whole(&BUF), __CPROVER_object_whole(&XC[0]), __CPROVER_object_whole(&XC[1]), __CPROVER_object_whole(&XC[2]),
	__CPROVER_object_whole(&SRC), __CPROVER_object_whole(&PC[0]), __CPROVER_object_whole(&PC[1]), __CPROVER_object_whole(&PC[2]), __CPROVER_object_whole(&SEG))
/* 1 C08: buffer lock and segment lock released */
__CPROVER_ensures(g_lock_depth[1] == 0 && g_lock_depth[2] == 0 && g_lock_depth[3] == 0)
__CPROVER_ensures(SG_RV == 0 || SG_RV == -1)
/* 3 C15 "offset + length <= seg->length else -1"; also refused: frozen end; failures: allocation, bringing the contents into memory */
__CPROVER_ensures(IMP(!AF_RANGE_OK || O_BUF.freeze_end, SG_RV == -1))
__CPROVER_ensures(IMP(SG_RV == -1, !AF_RANGE_OK || O_BUF.freeze_end || m_al.fail > 0 || (AF_NEEDS_MAT && (m_sys.pread > 0 || AF_OSEG(length) == 0))))
/* 5 C14: failure => the buffer is exactly as before, no callback … */
__CPROVER_ensures(IMP(SG_RV == -1, C15_BUF_SAME(BUF, O_BUF) && C15_ALLXC_SAME() && g_cbs.n[0] == 0 && m_al.n == m_al.heap_frees && m_cl.n == 0))
/* 6 … and (what the code does) the CALLER's reference on the segment is dropped: last one => the segment is destroyed: its cleanup callback
 *   runs (once), its fd is closed iff EVBUF_FS_CLOSE_ON_FREE */
__CPROVER_ensures(IMP(SG_RV == -1 && AF_OSEG(refcnt) > 1, SEG.refcnt == AF_OSEG(refcnt) - 1 && m_seg_live && !(m_al.sfreed & (1u << 11)) && m_sc.n == 0 && m_sys.close == 0))
__CPROVER_ensures(IMP(SG_RV == -1 && AF_OSEG(refcnt) == 1, !m_seg_live && (m_al.sfreed & (1u << 11)) != 0 && m_sc.n == C15_B2I(AF_OSEG(cleanup_cb) != NULL) && m_sc.bad == 0 &&
	m_sys.close == C15_B2I((AF_OSEG(flags) & EVBUF_FS_CLOSE_ON_FREE) && AF_OSEG(fd) >= 0) && m_al.seglive == 0))
/* 8 C15: success => the segment gains exactly one reference, held by one new chain at the end of the buffer that describes exactly
 *   the range [offset, offset + length) of the segment */
__CPROVER_ensures(IMP(SG_RV == 0, SEG.refcnt == AF_OSEG(refcnt) + 1 && m_seg_live && m_al.n == 1 && m_al.heap_frees == 0 && m_al.sfreed == 0 && BUF.last == AF_NEWCH && AF_NEWCH->next == NULL && AF_NEWCH->refcnt == 1 && CF_FSI(AF_NEWCH)->segment == &SEG && AF_NEWCH->off == (size_t)AF_LEN))
__CPROVER_ensures(IMP(SG_RV == 0 && AF_DRAINS && AF_CAN_SENDFILE, AF_NEWCH->flags == (EVBUFFER_IMMUTABLE | EVBUFFER_FILESEGMENT | EVBUFFER_SENDFILE) &&
	AF_NEWCH->misalign == AF_OSEG(file_offset) + offset && AF_NEWCH->buffer_len == (size_t)(AF_OSEG(file_offset) + offset + AF_LEN)))
__CPROVER_ensures(IMP(SG_RV == 0 && !(AF_DRAINS && AF_CAN_SENDFILE), AF_NEWCH->flags == (EVBUFFER_IMMUTABLE | EVBUFFER_FILESEGMENT) && SEG.contents != NULL &&
	AF_NEWCH->buffer == (unsigned char *)SEG.contents + offset && AF_NEWCH->misalign == 0 && AF_NEWCH->buffer_len == (size_t)AF_LEN))
/* 11 C12/C13 */
__CPROVER_ensures(IMP(SG_RV == 0, BUF.total_len == O_BUF.total_len + (size_t)AF_LEN && g_cbs.n[0] == 1 && g_cbs.total[0] == BUF.total_len && g_cbs.nadd[0] == O_BUF.n_add_for_cb + (size_t)AF_LEN && g_cbs.ndel[0] == O_BUF.n_del_for_cb && m_sys.close == 0 && m_sc.n == 0))
/* 12 the segment's identity does not change; contents are brought into memory at most once and only when needed, and stay */
__CPROVER_ensures(IMP(m_seg_live, SEG.fd == AF_OSEG(fd) && SEG.flags == AF_OSEG(flags) && SEG.file_offset == AF_OSEG(file_offset) && SEG.length == AF_OSEG(length) && SEG.cleanup_cb == AF_OSEG(cleanup_cb) && SEG.cleanup_cb_arg == AF_OSEG(cleanup_cb_arg) && SEG.lock == AF_OSEG(lock) && AF_SEG_LINKS && AF_SEG_MEM_OK))
__CPROVER_ensures(IMP(m_seg_live && AF_WAS_MAT, SEG.contents == AF_OSEG(contents) && SEG.mapping == AF_OSEG(mapping)))
__CPROVER_ensures(IMP(!AF_NEEDS_MAT, m_sys.mmap == 0 && m_sys.pread == 0))
;
#endif
