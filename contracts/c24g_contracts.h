/* contracts/c24g_contracts.h — contracts of the connection life-cycle functions of http.c over the
 * environment stubs/c24g_env.h.  reset_hard_c is ENFORCED in unit c24g_reset_hard and REPLACED in
 * c24g_reset; reset_c is ENFORCED in c24g_reset and REPLACED in c24g_error_cb (same text).
 * cleanup_c / conn_free_c are ghost-recording continuations (trusted, like contracts/c23_contracts.h). */
#ifndef VF_C24G_CONTRACTS_H_
#define VF_C24G_CONTRACTS_H_
#define C24G_CONNECTED(st) ((st) != EVCON_DISCONNECTED && (st) != EVCON_CONNECTING)     /* evhttp_connected() */
#define C24G_HARD_FRAME EB[E_IN].len, EB[E_IN].drained, EB[E_OUT].len, EB[E_OUT].drained, e_out_frozen, e_drain_fail_calls, \
	e_replacefd_calls, e_replacefd_fd, e_fd_closed_calls, e_disable_hard_calls, e_disable_hard_what, e_closecb_calls, e_closecb_state, e_closecb_arg

/* evhttp_connection_reset_hard_: NOTHING of the old transport survives */
VF_CONTRACT_V(reset_hard_c, struct evhttp_connection *evcon)
__CPROVER_requires(__CPROVER_rw_ok(evcon, sizeof(*evcon)) && evcon->bufev == &BEV)
__CPROVER_requires(evcon->closecb == NULL || evcon->closecb == vf_close_cb)
__CPROVER_assigns(C24G_HARD_FRAME)
/* 1 input drained to length 0: every buffered byte of the old connection is discarded */
__CPROVER_ensures(EB[E_IN].len == 0 && EB[E_IN].drained == __CPROVER_old(EB[E_IN].drained) + __CPROVER_old(EB[E_IN].len))
/* 2 output drained to length 0 (also when the socket bufferevent had its front frozen) */
__CPROVER_ensures(EB[E_OUT].len == 0 && EB[E_OUT].drained == __CPROVER_old(EB[E_OUT].drained) + __CPROVER_old(EB[E_OUT].len))
/* 3 no drain was refused */
__CPROVER_ensures(e_drain_fail_calls == __CPROVER_old(e_drain_fail_calls))
/* 4 the old fd is closed and replaced by -1, exactly once */
__CPROVER_ensures(e_replacefd_calls == __CPROVER_old(e_replacefd_calls) + 1 && e_replacefd_fd == -1 && e_fd_closed_calls == __CPROVER_old(e_fd_closed_calls) + 1)
/* 5 reading and writing (and a pending connect) are switched off */
__CPROVER_ensures(e_disable_hard_calls == __CPROVER_old(e_disable_hard_calls) + 1 && e_disable_hard_what == (EV_READ|EV_WRITE))
/* 6 the close callback is told exactly once iff the connection was connected, and sees the connection as it was */
__CPROVER_ensures(e_closecb_calls == __CPROVER_old(e_closecb_calls) + ((C24G_CONNECTED(evcon->state) && evcon->closecb != NULL) ? 1 : 0))
__CPROVER_ensures(IMP(C24G_CONNECTED(evcon->state) && evcon->closecb != NULL, e_closecb_state == (int)evcon->state && e_closecb_arg == evcon->closecb_arg))
;

/* evhttp_connection_reset_(evcon, hard) */
VF_CONTRACT_V(reset_c, struct evhttp_connection *evcon, int hard)
__CPROVER_requires(__CPROVER_rw_ok(evcon, sizeof(*evcon)) && evcon->bufev == &BEV)
__CPROVER_requires(evcon->closecb == NULL || evcon->closecb == vf_close_cb)
__CPROVER_assigns(evcon->state, evcon->flags, e_setcb_calls, e_setcb_cleared, e_setcb_http, e_setcb_arg, C24G_HARD_FRAME)
/* 1 DISCONNECTED, callbacks of the bufferevent removed, only the READING_ERROR flag cleared */
__CPROVER_ensures(evcon->state == EVCON_DISCONNECTED)
__CPROVER_ensures(evcon->flags == (__CPROVER_old(evcon->flags) & ~EVHTTP_CON_READING_ERROR))
__CPROVER_ensures(e_setcb_calls == __CPROVER_old(e_setcb_calls) + 1 && e_setcb_cleared == 1)
/* 2 hard: nothing of the old transport survives (see reset_hard_c) */
__CPROVER_ensures(IMP(hard, EB[E_IN].len == 0 && EB[E_IN].drained == __CPROVER_old(EB[E_IN].drained) + __CPROVER_old(EB[E_IN].len)))
__CPROVER_ensures(IMP(hard, EB[E_OUT].len == 0 && EB[E_OUT].drained == __CPROVER_old(EB[E_OUT].drained) + __CPROVER_old(EB[E_OUT].len)))
__CPROVER_ensures(IMP(hard, e_drain_fail_calls == __CPROVER_old(e_drain_fail_calls)))
__CPROVER_ensures(IMP(hard, e_replacefd_calls == __CPROVER_old(e_replacefd_calls) + 1 && e_replacefd_fd == -1 && e_fd_closed_calls == __CPROVER_old(e_fd_closed_calls) + 1))
__CPROVER_ensures(IMP(hard, e_disable_hard_calls == __CPROVER_old(e_disable_hard_calls) + 1 && e_disable_hard_what == (EV_READ|EV_WRITE)))
__CPROVER_ensures(IMP(hard, e_closecb_calls == __CPROVER_old(e_closecb_calls) + ((C24G_CONNECTED(__CPROVER_old(evcon->state)) && evcon->closecb != NULL) ? 1 : 0)))
__CPROVER_ensures(IMP(hard && C24G_CONNECTED(__CPROVER_old(evcon->state)) && evcon->closecb != NULL, e_closecb_state == (int)__CPROVER_old(evcon->state)))
/* 3 soft: the transport (fd, buffered bytes) is left alone */
__CPROVER_ensures(IMP(!hard, EB[E_IN].len == __CPROVER_old(EB[E_IN].len) && EB[E_OUT].len == __CPROVER_old(EB[E_OUT].len) && EB[E_IN].drained == __CPROVER_old(EB[E_IN].drained) && EB[E_OUT].drained == __CPROVER_old(EB[E_OUT].drained)))
__CPROVER_ensures(IMP(!hard, e_replacefd_calls == __CPROVER_old(e_replacefd_calls) && e_fd_closed_calls == __CPROVER_old(e_fd_closed_calls) && e_closecb_calls == __CPROVER_old(e_closecb_calls) && e_disable_hard_calls == __CPROVER_old(e_disable_hard_calls) && e_out_frozen == __CPROVER_old(e_out_frozen)))
;

int g_cleanup_calls;                      /* evhttp_connection_cb_cleanup(evcon): connect failed -> retry or fail every request */
VF_CONTRACT_V(cleanup_c, struct evhttp_connection *evcon)
__CPROVER_requires(evcon != NULL)
__CPROVER_assigns(g_cleanup_calls)
__CPROVER_ensures(g_cleanup_calls == __CPROVER_old(g_cleanup_calls) + 1)
;
int g_connfree_calls;                     /* evhttp_connection_free(evcon) */
VF_CONTRACT_V(conn_free_c, struct evhttp_connection *evcon)
__CPROVER_requires(evcon != NULL)
__CPROVER_assigns(g_connfree_calls)
__CPROVER_ensures(g_connfree_calls == __CPROVER_old(g_connfree_calls) + 1)
;
#endif
