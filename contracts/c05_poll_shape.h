/* c05_poll_shape.h — harness-side state for the poll.c units: struct pollop with a static
 * pollfd array (<= C05_NP entries before the call), a grown array handed out by the allocator
 * model (C05_NPNEW entries), the fd's struct pollidx, and the POLL* <-> EV_* vocabulary.
 * Two-phase include like c05_changelist.h (struct first, bodies after `struct in IN;`). */
#ifndef C05_POLL_SHAPE_H_1
#define C05_POLL_SHAPE_H_1
#ifndef C05_NP
#define C05_NP 32
#endif
#define C05_NPNEW (C05_NP < 32 ? 32 : 64)
struct c05_poll_in {
	int event_count, nfds;           /* 0 <= nfds <= event_count <= C05_NP */
	int idxplus1;                    /* the fd's pollidx */
	int w;                           /* witness: another entry */
	int wfd; short wevents, wrevents;        /* its contents */
	short cur_revents;               /* stale revents of the fd's own entry */
};
#endif
#if defined(C05_POLL_BODY) && !defined(C05_POLL_SHAPE_H_2)
#define C05_POLL_SHAPE_H_2
static struct event_base BASE; static struct pollop POP;
static struct pollfd SET[C05_NP]; static struct pollfd NEWSET[C05_NPNEW];
static struct pollidx IDX;
int g_mm_realloc_calls, g_mm_realloc_ok; size_t g_mm_realloc_sz;
#define C05_COND (EV_READ|EV_WRITE|EV_CLOSED)
/* poll(2) interest bits for a set of libevent conditions */
#define XLP(e) ((short)((((e) & EV_READ) ? POLLIN : 0) | (((e) & EV_WRITE) ? POLLOUT : 0) | (((e) & EV_CLOSED) ? POLLRDHUP : 0)))
#define C05_OLDSET (IN.p.event_count == 0 ? (struct pollfd *)NULL : SET)
#define C05_HAS (IN.p.idxplus1 != 0)

#ifdef VF_MM_NO_REALLOC
/* allocator model: the grown array is the static NEWSET; the two entries the contracts talk
 * about (the fd's and the witness) are copied, the others stay arbitrary (copying is realloc's job) */
void *event_mm_realloc_(void *p, size_t sz)
{
	g_mm_realloc_calls++; g_mm_realloc_sz = sz;
	__CPROVER_assert(p == (void *)C05_OLDSET, "realloc: of the current pollfd array");
	__CPROVER_assert(sz >= (size_t)IN.p.event_count * sizeof(struct pollfd), "realloc: not shrinking");
	if (sz > sizeof(NEWSET) || (VF_CHOOSE() & 1u)) { g_mm_realloc_ok = 0; errno = ENOMEM; return NULL; }
	g_mm_realloc_ok = 1;
	if (C05_HAS) NEWSET[IN.p.idxplus1 - 1] = SET[IN.p.idxplus1 - 1];
	if (IN.p.w < IN.p.nfds) NEWSET[IN.p.w] = SET[IN.p.w];
	return NEWSET;
}
#endif

/* Pre-state.  Invariants assumed (maintained by poll_add/poll_del: their postconditions):
 * the array capacity is 0 (fresh pollop) or 32*2^k with nfds < capacity (poll_add grows to 32 or doubles as soon as
 * nfds + 1 >= capacity) — here: capacity 0 or C05_NP; the fd has an entry iff evmap's `old` is non-empty, the entry names
 * the fd and its interest bits are exactly XLP(old). */
static void c05_build_poll(void)
{
	__CPROVER_assume((IN.p.event_count == 0 && IN.p.nfds == 0) || (IN.p.event_count == C05_NP && IN.p.nfds >= 0 && IN.p.nfds < C05_NP));
	__CPROVER_assume(IN.p.idxplus1 >= 0 && IN.p.idxplus1 <= IN.p.nfds && IN.p.w >= 0 && IN.p.w < C05_NP);
	__CPROVER_assume((IN.old & ~C05_COND) == 0 && IFF(C05_HAS, IN.old != 0));
	POP.event_count = IN.p.event_count; POP.nfds = IN.p.nfds; POP.realloc_copy = 0;
	POP.event_set = C05_OLDSET; POP.event_set_copy = NULL;
	BASE.evbase = &POP; IDX.idxplus1 = IN.p.idxplus1;
	SET[IN.p.w].fd = IN.p.wfd; SET[IN.p.w].events = IN.p.wevents; SET[IN.p.w].revents = IN.p.wrevents;
	if (C05_HAS) { SET[IN.p.idxplus1 - 1].fd = IN.fd; SET[IN.p.idxplus1 - 1].events = XLP(IN.old); SET[IN.p.idxplus1 - 1].revents = IN.p.cur_revents; }
	g_mm_realloc_calls = 0; g_mm_realloc_ok = 0; g_mm_realloc_sz = 0;
}
#endif
