/* C03/C08 — the loop-control entry points of event.c (all loop-free):
 *   event_base_loopbreak / event_base_loopcontinue: set the flag under the base lock, wake the loop thread iff it
 *     is running in another thread, return the wake-up's result; NULL base -> -1 and nothing touched;
 *   event_base_got_break / event_base_got_exit: read the flag under the lock;
 *   event_loopexit_cb: sets event_gotterm and nothing else (so the loop leaves at the next iteration boundary);
 *   event_base_loopexit: schedules exactly that callback once, as a pure timeout, with the caller's timeval.
 * The flags are consumed by event_process_active_single_queue (c03_single_queue) and event_base_loop (c03_base_loop). */
#define VF_NLOCKS 1
#include "vf.h"
#include "event.c"
struct in { int which, nullbase, threads, running, brk0, term0, cont0, notify_ret, once_ret, has_tv; unsigned long owner, self; long tv_sec, tv_usec; };
struct in IN;
#include "stubs/log.h"
#include "stubs/lock.h"

static struct event_base BASE;
static struct timeval TV;
int g_notify, g_once;
static unsigned long vf_thread_id(void) { return IN.self; }

VF_CONTRACT(int, notify_c, struct event_base *base)
__CPROVER_requires(base == &BASE && g_lock_depth[1] == 1)         /* the loop thread is woken with the base lock held */
__CPROVER_assigns(g_notify)
__CPROVER_ensures(g_notify == __CPROVER_old(g_notify) + 1 && __CPROVER_return_value == IN.notify_ret)
;
VF_CONTRACT(int, once_c, struct event_base *base, evutil_socket_t fd, short events, void (*callback)(evutil_socket_t, short, void *), void *arg, const struct timeval *tv)
/* call-site obligations of event_base_loopexit */
__CPROVER_requires(base == (IN.nullbase ? NULL : &BASE) && fd == -1 && events == EV_TIMEOUT && callback == event_loopexit_cb && arg == (void *)base)
__CPROVER_requires(tv == (IN.has_tv ? &TV : NULL))
__CPROVER_requires(g_lock_depth[1] == 0)
__CPROVER_assigns(g_once)
__CPROVER_ensures(g_once == __CPROVER_old(g_once) + 1 && __CPROVER_return_value == IN.once_ret)
;

#define NEED_NOTIFY0 (IN.threads && IN.running && IN.owner != IN.self)
#define FLAGSETTER(name, FIELD, OTHER1, OTHER2) \
VF_CONTRACT(int, name, struct event_base *event_base) \
__CPROVER_requires(event_base == (IN.nullbase ? NULL : &BASE) && g_lock_depth[1] == 0 && g_notify == 0) \
__CPROVER_assigns(g_lock_depth[1], g_lock_ops, g_notify, BASE.FIELD) \
/* 1 C08 */ __CPROVER_ensures(g_lock_depth[1] == 0) \
/* 2 */ __CPROVER_ensures(IMP(IN.nullbase, __CPROVER_return_value == -1 && g_notify == 0 && BASE.FIELD == __CPROVER_old(BASE.FIELD))) \
/* 3 C03: the flag is set, whatever it was */ __CPROVER_ensures(IMP(!IN.nullbase, BASE.FIELD == 1)) \
/* 4 the loop thread is woken exactly when it runs in another thread */ \
__CPROVER_ensures(IMP(!IN.nullbase, g_notify == (NEED_NOTIFY0 ? 1 : 0) && __CPROVER_return_value == (NEED_NOTIFY0 ? IN.notify_ret : 0)))
FLAGSETTER(loopbreak_c, event_break, event_continue, event_gotterm);
FLAGSETTER(loopcontinue_c, event_continue, event_break, event_gotterm);

#define FLAGGETTER(name, FIELD) \
VF_CONTRACT(int, name, struct event_base *event_base) \
__CPROVER_requires(event_base == &BASE && g_lock_depth[1] == 0) \
__CPROVER_assigns(g_lock_depth[1], g_lock_ops) \
__CPROVER_ensures(g_lock_depth[1] == 0 && __CPROVER_return_value == BASE.FIELD)
FLAGGETTER(got_break_c, event_break);
FLAGGETTER(got_exit_c, event_gotterm);

VF_CONTRACT_V(loopexit_cb_c, evutil_socket_t fd, short what, void *arg)
__CPROVER_requires(arg == (void *)&BASE)
__CPROVER_assigns(BASE.event_gotterm)
__CPROVER_ensures(BASE.event_gotterm == 1)
;
VF_CONTRACT(int, loopexit_c, struct event_base *event_base, const struct timeval *tv)
__CPROVER_requires(event_base == (IN.nullbase ? NULL : &BASE) && tv == (IN.has_tv ? &TV : NULL) && g_lock_depth[1] == 0 && g_once == 0)
__CPROVER_assigns(g_once)
__CPROVER_ensures(g_once == 1 && __CPROVER_return_value == IN.once_ret)      /* scheduled exactly once; the flags are NOT touched now */
;

void harness(void)
{
	int r = 0;
	struct event_base *b;
	VF_LOAD_IN();
#ifdef VF_WHICH
	__CPROVER_assume(IN.which == VF_WHICH);      /* this unit enforces one entry point (one --enforce-contract per run) */
#endif
	VF_INSTALL_LOCKS();
	evthread_id_fn_ = IN.threads ? vf_thread_id : NULL;
	event_debug_mode_on_ = 0; event_global_current_base_ = NULL;
	__CPROVER_assume(IN.which >= 0 && IN.which <= 5);
	g_notify = 0; g_once = 0;
	BASE.th_base_lock = VF_LOCK_COOKIE(1);
	BASE.running_loop = IN.running != 0; BASE.th_owner_id = IN.owner;
	BASE.event_break = IN.brk0 != 0; BASE.event_gotterm = IN.term0 != 0; BASE.event_continue = IN.cont0 != 0;
	TV.tv_sec = IN.tv_sec; TV.tv_usec = IN.tv_usec;
	b = IN.nullbase ? NULL : &BASE;
	switch (IN.which) {
	case 0: r = VF_CALL(loopbreak_c, event_base_loopbreak, b); break;
	case 1: r = VF_CALL(loopcontinue_c, event_base_loopcontinue, b); break;
	case 2: r = VF_CALL(got_break_c, event_base_got_break, &BASE); break;
	case 3: r = VF_CALL(got_exit_c, event_base_got_exit, &BASE); break;
	case 4: VF_CALL_V(loopexit_cb_c, event_loopexit_cb, -1, EV_TIMEOUT, &BASE); break;
	default: r = VF_CALL(loopexit_c, event_base_loopexit, b, IN.has_tv ? &TV : NULL); break;
	}
	/* frame, restated on the harness-built state: no entry point touches a flag that is not its own */
	if (IN.which != 0) __CPROVER_assert(BASE.event_break == (IN.brk0 != 0), "only loopbreak touches event_break");
	if (IN.which != 1) __CPROVER_assert(BASE.event_continue == (IN.cont0 != 0), "only loopcontinue touches event_continue");
	if (IN.which != 4) __CPROVER_assert(BASE.event_gotterm == (IN.term0 != 0), "only the loopexit callback touches event_gotterm");
#ifdef VF_CANARY
	if (IN.which == 2 || IN.which == 3) __CPROVER_assert(r == 0, "canary: must fail (the flag can be set)");
	else if (IN.which == 4) __CPROVER_assert(BASE.event_gotterm == (IN.term0 != 0), "canary: must fail (the callback sets event_gotterm)");
	else __CPROVER_assert(r != -1, "canary: must fail (NULL base / failed wake-up return -1)");
#endif
}
