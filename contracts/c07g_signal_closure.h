/* contracts/c07g_signal_closure.h — C07/C08/C03: event_signal_closure (real event.c), the ncalls loop of a signal event.
 *
 * Include after "event.c", stubs/lock.h, c02_event_shape.h and `struct in IN` (fields b, e, act[C07G_NC]).
 *
 * User code is the stub sig_user_cb (installed as ev_callback).  The k-th call performs IN.act[k]:
 *   bit 0: event_del(ev)            — its effect on the loop protocol, verbatim from event_del_nolock_:
 *                                     if (ev->ev_ncalls && ev->ev_pncalls) *ev->ev_pncalls = 0;
 *   bit 1: event_base_loopbreak()   — base->event_break = 1
 * and records, as running ghost state (scalars only: the contract does not depend on the unwinding bound; a
 * loop-contract variant with C07G_NMAX = SHRT_MAX was tried and hit the dfcc havoc blow-up of pitfall 4 — the loop
 * is written through ev_pncalls):
 *   g_sc.calls        number of calls so far
 *   g_sc.bad          some call did not see (fd, ev_res, arg), or ran with the base lock held, or did not see
 *                     ev_ncalls == deliveries still owed AFTER this call, or ev_pncalls != (non-NULL iff ev_ncalls > 0)
 *   g_sc.del          user code deleted the event;      g_sc.after_del   a call was made after that
 *   g_sc.stop         a stop condition arose: break requested (or pending on entry), or a delete while calls were
 *                     still owed;                       g_sc.after_stop  a call was made after that
 *   g_sc.del_eff      the delete that stopped the loop (a delete during the LAST owed call changes nothing)
 *   g_sc_pn           ev_pncalls as that delete left it
 */
#ifndef VF_C07G_SIGNAL_CLOSURE_H_
#define VF_C07G_SIGNAL_CLOSURE_H_

#ifndef C07G_NC
#define C07G_NC 4                  /* user actions are chosen from IN for the first C07G_NC calls */
#endif
#ifndef C07G_NMAX
#define C07G_NMAX C07G_NC          /* largest ev_ncalls on entry (the loop-contract unit: SHRT_MAX) */
#endif

/* event-internal.h's accessor macros (ev_ncalls -> ev_.ev_signal.ev_ncalls) would be expanded twice in the generated
 * native checkers (contract text is extracted preprocessed, then compiled again): spell the members out instead */
#undef ev_ncalls
#undef ev_pncalls
#define C07G_EVN EV.ev_.ev_signal.ev_ncalls
#define C07G_EVPN EV.ev_.ev_signal.ev_pncalls

struct c07g_ghost { int calls, bad, del, after_del, stop, after_stop, del_eff, brk; };
struct c07g_ghost g_sc;
short *g_sc_pn;                    /* ev_pncalls as the stopping delete left it (the event may be freed by user code right after) */
static char C07G_ARGOBJ;
short O_sc_n;                      /* pre-state: ev_ncalls on entry */
int O_sc_brk0;                     /* pre-state: base->event_break on entry */

static void sig_user_cb(evutil_socket_t fd, short what, void *arg)
{
	int k = g_sc.calls;
#if defined(VF_NATIVE) || C07G_NMAX <= C07G_NC
	unsigned a = (k >= 0 && k < C07G_NC) ? IN.act[k] : 0;
#else
	unsigned a = (k >= 0 && k < C07G_NC) ? IN.act[k] : nondet_unsigned();   /* beyond the recorded prefix: any action */
#endif
	int owed = (int)O_sc_n - 1 - k;           /* deliveries still owed after this call */
	if (g_sc.del) g_sc.after_del = 1;
	if (g_sc.stop) g_sc.after_stop = 1;
	if (!(fd == IN.e.fd && what == IN.e.res && arg == (void *)&C07G_ARGOBJ)) g_sc.bad = 1;
	if (g_lock_depth[1] != 0) g_sc.bad = 1;                 /* C08: user code runs with the base lock released */
	if (C07G_EVN != owed) g_sc.bad = 1;                 /* the event shows what is still owed ... */
	if ((C07G_EVPN != NULL) != (owed > 0)) g_sc.bad = 1; /* ... and the abort pointer is armed exactly while something is owed */
	g_sc.calls = k + 1;
	if (a & 1) {                                            /* event_del(ev): event_del_nolock_'s "Abort loop" */
		g_sc.del = 1;
		if (owed > 0) { g_sc.stop = 1; g_sc.del_eff = 1; }
		if ((EV.ev_events & EV_SIGNAL) && C07G_EVN && C07G_EVPN) *C07G_EVPN = 0;
		g_sc_pn = C07G_EVPN;
	}
	if (a & 2) {                                            /* event_base_loopbreak(base) */
		g_sc.brk = 1; g_sc.stop = 1;
		BASE.event_break = 1;
	}
	if (O_sc_brk0) g_sc.stop = 1;                           /* a break requested before the closure started (other thread) */
}

#define C07G_N ((int)O_sc_n)

VF_CONTRACT_V(sigclosure_c, struct event_base *base, struct event *ev)
__CPROVER_requires(base == &BASE && ev == &EV)
__CPROVER_requires(BASE.th_base_lock == NULL || g_lock_depth[1] == 1)     /* event_process_active_single_queue calls closures with the lock held */
__CPROVER_requires(g_sc.calls == 0 && g_sc.bad == 0 && g_sc.del == 0 && g_sc.after_del == 0 && g_sc.stop == 0 && g_sc.after_stop == 0 && g_sc.del_eff == 0 && g_sc.brk == 0)
__CPROVER_requires(g_lock_ops == 0)
__CPROVER_requires(C07G_EVN == O_sc_n && O_sc_n >= 0 && O_sc_n <= C07G_NMAX && BASE.event_break == O_sc_brk0)
__CPROVER_assigns(g_sc, g_sc_pn, g_lock_depth[1], g_lock_ops, C07G_EVN, C07G_EVPN, BASE.event_break)
/* 1 C07: never more calls than deliveries; every owed call is made unless user code deleted the event or asked for a break */
__CPROVER_ensures(g_sc.calls >= 0 && g_sc.calls <= C07G_N)
__CPROVER_ensures(IMP(!g_sc.stop, g_sc.calls == C07G_N))
/* 2 C07: at least one call per batch */
__CPROVER_ensures(IMP(C07G_N >= 1, g_sc.calls >= 1))
/* 3 C07: "no callback runs after the event is deleted" */
__CPROVER_ensures(g_sc.after_del == 0)
/* 4 C03: a break stops the remaining calls (loopbreak: "stops after the running callback") */
__CPROVER_ensures(g_sc.after_stop == 0)
/* 5 every call: (fd, ev_res, arg), lock released, ev_ncalls/ev_pncalls protocol */
__CPROVER_ensures(g_sc.bad == 0)
/* 6 C08: entered with the lock held, returns with it RELEASED (asymmetric by design: the caller re-takes it);
 *   one release on entry, one acquire/release pair per call to read event_break under the lock */
__CPROVER_ensures(g_lock_depth[1] == 0)
__CPROVER_ensures(g_lock_ops == (BASE.th_base_lock != NULL ? 1 + 2 * (long)g_sc.calls : 0))
/* 7 what is left in the event: the count still owed when the loop stopped */
__CPROVER_ensures(C07G_EVN == C07G_N - g_sc.calls)
/* 8 the abort pointer is disarmed on return — except after a delete that stopped the loop: the event may have been
 *   freed by then, so the code must not (and does not) touch it.  [finding: it is then left pointing at the dead local] */
__CPROVER_ensures(IMP(C07G_N >= 1 && !g_sc.del_eff, C07G_EVPN == NULL))
__CPROVER_ensures(IMP(C07G_N == 0, C07G_EVPN == __CPROVER_old(C07G_EVPN)))
__CPROVER_ensures(IMP(g_sc.del_eff, C07G_EVPN == g_sc_pn))      /* after the stopping delete the event is not written any more (it may be gone) */
/* 9 the closure itself never requests or clears a break */
__CPROVER_ensures(BASE.event_break == (O_sc_brk0 || g_sc.brk))
;

#define C07G_RESET() do { g_sc.calls = 0; g_sc.bad = 0; g_sc.del = 0; g_sc.after_del = 0; g_sc.stop = 0; g_sc.after_stop = 0; g_sc.del_eff = 0; g_sc.brk = 0; g_sc_pn = NULL; } while (0)

#endif
