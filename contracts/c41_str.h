/* contracts/c41_str.h — shared by the C41 string units: two string objects built from IN and the
 * ASCII reference definitions the functions of evutil.c are compared with.  The reference is
 * written from the ASCII table / the ISO C description of strcasecmp in the "C" locale
 * (compare the strings as sequences of unsigned char after mapping 'A'..'Z' to 'a'..'z'), with
 * ONE documented deviation that the property text asks for ("return exactly what their
 * locale-independent ASCII definitions return"): libevent promises only the SIGN in {-1,0,1}. */
#ifndef C41_STR_H_
#define C41_STR_H_
#ifndef VF_N
#define VF_N 64                    /* size of each string object in bytes */
#endif
static char A[VF_N], B[VF_N];
int g_n1, g_n2;                    /* ghost: an index of a NUL in A / in B (witness of termination) */

static unsigned ref_lower(unsigned u) { return (u >= 0x41 && u <= 0x5a) ? u + 0x20 : u; }
/* libevent compares the mapped bytes as `char` (signed here); ISO strcasecmp compares as unsigned char.
 * Both orders are provided; the units state which one the code implements. */
static int ref_cmp_char_signed(char a, char b)
{
	int x = (signed char)ref_lower((unsigned char)a), y = (signed char)ref_lower((unsigned char)b);
	return x < y ? -1 : x > y ? 1 : 0;
}
static int ref_cmp_char_unsigned(char a, char b)
{
	unsigned x = ref_lower((unsigned char)a), y = ref_lower((unsigned char)b);
	return x < y ? -1 : x > y ? 1 : 0;
}
#endif
