/* contracts/c40_ntop_unit.h — common harness of the evutil_inet_ntop units (real evutil.c).
 *   VF_AF        4 or 6
 *   VF_NTOP_PARTS  (optional) bit 1: round trip through evutil_inet_pton; bit 2: the call with a buffer of len bytes; default both
 *   VF_NTOP_CONCRETE=k  (IPv6) the address is the k-th of four fixed ones (quick-tier stand-in of the buffer-length units)
 *   VF_NTOP_LASTWORDS=k  (IPv6) only the last k words of the address are arbitrary, the others zero
 *   VF_EXACTFIT  0: every buffer length except len == strlen(text);  1: only len == strlen(text)
 * For EVERY address (all 2^32 / all 2^128) and every buffer length 0..VF_D (VF_D = 20 / 48 bytes, more than the longest text of 15 / 45 characters):
 *   T := the text written into an ample buffer (must succeed there, be NUL-terminated, consist of the
 *        address alphabet only, and be parsed back to the SAME address by the reference parser
 *        contracts/c40_inet_ref.h and by evutil_inet_pton itself);
 *   with a buffer of len bytes the call returns dst holding exactly T when T and its NUL fit
 *   (len > strlen T) and NULL when they do not; bytes at dst[len..] are never written.
 * vsnprintf is the ISO C reference body of stubs/c40_libc_ref.h, event_strlcpy_ the reference strlcpy. */
#include "vf.h"
#include "evutil.c"
#include "stubs/log.h"
#ifndef VF_D
#define VF_D (VF_AF == 4 ? 20 : 48)   /* buffer object size: a few bytes more than the longest text */
#endif
struct in { unsigned char a[16]; size_t len; unsigned char fill[VF_D]; };
struct in IN;
#include "stubs/c40_libc_ref.h"
#define VF_REF_MAXLEN 48
#include "c40_inet_ref.h"
#if VF_AF == 4
#define VF_ALEN 4
#define VF_FAM AF_INET
#define VF_REF ref_pton4
#define VF_TMAX 15
#else
#define VF_ALEN 16
#define VF_FAM AF_INET6
#define VF_REF ref_pton6
#define VF_TMAX (VF_D - 1 < 45 ? VF_D - 1 : 45)   /* the units that shrink VF_D restrict the addresses so that the text still fits */
#endif
static char D1[VF_D], D2[VF_D];
static unsigned char AD[VF_ALEN], BACK[16], BACK2[16];

void harness(void)
{
	int i, n, ok;
	const char *r1, *r2;
	VF_LOAD_IN();
	__CPROVER_assume(IN.len <= VF_D);
	for (i = 0; i < VF_ALEN; i++) AD[i] = IN.a[i];
#if defined(VF_NTOP_CONCRETE) && VF_AF == 6
	/* quick-tier stand-in of the buffer-length units: ONE of four fixed addresses (VF_NTOP_CONCRETE = 0..3) covering both formatting branches and
	 * both length checks of the IPv6 code ("::", "::ffff:192.0.2.1", "2001:db8::1", "1:2:3:4:5:6:7:8") */
	{
		static const unsigned char fixed[4][16] = {
			{0},
			{0,0,0,0, 0,0,0,0, 0,0,0xff,0xff, 192,0,2,1},
			{0x20,0x01,0x0d,0xb8, 0,0,0,0, 0,0,0,0, 0,0,0,1},
			{0,1,0,2, 0,3,0,4, 0,5,0,6, 0,7,0,8} };
		enum { k = (VF_NTOP_CONCRETE) & 3 };      /* compile-time choice: the formatting is then concrete */
		for (i = 0; i < 16; i++) AD[i] = fixed[k][i];
	}
#endif
#if defined(VF_NTOP_LASTWORDS) && VF_AF == 6
	/* small family used by the buffer-length units in the quick tier: the first VF_NTOP_LASTWORDS words arbitrary
	 * per-word choice of 0 or 0xffff is NOT taken - they are all zero; only the remaining words are arbitrary */
	for (i = 0; i < 2 * (8 - VF_NTOP_LASTWORDS); i++) AD[i] = 0;
#endif
	for (i = 0; i < VF_D; i++) { D1[i] = (char)IN.fill[i]; D2[i] = (char)IN.fill[i]; }
	for (i = 0; i < 16; i++) { BACK[i] = 0; BACK2[i] = 0; }

	r1 = evutil_inet_ntop(VF_FAM, AD, D1, VF_D);
	__CPROVER_assert(r1 == D1, "with an ample buffer evutil_inet_ntop succeeds and returns dst");
	n = -1;
	for (i = 0; i <= VF_TMAX; i++) if (n < 0 && D1[i] == 0) n = i;
	__CPROVER_assert(n >= (VF_AF == 4 ? 7 : 2), "the text is NUL-terminated within the maximal text length (and not shorter than the shortest address text)");
	for (i = 0; i < VF_TMAX; i++)
		if (i < n) __CPROVER_assert((D1[i] >= '0' && D1[i] <= '9') || D1[i] == '.' || (VF_AF == 6 && ((D1[i] >= 'a' && D1[i] <= 'f') || D1[i] == ':')), "the text uses only the address alphabet (digits, lower-case hex, ':' and '.')");
	ok = VF_REF(D1, BACK);
	__CPROVER_assert(ok == 1, "the text is in the strict address syntax (reference parser accepts it)");
	for (i = 0; i < VF_ALEN; i++) __CPROVER_assert(BACK[i] == AD[i], "the reference parser reads the text back to the SAME address");
#if !defined(VF_NTOP_PARTS) || (VF_NTOP_PARTS & 1)
	ok = evutil_inet_pton(VF_FAM, D1, BACK2);
	__CPROVER_assert(ok == 1, "round trip: evutil_inet_pton accepts evutil_inet_ntop's text");
	for (i = 0; i < VF_ALEN; i++) __CPROVER_assert(BACK2[i] == AD[i], "round trip: evutil_inet_pton(evutil_inet_ntop(a)) == a");
#endif
#if !defined(VF_NTOP_PARTS) || (VF_NTOP_PARTS & 2)

#if VF_EXACTFIT
	__CPROVER_assume(IN.len == (size_t)n);
#else
	__CPROVER_assume(IN.len != (size_t)n);
#endif
	__CPROVER_assume(IN.len <= VF_D);
	r2 = evutil_inet_ntop(VF_FAM, AD, D2, IN.len);
	__CPROVER_assert(IFF(r2 != NULL, IN.len > (size_t)n), "evutil_inet_ntop fails (NULL) iff the text and its NUL do not fit into len bytes");
	__CPROVER_assert(r2 == NULL || r2 == D2, "a successful call returns dst");
	for (i = 0; i <= VF_TMAX; i++)
		if (r2 != NULL && i <= n) __CPROVER_assert(D2[i] == D1[i], "a successful call writes the complete NUL-terminated text");
	for (i = 0; i < VF_D; i++)
		if ((size_t)i >= IN.len) __CPROVER_assert(D2[i] == (char)IN.fill[i], "no byte at or beyond dst+len is written");
#endif
#ifdef VF_CANARY
#ifdef VF_NTOP_CONCRETE
	__CPROVER_assert(D1[0] != (VF_NTOP_CONCRETE == 0 || VF_NTOP_CONCRETE == 1 ? ':' : VF_NTOP_CONCRETE == 2 ? '2' : '1'), "canary: must fail (first character of the fixed address's text)");
#else
	__CPROVER_assert(n != (VF_AF == 4 ? 9 : 5), "canary: must fail (some address has a text of that length)");
#endif
#endif
}
