/* C10/C08 — event_finalize / event_free_finalize -> event_finalize_impl_ -> event_finalize_nolock_ (real event.c).
 * The finalize protocol, as call-site obligations of the two callees plus postconditions:
 *   - the event is first taken off every queue (event_del_nolock_, non-blocking), so no ordinary callback of it is
 *     still queued when the finalizer is;
 *   - THEN the closure becomes EV_CLOSURE_EVENT_FINALIZE (event_finalize) or ..._FINALIZE_FREE (event_free_finalize)
 *     and the user's finalizer is stored, BEFORE the event is activated (event_active_nolock_ requires it);
 *   - it is activated exactly once, with EV_FINALIZE, one call;
 *   - afterwards EVLIST_FINALIZING is set (from then on event_add/event_active/event_del refuse the event: C02);
 *   - returns 0 with the base lock released; an event without a base: -1 and nothing is touched. */
#define VF_NLOCKS 1
#include "vf.h"
#include "event.c"
struct in { int which, nobase; unsigned flags_arg; short evflags, events; unsigned char closure0; int del_ret; };
struct in IN;
#include "stubs/log.h"
#include "stubs/lock.h"

static struct event_base BASE;
static struct event EV;
int g_del, g_act;
short O_flags;
static void vf_fin(struct event *ev, void *arg) { (void)ev; (void)arg; }
#define WANT_CLOSURE ((IN.which == 1) ? EV_CLOSURE_EVENT_FINALIZE_FREE : EV_CLOSURE_EVENT_FINALIZE)

VF_CONTRACT(int, del_c, struct event *ev, int blocking)
__CPROVER_requires(ev == &EV && blocking == EVENT_DEL_NOBLOCK && g_lock_depth[1] == 1)
__CPROVER_requires(g_del == 0 && g_act == 0)                      /* first step of the protocol */
__CPROVER_assigns(g_del, EV.ev_evcallback.evcb_flags)
__CPROVER_ensures(g_del == 1 && (__CPROVER_return_value == 0 || __CPROVER_return_value == -1))
/* what unit c02_del_nolock enforces: refused on a finalizing event, otherwise off every queue */
__CPROVER_ensures(EV.ev_flags == ((__CPROVER_old(EV.ev_flags) & EVLIST_FINALIZING) ? __CPROVER_old(EV.ev_flags) : (__CPROVER_old(EV.ev_flags) & ~(EVLIST_INSERTED | EVLIST_TIMEOUT | EVLIST_ACTIVE | EVLIST_ACTIVE_LATER))))
;
VF_CONTRACT_V(active_c, struct event *ev, int res, short ncalls)
__CPROVER_requires(ev == &EV && g_lock_depth[1] == 1)
__CPROVER_requires(g_del == 1 && g_act == 0)                      /* after the delete, and only once */
__CPROVER_requires(res == EV_FINALIZE && ncalls == 1)
/* the closure and the finalizer are in place BEFORE the event can be picked up by the loop */
__CPROVER_requires(EV.ev_closure == WANT_CLOSURE && EV.ev_evcallback.evcb_cb_union.evcb_evfinalize == vf_fin)
__CPROVER_requires(!(EV.ev_flags & EVLIST_FINALIZING) || (O_flags & EVLIST_FINALIZING))   /* not yet marked: the activation must not be refused the first time */
__CPROVER_assigns(g_act, EV.ev_evcallback.evcb_flags, EV.ev_res)
__CPROVER_ensures(g_act == 1)
/* what c02_active_nolock enforces: refused on a finalizing event, otherwise the event is active */
__CPROVER_ensures(EV.ev_flags == ((__CPROVER_old(EV.ev_flags) & EVLIST_FINALIZING) ? __CPROVER_old(EV.ev_flags) : (__CPROVER_old(EV.ev_flags) | EVLIST_ACTIVE)))
;

#define FIN_CONTRACT(name) \
VF_CONTRACT(int, name, unsigned flags, struct event *ev, event_finalize_callback_fn cb) \
__CPROVER_requires(ev == &EV && cb == vf_fin && g_lock_depth[1] == 0 && g_del == 0 && g_act == 0) \
__CPROVER_assigns(g_lock_depth[1], g_lock_ops, g_del, g_act, EV.ev_evcallback.evcb_flags, EV.ev_evcallback.evcb_closure, EV.ev_evcallback.evcb_cb_union, EV.ev_res) \
/* 1 C08 */ __CPROVER_ensures(g_lock_depth[1] == 0) \
/* 2 no base: refused, nothing touched */ \
__CPROVER_ensures(IMP(IN.nobase, __CPROVER_return_value == -1 && g_del == 0 && g_act == 0 && EV.ev_flags == O_flags && EV.ev_closure == IN.closure0)) \
/* 3 C10: exactly one delete, exactly one activation, in that order (order: callee requires) */ \
__CPROVER_ensures(IMP(!IN.nobase, __CPROVER_return_value == 0 && g_del == 1 && g_act == 1)) \
/* 4 C10: the closure that will run is the finalize closure of the entry point used, with the user's finalizer */ \
__CPROVER_ensures(IMP(!IN.nobase, EV.ev_closure == WANT_CLOSURE && EV.ev_evcallback.evcb_cb_union.evcb_evfinalize == vf_fin)) \
/* 5 C10: marked finalizing; a first finalize leaves the event active and on no other queue */ \
__CPROVER_ensures(IMP(!IN.nobase, (EV.ev_flags & EVLIST_FINALIZING) != 0)) \
__CPROVER_ensures(IMP(!IN.nobase && !(O_flags & EVLIST_FINALIZING), EV.ev_flags == ((O_flags & ~(EVLIST_INSERTED | EVLIST_TIMEOUT | EVLIST_ACTIVE_LATER)) | EVLIST_ACTIVE | EVLIST_FINALIZING))) \
/* 7 a finalize of an event that is already finalizing does not activate it a second time (flags unchanged) */ \
__CPROVER_ensures(IMP(!IN.nobase && (O_flags & EVLIST_FINALIZING), EV.ev_flags == O_flags))
FIN_CONTRACT(finalize_c);
FIN_CONTRACT(free_finalize_c);

void harness(void)
{
	int r;
	VF_LOAD_IN();
#ifdef VF_WHICH
	__CPROVER_assume(IN.which == VF_WHICH);      /* this unit enforces one entry point (one --enforce-contract per run) */
#endif
	VF_INSTALL_LOCKS();
	evthread_id_fn_ = NULL; event_debug_mode_on_ = 0; event_global_current_base_ = NULL;
	__CPROVER_assume(IN.which == 0 || IN.which == 1);
	__CPROVER_assume(IN.closure0 <= EV_CLOSURE_EVENT_FINALIZE_FREE);
	/* the user-visible flags argument is reserved (documented: pass 0 or EVENT_FINALIZE_FREE_ is internal): any value whose
	 * internal bit 0x10000 is clear */
	__CPROVER_assume((IN.flags_arg & 0x10000u) == 0);
#ifdef NDEBUG
	/* release configuration (-DNDEBUG, the real build): EVUTIL_FAILURE_CHECK(!base) is compiled to 0, an event without a
	 * base is a caller error there (event_assign always stores a base unless there is no current base) */
	__CPROVER_assume(!IN.nobase);
#endif
	g_del = 0; g_act = 0;
	BASE.th_base_lock = VF_LOCK_COOKIE(1);
	EV.ev_base = IN.nobase ? NULL : &BASE;
	EV.ev_flags = (IN.evflags & (EVLIST_TIMEOUT | EVLIST_INSERTED | EVLIST_ACTIVE | EVLIST_INTERNAL | EVLIST_ACTIVE_LATER | EVLIST_FINALIZING)) | EVLIST_INIT;
	__CPROVER_assume((EV.ev_flags & (EVLIST_ACTIVE | EVLIST_ACTIVE_LATER)) != (EVLIST_ACTIVE | EVLIST_ACTIVE_LATER));
	O_flags = EV.ev_flags;
	EV.ev_events = IN.events; EV.ev_closure = IN.closure0;
	if (IN.which == 0) r = VF_CALL(finalize_c, event_finalize, IN.flags_arg, &EV, vf_fin);
	else r = VF_CALL(free_finalize_c, event_free_finalize, IN.flags_arg, &EV, vf_fin);
#ifdef VF_CANARY
	__CPROVER_assert(EV.ev_closure == IN.closure0, "canary: must fail (the closure becomes a finalize closure)");
#endif
	(void)r;
}
