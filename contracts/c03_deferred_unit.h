/* C03/C08 — event_deferred_cb_schedule_ / event_deferred_cb_cancel_ (real event.c, loop-free).
 * Quota rule (MAX_DEFERREDS_QUEUED = 32): while at most 32 deferred callbacks were queued in this iteration the
 * callback is activated NOW and the counter grows iff it really became active; beyond the quota it is activated
 * LATER (next iteration) and the counter is left alone — so it is never dropped.  The result is the callee's.
 * NULL base means the global current base.  The base lock is released on return. */
#define VF_NLOCKS 1
#include "vf.h"
#include "event.c"
struct in { int which, nullbase, ndq0, act_ret, later_ret, cancel_ret; };
struct in IN;
#include "stubs/log.h"
#include "stubs/lock.h"

static struct event_base BASE;
static struct event_callback CB;
int g_act, g_later, g_cancel;

VF_CONTRACT(int, activate_c, struct event_base *base, struct event_callback *evcb)
__CPROVER_requires(base == &BASE && evcb == &CB && g_lock_depth[1] == 1)
__CPROVER_assigns(g_act)
__CPROVER_ensures(g_act == __CPROVER_old(g_act) + 1 && __CPROVER_return_value == IN.act_ret)
;
VF_CONTRACT(int, activate_later_c, struct event_base *base, struct event_callback *evcb)
__CPROVER_requires(base == &BASE && evcb == &CB && g_lock_depth[1] == 1)
__CPROVER_assigns(g_later)
__CPROVER_ensures(g_later == __CPROVER_old(g_later) + 1 && __CPROVER_return_value == IN.later_ret)
;
VF_CONTRACT(int, cancel_c, struct event_base *base, struct event_callback *evcb)
__CPROVER_requires(base == &BASE && evcb == &CB && g_lock_depth[1] == 0)
__CPROVER_assigns(g_cancel)
__CPROVER_ensures(g_cancel == __CPROVER_old(g_cancel) + 1 && __CPROVER_return_value == IN.cancel_ret)
;

VF_CONTRACT(int, schedule_c, struct event_base *base, struct event_callback *cb)
__CPROVER_requires(base == (IN.nullbase ? NULL : &BASE) && cb == &CB && event_global_current_base_ == &BASE)
__CPROVER_requires(g_lock_depth[1] == 0 && g_act == 0 && g_later == 0)
__CPROVER_requires(BASE.n_deferreds_queued >= 0 && BASE.n_deferreds_queued < INT_MAX)
__CPROVER_assigns(g_lock_depth[1], g_lock_ops, g_act, g_later, BASE.n_deferreds_queued)
/* 1 C08 */ __CPROVER_ensures(g_lock_depth[1] == 0)
/* 2 C03: within the quota -> active in this iteration, counted iff it became active */
__CPROVER_ensures(IMP(IN.ndq0 <= 32, g_act == 1 && g_later == 0 && __CPROVER_return_value == IN.act_ret && BASE.n_deferreds_queued == IN.ndq0 + (IN.act_ret != 0 ? 1 : 0)))
/* 3 C03: beyond the quota -> next iteration, never dropped, counter untouched */
__CPROVER_ensures(IMP(IN.ndq0 > 32, g_act == 0 && g_later == 1 && __CPROVER_return_value == IN.later_ret && BASE.n_deferreds_queued == IN.ndq0))
;
VF_CONTRACT_V(dcancel_c, struct event_base *base, struct event_callback *cb)
__CPROVER_requires(base == (IN.nullbase ? NULL : &BASE) && cb == &CB && event_global_current_base_ == &BASE && g_lock_depth[1] == 0 && g_cancel == 0)
__CPROVER_assigns(g_cancel)
__CPROVER_ensures(g_cancel == 1)
;

void harness(void)
{
	int r = 0;
	VF_LOAD_IN();
#ifdef VF_WHICH
	__CPROVER_assume(IN.which == VF_WHICH);      /* this unit enforces one entry point (one --enforce-contract per run) */
#endif
	VF_INSTALL_LOCKS();
	evthread_id_fn_ = NULL; event_debug_mode_on_ = 0; event_global_current_base_ = &BASE;
	__CPROVER_assume(IN.ndq0 >= 0 && IN.ndq0 < INT_MAX);
	__CPROVER_assume(IN.act_ret == 0 || IN.act_ret == 1);
	__CPROVER_assume(IN.later_ret == 0 || IN.later_ret == 1);
	g_act = 0; g_later = 0; g_cancel = 0;
	BASE.th_base_lock = VF_LOCK_COOKIE(1); BASE.n_deferreds_queued = IN.ndq0;
	if (IN.which) VF_CALL_V(dcancel_c, event_deferred_cb_cancel_, IN.nullbase ? NULL : &BASE, &CB);
	else r = VF_CALL(schedule_c, event_deferred_cb_schedule_, IN.nullbase ? NULL : &BASE, &CB);
	if (IN.which) __CPROVER_assert(BASE.n_deferreds_queued == IN.ndq0, "cancel does not touch the quota counter");
#ifdef VF_CANARY
	if (IN.which) __CPROVER_assert(g_cancel == 0, "canary: must fail (the callback is cancelled)");
	else __CPROVER_assert(g_later == 0, "canary: must fail (beyond the quota the callback goes to the later queue)");
#endif
	(void)r;
}
