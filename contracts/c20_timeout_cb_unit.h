/* contracts/c20_timeout_cb_unit.h — shared body of c20_read_timeout_cb / c20_write_timeout_cb (unit defines C20_WRITE 0/1).
 * C20/C19/C08 — bufferevent_generic_read_timeout_cb / _write_timeout_cb (real bufferevent.c; timer callbacks of pair and
 * filter bufferevents): the direction is DISABLED first (enabled bit cleared, the type's disable op called once for that
 * direction), THEN BEV_EVENT_TIMEOUT|READING (resp. WRITING) is reported — immediately or deferred per the options —
 * and the reference/lock taken for the duration are given back.  bufferevent_disable, run_eventcb_, incref/decref inlined. */
#include "c18_bev_unit.h"
#if C20_WRITE
#define CBFN bufferevent_generic_write_timeout_cb
#define DIR EV_WRITE
#define WHAT (BEV_EVENT_TIMEOUT|BEV_EVENT_WRITING)
#else
#define CBFN bufferevent_generic_read_timeout_cb
#define DIR EV_READ
#define WHAT (BEV_EVENT_TIMEOUT|BEV_EVENT_READING)
#endif
short O_ep, O_enabled; int O_refcnt, O_queued;
#define DEFER_ (((int)BEVP.options & BEV_OPT_DEFER_CALLBACKS) != 0)
#define HAS_E (BEV->errorcb != NULL)
VF_CONTRACT_V(timeout_cb_c, evutil_socket_t fd, short event, void *ctx)
__CPROVER_requires(ctx == (void *)BEV && BEVP.refcnt >= 1 && BEVP.refcnt <= (1 << 24))
__CPROVER_requires(g_e.nseq == 0 && g_e.nev == 0 && g_e.dis_calls == 0 && g_e.en_calls == 0 && g_e.sched_calls == 0 && g_e.sched_new == 0 && g_e.fin_calls == 0 && g_lock_depth[1] == 0)
__CPROVER_assigns(BEV->enabled, BEVP.eventcb_pending, BEVP.errno_pending, BEVP.refcnt, BEV->wm_read.low, BEV->wm_read.high, BEV_GHOST_FRAME)
/* 1 the direction is disabled, exactly once, with the lock held */
__CPROVER_ensures(g_e.dis_calls == 1 && g_e.dis_what == DIR && g_e.dis_lockdepth == HELD(2) && g_e.en_calls == 0)
__CPROVER_ensures(IMP(g_e.user_mutates == 0 || !HAS_E || DEFER_, BEV->enabled == (short)(O_enabled & ~DIR)))
/* 3 the timeout is reported: deferred => pending, immediate => one direct call AFTER the direction was disabled */
__CPROVER_ensures(IMP(HAS_E && DEFER_, g_e.nseq == 0 && BEVP.eventcb_pending == (short)(O_ep | WHAT) && g_e.sched_calls == 1))
__CPROVER_ensures(IMP(HAS_E && !DEFER_, g_e.nseq == 1 && g_e.nev == 1 && g_e.ev0.what == WHAT && g_e.ev0.arg_ok && g_e.ev0.lockdepth == HELD(1) && g_e.ev0.dis_calls == 1 && g_e.ev0.enabled == (short)(O_enabled & ~DIR) && BEVP.eventcb_pending == O_ep))
__CPROVER_ensures(IMP(!HAS_E, g_e.nseq == 0 && BEVP.eventcb_pending == O_ep && g_e.sched_calls == 0))
/* 6 reference and lock given back; a deferred report keeps one reference for the queue */
__CPROVER_ensures(BEVP.refcnt == O_refcnt + g_e.sched_new && g_e.sched_new == B(g_e.sched_calls == 1 && !O_queued) && g_e.fin_calls == 0)
__CPROVER_ensures(g_lock_depth[1] == 0)
;
void harness(void)
{
	VF_LOAD_IN();
	vf_bev_build();
	__CPROVER_assume(IN.refcnt >= 1 && IN.refcnt <= (1 << 24));
	O_ep = IN.ep; O_enabled = IN.enabled; O_refcnt = IN.refcnt; O_queued = IN.queued & 1;
	VF_CALL_V(timeout_cb_c, CBFN, -1, IN.fd_event, (void *)BEV);
	__CPROVER_assert(BEVP.readcb_pending == (IN.rp & 1) && BEVP.writecb_pending == (IN.wp & 1) && g_e.rd.n == 0 && g_e.wr.n == 0, "no data callback from a timeout");
#ifdef VF_CANARY
	__CPROVER_assert(g_e.nseq == 0, "canary: must fail (the timeout is reported to the user)");
#endif
}
