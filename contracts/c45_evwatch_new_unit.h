/* C45/C08 — evwatch_prepare_new / evwatch_check_new (real watch.c, via the static evwatch_new):
 * a new watcher is appended at the TAIL of the list of its type (so it runs after the existing ones and no
 * existing watcher is displaced), the other list is untouched, allocation failure changes nothing, the base lock
 * is taken for the insertion and released.  Lists of 0..2 existing watchers, every position symbolic. */
#define VF_NLOCKS 1
#define VF_NCHOICE 2
#include "vf.h"
#include "watch.c"
struct in { int n, which; unsigned ch[VF_NCHOICE]; };
struct in IN;
#include "stubs/log.h"
#include "stubs/mm.h"
#include "stubs/lock.h"

static struct event_base BASE;
static struct evwatch W0, W1;
static char COOKIE;
static void vf_prep(struct evwatch *w, const struct evwatch_prepare_cb_info *i, void *a) { (void)w; (void)i; (void)a; }
static void vf_chk(struct evwatch *w, const struct evwatch_check_cb_info *i, void *a) { (void)w; (void)i; (void)a; }
struct evwatch **O_last[EVWATCH_MAX]; struct evwatch *O_first[EVWATCH_MAX];   /* pre-state snapshots */
int g_type;
#define LST(t) (BASE.watchers[t])

#define NEW_POST(TYPE, CBFIELD, CBFN) \
__CPROVER_requires(base == &BASE && arg == (void *)&COOKIE && g_lock_depth[1] == 0 && g_mm_allocs == 0) \
__CPROVER_requires(*LST(TYPE).tqh_last == NULL)      /* TAILQ invariant: tqh_last addresses the terminating NULL */ \
__CPROVER_assigns(g_lock_depth[1], g_lock_ops, g_mm_live, g_mm_allocs, vf_nchoice_, errno, LST(TYPE).tqh_last, *LST(TYPE).tqh_last) \
/* 1 C08 */ __CPROVER_ensures(g_lock_depth[1] == 0) \
/* 2 allocation failure: NULL and nothing changed */ \
__CPROVER_ensures(IMP(__CPROVER_return_value == NULL, g_mm_allocs == 0 && LST(TYPE).tqh_last == O_last[TYPE] && *O_last[TYPE] == NULL)) \
/* 3 success: a fresh object, fully initialised */ \
__CPROVER_ensures(IMP(__CPROVER_return_value != NULL, g_mm_allocs == 1 && __CPROVER_is_fresh(__CPROVER_return_value, sizeof(struct evwatch)))) \
__CPROVER_ensures(IMP(__CPROVER_return_value != NULL, __CPROVER_return_value->base == &BASE && __CPROVER_return_value->type == TYPE && \
	__CPROVER_return_value->arg == (void *)&COOKIE && __CPROVER_return_value->callback.CBFIELD == CBFN)) \
/* 5 C45: appended at the tail of the list of its type: every existing watcher keeps its place */ \
__CPROVER_ensures(IMP(__CPROVER_return_value != NULL, *O_last[TYPE] == __CPROVER_return_value && __CPROVER_return_value->next.tqe_prev == O_last[TYPE] && \
	__CPROVER_return_value->next.tqe_next == NULL && LST(TYPE).tqh_last == &__CPROVER_return_value->next.tqe_next)) \
/* 6 the list of the other type is untouched (also by the frame) */ \
__CPROVER_ensures(LST(1 - TYPE).tqh_first == O_first[1 - TYPE] && LST(1 - TYPE).tqh_last == O_last[1 - TYPE])

VF_CONTRACT(struct evwatch *, prepare_new_c, struct event_base *base, evwatch_prepare_cb callback, void *arg)
__CPROVER_requires(callback == vf_prep)
NEW_POST(EVWATCH_PREPARE, prepare, vf_prep)
;
VF_CONTRACT(struct evwatch *, check_new_c, struct event_base *base, evwatch_check_cb callback, void *arg)
__CPROVER_requires(callback == vf_chk)
NEW_POST(EVWATCH_CHECK, check, vf_chk)
;

void harness(void)
{
	struct evwatch *r; int t;
	VF_LOAD_IN();
#ifdef VF_WHICH
	__CPROVER_assume(IN.which == VF_WHICH);      /* this unit enforces one entry point (one --enforce-contract per run) */
#endif
	VF_INSTALL_LOCKS(); VF_MM_RESET();
	__CPROVER_assume(IN.n >= 0 && IN.n <= 2);
	t = IN.which ? EVWATCH_CHECK : EVWATCH_PREPARE; g_type = t;
	BASE.th_base_lock = VF_LOCK_COOKIE(1);
	TAILQ_INIT(&BASE.watchers[0]); TAILQ_INIT(&BASE.watchers[1]);
	W0.type = t; W0.base = &BASE; W1.type = 1 - t; W1.base = &BASE;
	/* n == 0: both lists empty; 1: W0 on the list under test; 2: W0 there and W1 on the other list */
	if (IN.n >= 1) TAILQ_INSERT_TAIL(&BASE.watchers[t], &W0, next);
	if (IN.n >= 2) TAILQ_INSERT_TAIL(&BASE.watchers[1 - t], &W1, next);
	O_last[0] = BASE.watchers[0].tqh_last; O_last[1] = BASE.watchers[1].tqh_last;
	O_first[0] = BASE.watchers[0].tqh_first; O_first[1] = BASE.watchers[1].tqh_first;
	if (IN.which) r = VF_CALL(check_new_c, evwatch_check_new, &BASE, vf_chk, (void *)&COOKIE);
	else r = VF_CALL(prepare_new_c, evwatch_prepare_new, &BASE, vf_prep, (void *)&COOKIE);
	if (r != NULL && IN.n >= 1) __CPROVER_assert(BASE.watchers[t].tqh_first == &W0 && W0.next.tqe_next == r, "C45: the existing watcher stays first, the new one follows it");
	if (r != NULL && IN.n == 0) __CPROVER_assert(BASE.watchers[t].tqh_first == r, "C45: first watcher of its type becomes the list head");
	if (r != NULL) __CPROVER_assert(evwatch_base(r) == &BASE, "evwatch_base returns the owning base");
#ifdef VF_CANARY
	__CPROVER_assert(r != NULL, "canary: must fail (allocation can fail)");
#endif
}
