/* contracts/c22g_decrement_unit.h — shared body of c22g_decrement_read / c22g_decrement_write (unit defines C22G_WRITE 0/1).
 * C22/C08 — the PUBLIC manual-decrement API bufferevent_decrement_read_limit / _write_limit (real bufferevent_ratelim.c).
 * Specification (include/event2/bufferevent.h "Rate limit manipulation" + C22 "manual decrements"):
 *  - the bufferevent's own bucket of THAT direction changes by exactly -decr (decr < 0 = manual refill); the other bucket, the other
 *    direction's suspend word and the group's buckets/totals are untouched (frame: "These functions make no change in the buckets for
 *    the bufferevent's group");
 *  - level goes from > 0 to <= 0 (DOWN): the direction is suspended for BEV_SUSPEND_BW and the refill timer is added exactly once with
 *    the configuration's one-tick timeout; result -1 iff that event_add failed, else 0;
 *  - level goes from <= 0 to > 0 (UP): the direction is unsuspended for BEV_SUSPEND_BW; the refill timer is deleted ONLY IF the other
 *    direction is not suspended for bandwidth — otherwise it is left exactly as it was (the other direction still waits for it);
 *  - otherwise no suspension change, no timer operation;
 *  - the bufferevent's lock is taken exactly once and released (depth as before), whether or not the caller already holds it.
 * Harness assertions (property level): the state invariant of a limited bufferevent
 *     SAFE_d: level_d <= 0  =>  direction d is BW-suspended        (never transfers on an exhausted bucket)
 *     LIVE  : some direction BW-suspended  =>  refill timer pending (the refill callback resumes it within one tick of level > 0)
 * is preserved (LIVE unless the call reported -1).
 * Preconditions: the bufferevent has its own bucket (EVUTIL_ASSERT(bevp->rate_limiting && bevp->rate_limiting->cfg) in the code: without
 * one the function aborts, and with NDEBUG dereferences NULL), and level - decr is representable (the code computes `limit -= decr`
 * in ev_ssize_t without a range check: caller's obligation, see the report). */
#include "c22_rl_unit.h"
#define BW_ BEV_SUSPEND_BW
#if C22G_WRITE
#define FN bufferevent_decrement_write_limit
#define LIM_ RL.limit.write_limit
#define XLIM_ RL.limit.read_limit
#define O_L IN.lim_w
#define O_XL IN.lim_r
#define O_S IN.ws
#define O_OTHER IN.rs
#define S_ BEVP.write_suspended
#define OTHER_ BEVP.read_suspended
#define SUS_CALLS g_r.sus_w[3]
#define UNSUS_CALLS g_r.unsus_w[3]
#define X_SUS_CALLS g_r.sus_r[3]
#define X_UNSUS_CALLS g_r.unsus_r[3]
#define SUS_WHAT g_r.sus_w_what
#define UNSUS_WHAT g_r.unsus_w_what
#else
#define FN bufferevent_decrement_read_limit
#define LIM_ RL.limit.read_limit
#define XLIM_ RL.limit.write_limit
#define O_L IN.lim_r
#define O_XL IN.lim_w
#define O_S IN.rs
#define O_OTHER IN.ws
#define S_ BEVP.read_suspended
#define OTHER_ BEVP.write_suspended
#define SUS_CALLS g_r.sus_r[3]
#define UNSUS_CALLS g_r.unsus_r[3]
#define X_SUS_CALLS g_r.sus_w[3]
#define X_UNSUS_CALLS g_r.unsus_w[3]
#define SUS_WHAT g_r.sus_r_what
#define UNSUS_WHAT g_r.unsus_r_what
#endif
#define HELD_ (IN.nmb & 1)                       /* the caller already holds the bufferevent's (recursive) lock */
#define O_TIMER (IN.ev_ins & 1)
#ifdef C22G_NO_RANGE
#define NL_(d) ((ev_ssize_t)((ev_uint64_t)O_L - (ev_uint64_t)(d)))    /* witness build: the specification itself must not overflow */
#else
#define NL_(d) (O_L - (d))
#endif
#define DOWN_(d) (O_L > 0 && NL_(d) <= 0)
#define UP_(d) (O_L <= 0 && NL_(d) > 0)
#define NO_OVF_(lvl, d) ((d) >= 0 ? (lvl) >= EV_SSIZE_MIN + (d) : (lvl) <= EV_SSIZE_MAX + (d))
VF_CONTRACT(int, pub_decrement_c, struct bufferevent *bev, ev_ssize_t decr)
__CPROVER_requires(bev == BEV && BEVP.rate_limiting == &RL && RL.cfg == &CFG)           /* EVUTIL_ASSERT at the head of the function */
#ifndef C22G_NO_RANGE                                                                     /* C22G_NO_RANGE: witness unit c22g_decrement_overflow (KF) */
__CPROVER_requires(NO_OVF_(LIM_, decr))                                                  /* level - decr representable: caller's obligation */
#endif
__CPROVER_requires(LIM_ == O_L && S_ == O_S && OTHER_ == O_OTHER && g_r.ev_timer == O_TIMER && g_r.ev_ins == O_TIMER)
__CPROVER_requires(g_lock_depth[1] == ((BEVP.lock && HELD_) ? 1 : 0) && g_lock_ops == 0 && g_r.n_add == 0 && g_r.n_add_fail == 0 && g_r.n_del == 0 && g_r.g_ev_add == 0)
__CPROVER_requires(g_r.sus_r[3] == 0 && g_r.sus_w[3] == 0 && g_r.unsus_r[3] == 0 && g_r.unsus_w[3] == 0)
__CPROVER_assigns(LIM_, S_, RL_GHOST_FRAME)
/* 1 accounting */
__CPROVER_ensures(LIM_ == NL_(decr))
/* 2 DOWN: suspend + one-tick refill timer, exactly once */
__CPROVER_ensures(IMP(DOWN_(decr), S_ == (O_S | BW_) && SUS_CALLS == 1 && SUS_WHAT == BW_ && UNSUS_CALLS == 0 && g_r.n_add == 1 && g_r.n_del == 0))
__CPROVER_ensures(IMP(DOWN_(decr) && g_r.n_add_fail == 0, g_r.ev_timer == 1 && g_r.tv_sec == IN.tick_sec && g_r.tv_usec == IN.tick_usec))
__CPROVER_ensures(__CPROVER_return_value == ((DOWN_(decr) && g_r.n_add_fail == 1) ? -1 : 0))
/* 3 UP: unsuspend; the timer is cancelled only if the other direction does not wait for it */
__CPROVER_ensures(IMP(UP_(decr), S_ == (O_S & ~BW_) && UNSUS_CALLS == 1 && UNSUS_WHAT == BW_ && SUS_CALLS == 0 && g_r.n_add == 0 && g_r.n_del == B(!(O_OTHER & BW_))))
__CPROVER_ensures(IMP(UP_(decr) && (O_OTHER & BW_), g_r.ev_timer == O_TIMER && g_r.ev_ins == O_TIMER))
/* 4 otherwise nothing */
__CPROVER_ensures(IMP(!DOWN_(decr) && !UP_(decr), S_ == O_S && SUS_CALLS == 0 && UNSUS_CALLS == 0 && g_r.n_add == 0 && g_r.n_del == 0 && g_r.ev_timer == O_TIMER && g_r.ev_ins == O_TIMER))
/* 5 the other direction and the group machinery are never called */
__CPROVER_ensures(X_SUS_CALLS == 0 && X_UNSUS_CALLS == 0 && g_r.g_ev_add == 0 && g_r.sus_r[0] + g_r.sus_r[1] + g_r.sus_r[2] + g_r.sus_w[0] + g_r.sus_w[1] + g_r.sus_w[2] == 0 && g_r.unsus_r[0] + g_r.unsus_r[1] + g_r.unsus_r[2] + g_r.unsus_w[0] + g_r.unsus_w[1] + g_r.unsus_w[2] == 0)
/* 6 C08: the bufferevent's lock is taken once and released; the group lock is not touched */
__CPROVER_ensures(g_lock_depth[1] == __CPROVER_old(g_lock_depth[1]) && g_lock_depth[2] == __CPROVER_old(g_lock_depth[2]) && g_lock_ops == (BEVP.lock ? 2 : 0))
;
#define SAFE_(lvl, s) (!((lvl) <= 0) || ((s) & BW_) != 0)
#define LIVE_(rs_, ws_, t) (!((((rs_) | (ws_)) & BW_) != 0) || (t) == 1)
void harness(void)
{
	int r, pre_inv;
	VF_LOAD_IN();
	vf_rl_build();
	__CPROVER_assume(IN.has_rlim && IN.has_cfg);
#ifndef C22G_NO_RANGE
	__CPROVER_assume(NO_OVF_(O_L, IN.bytes));
#else   /* reachable corner: burst EV_RATE_LIMIT_MAX (= EV_SSIZE_MAX, accepted by ev_token_bucket_cfg_new) gives a full bucket of EV_SSIZE_MAX; any manual refill then overflows */
	__CPROVER_assume(IN.lim_r >= 0 && (size_t)IN.lim_r <= IN.rm && IN.rm <= EV_RATE_LIMIT_MAX && IN.bytes < 0 && IN.bytes >= -4096);
#endif
	if (BEVP.lock && HELD_) g_lock_depth[1] = 1;
	pre_inv = SAFE_(IN.lim_r, IN.rs) && SAFE_(IN.lim_w, IN.ws) && LIVE_(IN.rs, IN.ws, O_TIMER);
	r = VF_CALL(pub_decrement_c, FN, BEV, IN.bytes);
	__CPROVER_assert(XLIM_ == O_XL && OTHER_ == O_OTHER, "the other direction's bucket and suspend word are untouched");
	__CPROVER_assert(GRP.rate_limit.read_limit == IN.glim_r && GRP.rate_limit.write_limit == IN.glim_w && GRP.total_read == IN.tot_r && GRP.total_written == IN.tot_w,
	    "no change in the buckets or totals of the bufferevent's group");
	__CPROVER_assert(IMP(pre_inv, SAFE_(RL.limit.read_limit, BEVP.read_suspended) && SAFE_(RL.limit.write_limit, BEVP.write_suspended)),
	    "C22 invariant preserved: a direction whose bucket is <= 0 is suspended for bandwidth");
	__CPROVER_assert(IMP(pre_inv && r == 0, LIVE_(BEVP.read_suspended, BEVP.write_suspended, g_r.ev_timer)),
	    "C22 invariant preserved: while a direction is suspended for bandwidth the one-tick refill timer is pending (progress within one tick)");
	__CPROVER_assert(IMP(LIVE_(IN.rs, IN.ws, O_TIMER) && (OTHER_ & BW_), g_r.ev_timer == 1),
	    "if the other direction is BW-suspended after the call, the refill timer is still pending");
	__CPROVER_assert(IMP(pre_inv && NL_(IN.bytes) > 0 && O_L <= 0, !(S_ & BW_)), "a manual refill that makes the bucket positive resumes the direction at once");
#ifdef VF_CANARY
	__CPROVER_assert(SUS_CALLS == 0, "canary: must fail (a manual decrement that exhausts the bucket suspends)");
#endif
}
