/* contracts/c31_read_cb.h — shared harness of the units c31_read_cb (RFC 6455 reference
 * decoder as the specification) and c31_read_cb_safety (memory safety, lock balance and drain
 * accounting only, on every input).  Real ws.c: ws_evhttp_read_cb -> get_ws_frame,
 * evws_force_disconnect_ -> evws_close.
 *
 * Input: ARBITRARY bytes IN.d[0..IN.n), n <= VF_WS_N, presented as the bufferevent's input
 * buffer (right-aligned: reads past the data are out of bounds).  Shape bound (harness
 * assumption, checked by unwinding assertions): the code performs at most VF_WS_FRAMES frame
 * steps and every complete frame has a payload of <= VF_WS_PAY bytes.  A connection that
 * already holds a non-final fragment (IN.pre_frag: incomplete_frames = IN.pre[0..pre_n)) is
 * part of the input space, so that two-frame runs cover "third frame of a message". */
#ifndef VF_WS_N
#define VF_WS_N 30
#endif
#ifndef VF_WS_FRAMES
#define VF_WS_FRAMES 2
#endif
#ifndef VF_WS_PAY
#define VF_WS_PAY 8
#endif
#define VF_WS_PRE 4                       /* bytes of an earlier, still incomplete message */
#define VF_WS_MSG (VF_WS_PRE + VF_WS_FRAMES * VF_WS_PAY)
#ifndef VF_EB_CAP
#define VF_EB_CAP 32
#endif
#define VF_EB_MAXCOPY (VF_WS_PAY > 4 ? VF_WS_PAY : 4)   /* single adds: one payload, or the 4-byte close frame */
#include "vf.h"
#include "ws.c"
struct in {
	unsigned n; unsigned char d[VF_WS_N];
	int pre_frag; int pre_type; unsigned pre_n; unsigned char pre[VF_WS_PRE];
	unsigned ch[VF_NCHOICE];
};
struct in IN;
#include "stubs/log.h"
#include "stubs/c31_evbuffer3.h"
#include "stubs/c31_ws_env.h"

static struct evws_connection WS;
static unsigned char D[VF_WS_N + 1];      /* the input bytes, flat (IN.d copied) */
static int CB_ARG;

/* ---------------- observation: the message callback ---------------- */
struct vf_msg { int type; size_t len; unsigned char d[VF_WS_MSG]; };
struct vf_msg g_dlv[VF_WS_FRAMES + 1]; int g_ndlv; int g_dlv_after_close; int g_dlv_locked;
static void vf_msg_cb(struct evws_connection *e, int type, const unsigned char *data, size_t len, void *arg)
{
	size_t i;
	__CPROVER_assert(e == &WS && arg == &CB_ARG, "message callback: connection and user argument passed through");
	__CPROVER_assert(len == 0 || __CPROVER_r_ok(data, len), "message callback: data[0..len) is readable");
	__CPROVER_assert(len <= VF_WS_MSG, "harness bound: message fits the observation record");
	if (WS.closed) g_dlv_after_close++;
	if (g_bev_lock > 0) g_dlv_locked++;
	if (g_ndlv <= VF_WS_FRAMES) {
		g_dlv[g_ndlv].type = type; g_dlv[g_ndlv].len = len;
		for (i = 0; i < VF_WS_MSG; i++) g_dlv[g_ndlv].d[i] = (i < len) ? data[i] : 0;
	}
	g_ndlv++;
}

/* ---------------- RFC 6455 reference decoder (section 5.2 framing, 5.4 fragmentation, 5.5 control frames) ----------------
 * The reference is lenient exactly where the property text does not demand strictness and the
 * library documents leniency: unmasked client frames, RSV bits, non-minimal length forms and
 * control frames with FIN=0 or > 125 bytes are accepted as the library accepts them (recorded
 * as notes, not alarms).  It is strict on what the property names: reserved opcodes, frames
 * above the limit, malformed fragmentation, nothing after close. */
#define WS_LIMIT ((ev_uint64_t)10485760)
struct vf_frame { int complete; int toobig; unsigned fin, op, masked; size_t hdr, pstart, plen, step; unsigned char pay[VF_WS_PAY]; };
static struct vf_frame ref_parse(const unsigned char *b, size_t n)
{
	struct vf_frame f; unsigned lf; ev_uint64_t pl; size_t i, ps;
	f.complete = 0; f.toobig = 0; f.fin = f.op = f.masked = 0; f.hdr = f.pstart = f.plen = f.step = 0;
	for (i = 0; i < VF_WS_PAY; i++) f.pay[i] = 0;
	if (n < 2) return f;
	f.fin = b[0] >> 7; f.op = b[0] & 0x0f; f.masked = b[1] >> 7; lf = b[1] & 0x7f;
	f.hdr = lf <= 125 ? 2 : lf == 126 ? 4 : 10;
	if (n < f.hdr) return f;
	if (lf <= 125) pl = lf;
	else if (lf == 126) pl = ((ev_uint64_t)b[2] << 8) | b[3];
	else { pl = 0; for (i = 0; i < 8; i++) pl = (pl << 8) | b[2 + i]; }
	if (lf == 127 && pl > WS_LIMIT) { f.toobig = 1; f.pstart = 10; f.step = 10; return f; }
	ps = f.hdr + (f.masked ? 4 : 0);
	/* sums are associated as ws.c associates them: SAT is slow on equalities of differently associated 64-bit sums */
	if ((ev_uint64_t)n < (pl + f.hdr) + (f.masked ? 4u : 0u)) return f;
	f.complete = 1; f.plen = (size_t)pl; f.pstart = ps; f.step = ps + f.plen;
	for (i = 0; i < VF_WS_PAY; i++) if (i < f.plen) f.pay[i] = f.masked ? (unsigned char)(b[ps + i] ^ b[f.hdr + (i & 3)]) : b[ps + i];
	return f;
}
#define OP_RESERVED(op) (((op) >= 3 && (op) <= 7) || (op) >= 0xb)

/* reference state */
struct vf_msg R_dlv[VF_WS_FRAMES + 1]; int R_ndlv; int R_closed;
int R_infrag, R_fragtype; size_t R_fraglen; unsigned char R_frag[VF_WS_MSG];
size_t R_consumed;                /* bytes the decoder consumed while the connection was open */
int R_pings; unsigned char R_pong[VF_WS_FRAMES * (2 + VF_WS_PAY)]; size_t R_ponglen;
/* input classes on which the real code is known to deviate from the reference (see unit header) */
int K_contfin, K_afterclose, K_dataInFrag, K_contNoFrag;
size_t S_steps;                   /* frame steps the CODE performs (it keeps parsing after a close) */

static void ref_deliver(int type, const unsigned char *p, size_t n)
{
	size_t i;
	if (R_ndlv <= VF_WS_FRAMES) { R_dlv[R_ndlv].type = type; R_dlv[R_ndlv].len = n; for (i = 0; i < VF_WS_MSG; i++) R_dlv[R_ndlv].d[i] = i < n ? p[i] : 0; }
	R_ndlv++;
}
static void ref_close(void) { R_closed = 1; }
static void ref_frame(const struct vf_frame *f)
{
	size_t i;
	if (R_closed) { K_afterclose = 1; return; }               /* nothing after the connection is closed */
	R_consumed += f->pstart; R_consumed += f->plen;    /* == f->step, added as header then payload */
	if (f->toobig || OP_RESERVED(f->op)) { ref_close(); return; }
	if (f->op == 0x8) { ref_close(); return; }
	if (f->op == 0x9) {                                         /* ping: RFC 5.5.2/5.5.3 pong with the same payload */
		R_pings++; R_pong[R_ponglen++] = 0x8a; R_pong[R_ponglen++] = (unsigned char)f->plen;
		for (i = 0; i < VF_WS_PAY; i++) if (i < f->plen) R_pong[R_ponglen++] = f->pay[i];
		return;
	}
	if (f->op == 0xa) return;
	if (f->op == 1 || f->op == 2) {
		if (R_infrag) { K_dataInFrag = 1; ref_close(); return; }  /* 5.4: new data frame inside a fragmented message */
		if (f->fin) { ref_deliver(f->op, f->pay, f->plen); return; }
		R_infrag = 1; R_fragtype = f->op; R_fraglen = 0;
		for (i = 0; i < VF_WS_PAY; i++) if (i < f->plen) R_frag[R_fraglen++] = f->pay[i];
		return;
	}
	/* continuation */
	if (!R_infrag) { K_contNoFrag = 1; ref_close(); return; }    /* 5.4: nothing to continue */
	for (i = 0; i < VF_WS_PAY; i++) if (i < f->plen) R_frag[R_fraglen++] = f->pay[i];
	if (f->fin) { K_contfin = 1; ref_deliver(R_fragtype, R_frag, R_fraglen); R_infrag = 0; R_fraglen = 0; }
}

void harness(void)
{
	size_t p, rem, i; int k, steps_ok = 1, stopped = 0;
	VF_LOAD_IN(); VF_EB_RESET(); VF_WS_ENV_RESET();
	__CPROVER_assume(IN.n <= VF_WS_N && IN.pre_n <= VF_WS_PRE);
	/* ---- reference run + shape bound over the input bytes ---- */
	R_ndlv = 0; R_closed = 0; R_infrag = 0; R_fragtype = 0; R_fraglen = 0; R_consumed = 0; R_pings = 0; R_ponglen = 0;
	K_contfin = K_afterclose = K_dataInFrag = K_contNoFrag = 0; S_steps = 0;
	if (IN.pre_frag) {
		__CPROVER_assume(IN.pre_type == 1 || IN.pre_type == 2);
		R_infrag = 1; R_fragtype = IN.pre_type; for (i = 0; i < VF_WS_PRE; i++) if (i < IN.pre_n) R_frag[R_fraglen++] = IN.pre[i];
	}
	for (i = 0; i < VF_WS_N; i++) D[i] = IN.d[i];
	p = 0; rem = IN.n;
	for (k = 0; k <= VF_WS_FRAMES; k++) {
		struct vf_frame f;
		if (stopped) break;
		f = ref_parse(&D[p], rem);
		if (!f.complete && !f.toobig) { stopped = 1; break; }
		if (k == VF_WS_FRAMES) { steps_ok = 0; break; }
		if (f.complete && f.plen > VF_WS_PAY) { steps_ok = 0; break; }
		ref_frame(&f);
		p += f.pstart; p += f.plen; rem -= f.pstart; rem -= f.plen; S_steps++;   /* as the code drains: header, then payload */
	}
	__CPROVER_assume(steps_ok);         /* shape bound: <= VF_WS_FRAMES frame steps, payloads <= VF_WS_PAY */
#ifdef VF_KF_EXCLUDE
	__CPROVER_assume(!K_contfin && !K_afterclose && !K_dataInFrag && !K_contNoFrag);
#endif
#ifdef VF_KF_ONLY
	__CPROVER_assume(K_contfin || K_afterclose || K_dataInFrag || K_contNoFrag);
#endif
	/* ---- the connection ---- */
	WS.bufev = &BEV; WS.cb = vf_msg_cb; WS.cb_arg = &CB_ARG; WS.cbclose = 0; WS.cbclose_arg = 0; WS.http_server = 0;
	WS.closed = false; WS.incomplete_frames = 0;
	if (IN.pre_frag) {
		WS.incomplete_frames = evbuffer_new();
		for (i = 0; i < VF_WS_PRE; i++) if (i < IN.pre_n) vf_d2[vf_len[2]++] = IN.pre[i];
	}
	vf_len[0] = IN.n; vf_start[0] = VF_EB_CAP - IN.n;            /* right-aligned: the data ENDS at the object's end */
	for (i = 0; i < VF_WS_N; i++) if (i < IN.n) vf_d0[vf_start[0] + i] = D[i];
	g_ndlv = 0; g_dlv_after_close = 0; g_dlv_locked = 0;

	ws_evhttp_read_cb(&BEV, &WS);

	/* ---- safety / bookkeeping obligations: every input ---- */
	__CPROVER_assert(g_bev_lock == 0 && g_bev_ref == 0 && g_bev_lock_calls == 1, "bufferevent locked and referenced once, released on every exit");
	__CPROVER_assert(g_dlv_locked == g_ndlv, "messages are delivered with the bufferevent lock held and the reference owned");
	__CPROVER_assert(vf_drained[0] + vf_len[0] == IN.n, "input: drained + remaining == received");
	__CPROVER_assert(IMP(!R_closed, vf_drained[0] == R_consumed), "open connection: exactly header+payload of every complete frame is drained, trailing incomplete data stays");
	__CPROVER_assert(vf_drained[0] >= R_consumed, "frames before the close are drained completely");
	__CPROVER_assert(IMP(WS.incomplete_frames == 0, g_inc_live == 0) && IMP(WS.incomplete_frames != 0, WS.incomplete_frames == &EVB[2] && g_inc_live == 1), "incomplete_frames is NULL or the one live buffer (no leak, no dangling pointer)");
	__CPROVER_assert(IMP(WS.closed, g_setcb_calls >= 1 && g_setcb_read == 0 && g_setcb_arg == &WS), "close: read callback removed, close-after-write installed");
	__CPROVER_assert(IMP(!WS.closed, g_setcb_calls == 0 && vf_len[1] == 0) , "no close: callbacks untouched, no close frame written");
	__CPROVER_assert(IMP(WS.closed, vf_len[1] >= 4 && vf_d1[vf_start[1] + vf_len[1] - 4] == 0x88 && vf_d1[vf_start[1] + vf_len[1] - 3] == 0x02), "close: the last thing written is a close frame 88 02 hi lo");
#ifndef VF_WS_SAFETY_ONLY
	/* ---- C31: exactly the messages of the reference decoder ---- */
	__CPROVER_assert(g_dlv_after_close == 0, "nothing is delivered after the connection is closed");
	__CPROVER_assert((int)WS.closed == R_closed, "connection closed iff the reference decoder fails/closes it (close frame, reserved opcode, over-limit length, malformed fragmentation)");
	__CPROVER_assert(g_ndlv == R_ndlv, "number of delivered messages == reference");
	for (k = 0; k < VF_WS_FRAMES; k++) {
		if (k < g_ndlv && k < R_ndlv) {
			__CPROVER_assert(g_dlv[k].type == R_dlv[k].type, "delivered message type == reference (type of the FIRST fragment)");
			__CPROVER_assert(g_dlv[k].len == R_dlv[k].len, "delivered message length == reference");
			for (i = 0; i < VF_WS_MSG; i++) __CPROVER_assert(g_dlv[k].d[i] == R_dlv[k].d[i], "delivered message payload == reference (unmasked, fragments concatenated in order)");
		}
	}
	/* the same, clause by clause for the input classes on which ws.c is known to deviate (these texts identify the findings) */
	__CPROVER_assert(IMP(K_contfin && !K_afterclose && !K_dataInFrag && !K_contNoFrag, !WS.closed && g_ndlv == R_ndlv), "RFC 6455 5.4: a final continuation frame (opcode 0, FIN) delivers the assembled message and keeps the connection open");
	__CPROVER_assert(IMP(K_dataInFrag, WS.closed && g_ndlv == R_ndlv), "RFC 6455 5.4: a text/binary frame inside a fragmented message is malformed fragmentation: connection closed, nothing delivered");
	__CPROVER_assert(IMP(K_contNoFrag, WS.closed && g_ndlv == R_ndlv), "RFC 6455 5.4: a continuation frame with nothing to continue is malformed fragmentation: connection closed, nothing delivered");
	/* a fragmented message still in progress is held back completely */
	__CPROVER_assert(IMP(!R_closed, (WS.incomplete_frames != 0) == (R_infrag != 0)), "open connection: a partial message is pending iff the reference has one");
	if (!R_closed && R_infrag && WS.incomplete_frames != 0) {
		__CPROVER_assert(vf_len[2] == R_fraglen, "pending partial message length == reference");
		for (i = 0; i < VF_WS_MSG; i++) if (i < R_fraglen) __CPROVER_assert(vf_d2[vf_start[2] + i] == R_frag[i], "pending partial message bytes == reference");
	}
	/* bytes written back: a close frame iff closed; a pong per ping is what RFC 5.5.2 asks for and
	 * is tolerated, its absence (what ws.c does) is recorded as a note, not an alarm */
	{
		size_t cl = R_closed ? 4 : 0; int with_pong = (vf_len[1] == R_ponglen + cl), without = (vf_len[1] == cl);
		__CPROVER_assert(with_pong || without, "bytes written back: [one pong per ping, same payload]? then a 4-byte close frame iff closed");
		if (with_pong && !without) for (i = 0; i < sizeof(R_pong); i++) if (i < R_ponglen) __CPROVER_assert(vf_d1[vf_start[1] + i] == R_pong[i], "pong carries the ping's payload");
	}
#endif
#ifdef VF_CANARY
	__CPROVER_assert(!(g_ndlv == 1 && g_dlv[0].type == 2 && g_dlv[0].len == 2 && g_dlv[0].d[1] == 0x55 && !WS.closed && vf_len[0] == 1), "canary: must fail (a binary message of 2 bytes followed by one byte of the next frame is deliverable)");
#endif
}
