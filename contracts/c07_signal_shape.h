/* c07_signal_shape.h — ghost kernel signal-disposition table behind a sigaction(2) stub, the
 * saved-handler array sh_old of struct evsig_info, allocator/memset models for its growth, and
 * the vocabulary of the C07 units.  Signal numbers range over all of [0, NSIG): nothing is bounded.
 * Two-phase include (struct first, bodies after `struct in IN;` with C07_BODY defined). */
#ifndef C07_SIGNAL_SHAPE_H_1
#define C07_SIGNAL_SHAPE_H_1
struct c07_sa_in { long handler_id; int flags; unsigned long m0, m1; };    /* a disposition, flattened */
struct c07_in {
	int sig;                           /* the signal under operation */
	int w;                             /* witness: another signal */
	int sh_old_max;                    /* size of the saved-handler array before the call, 0..NSIG */
	int slot_saved, wslot_saved;       /* sh_old[sig] / sh_old[w] hold a saved disposition */
	struct c07_sa_in cur, wcur;        /* kernel disposition of sig and of w before the call */
	struct c07_sa_in saved, wsaved;    /* contents of the saved slots */
};
#endif
#if defined(C07_BODY) && !defined(C07_SIGNAL_SHAPE_H_2)
#define C07_SIGNAL_SHAPE_H_2
/* <signal.h> defines sa_handler as the self-referential macro __sigaction_handler.sa_handler, which the native
 * replay generator would expand twice: undefine it (the real TU is already included) and name the member in full. */
#undef sa_handler
#define C07_H(x) ((x).__sigaction_handler.sa_handler)
static struct event_base BASE;
/* ghost: the kernel's disposition table, restricted to the two signals the contracts talk about
 * (IN.s.sig and the witness IN.s.w); a sigaction call on any other signal is an obligation failure.
 * (A full NSIG-entry table of 152-byte records indexed symbolically does not terminate.) */
static struct sigaction D_SIG, D_W;
#define G_DISPP(s_) ((s_) == IN.s.sig ? &D_SIG : &D_W)
static struct sigaction *SHOLD[NSIG], *NEWSH[NSIG];   /* saved-handler array before the call / after a growth */
static struct sigaction O_CUR, O_WCUR, O_SAVED, O_WSAVED;   /* pre-state snapshots */
static struct sigaction *O_SLOT, *O_WSLOT;
static char C07_HFN[4];                               /* handler "functions": addresses used as identities */
int g_sigaction_calls, g_sigaction_ok, g_sigaction_sets;
int g_mm_realloc_calls, g_mm_realloc_ok; size_t g_mm_realloc_sz;
#define C07_OLDSH (IN.s.sh_old_max == 0 ? (struct sigaction **)NULL : SHOLD)
#define SAEQ(a, b) (C07_H(a) == C07_H(b) && (a).sa_flags == (b).sa_flags && (a).sa_mask.__val[0] == (b).sa_mask.__val[0] && (a).sa_mask.__val[1] == (b).sa_mask.__val[1])
#define C07_MKSA(dst, src) do { C07_H(dst) = (void (*)(int))(void *)&C07_HFN[(src).handler_id & 3]; (dst).sa_flags = (src).flags; (dst).sa_mask.__val[0] = (src).m0; (dst).sa_mask.__val[1] = (src).m1; } while (0)

/* sigaction(2): may fail (then nothing changes); otherwise reports the old disposition and/or installs the new one */
int sigaction(int sig, const struct sigaction *act, struct sigaction *oact)
{
	g_sigaction_calls++;
	__CPROVER_assert(sig == IN.s.sig || sig == IN.s.w, "sigaction: only on the signal under operation (or the witness)");
	if (VF_CHOOSE() & 1u) { errno = EINVAL; return -1; }
	g_sigaction_ok++;
	if (oact) *oact = *G_DISPP(sig);
	if (act) { *G_DISPP(sig) = *act; g_sigaction_sets++; }
	return 0;
}
int sigfillset(sigset_t *set) { int k_; for (k_ = 0; k_ < (int)(sizeof(set->__val) / sizeof(set->__val[0])); k_++) set->__val[k_] = ~0ul; return 0; }

#ifdef VF_MM_NO_REALLOC
/* growth of sh_old: the new array is the static NEWSH; the two slots the contracts talk about
 * (IN.s.sig, IN.s.w) are copied, the others stay arbitrary (copying is realloc's contract) */
void *event_mm_realloc_(void *p, size_t sz)
{
	g_mm_realloc_calls++; g_mm_realloc_sz = sz;
	__CPROVER_assert(p == (void *)C07_OLDSH, "realloc: of the saved-handler array");
	__CPROVER_assert(sz <= sizeof(NEWSH) && sz >= (size_t)IN.s.sh_old_max * sizeof(void *), "realloc: at most NSIG slots, not shrinking");
	if (VF_CHOOSE() & 1u) { g_mm_realloc_ok = 0; errno = ENOMEM; return NULL; }
	g_mm_realloc_ok = 1;
	if (IN.s.sig < IN.s.sh_old_max) NEWSH[IN.s.sig] = SHOLD[IN.s.sig];
	if (IN.s.w < IN.s.sh_old_max) NEWSH[IN.s.w] = SHOLD[IN.s.w];
	return NEWSH;
}
#ifndef VF_NATIVE
static const struct sigaction C07_ZERO_SA;
/* memset: (a) clearing a struct sigaction on the stack; (b) zeroing the fresh tail of the grown
 * sh_old array (symbolic length, guide pitfall 2): range-checked, zeroes the two observed slots */
void *memset(void *s, int c, size_t n)
{
	__CPROVER_assert(c == 0, "memset: zero fill");
	if (__CPROVER_same_object(s, NEWSH)) {
		size_t off = (size_t)((char *)s - (char *)NEWSH);
		__CPROVER_assert(off <= g_mm_realloc_sz && n == g_mm_realloc_sz - off && off == (size_t)IN.s.sh_old_max * sizeof(void *), "memset: exactly the slots beyond the old array");
		if ((size_t)IN.s.sig * sizeof(void *) >= off && ((size_t)IN.s.sig + 1) * sizeof(void *) <= off + n) NEWSH[IN.s.sig] = NULL;
		if ((size_t)IN.s.w * sizeof(void *) >= off && ((size_t)IN.s.w + 1) * sizeof(void *) <= off + n) NEWSH[IN.s.w] = NULL;
	} else {
		__CPROVER_assert(n == sizeof(struct sigaction) && __CPROVER_w_ok(s, n), "memset: a struct sigaction");
		*(struct sigaction *)s = C07_ZERO_SA;
	}
	return s;
}
#endif
#endif

/* Pre-state.  sh_old_max in 0..NSIG; slots below it are NULL or own a heap struct sigaction. */
static void c07_build(void)
{
	__CPROVER_assume(IN.s.sig >= 0 && IN.s.sig < NSIG && IN.s.w >= 0 && IN.s.w < NSIG && IN.s.w != IN.s.sig);
	__CPROVER_assume(IN.s.sh_old_max >= 0 && IN.s.sh_old_max <= NSIG);
	C07_MKSA(D_SIG, IN.s.cur); C07_MKSA(D_W, IN.s.wcur);
	O_CUR = D_SIG; O_WCUR = D_W;
	O_SLOT = NULL; O_WSLOT = NULL;
	if (IN.s.sig < IN.s.sh_old_max) {
		if (IN.s.slot_saved) { O_SLOT = malloc(sizeof(struct sigaction)); __CPROVER_assume(O_SLOT != NULL); C07_MKSA(*O_SLOT, IN.s.saved); O_SAVED = *O_SLOT; g_mm_live++; }
		SHOLD[IN.s.sig] = O_SLOT;
	}
	if (IN.s.w < IN.s.sh_old_max) {
		if (IN.s.wslot_saved) { O_WSLOT = malloc(sizeof(struct sigaction)); __CPROVER_assume(O_WSLOT != NULL); C07_MKSA(*O_WSLOT, IN.s.wsaved); O_WSAVED = *O_WSLOT; g_mm_live++; }
		SHOLD[IN.s.w] = O_WSLOT;
	}
	BASE.sig.sh_old = C07_OLDSH; BASE.sig.sh_old_max = IN.s.sh_old_max;
	g_sigaction_calls = 0; g_sigaction_ok = 0; g_sigaction_sets = 0; g_mm_realloc_calls = 0; g_mm_realloc_ok = 0; g_mm_realloc_sz = 0;
}
#endif
