/* contracts/c19_ref_unit.h — shared body of c19_decref / c19_incref / c19_free (one enforced function per unit;
 * the unit defines C19_REF_WHICH 0/1/2).  Real bufferevent.c.
 * C10/C19: bufferevent_decref_and_unlock_ decrements the count by exactly one (callers hold a reference: refcnt >= 1,
 * so it never goes below 0), returns 1 iff it reached 0; at 0 the type's unlink op runs once and ONE finalize batch is
 * scheduled over exactly the bufferevent's callbacks (read event, write event, deferred callback, the rate-limit
 * refill event if initialised, the deferred callbacks of the two buffers) with bufferevent_finalize_cb_, while the
 * lock is still held; afterwards only the lock is released.  C08: lock released exactly once.
 * bufferevent_free: all four user callbacks cleared BEFORE the reference is dropped, pending operations cancelled. */
#include "c18_bev_unit.h"
int O_refcnt, O_depth;
#define NCBS_EXPECT (3 + B(IN.has_rlim && IN.rlim_init) + B(IN.in_defer & 1) + B(IN.out_defer & 1))
#define REF_FRAME BEVP.refcnt, BEV_GHOST_FRAME

VF_CONTRACT(int, decref_c, struct bufferevent *bufev)
__CPROVER_requires(bufev == BEV && BEVP.refcnt >= 1)
__CPROVER_requires(g_lock_depth[1] == O_depth && IMP(BEVP.lock != NULL, O_depth >= 1 && O_depth <= 3) && IMP(BEVP.lock == NULL, O_depth == 0))   /* called with the lock held */
__CPROVER_requires(g_e.fin_calls == 0 && g_e.unlink_calls == 0 && g_e.fin_has_read == 0 && g_e.fin_has_write == 0 && g_e.fin_has_deferred == 0 && g_e.fin_has_refill == 0 && g_e.fin_has_inbuf == 0 && g_e.fin_has_outbuf == 0)
__CPROVER_assigns(REF_FRAME)
__CPROVER_ensures(BEVP.refcnt == O_refcnt - 1 && BEVP.refcnt >= 0)
__CPROVER_ensures(__CPROVER_return_value == B(BEVP.refcnt == 0))
__CPROVER_ensures(g_e.fin_calls == B(BEVP.refcnt == 0) && g_e.unlink_calls == B(BEVP.refcnt == 0 && IN.has_unlink))
__CPROVER_ensures(IMP(g_e.fin_calls == 1, g_e.fin_cb_ok && g_e.fin_ncbs == NCBS_EXPECT && g_e.fin_lockdepth == HELD(O_depth)))
__CPROVER_ensures(IMP(g_e.fin_calls == 1, g_e.fin_has_read == 1 && g_e.fin_has_write == 1 && g_e.fin_has_deferred == 1 && g_e.fin_has_refill == B(IN.has_rlim && IN.rlim_init) && g_e.fin_has_inbuf == B(IN.in_defer & 1) && g_e.fin_has_outbuf == B(IN.out_defer & 1)))
__CPROVER_ensures(g_lock_depth[1] == (BEVP.lock ? O_depth - 1 : 0))
;
VF_CONTRACT_V(incref_c, struct bufferevent *bufev)
__CPROVER_requires(bufev == BEV && BEVP.refcnt >= 0 && BEVP.refcnt < INT_MAX)
__CPROVER_requires(g_lock_depth[1] == O_depth && O_depth >= 0 && O_depth <= 3)
__CPROVER_assigns(REF_FRAME)
__CPROVER_ensures(BEVP.refcnt == O_refcnt + 1 && g_lock_depth[1] == (BEVP.lock ? O_depth + 1 : O_depth) && g_e.fin_calls == 0)
;
VF_CONTRACT_V(free_c, struct bufferevent *bufev)
__CPROVER_requires(bufev == BEV && BEVP.refcnt >= 1 && g_lock_depth[1] == 0)
__CPROVER_requires(g_e.fin_calls == 0 && g_e.unlink_calls == 0 && g_e.ctrl_calls == 0 && g_e.fin_has_read == 0 && g_e.fin_has_write == 0 && g_e.fin_has_deferred == 0 && g_e.fin_has_refill == 0 && g_e.fin_has_inbuf == 0 && g_e.fin_has_outbuf == 0)
__CPROVER_assigns(REF_FRAME, BEV->readcb, BEV->writecb, BEV->errorcb, BEV->cbarg)
/* no callback can run after bufferevent_free: every user callback is cleared (the deferred runner calls nothing for NULL callbacks: c19_deferred_*) */
__CPROVER_ensures(BEV->readcb == NULL && BEV->writecb == NULL && BEV->errorcb == NULL && BEV->cbarg == NULL)
__CPROVER_ensures(g_e.ctrl_calls == B(IN.has_ctrl) && IMP(g_e.ctrl_calls == 1, g_e.ctrl_op == (int)BEV_CTRL_CANCEL_ALL))
__CPROVER_ensures(BEVP.refcnt == O_refcnt - 1 && g_e.fin_calls == B(BEVP.refcnt == 0) && g_e.unlink_calls == B(BEVP.refcnt == 0 && IN.has_unlink))
__CPROVER_ensures(IMP(g_e.fin_calls == 1, g_e.fin_cb_ok && g_e.fin_ncbs == NCBS_EXPECT && g_e.fin_lockdepth == HELD(1)))
__CPROVER_ensures(g_lock_depth[1] == 0 && g_e.nseq == 0)
;

void harness(void)
{
	int r = 0;
	VF_LOAD_IN();
	vf_bev_build();
	O_refcnt = IN.refcnt;
#if C19_REF_WHICH == 0
	__CPROVER_assume(IN.refcnt >= 1);
	O_depth = BEVP.lock ? 1 + (IN.options & 1) + ((IN.options >> 1) & 1) : 0;     /* held once, twice or three times (recursive lock) */
	g_lock_depth[1] = O_depth;
	r = VF_CALL(decref_c, bufferevent_decref_and_unlock_, BEV);
#elif C19_REF_WHICH == 1
	__CPROVER_assume(IN.refcnt >= 0 && IN.refcnt < INT_MAX);
	O_depth = BEVP.lock ? (IN.options & 3) : 0;
	g_lock_depth[1] = O_depth;
	VF_CALL_V(incref_c, bufferevent_incref_and_lock_, BEV);
#else
	__CPROVER_assume(IN.refcnt >= 1);
	O_depth = 0;
	VF_CALL_V(free_c, bufferevent_free, BEV);
#endif
	(void)r;
	__CPROVER_assert(BEVP.readcb_pending == (IN.rp & 1) && BEVP.writecb_pending == (IN.wp & 1) && BEVP.eventcb_pending == IN.ep && BEV->enabled == IN.enabled && BEVP.read_suspended == IN.rs, "frame: nothing else of the bufferevent is written");
	__CPROVER_assert(g_e.nseq == 0 && g_e.en_calls == 0 && g_e.dis_calls == 0, "no user callback, no enable/disable");
#ifdef VF_CANARY
#if C19_REF_WHICH == 1
	__CPROVER_assert(BEVP.refcnt != 7, "canary: must fail (7 is a possible count)");
#else
	__CPROVER_assert(g_e.fin_calls == 0, "canary: must fail (dropping the last reference schedules finalization)");
#endif
#endif
}
