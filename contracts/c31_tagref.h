/* contracts/c31_tagref.h — reference readers for the tagged-data wire format documented at the
 * top of event_tagging.c, used by the c42_* units as the specification on ARBITRARY bytes:
 *   Tag     = HByte* LByte   (7 bits per byte, least significant group first, high bit = more)
 *   Integer = NNibbles Nibble* Padding?   (first nibble = number of nibbles - 1; 1 + nibbles/2 bytes)
 *   TaggedData = Tag Length(Integer) Data
 * Nibble j (j = 1..nibbles) of the stream sits in byte j/2, low half if j is odd, high half if
 * even, and carries bits 4(j-1).. of the value — the layout ENCODE_INT_INTERNAL produces (the
 * round trip with the real encoder is proved in c42_int_roundtrip).
 * All functions read only b[0..n). */
#ifndef VF_C31_TAGREF_H_
#define VF_C31_TAGREF_H_
/* returns the encoded length (1..5) or -1: no terminating byte within n, or value >= 2^32 */
static int ref_tag(const unsigned char *b, size_t n, ev_uint32_t *out)
{
	ev_uint64_t v = 0; int i;
	for (i = 0; i < 5; i++) {
		if ((size_t)i >= n) return -1;
		v |= (ev_uint64_t)(b[i] & 0x7f) << (7 * i);
		if (!(b[i] & 0x80)) { if (v > 0xffffffffu) return -1; *out = (ev_uint32_t)v; return i + 1; }
	}
	return -1;   /* five continuation bytes: more than 32 bits */
}
/* returns the encoded length (1..maxnib/2+1) or -1: empty, more than maxnib nibbles, or truncated */
static int ref_int(const unsigned char *b, size_t n, int maxnib, ev_uint64_t *out)
{
	int nib, bytes, j; ev_uint64_t v = 0;
	if (n == 0) return -1;
	nib = (b[0] >> 4) + 1;
	if (nib > maxnib) return -1;
	bytes = nib / 2 + 1;
	if ((size_t)bytes > n) return -1;
	for (j = 16; j >= 1; j--) if (j <= nib) v = (v << 4) | ((j & 1) ? (b[j / 2] & 0x0f) : (b[j / 2] >> 4));
	*out = v;
	return bytes;
}
/* header = Tag Length; returns header length or -1; *plen = payload length field */
static int ref_header(const unsigned char *b, size_t n, ev_uint32_t *ptag, ev_uint32_t *plen)
{
	int tl, il; ev_uint64_t l;
	tl = ref_tag(b, n, ptag);
	if (tl < 0) return -1;
	il = ref_int(b + tl, n - (size_t)tl, 8, &l);
	if (il < 0) return -1;
	*plen = (ev_uint32_t)l;
	return tl + il;
}
#endif
