/* contracts/c01_loop_harness.h — plain assert-harness (bounded integration lemma) for the two expiry
 * loops of event.c: timeout_process (heap timers) and common_timeout_callback (one common queue).
 * EVERYTHING below the loop is the REAL code: min_heap_*, event_del_nolock_, event_queue_*,
 * event_active_nolock_, event_callback_activate_nolock_, evthread_notify_base, event_add_nolock_,
 * common_timeout_schedule.  Only evmap_*_del_ (other TU) is a counting stub, and the clock is the
 * base's cached time (gettime's real cache path).  The loops walk-and-mutate linked structures, so
 * they are bounded stand-ins: at most C01_NT pending timers (all deadlines, priorities symbolic).
 * C01_LOOP_OP: 1 timeout_process, 2 common_timeout_callback. */
#ifndef C01_NT
#define C01_NT 3
#endif
#define NT C01_NT
#define NQL 2                              /* activequeues materialised */
struct in {
	unsigned n; long sec[4], usec[4]; unsigned char pri[4]; unsigned char ins[4], act[4];
	long now_sec, now_usec; int has_lock, threads, running_loop, has_notify_fn; unsigned long owner, self;
	unsigned cidx; int n_common;
};
struct in IN;
static struct event_base BASE;
static struct evcallback_list AQ[NQL];
static struct event T_0, T_1, T_2, T_3;
static struct event *const TP[4] = { &T_0, &T_1, &T_2, &T_3 };
#define T(j) (*TP[j])
static struct event *P[8];
static struct common_timeout_list CTL;
static struct common_timeout_list *CTQ[256];
int g_io_dels, g_notify_calls;
static unsigned long self_id_; static unsigned long id_fn(void) { return self_id_; }
static int notify_fn(struct event_base *b) { (void)b; g_notify_calls++; return 0; }
int evmap_io_del_(struct event_base *base, evutil_socket_t fd, struct event *ev) { (void)base; (void)fd; (void)ev; g_io_dels++; return 0; }
int evmap_signal_del_(struct event_base *base, int sig, struct event *ev) { (void)base; (void)sig; (void)ev; __CPROVER_assert(0, "no signal events in this harness"); return 0; }
int evmap_io_add_(struct event_base *base, evutil_socket_t fd, struct event *ev) { (void)base; (void)fd; (void)ev; __CPROVER_assert(0, "no I/O registration expected in an expiry loop"); return 0; }
int evmap_signal_add_(struct event_base *base, int sig, struct event *ev) { (void)base; (void)sig; (void)ev; __CPROVER_assert(0, "no signal registration expected in an expiry loop"); return 0; }

#define USEC_MASK 0xfffffL
#define DUE(j) (IN.sec[j] < IN.now_sec || (IN.sec[j] == IN.now_sec && IN.usec[j] <= IN.now_usec))
#define TLE(a, b) ((a)->ev_timeout.tv_sec == (b)->ev_timeout.tv_sec ? ((a)->ev_timeout.tv_usec & USEC_MASK) <= ((b)->ev_timeout.tv_usec & USEC_MASK) : (a)->ev_timeout.tv_sec < (b)->ev_timeout.tv_sec)
static int is_timer(const struct event *e) { unsigned j; for (j = 0; j < 4; j++) if (e == TP[j]) return 1; return 0; }
static int heap_ok(void)
{
	unsigned i;
	for (i = 0; i < 8; i++) {
		if (i >= BASE.timeheap.n) break;
		if (!(is_timer(P[i]) || P[i] == &CTL.timeout_event)) return 0;
		if (P[i]->ev_timeout_pos.min_heap_idx != i) return 0;
		if (!(P[i]->ev_flags & EVLIST_TIMEOUT)) return 0;
		if (i > 0 && evutil_timercmp(&P[(i - 1) / 2]->ev_timeout, &P[i]->ev_timeout, >)) return 0;
	}
	return 1;
}
/* number of times e occurs in the active queue of its priority; *pos = its position; the queue is a well-formed TAILQ */
static int occurrences(const struct event *e, int *well_formed)
{
	struct event_callback *c, **pp; int k, cnt = 0;
	struct evcallback_list *q = &AQ[e->ev_pri];
	pp = &q->tqh_first;
	for (k = 0, c = q->tqh_first; k < 6; k++) {
		if (!c) break;
		if (c->evcb_active_next.tqe_prev != pp) *well_formed = 0;
		if (c == &e->ev_evcallback) cnt++;
		pp = &c->evcb_active_next.tqe_next; c = c->evcb_active_next.tqe_next;
	}
	if (c != NULL || q->tqh_last != pp) *well_formed = 0;
	return cnt;
}
static void base_setup(void)
{
	unsigned k;
	BASE.activequeues = AQ; BASE.nactivequeues = NQL;
	for (k = 0; k < NQL; k++) TAILQ_INIT(&AQ[k]);
	TAILQ_INIT(&BASE.active_later_queue);
	BASE.timeheap.p = P; BASE.timeheap.n = 0; BASE.timeheap.a = 8;
	__CPROVER_assume(IN.now_sec >= 1 && IN.now_sec <= ((long)1 << 40) && IN.now_usec >= 0 && IN.now_usec < 1000000);
	BASE.tv_cache.tv_sec = IN.now_sec; BASE.tv_cache.tv_usec = IN.now_usec;       /* the loop's cached clock reading */
	BASE.th_base_lock = (IN.has_lock & 1) ? VF_LOCK_COOKIE(1) : NULL;
	if (BASE.th_base_lock) g_lock_depth[1] = 1;
	self_id_ = IN.self; evthread_id_fn_ = (IN.threads & 1) ? id_fn : NULL;
	BASE.th_owner_id = IN.owner; BASE.running_loop = IN.running_loop & 1;
	BASE.th_notify_fn = (IN.has_notify_fn & 1) ? notify_fn : NULL; BASE.is_notify_pending = 0;
	BASE.event_running_priority = -1; BASE.current_event = NULL; BASE.current_event_cond = NULL;
	__CPROVER_assume(IN.n_common >= 0 && IN.n_common <= 256);
#if C01_LOOP_OP == 1
	__CPROVER_assume(IN.n_common == 0);    /* heap timers only: no common timeouts registered */
	BASE.n_common_timeouts = 0;
#else
	BASE.n_common_timeouts = IN.n_common;
#endif BASE.common_timeout_queues = CTQ;
	BASE.event_count = 0; BASE.event_count_active = 0; BASE.virtual_event_count = 0;
	event_debug_mode_on_ = 0; event_debug_mode_too_late = 1; event_debug_map_lock_ = NULL;
	mm_malloc_fn_ = NULL; mm_realloc_fn_ = NULL; mm_free_fn_ = NULL;
	g_io_dels = 0; g_notify_calls = 0;
}
static void timer_setup(unsigned j, long magic)
{
	struct event *e = TP[j];
	__CPROVER_assume(IN.sec[j] >= 0 && IN.sec[j] <= ((long)1 << 40) && IN.usec[j] >= 0 && IN.usec[j] < 1000000 && IN.pri[j] < NQL);
	e->ev_base = &BASE; e->ev_flags = EVLIST_INIT; e->ev_pri = IN.pri[j]; e->ev_closure = EV_CLOSURE_EVENT;
	e->ev_events = (IN.ins[j] & 1) ? EV_READ : 0; e->ev_res = 0; e->ev_fd = (int)j;
	e->ev_timeout.tv_sec = IN.sec[j]; e->ev_timeout.tv_usec = (IN.usec[j] & USEC_MASK) | magic;    /* the mask is a no-op (usec < 10^6) that lets symex see the magic bits as constants */
	e->ev_timeout_pos.min_heap_idx = (size_t)-1;
	if (IN.ins[j] & 1) event_queue_insert_inserted(&BASE, e);          /* state built through the real helpers (c02_q_*) */
	if (IN.act[j] & 1) event_active_nolock_(e, EV_READ, 1);            /* already active for another reason */
}

void harness(void)
{
	unsigned j; int wf = 1; int n_due = 0, n_act = 0;
	VF_LOAD_IN(); VF_INSTALL_LOCKS();
	base_setup();
	__CPROVER_assume(IN.n <= NT);
#if C01_LOOP_OP == 1   /* ------------------------------------------------------------ timeout_process */
	for (j = 0; j < 4; j++) { if (j >= IN.n) break; timer_setup(j, 0); event_queue_insert_timeout(&BASE, TP[j]); }
	__CPROVER_assert(heap_ok(), "set-up: the real pushes built a heap (heap order + index invariant)");
	g_notify_calls = 0; BASE.is_notify_pending = 0;
	timeout_process(&BASE);
	__CPROVER_assert(heap_ok(), "timeout_process: heap order + index invariant afterwards");
	for (j = 0; j < 4; j++) {
		struct event *e = TP[j];
		if (j >= IN.n) break;
		if (DUE(j)) {
			n_due++;
			__CPROVER_assert(!(e->ev_flags & EVLIST_TIMEOUT) && e->ev_timeout_pos.min_heap_idx == (size_t)-1, "due timer: registration removed (fires once per add)");
			__CPROVER_assert((e->ev_flags & EVLIST_ACTIVE) && (e->ev_res & EV_TIMEOUT), "due timer: active with EV_TIMEOUT");
			__CPROVER_assert(occurrences(e, &wf) == 1, "due timer: queued exactly once in the queue of its priority");
			if (!(IN.act[j] & 1)) __CPROVER_assert(!(e->ev_flags & EVLIST_INSERTED) && e->ev_res == EV_TIMEOUT, "due one-shot timer that was idle: fully deleted first, result is exactly EV_TIMEOUT");
			else __CPROVER_assert(e->ev_res == (EV_READ|EV_TIMEOUT) && IFF(e->ev_flags & EVLIST_INSERTED, IN.ins[j] & 1), "due timer that was already active: result flags merged, I/O registration kept");
		} else {
			__CPROVER_assert((e->ev_flags & EVLIST_TIMEOUT) && e->ev_timeout_pos.min_heap_idx < BASE.timeheap.n && P[e->ev_timeout_pos.min_heap_idx] == e, "timer not yet due: still pending in the heap (never early)");
			__CPROVER_assert(IFF(e->ev_flags & EVLIST_ACTIVE, IN.act[j] & 1) && !(e->ev_res & EV_TIMEOUT), "timer not yet due: not activated for EV_TIMEOUT");
		}
		if (e->ev_flags & EVLIST_ACTIVE) n_act++;
		__CPROVER_assert(e->ev_timeout.tv_sec == IN.sec[j] && e->ev_timeout.tv_usec == IN.usec[j], "deadlines untouched");
	}
	__CPROVER_assert(wf, "active queues are well-formed TAILQs");
	__CPROVER_assert(BASE.timeheap.n == IN.n - (unsigned)n_due, "exactly the due timers left the heap");
	__CPROVER_assert(BASE.event_count_active == n_act, "event_count_active == number of active events");
	/* C01 order: two timers of one priority that both fired in this pass and were idle before are queued in non-decreasing deadline order */
	{ unsigned a, b;
	for (a = 0; a < 4; a++) for (b = 0; b < 4; b++) {
		if (a >= IN.n || b >= IN.n || a == b) continue;
		if (DUE(a) && DUE(b) && !(IN.act[a] & 1) && !(IN.act[b] & 1) && TP[a]->ev_pri == TP[b]->ev_pri && TP[a]->ev_evcallback.evcb_active_next.tqe_next == &TP[b]->ev_evcallback)
			__CPROVER_assert(TLE(TP[a], TP[b]), "due timers of one priority are queued in non-decreasing deadline order");
	} }
#ifdef VF_CANARY
	__CPROVER_assert(BASE.timeheap.n == IN.n, "canary: must fail (due timers leave the heap)");
#endif
#elif C01_LOOP_OP == 2 /* ------------------------------------------------------------ common_timeout_callback */
	{
	long magic = 0x50000000L | ((long)(IN.cidx & 0xff) << 20);
	__CPROVER_assume((int)(IN.cidx & 0xff) < IN.n_common);
	CTQ[IN.cidx & 0xff] = &CTL; CTL.base = &BASE; TAILQ_INIT(&CTL.events);
	CTL.timeout_event.ev_base = &BASE; CTL.timeout_event.ev_flags = EVLIST_INIT | EVLIST_INTERNAL; CTL.timeout_event.ev_pri = 0;
	CTL.timeout_event.ev_closure = EV_CLOSURE_EVENT; CTL.timeout_event.ev_events = 0; CTL.timeout_event.ev_res = 0; CTL.timeout_event.ev_fd = -1;
	CTL.timeout_event.ev_timeout_pos.min_heap_idx = (size_t)-1;
	/* queue built by the real insert helper, in non-decreasing deadline order (what adds at increasing clock readings produce) */
	for (j = 0; j < 4; j++) { if (j >= IN.n) break; timer_setup(j, magic);
		if (j > 0) __CPROVER_assume(IN.sec[j-1] < IN.sec[j] || (IN.sec[j-1] == IN.sec[j] && IN.usec[j-1] <= IN.usec[j]));
		event_queue_insert_timeout(&BASE, TP[j]); }
	g_notify_calls = 0; BASE.is_notify_pending = 0;
	g_lock_depth[1] = 0;                   /* event callbacks run with th_base_lock released; this one takes it itself */
	common_timeout_callback(-1, EV_TIMEOUT, &CTL);
	{ int first_pending = -1;
	for (j = 0; j < 4; j++) {
		struct event *e = TP[j];
		if (j >= IN.n) break;
		if (DUE(j)) {
			n_due++;
			__CPROVER_assert(!(e->ev_flags & EVLIST_TIMEOUT), "due common-timeout event: registration removed (fires once per add)");
			__CPROVER_assert((e->ev_flags & EVLIST_ACTIVE) && (e->ev_res & EV_TIMEOUT), "due common-timeout event: active with EV_TIMEOUT");
			__CPROVER_assert(occurrences(e, &wf) == 1, "due common-timeout event: queued exactly once");
		} else {
			if (first_pending < 0) first_pending = (int)j;
			__CPROVER_assert((e->ev_flags & EVLIST_TIMEOUT) && IFF(e->ev_flags & EVLIST_ACTIVE, IN.act[j] & 1) && !(e->ev_res & EV_TIMEOUT), "common-timeout event not yet due: still pending, not fired (never early)");
		}
		__CPROVER_assert(e->ev_timeout.tv_sec == IN.sec[j] && e->ev_timeout.tv_usec == (IN.usec[j] | magic), "deadlines untouched");
	}
	__CPROVER_assert(wf, "active queues are well-formed TAILQs");
	/* the queue now starts at the first event that is not due; its timer is armed for exactly that deadline (masked), else left alone */
	__CPROVER_assert(CTL.events.tqh_first == (first_pending < 0 ? NULL : TP[first_pending]), "queue head is the first event not yet due (FIFO)");
	if (first_pending >= 0) {
		__CPROVER_assert((CTL.timeout_event.ev_flags & EVLIST_TIMEOUT) && CTL.timeout_event.ev_timeout.tv_sec == IN.sec[first_pending] && CTL.timeout_event.ev_timeout.tv_usec == IN.usec[first_pending], "queue timer re-armed for the new head's deadline, magic bits stripped");
		__CPROVER_assert(BASE.timeheap.n == 1 && P[0] == &CTL.timeout_event && heap_ok(), "queue timer sits in the heap");
	} else __CPROVER_assert(BASE.timeheap.n == 0, "queue drained: no timer armed");
	}
	__CPROVER_assert(g_lock_depth[1] == 0 && g_lock_ops == ((IN.has_lock & 1) ? 2 : 0), "C08: the callback takes th_base_lock once and releases it");
#ifdef VF_CANARY
	__CPROVER_assert(CTL.events.tqh_first == (IN.n ? TP[0] : NULL), "canary: must fail (due events leave the queue)");
#endif
	}
#endif
}
