/* C38 — evdns_getaddrinfo_fromhosts + find_hosts_entry + sockaddr_setport (real evdns.c): "hosts-file entries
 * are taken over DNS".  For EVERY hosts list of <= 3 entries (family, address, name of <= C38_NAMECAP bytes:
 * all symbolic), every node name of <= C38_NAMECAP bytes, every family hint, socktype/protocol hint and port:
 *   - the answer consists of exactly the entries whose name equals the node name ignoring ASCII case and whose
 *     family the hint allows, in hosts-file order, each with the entry's address, the given port (network
 *     order) and the hint's socktype/protocol (TCP+UDP pair when the hint leaves both open); result 0
 *   - no entry of that name: -1 (the caller goes on to DNS); entries of that name but none of an allowed
 *     family: EVUTIL_EAI_ADDRFAMILY; in both cases *res is untouched and nothing is allocated
 *   - allocation failure: -1, everything built so far is released
 *   - C08: the base lock is released on every return        <-- KNOWN-FINDING candidate: NOT on allocation failure
 * evutil_new_addrinfo_, evutil_addrinfo_append_, evutil_freeaddrinfo (evutil.c, units c38_common/...) and
 * evutil_ascii_strcasecmp (C41) are reference stub bodies. */
#define VF_NLOCKS 1
#include "vf.h"
#include "evdns.c"
#ifndef C38_NAMECAP
#define C38_NAMECAP 3
#endif
#define C38_NENT 3
struct in {
	unsigned nent; int fam6[C38_NENT]; unsigned char addr[C38_NENT][16]; char name[C38_NENT][C38_NAMECAP + 1];
	char node[C38_NAMECAP + 1]; int family, socktype, protocol, flags; unsigned short port;
	unsigned w;                        /* witness: which answer record is inspected */
	unsigned ch[VF_NCHOICE];
};
struct in IN;
#include "stubs/log.h"
#include "stubs/lock.h"
#include "stubs/c39_libc_ref.h"
#include "stubs/c39_evdns_env.h"
#include "mm-internal.h"

/* hosts entries: layout of struct hosts_entry with the name array at its real extent */
struct c38_he { TAILQ_ENTRY(hosts_entry) next; union { struct sockaddr sa; struct sockaddr_in sin; struct sockaddr_in6 sin6; } addr; int addrlen; char hostname[C38_NAMECAP + 1]; };
static struct c38_he C38_E0, C38_E1, C38_E2;
static struct c38_he *c38_ent(int k) { return k == 0 ? &C38_E0 : k == 1 ? &C38_E1 : &C38_E2; }
static struct evdns_base C38_BASE;
static char C38_NODE[C38_NAMECAP + 1];
static struct evutil_addrinfo HINTS;

/* ---- evutil.c side: reference bodies over a pool of typed answer records */
struct c38_node { struct evutil_addrinfo ai; union { struct sockaddr_in s4; struct sockaddr_in6 s6; } sa; };
static struct c38_node C38_N0, C38_N1, C38_N2, C38_N3, C38_N4, C38_N5; static const struct c38_node C38_ZERO;
static struct c38_node *c38_node(int k) { return k == 0 ? &C38_N0 : k == 1 ? &C38_N1 : k == 2 ? &C38_N2 : k == 3 ? &C38_N3 : k == 4 ? &C38_N4 : &C38_N5; }
int g_pool_used, g_mm_failed, g_freed_n, g_na_calls;
static struct evutil_addrinfo *c38_one_(struct sockaddr *sa, ev_socklen_t socklen, const struct evutil_addrinfo *hints, int st, int pr)
{
	struct c38_node *n; int k = g_pool_used;
	if (VF_CHOOSE() & 1u) { g_mm_failed = 1; return NULL; }
	__CPROVER_assert(k < 6, "answer pool: at most 3 entries x 2 socket types");
	__CPROVER_assume(k < 6);
	g_pool_used = k + 1; n = c38_node(k); *n = C38_ZERO;
	if (socklen == sizeof(struct sockaddr_in)) n->sa.s4 = *(struct sockaddr_in *)sa; else n->sa.s6 = *(struct sockaddr_in6 *)sa;
	n->ai.ai_addr = (struct sockaddr *)&n->sa; n->ai.ai_addrlen = socklen; n->ai.ai_family = sa->sa_family;
	n->ai.ai_flags = (int)0x80000000; n->ai.ai_socktype = st; n->ai.ai_protocol = pr;
	return &n->ai;
}
struct evutil_addrinfo *evutil_new_addrinfo_(struct sockaddr *sa, ev_socklen_t socklen, const struct evutil_addrinfo *hints)
{
	struct evutil_addrinfo *r1, *r2;
	__CPROVER_assert(hints == &HINTS && (socklen == sizeof(struct sockaddr_in) || socklen == sizeof(struct sockaddr_in6)), "evutil_new_addrinfo_: the caller's hints, a sockaddr_in or sockaddr_in6");
	g_na_calls++;
	if (hints->ai_socktype == 0 && hints->ai_protocol == 0) {
		r1 = c38_one_(sa, socklen, hints, SOCK_STREAM, IPPROTO_TCP);
		if (!r1) return NULL;
		r2 = c38_one_(sa, socklen, hints, SOCK_DGRAM, IPPROTO_UDP);
		if (!r2) { g_freed_n++; return NULL; }
		r1->ai_next = r2;
		return r1;
	}
	return c38_one_(sa, socklen, hints, hints->ai_socktype, hints->ai_protocol);
}
struct evutil_addrinfo *evutil_addrinfo_append_(struct evutil_addrinfo *first, struct evutil_addrinfo *append)
{
	struct evutil_addrinfo *ai = first; int i;
	if (!ai) return append;
	for (i = 0; i < 6; i++) { if (!ai->ai_next) break; ai = ai->ai_next; }
	ai->ai_next = append;
	return first;
}
void evutil_freeaddrinfo(struct evutil_addrinfo *ai) { int i; for (i = 0; i < 6; i++) { if (!ai) break; g_freed_n++; ai = ai->ai_next; } }
static int c38_lower_(int c) { return (c >= 'A' && c <= 'Z') ? c + ('a' - 'A') : c; }
int evutil_ascii_strcasecmp(const char *s1, const char *s2)
{
	int i;
	for (i = 0; i <= C38_NAMECAP; i++) {
		int c1 = c38_lower_((unsigned char)s1[i]), c2 = c38_lower_((unsigned char)s2[i]);
		if (c1 < c2) return -1; else if (c1 > c2) return 1; else if (c1 == 0) return 0;
	}
	return 0;
}
#define A(c, text) __CPROVER_assert(c, text)
#ifdef C38_FH_LOCK_UNIT
#define C38_PORT_OK(p) (exp_idx[k] != 0 || (p) == htons(IN.port))   /* the port of the second record of a pair: unit c38_fromhosts */
#else
#define C38_PORT_OK(p) ((p) == htons(IN.port))
#endif

void harness(void)
{
	struct evutil_addrinfo *res, *const sentinel = &HINTS, *e;
	int r, i, k, j, n_named = 0, n_exp = 0, per, exp_ent[C38_NENT * 2], exp_idx[C38_NENT * 2];
	VF_LOAD_IN();
	VF_INSTALL_LOCKS();
	__CPROVER_assume(IN.nent <= C38_NENT);
	evdns_log_fn = NULL; current_base = NULL;
	g_pool_used = g_mm_failed = g_freed_n = g_na_calls = 0;
	C38_BASE.lock = VF_LOCK_COOKIE(1);
	TAILQ_INIT(&C38_BASE.hostsdb);
	for (k = 0; k < C38_NENT; k++) {
		struct c38_he *h = c38_ent(k);
		if ((unsigned)k >= IN.nent) break;
		for (j = 0; j < C38_NAMECAP; j++) h->hostname[j] = IN.name[k][j];
		h->hostname[C38_NAMECAP] = '\0';
		if (IN.fam6[k]) { h->addr.sin6.sin6_family = AF_INET6; h->addr.sin6.sin6_port = 0; h->addr.sin6.sin6_flowinfo = 0; h->addr.sin6.sin6_scope_id = 0; for (j = 0; j < 16; j++) h->addr.sin6.sin6_addr.s6_addr[j] = IN.addr[k][j]; h->addrlen = sizeof(struct sockaddr_in6); }
		else { h->addr.sin.sin_family = AF_INET; h->addr.sin.sin_port = 0; for (j = 0; j < 4; j++) ((unsigned char *)&h->addr.sin.sin_addr)[j] = IN.addr[k][j]; h->addrlen = sizeof(struct sockaddr_in); }
		TAILQ_INSERT_TAIL(&C38_BASE.hostsdb, (struct hosts_entry *)h, next);
	}
	for (j = 0; j < C38_NAMECAP; j++) C38_NODE[j] = IN.node[j];
	C38_NODE[C38_NAMECAP] = '\0';
	HINTS.ai_family = IN.family; HINTS.ai_socktype = IN.socktype; HINTS.ai_protocol = IN.protocol; HINTS.ai_flags = IN.flags;
	HINTS.ai_addrlen = 0; HINTS.ai_addr = NULL; HINTS.ai_canonname = NULL; HINTS.ai_next = NULL;
	res = sentinel;
	per = (IN.socktype == 0 && IN.protocol == 0) ? 2 : 1;
	/* reference: which entries answer */
	for (k = 0; k < C38_NENT; k++) {
		int same = 1, ended = 0;
		if ((unsigned)k >= IN.nent) break;
		for (j = 0; j <= C38_NAMECAP; j++) {
			if (ended) break;
			if (c38_lower_((unsigned char)c38_ent(k)->hostname[j]) != c38_lower_((unsigned char)C38_NODE[j])) same = 0;
			if (c38_ent(k)->hostname[j] == '\0' || C38_NODE[j] == '\0') ended = 1;
		}
		if (!same) continue;
		n_named++;
		if ((!IN.fam6[k] && IN.family == PF_INET6) || (IN.fam6[k] && IN.family == PF_INET)) continue;
		for (j = 0; j < per; j++) { exp_ent[n_exp] = k; exp_idx[n_exp] = j; n_exp++; }
	}
#ifdef C38_FH_LOCK_UNIT
	/* finding of this unit: allocation failure leaves the lock held */
#ifdef VF_KF_EXCLUDE
	{ int c; for (c = 0; c < VF_NCHOICE; c++) __CPROVER_assume((IN.ch[c] & 1u) == 0); }     /* no allocation failure */
#endif
#ifdef VF_KF_ONLY
	__CPROVER_assume(n_exp > 0 && (IN.ch[0] & 1u) == 1);                                      /* the first allocation fails */
#endif
#else
	/* finding of this unit: with socktype and protocol both open only the FIRST record of each TCP/UDP pair gets the port */
#ifdef VF_KF_EXCLUDE
	__CPROVER_assume(per == 1);
#endif
#ifdef VF_KF_ONLY
	__CPROVER_assume(per == 2 && n_exp > 0 && IN.port != 0);
#endif
#endif

	r = evdns_getaddrinfo_fromhosts(&C38_BASE, C38_NODE, &HINTS, IN.port, &res);

#ifdef C38_FH_LOCK_UNIT
	A(g_lock_depth[1] == 0, "C08: the base lock is released on every return");
#else
	A(IMP(!g_mm_failed, g_lock_depth[1] == 0), "C08: the base lock is released on return (allocation-failure path: unit c38_fromhosts_lock)");
#endif
	if (n_named == 0) A(r == -1 && res == sentinel && g_na_calls == 0, "no entry of that name: -1, nothing built");
	else if (n_exp == 0) A(r == EVUTIL_EAI_ADDRFAMILY && res == sentinel && g_na_calls == 0, "entries of that name but none of an allowed family: EVUTIL_EAI_ADDRFAMILY");
	else if (g_mm_failed) A(r == -1 && res == sentinel && g_freed_n == g_pool_used, "allocation failure: -1, *res untouched, every record built so far is released");
	else {
		A(r == 0 && res != sentinel && res != NULL && g_pool_used == n_exp && g_freed_n == 0, "0 and one record per answering entry and socket type");
		e = res;
		for (k = 0; k < 6; k++) { if ((unsigned)k >= IN.w || e == NULL) break; e = e->ai_next; }
		k = IN.w < 6u ? (int)IN.w : 6;
		if (k < n_exp) {
			A(e != NULL, "the list has one record per answering entry and socket type");
			if (e != NULL) {
				struct c38_he *h = c38_ent(exp_ent[k]);
				A(e->ai_family == (IN.fam6[exp_ent[k]] ? AF_INET6 : AF_INET) && e->ai_addrlen == (size_t)h->addrlen, "record: the entry's family and address length (hosts-file order)");
				A(e->ai_socktype == (per == 2 ? (exp_idx[k] == 0 ? SOCK_STREAM : SOCK_DGRAM) : IN.socktype) && e->ai_protocol == (per == 2 ? (exp_idx[k] == 0 ? IPPROTO_TCP : IPPROTO_UDP) : IN.protocol), "record: socktype/protocol of the hint, or TCP then UDP when the hint leaves both open");
				if (IN.fam6[exp_ent[k]]) {
					struct sockaddr_in6 *s6 = (struct sockaddr_in6 *)e->ai_addr;
					A(s6->sin6_family == AF_INET6 && C38_PORT_OK(s6->sin6_port), "IPv6 record: the given port in network order");
					for (j = 0; j < 16; j++) A(s6->sin6_addr.s6_addr[j] == IN.addr[exp_ent[k]][j], "IPv6 record: the entry's address");
				} else {
					struct sockaddr_in *s4 = (struct sockaddr_in *)e->ai_addr;
					A(s4->sin_family == AF_INET && C38_PORT_OK(s4->sin_port), "IPv4 record: the given port in network order");
					for (j = 0; j < 4; j++) A(((unsigned char *)&s4->sin_addr)[j] == IN.addr[exp_ent[k]][j], "IPv4 record: the entry's address");
				}
				if (k == n_exp - 1) A(e->ai_next == NULL, "the list ends after the last record");
			}
		}
	}
	for (k = 0; k < C38_NENT; k++) { if ((unsigned)k >= IN.nent) break; A((IN.fam6[k] ? c38_ent(k)->addr.sin6.sin6_port : c38_ent(k)->addr.sin.sin_port) == 0, "the hosts entries themselves keep port 0"); }
#ifdef VF_CANARY
	A(g_pool_used < 6, "canary: must fail (3 matching entries x TCP/UDP give 6 records)");
#endif
}
