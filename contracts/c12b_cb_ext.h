/* contracts/c12b_cb_ext.h — what evbuffer_invoke_callbacks_ / evbuffer_deferred_callback reach OUTSIDE
 * buffer.c (event.c's deferred-callback queue, bufferevent.c's reference count), as ghost-recording stub
 * bodies, plus the contract decref_c of evbuffer_decref_and_unlock_ used where that callee is replaced.
 * Include after c12b_cb.h.  `struct in` must have `unsigned pending;`. */
#ifndef VF_C12B_CB_EXT_H_
#define VF_C12B_CB_EXT_H_
struct vf_dc_ghost {
	int sched_calls, sched_badarg, sched_lock_then;   /* event_deferred_cb_schedule_: calls, wrong (base, cb), lock depth at the call */
	int pending;                                      /* the buffer's deferred callback is queued in the base */
	int bev_incref, bev_decref, bev_badarg;           /* references taken/released on the parent bufferevent */
	int decref_calls, decref_n_then, decref_bevdec_then;   /* evbuffer_decref_and_unlock_: calls; user callbacks run / parent decrefs done at that moment */
};
struct vf_dc_ghost g_dc;
#define VF_DC_RESET() do { g_dc.sched_calls = g_dc.sched_badarg = g_dc.sched_lock_then = 0; g_dc.pending = (int)(IN.pending & 1); g_dc.bev_incref = g_dc.bev_decref = g_dc.bev_badarg = 0; \
	g_dc.decref_calls = 0; g_dc.decref_n_then = 0; g_dc.decref_bevdec_then = 0; } while (0)
int O_dc_pending, O_dc_refcnt;
/* event.c: "Activate a struct event_callback if it is not currently scheduled in an event_base.  Return true
 * iff we actually scheduled it." */
int event_deferred_cb_schedule_(struct event_base *base, struct event_callback *cb)
{
	int r = !g_dc.pending;
	g_dc.sched_calls++;
	if (base != VF_CBQ || cb != &BUF.deferred) g_dc.sched_badarg = 1;
	g_dc.sched_lock_then = g_lock_depth[1];
	g_dc.pending = 1;
	return r;
}
void event_deferred_cb_cancel_(struct event_base *base, struct event_callback *cb) { (void)base; (void)cb; g_dc.pending = 0; }
void bufferevent_incref(struct bufferevent *bev) { g_dc.bev_incref++; if (bev != VF_PARENT) g_dc.bev_badarg = 1; }
int bufferevent_decref(struct bufferevent *bev) { g_dc.bev_decref++; if (bev != VF_PARENT) g_dc.bev_badarg = 1; return 0; }

/* evbuffer_decref_and_unlock_ as its callers see it: one reference released, the lock released once.
 * (At zero the real function also frees the buffer; BUF is a static here, the count reaching 0 stands for that.) */
VF_CONTRACT_V(decref_c, struct evbuffer *buffer)
__CPROVER_requires(buffer == &BUF && BUF.refcnt > 0)
__CPROVER_requires(IMP(BUF.lock != NULL, g_lock_depth[1] >= 1))
__CPROVER_assigns(BUF.refcnt, g_lock_depth[1], g_dc.decref_calls, g_dc.decref_n_then, g_dc.decref_bevdec_then)
__CPROVER_ensures(BUF.refcnt == __CPROVER_old(BUF.refcnt) - 1)
__CPROVER_ensures(g_lock_depth[1] == __CPROVER_old(g_lock_depth[1]) - (BUF.lock != NULL ? 1 : 0))
__CPROVER_ensures(g_dc.decref_calls == __CPROVER_old(g_dc.decref_calls) + 1 && g_dc.decref_n_then == g_cb.n && g_dc.decref_bevdec_then == g_dc.bev_decref)
;
#endif
