/* C42 — marshal -> unmarshal round trips through the real event_tagging.c, for EVERY 32-bit tag:
 *   evtag_marshal_int / evtag_unmarshal_int          every 32-bit value
 *   evtag_marshal_int64 / evtag_unmarshal_int64      every 64-bit value
 *   evtag_marshal_timeval / evtag_unmarshal_timeval  seconds and microseconds in [0, 2^32)
 *                                                    (the wire format's Integer is 32-bit here:
 *                                                    see c42_timeval_range for the full range)
 *   evtag_marshal_string / evtag_unmarshal_string    strings of <= VF_S bytes
 *   evtag_marshal / evtag_unmarshal_fixed, evtag_unmarshal (to a buffer)   <= VF_S raw bytes
 * The value comes back unchanged with the same tag and length, the unmarshal call consumes
 * exactly the bytes the marshal call produced (header = tag ‖ len, minimal forms), and whatever
 * follows in the buffer (IN.tail) is left alone: "items are read back in order".
 * Integer/tag loops are bounded by the operand width and fully unwound; strings/raw data bounded. */
#ifndef VF_S
#define VF_S 4
#endif
#define VF_EB_CAP 24
#define VF_EB_MAXCOPY 10
#include "vf.h"
#include "event_tagging.c"
struct in { int which; ev_uint32_t tag; ev_uint32_t v32; ev_uint64_t v64; ev_uint32_t sec, usec; unsigned char s[VF_S]; unsigned slen;
	unsigned char tail[4]; unsigned ntail; unsigned ch[VF_NCHOICE]; };
struct in IN;
#include "stubs/log.h"
#define VF_MM_NOFAIL 1
#include "stubs/mm.h"
#include "stubs/c31_evbuffer3.h"
#include "c31_tagref.h"

void harness(void)
{
	unsigned i; int r; size_t produced; ev_uint32_t ptag = 0, plen = 0; int hl;
	VF_LOAD_IN(); VF_EB_RESET(); VF_MM_RESET();
	__CPROVER_assume((IN.which == VF_WHICH_A || IN.which == VF_WHICH_B) && IN.slen <= VF_S && IN.ntail <= 4);
#ifdef VF_RT_TAGBITS      /* quick tier: tags of <= 2 encoded bytes (the tag codec alone is complete over 2^32: c42_tag_roundtrip) */
	__CPROVER_assume(IN.tag < (1u << VF_RT_TAGBITS));
#endif
	if (IN.which == 0) {
		ev_uint32_t out = ~IN.v32;
		evtag_marshal_int(&EVB[0], IN.tag, IN.v32);
		produced = vf_len[0]; evbuffer_add(&EVB[0], IN.tail, IN.ntail);
		hl = ref_header(vf_d0, produced, &ptag, &plen);
		__CPROVER_assert(hl >= 0 && ptag == IN.tag && (size_t)hl + plen == produced, "marshal_int produces exactly one item Tag Length Data with the given tag");
		r = evtag_unmarshal_int(&EVB[0], IN.tag, &out);
		__CPROVER_assert(r != -1 && out == IN.v32, "unmarshal_int(marshal_int(v)) == v");
	} else if (IN.which == 1) {
		ev_uint64_t out = ~IN.v64;
		evtag_marshal_int64(&EVB[0], IN.tag, IN.v64);
		produced = vf_len[0]; evbuffer_add(&EVB[0], IN.tail, IN.ntail);
		hl = ref_header(vf_d0, produced, &ptag, &plen);
		__CPROVER_assert(hl >= 0 && ptag == IN.tag && (size_t)hl + plen == produced, "marshal_int64 produces exactly one item Tag Length Data with the given tag");
		r = evtag_unmarshal_int64(&EVB[0], IN.tag, &out);
		__CPROVER_assert(r != -1 && out == IN.v64, "unmarshal_int64(marshal_int64(v)) == v");
	} else if (IN.which == 2) {
		struct timeval tv, out;
		tv.tv_sec = IN.sec; tv.tv_usec = IN.usec; out.tv_sec = -1; out.tv_usec = -1;
		evtag_marshal_timeval(&EVB[0], IN.tag, &tv);
		produced = vf_len[0]; evbuffer_add(&EVB[0], IN.tail, IN.ntail);
		hl = ref_header(vf_d0, produced, &ptag, &plen);
		__CPROVER_assert(hl >= 0 && ptag == IN.tag && (size_t)hl + plen == produced, "marshal_timeval produces exactly one item Tag Length Data with the given tag");
		r = evtag_unmarshal_timeval(&EVB[0], IN.tag, &out);
		__CPROVER_assert(r == 0 && out.tv_sec == tv.tv_sec && out.tv_usec == tv.tv_usec, "unmarshal_timeval(marshal_timeval(tv)) == tv");
	} else if (IN.which == 3) {
		char str[VF_S + 1]; char *out = NULL;
		for (i = 0; i < VF_S; i++) str[i] = (i < IN.slen) ? (char)(IN.s[i] ? IN.s[i] : 'x') : '\0';
		str[VF_S] = '\0';
		evtag_marshal_string(&EVB[0], IN.tag, str);
		produced = vf_len[0]; evbuffer_add(&EVB[0], IN.tail, IN.ntail);
		hl = ref_header(vf_d0, produced, &ptag, &plen);
		__CPROVER_assert(hl >= 0 && ptag == IN.tag && plen == IN.slen && (size_t)hl + plen == produced, "marshal_string produces one item whose Length is strlen");
		r = evtag_unmarshal_string(&EVB[0], IN.tag, &out);
		__CPROVER_assert(r == 0 && out != NULL, "unmarshal_string succeeds on a marshalled string");
		if (r == 0 && out != NULL) for (i = 0; i <= VF_S; i++) if (i <= IN.slen) __CPROVER_assert(out[i] == str[i], "unmarshal_string(marshal_string(s)) == s, NUL-terminated");
	} else if (IN.which == 4) {
		unsigned char out[VF_S];
		for (i = 0; i < VF_S; i++) out[i] = 0x7e;
		evtag_marshal(&EVB[0], IN.tag, IN.s, IN.slen);
		produced = vf_len[0]; evbuffer_add(&EVB[0], IN.tail, IN.ntail);
		hl = ref_header(vf_d0, produced, &ptag, &plen);
		__CPROVER_assert(hl >= 0 && ptag == IN.tag && plen == IN.slen && (size_t)hl + plen == produced, "marshal produces one item Tag Length Data");
		r = evtag_unmarshal_fixed(&EVB[0], IN.tag, out, IN.slen);
		__CPROVER_assert(r == 0, "unmarshal_fixed succeeds on marshalled raw data of that size");
		for (i = 0; i < VF_S; i++) __CPROVER_assert(out[i] == (i < IN.slen ? IN.s[i] : 0x7e), "unmarshal_fixed(marshal(data)) == data, nothing beyond");
	} else {
		ev_uint32_t tag = ~IN.tag;
		evtag_marshal(&EVB[0], IN.tag, IN.s, IN.slen);
		produced = vf_len[0]; evbuffer_add(&EVB[0], IN.tail, IN.ntail);
		r = evtag_unmarshal(&EVB[0], &tag, &EVB[1]);
		__CPROVER_assert(r == (int)IN.slen && tag == IN.tag && vf_len[1] == IN.slen, "unmarshal(marshal(tag, data)) returns the tag and the length");
		for (i = 0; i < VF_S; i++) if (i < IN.slen) __CPROVER_assert(VF_EB_BYTE(1, i) == IN.s[i], "unmarshal(marshal(tag, data)) returns the data");
	}
	__CPROVER_assert(vf_drained[0] == produced && vf_len[0] == IN.ntail, "unmarshal consumes exactly the bytes marshal produced; the following bytes stay");
	for (i = 0; i < 4; i++) if (i < IN.ntail) __CPROVER_assert(VF_EB_BYTE(0, i) == IN.tail[i], "following bytes are untouched");
#ifdef VF_CANARY
	__CPROVER_assert(!(produced >= 7 && IN.ntail == 2), "canary: must fail (items of >= 7 bytes exist)");
#endif
}
