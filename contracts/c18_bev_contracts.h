/* contracts/c18_bev_contracts.h — contract of bufferevent_trigger for the deferred read trigger (enforced in c18_trigger_public).
 * It was written for replacement in c18_trigger but must NOT be used that way: its assigns clause names the bit-field
 * BEVP.readcb_pending, which CBMC 6.11 does not havoc at a replaced call (the ensures then prunes paths).  Ghost state: g_e of stubs/c18_bev_env.h. */
#ifndef VF_C18_BEV_CONTRACTS_H_
#define VF_C18_BEV_CONTRACTS_H_
/* __CPROVER_old of a BIT-FIELD cannot be snapshotted by the native checker generator (typeof of a bit-field):
 * natively the enforcing unit's harness stores the pre-state in O_rp_ before the call. */
int O_rp_;
#if defined(VF_NATIVE) || defined(VF_EXTRACT)
#define C18_OLD_RP O_rp_
#else
#define C18_OLD_RP __CPROVER_old(BEVP.readcb_pending)
#endif
#define C18_IGN(o) (((o) & BEV_TRIG_IGNORE_WATERMARKS) != 0)

/* bufferevent_trigger(bev, EV_READ, …|BEV_OPT_DEFER_CALLBACKS) — the call bufferevent_inbuf_wm_check makes.
 * enforced: c18_trigger_public; replaced: nowhere */
#define C18_T_(o) ((C18_IGN(o) || g_e.len_in >= BEV->wm_read.low) && BEV->readcb != NULL)
VF_CONTRACT_V(bev_trigger_defer_c, struct bufferevent *bufev, short iotype, int options)
__CPROVER_requires(bufev == BEV && iotype == EV_READ && (options & BEV_OPT_DEFER_CALLBACKS))
__CPROVER_requires(BEVP.refcnt >= 1 && BEVP.refcnt <= (1 << 24) + 8)
__CPROVER_requires(g_e.sched_calls >= 0 && g_e.sched_calls < 100 && g_e.sched_new >= 0 && g_e.sched_new < 100 && g_lock_depth[1] >= 0 && g_lock_depth[1] < 100)
__CPROVER_assigns(BEVP.readcb_pending, BEVP.refcnt, g_e.sched_calls, g_e.sched_new, g_e.deferred_queued, g_lock_ops, g_lock_depth[1])
__CPROVER_ensures(BEVP.readcb_pending == ((C18_OLD_RP || C18_T_(options)) ? 1 : 0))
__CPROVER_ensures(g_e.sched_calls == __CPROVER_old(g_e.sched_calls) + (C18_T_(options) ? 1 : 0))
__CPROVER_ensures(g_e.sched_new == __CPROVER_old(g_e.sched_new) + ((C18_T_(options) && !__CPROVER_old(g_e.deferred_queued)) ? 1 : 0))
__CPROVER_ensures(g_e.deferred_queued == ((__CPROVER_old(g_e.deferred_queued) || C18_T_(options)) ? 1 : 0))
__CPROVER_ensures(BEVP.refcnt == __CPROVER_old(BEVP.refcnt) + (g_e.sched_new - __CPROVER_old(g_e.sched_new)))
__CPROVER_ensures(g_lock_depth[1] == __CPROVER_old(g_lock_depth[1]))
;
#endif
