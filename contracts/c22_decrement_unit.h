/* contracts/c22_decrement_unit.h — shared body of c22_decrement_read / c22_decrement_write (unit defines C22_DEC_WRITE 0/1).
 * C22/C08 — bufferevent_decrement_read_buckets_ / _write_buckets_ (real bufferevent_ratelim.c): the bytes just transferred are charged
 * exactly once to the bufferevent's own bucket (if configured) and exactly once to the group's bucket and running total (if in a group);
 * own bucket <= 0 afterwards => the direction is suspended for BEV_SUSPEND_BW and the refill timer is armed with one tick (result -1 iff
 * that failed); own bucket > 0 and the direction was suspended for bandwidth => unsuspended, and the refill timer is cancelled unless the
 * other direction still waits for it; group bucket <= 0 => the whole group's direction is suspended, > 0 while the group was suspended =>
 * unsuspended.  The group lock is taken and released. */
#include "c22_rl_unit.h"
#if C22_DEC_WRITE
#define FN bufferevent_decrement_write_buckets_
#define LIM_(b) (b).write_limit
#define O_L IN.lim_w
#define O_GL IN.glim_w
#define O_S IN.ws
#define O_OTHER IN.rs
#define S_ BEVP.write_suspended
#define OTHER_ BEVP.read_suspended
#define SUS_CALLS g_r.sus_w[3]
#define UNSUS_CALLS g_r.unsus_w[3]
#define SUS_WHAT g_r.sus_w_what
#define UNSUS_WHAT g_r.unsus_w_what
#define G_SUSP (IN.g_ws & 1)
#define G_SUS_CALLS g_r.gsw_calls
#define G_UNSUS_CALLS g_r.guw_calls
#define TOT_ GRP.total_written
#define O_TOT IN.tot_w
#else
#define FN bufferevent_decrement_read_buckets_
#define LIM_(b) (b).read_limit
#define O_L IN.lim_r
#define O_GL IN.glim_r
#define O_S IN.rs
#define O_OTHER IN.ws
#define S_ BEVP.read_suspended
#define OTHER_ BEVP.write_suspended
#define SUS_CALLS g_r.sus_r[3]
#define UNSUS_CALLS g_r.unsus_r[3]
#define SUS_WHAT g_r.sus_r_what
#define UNSUS_WHAT g_r.unsus_r_what
#define G_SUSP (IN.g_rs & 1)
#define G_SUS_CALLS g_r.gsr_calls
#define G_UNSUS_CALLS g_r.gur_calls
#define TOT_ GRP.total_read
#define O_TOT IN.tot_r
#endif
#define OWN_ (IN.has_rlim && IN.has_cfg)
#define INGRP_ (IN.has_rlim && IN.has_group)
#define NL_(bytes) (O_L - (bytes))
#define NGL_(bytes) (O_GL - (bytes))
VF_CONTRACT(int, decrement_c, struct bufferevent_private *bev, ev_ssize_t bytes)
__CPROVER_requires(bev == &BEVP && bytes >= 0 && bytes <= (ev_ssize_t)INT_MAX)                  /* callers pass the positive int result of evbuffer_read/_write_atmost */
__CPROVER_requires(g_lock_depth[2] == 0 && g_r.n_add == 0 && g_r.n_add_fail == 0 && g_r.n_del == 0 && g_r.gsr_calls == 0 && g_r.gsw_calls == 0 && g_r.gur_calls == 0 && g_r.guw_calls == 0)
__CPROVER_requires(g_r.sus_r[3] == 0 && g_r.sus_w[3] == 0 && g_r.unsus_r[3] == 0 && g_r.unsus_w[3] == 0)
__CPROVER_assigns(RL.limit.read_limit, RL.limit.write_limit, GRP.rate_limit.read_limit, GRP.rate_limit.write_limit, GRP.total_read, GRP.total_written, BEVP.read_suspended, BEVP.write_suspended, RL_GHOST_FRAME)
/* 1 accounting: exactly once per bucket */
__CPROVER_ensures(LIM_(RL.limit) == (OWN_ ? NL_(bytes) : O_L) && LIM_(GRP.rate_limit) == (INGRP_ ? NGL_(bytes) : O_GL) && TOT_ == (INGRP_ ? O_TOT + (ev_uint64_t)bytes : O_TOT))
/* 2 own bucket exhausted: suspend + refill timer */
__CPROVER_ensures(IMP(OWN_ && NL_(bytes) <= 0, (S_ & BEV_SUSPEND_BW) && SUS_CALLS == 1 && SUS_WHAT == BEV_SUSPEND_BW && UNSUS_CALLS == 0 && g_r.n_add == 1 && g_r.n_del == 0))
__CPROVER_ensures(IMP(OWN_ && NL_(bytes) <= 0 && g_r.n_add_fail == 0, g_r.ev_timer && g_r.tv_sec == IN.tick_sec && g_r.tv_usec == IN.tick_usec))
__CPROVER_ensures(__CPROVER_return_value == ((OWN_ && NL_(bytes) <= 0 && g_r.n_add_fail == 1) ? -1 : 0))
/* 5 own bucket positive again */
__CPROVER_ensures(IMP(OWN_ && NL_(bytes) > 0 && (O_S & BEV_SUSPEND_BW), !(S_ & BEV_SUSPEND_BW) && UNSUS_CALLS == 1 && UNSUS_WHAT == BEV_SUSPEND_BW && SUS_CALLS == 0 && g_r.n_add == 0 && g_r.n_del == B(!(O_OTHER & BEV_SUSPEND_BW))))
__CPROVER_ensures(IMP(!OWN_ || (NL_(bytes) > 0 && !(O_S & BEV_SUSPEND_BW)), S_ == O_S && SUS_CALLS == 0 && UNSUS_CALLS == 0 && g_r.n_add == 0 && g_r.n_del == 0))
__CPROVER_ensures(OTHER_ == O_OTHER)
/* 8 group */
__CPROVER_ensures(G_SUS_CALLS == B(INGRP_ && NGL_(bytes) <= 0) && G_UNSUS_CALLS == B(INGRP_ && NGL_(bytes) > 0 && G_SUSP))
__CPROVER_ensures(g_lock_depth[2] == 0 && g_lock_depth[1] == __CPROVER_old(g_lock_depth[1]))
;
void harness(void)
{
	int r;
	VF_LOAD_IN();
	vf_rl_build();
	__CPROVER_assume(IN.bytes >= 0 && IN.bytes <= (ev_ssize_t)INT_MAX);
	/* levels are far from the ends of ev_ssize_t: |level| <= burst <= EV_RATE_LIMIT_MAX going up, and each operation takes <= INT_MAX off */
	__CPROVER_assume(IN.lim_r >= -((ev_ssize_t)1 << 62) && IN.lim_w >= -((ev_ssize_t)1 << 62) && IN.glim_r >= -((ev_ssize_t)1 << 62) && IN.glim_w >= -((ev_ssize_t)1 << 62));
	if (BEVP.lock) g_lock_depth[1] = 1;
	r = VF_CALL(decrement_c, FN, &BEVP, IN.bytes);
	(void)r;
#if C22_DEC_WRITE
	__CPROVER_assert(RL.limit.read_limit == IN.lim_r && GRP.rate_limit.read_limit == IN.glim_r && GRP.total_read == IN.tot_r && g_r.gsr_calls == 0 && g_r.gur_calls == 0, "the read side is untouched");
#else
	__CPROVER_assert(RL.limit.write_limit == IN.lim_w && GRP.rate_limit.write_limit == IN.glim_w && GRP.total_written == IN.tot_w && g_r.gsw_calls == 0 && g_r.guw_calls == 0, "the write side is untouched");
#endif
#ifdef VF_CANARY
	__CPROVER_assert(SUS_CALLS == 0, "canary: must fail (an exhausted bucket suspends)");
#endif
}
