/* contracts/c28_ref.h — reference (specification side, trusted) for the C28 units: RFC 3986 grammar over the
 * harness string S[0..slen) (a top-level char array; all functions work with indices, never with pointers
 * into aggregates — CBMC 6.11 loses writes through pointers into array members of arrays of structs).
 * The including unit defines VF_L (capacity of S), `static char S[VF_L + 1]` and `static unsigned slen`.
 *
 *   unreserved  = ALPHA / DIGIT / "-" / "." / "_" / "~"                               (2.3)
 *   sub-delims  = "!" / "$" / "&" / "'" / "(" / ")" / "*" / "+" / "," / ";" / "="     (2.2)
 *   pct-encoded = "%" HEXDIG HEXDIG                                                   (2.1)
 *   pchar       = unreserved / pct-encoded / sub-delims / ":" / "@"                   (3.3)
 *   scheme      = ALPHA *( ALPHA / DIGIT / "+" / "-" / "." )                          (3.1)
 *   userinfo    = *( unreserved / pct-encoded / sub-delims / ":" )                    (3.2.1)
 *   reg-name    = *( unreserved / pct-encoded / sub-delims )                          (3.2.2)
 *   IP-literal  = "[" ( IPv6address / IPvFuture ) "]";  IPvFuture = "v" 1*HEXDIG "." 1*( unreserved / sub-delims / ":" )
 *   port        = *DIGIT   (libevent: value <= 65535)                                 (3.2.3)
 *   path        = *( pchar / "/" );  query = fragment = *( pchar / "/" / "?" )        (3.3-3.5)
 * IPv6address is judged by evutil_inet_pton (stub c28_inet.h), as the code does. */
#ifndef VF_C28_REF_H_
#define VF_C28_REF_H_
static int r_alpha(char c) { return (c >= 'a' && c <= 'z') || (c >= 'A' && c <= 'Z'); }
static int r_digit(char c) { return c >= '0' && c <= '9'; }
static int r_hex(char c) { return r_digit(c) || (c >= 'a' && c <= 'f') || (c >= 'A' && c <= 'F'); }
static int r_unreserved(char c) { return r_alpha(c) || r_digit(c) || c == '-' || c == '.' || c == '_' || c == '~'; }
static int r_subdelim(char c) { return c == '!' || c == '$' || c == '&' || c == '\'' || c == '(' || c == ')' || c == '*' || c == '+' || c == ',' || c == ';' || c == '='; }
enum r_cls { R_USERINFO, R_REGNAME, R_PATH, R_QUERY, R_IPVF };
static int r_cls_ok(char c, enum r_cls cls)
{
	if (r_unreserved(c) || r_subdelim(c)) return 1;
	switch (cls) {
	case R_USERINFO: case R_IPVF: return c == ':';
	case R_REGNAME: return 0;
	case R_PATH: return c == ':' || c == '@' || c == '/';
	case R_QUERY: return c == ':' || c == '@' || c == '/' || c == '?';
	}
	return 0;
}
/* every character of S[from..to) is in the class; "%" must start a complete pct-encoded triple inside [from,to) (not for IPvFuture) */
static int r_span_ok(unsigned from, unsigned to, enum r_cls cls)
{
	unsigned k, skip = 0;
	for (k = 0; k < VF_L; k++) {
		if (k < from || k >= to) continue;
		if (skip) { skip--; continue; }
		if (S[k] == '%' && cls != R_IPVF) {
			if (k + 2 < to && r_hex(S[k + 1]) && r_hex(S[k + 2])) { skip = 2; continue; }
			return 0;
		}
		if (!r_cls_ok(S[k], cls)) return 0;
	}
	return 1;
}
static int r_scheme_ok(unsigned from, unsigned to)
{
	unsigned k;
	if (from >= to || !r_alpha(S[from])) return 0;
	for (k = 0; k < VF_L; k++) if (k > from && k < to && !(r_alpha(S[k]) || r_digit(S[k]) || S[k] == '+' || S[k] == '-' || S[k] == '.')) return 0;
	return 1;
}
/* first index in [from, slen) whose character is one of c1 c2 c3 (0 = unused), else slen */
static unsigned r_first_of(unsigned from, char c1, char c2, char c3)
{
	unsigned k, r = slen;
	for (k = VF_L; k-- > 0;) if (k >= from && k < slen && (S[k] == c1 || (c2 && S[k] == c2) || (c3 && S[k] == c3))) r = k;
	return r;
}
/* decimal value of S[from..to) if all digits and <= 65535: 0..65535; -1 otherwise (empty -> 0) */
static long r_port(unsigned from, unsigned to)
{
	unsigned k; long v = 0;
	for (k = 0; k < VF_L; k++) {
		if (k < from || k >= to) continue;
		if (!r_digit(S[k])) return -1;
		v = v * 10 + (S[k] - '0');
		if (v > 65535) return -1;
	}
	return v;
}
static char r_tmp[VF_L + 1];
int evutil_inet_pton(int af, const char *src, void *dst);
/* IP-literal S[from..to) including the brackets */
static int r_bracket_ok(unsigned from, unsigned to)
{
	unsigned k, dot;
	if (to < from + 3 || S[from] != '[' || S[to - 1] != ']') return 0;
	if (S[from + 1] == 'v') {
		dot = to - 1;
		for (k = VF_L; k-- > 0;) if (k >= from + 2 && k < to - 1 && S[k] == '.') dot = k;    /* first '.' */
		if (dot >= to - 1) return 0;
		if (dot < from + 3) return 0;                                   /* 1*HEXDIG */
		for (k = 0; k < VF_L; k++) if (k >= from + 2 && k < dot && !r_hex(S[k])) return 0;
#ifndef VF_REF_IPVFUTURE_EMPTY_OK
		if (dot + 1 >= to - 1) return 0;                                /* 1*( unreserved / sub-delims / ":" ) */
#endif
		return r_span_ok(dot + 1, to - 1, R_IPVF);
	}
	for (k = 0; k < VF_L; k++) r_tmp[k] = (k + from + 1 < to - 1) ? S[k + from + 1] : '\0';
	r_tmp[VF_L] = '\0';
	return evutil_inet_pton(AF_INET6, r_tmp, (void *)0) == 1;
}
#endif
