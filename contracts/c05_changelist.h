/* c05_changelist.h — shape, allocator model and specification vocabulary for the changelist
 * functions of evmap.c (event_changelist_add_/del_/get_or_construct/grow/remove_all_).
 * Included after `struct in IN;` and the real evmap.c.  struct in must contain the member
 * `struct c05_cl_in cl;`. */
/* Two-phase include: first inclusion (before struct in) declares struct c05_cl_in; the second one,
 * after `struct in IN;` with C05_CL_BODY defined, brings the rest. */
#ifndef C05_CHANGELIST_H_1
#define C05_CHANGELIST_H_1
#define C05_NCH 4          /* capacity of the changes array before the call */
#define C05_NCHNEW 64      /* capacity of a grown array handed out by the allocator model */

struct c05_cl_in {
	int n_changes, changes_size;          /* 0 <= n <= size <= C05_NCH */
	int idxplus1;                         /* the fd's fdinfo: 0 = no pending change, else index+1 of its entry */
	int efd[C05_NCH]; short eold[C05_NCH]; unsigned char er[C05_NCH], ew[C05_NCH], ec[C05_NCH];   /* entries */
	int w;                                /* witness: some other entry */
};
#endif
#if defined(C05_CL_BODY) && !defined(C05_CHANGELIST_H_2)
#define C05_CHANGELIST_H_2

static struct event_base BASE;
static struct event_change OLDCH[C05_NCH];
static struct event_change NEWCH[C05_NCHNEW];
static struct event_changelist_fdinfo FDI;
int g_mm_realloc_calls, g_mm_realloc_ok; size_t g_mm_realloc_sz;
#define C05_OLDCH (IN.cl.changes_size == 0 ? (struct event_change *)NULL : OLDCH)
/* the changes array after the call */
#define C05_CHS (BASE.changelist.changes)

#if defined(VF_MM_NO_REALLOC) && !defined(C05_CL_OWN_REALLOC)
/* allocator model: a grown array is the static NEWCH with the old entries copied (that is
 * realloc's contract); requests beyond its capacity fail, as any allocation may */
void *event_mm_realloc_(void *p, size_t sz)
{
	g_mm_realloc_calls++;
	__CPROVER_assert(p == (void *)C05_OLDCH, "realloc: of the current changes array");
	__CPROVER_assert(sz >= (size_t)IN.cl.changes_size * sizeof(struct event_change), "realloc: not shrinking");
	if (sz > sizeof(NEWCH) || (VF_CHOOSE() & 1u)) { g_mm_realloc_ok = 0; errno = ENOMEM; return NULL; }
	g_mm_realloc_ok = 1; g_mm_realloc_sz = sz;
	if (IN.cl.changes_size > 0) NEWCH[0] = OLDCH[0];
	if (IN.cl.changes_size > 1) NEWCH[1] = OLDCH[1];
	if (IN.cl.changes_size > 2) NEWCH[2] = OLDCH[2];
	if (IN.cl.changes_size > 3) NEWCH[3] = OLDCH[3];
	return NEWCH;
}
#endif

/* ---- vocabulary (same as units/c06_apply_one_change) ---- */
#define CL_COND (EV_READ|EV_WRITE|EV_CLOSED)
#define CH(c) ((c) & (EV_CHANGE_ADD|EV_CHANGE_DEL))
#define IMPOSSIBLE1(c) (CH(c) == (EV_CHANGE_ADD|EV_CHANGE_DEL))
#define AFTER1(oldbit, c) (CH(c) == EV_CHANGE_ADD ? 1 : CH(c) == EV_CHANGE_DEL ? 0 : (oldbit))
/* conditions registered once the change (old_events o, bytes r/w/c) has been applied */
#define DESIRED4(o, r, w, c) ( (AFTER1(((o) & (EV_READ|EV_SIGNAL)) != 0, r) ? EV_READ : 0) \
                             | (AFTER1(((o) & EV_WRITE) != 0, w) ? EV_WRITE : 0) \
                             | (AFTER1(((o) & EV_CLOSED) != 0, c) ? EV_CLOSED : 0))
#define DESIRED(ch) DESIRED4((ch)->old_events, (ch)->read_change, (ch)->write_change, (ch)->close_change)
/* C06 call-site condition: a pending delete only names a condition that old_events holds */
#define DELOK4(o, r, w, c) ((CH(r) != EV_CHANGE_DEL || ((o) & (EV_READ|EV_SIGNAL))) && (CH(w) != EV_CHANGE_DEL || ((o) & EV_WRITE)) && (CH(c) != EV_CHANGE_DEL || ((o) & EV_CLOSED)))
#define DELOK(ch) DELOK4((ch)->old_events, (ch)->read_change, (ch)->write_change, (ch)->close_change)
#define POSSIBLE(ch) (!IMPOSSIBLE1((ch)->read_change) && !IMPOSSIBLE1((ch)->write_change) && !IMPOSSIBLE1((ch)->close_change))
/* the fd's entry before the call (a fresh entry has old_events = the caller's `old` and no changes) */
#define CL_FRESH (IN.cl.idxplus1 == 0)
#define CL_IDX (CL_FRESH ? IN.cl.n_changes : IN.cl.idxplus1 - 1)
#define CL_O_OLD (CL_FRESH ? IN.old : IN.cl.eold[IN.cl.idxplus1 - 1])
#define CL_O_R (CL_FRESH ? 0 : IN.cl.er[IN.cl.idxplus1 - 1])
#define CL_O_W (CL_FRESH ? 0 : IN.cl.ew[IN.cl.idxplus1 - 1])
#define CL_O_C (CL_FRESH ? 0 : IN.cl.ec[IN.cl.idxplus1 - 1])
#define CL_GROW_NEEDED (CL_FRESH && IN.cl.n_changes == IN.cl.changes_size)
#define CL_GROW_OK (g_mm_realloc_calls == 1 && g_mm_realloc_ok)
#define CL_ALLOC_FAILED (CL_GROW_NEEDED && !CL_GROW_OK)

/* Pre-state.  Invariants assumed (event_changelist_assert_ok states them; add_/del_/remove_all_
 * maintain them — postconditions of these units): 0 <= n_changes <= changes_size; the fd's
 * fdinfo->idxplus1 is 0 or names an entry < n_changes whose fd is this fd; every pending entry is
 * POSSIBLE and DELOK. */
static void c05_build_cl(void)
{
	int k;
	__CPROVER_assume(IN.cl.changes_size >= 0 && IN.cl.changes_size <= C05_NCH && IN.cl.n_changes >= 0 && IN.cl.n_changes <= IN.cl.changes_size);
	__CPROVER_assume(IN.cl.idxplus1 >= 0 && IN.cl.idxplus1 <= IN.cl.n_changes);
	__CPROVER_assume(IN.cl.w >= 0 && IN.cl.w < C05_NCH);
	for (k = 0; k < C05_NCH; k++) {
		OLDCH[k].fd = IN.cl.efd[k]; OLDCH[k].old_events = IN.cl.eold[k];
		OLDCH[k].read_change = IN.cl.er[k]; OLDCH[k].write_change = IN.cl.ew[k]; OLDCH[k].close_change = IN.cl.ec[k];
		if (k < IN.cl.n_changes) __CPROVER_assume(IN.cl.efd[k] >= 0 && POSSIBLE(&OLDCH[k]) && DELOK(&OLDCH[k]));
	}
	if (!CL_FRESH) __CPROVER_assume(IN.cl.efd[IN.cl.idxplus1 - 1] == IN.fd);
	BASE.changelist.changes = C05_OLDCH; BASE.changelist.n_changes = IN.cl.n_changes; BASE.changelist.changes_size = IN.cl.changes_size;
	FDI.idxplus1 = IN.cl.idxplus1;
	g_mm_realloc_calls = 0; g_mm_realloc_ok = 0; g_mm_realloc_sz = 0;
}
#endif
