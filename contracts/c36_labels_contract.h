/* contracts/c36_labels_contract.h — dnsname_to_labels WITHOUT a compression table, as evdns_request_data_build
 * sees it (real evdns.c).  This is the SPECIFIED behaviour; unit c35_labels checks the real function against the
 * reference encoder and, literally, against clauses 2-4 below (bounded: names <= 4/7 characters) — on the unchanged
 * tree with the inputs of candidate defects P1 (last label ends exactly at buf_len) and P2 (empty label) set aside.
 * What the encoded bytes are is NOT repeated here: the caller's postcondition says "one call for (name, name_len)
 * at offset 12", the bytes are c35_labels' business. */
#ifndef VF_C36_LABELS_CONTRACT_H_
#define VF_C36_LABELS_CONTRACT_H_
/* one struct = one assigns target (the contracts library's write-set inclusion loop is unwound once per target) */
struct c36_lbl { int calls; off_t j, ret; const char *name; size_t len, buflen; u8 *buf; } g_lbl;
#define g_lbl_calls g_lbl.calls
#define g_lbl_j g_lbl.j
#define g_lbl_ret g_lbl.ret
#define g_lbl_name g_lbl.name
#define g_lbl_len g_lbl.len
#define g_lbl_buflen g_lbl.buflen
#define g_lbl_buf g_lbl.buf
#define C36_LBL_ENS2(ret, j, buf_len) ((ret) == -1 || (ret) == -2 || ((ret) > (j) && (ret) <= (off_t)(buf_len)))
#define C36_LBL_ENS3(ret, j, name_len) IMP((ret) >= 0, (ret) <= (j) + (off_t)(name_len) + 2)
#define C36_LBL_ENS4(ret, j, name_len, buf_len) IMP((ret) == -2, (name_len) > 255 || (j) + (off_t)(name_len) + 2 > (off_t)(buf_len))
VF_CONTRACT(off_t, labels_nt_c, u8 *const buf, size_t buf_len, off_t j, const char *name, const size_t name_len, struct dnslabel_table *table)
__CPROVER_requires(table == NULL)
__CPROVER_requires(j >= 0 && (size_t)j <= buf_len && buf_len <= 1024)
__CPROVER_requires(__CPROVER_rw_ok(buf, buf_len))
__CPROVER_requires(g_lbl_calls == 0)
__CPROVER_assigns(g_lbl, __CPROVER_object_from(buf + j))
/* 1 the call is recorded */
__CPROVER_ensures(g_lbl_calls == 1 && g_lbl_j == j && g_lbl_ret == __CPROVER_return_value && g_lbl_name == name && g_lbl_len == name_len && g_lbl_buflen == buf_len && g_lbl_buf == buf)
/* 2 -1 (label > 63), -2 (no room) or the index after the encoded name, inside the buffer */
__CPROVER_ensures(C36_LBL_ENS2(__CPROVER_return_value, j, buf_len))
/* 3 an encoded name takes at most name_len + 2 bytes */
__CPROVER_ensures(C36_LBL_ENS3(__CPROVER_return_value, j, name_len))
/* 4 -2 only if name_len + 2 bytes do not fit (or the name is longer than 255) */
__CPROVER_ensures(C36_LBL_ENS4(__CPROVER_return_value, j, name_len, buf_len))
;
#endif
