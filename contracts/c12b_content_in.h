/* contracts/c12b_content_in.h — input record of the content shape (see c12b_content.h) */
#ifndef VF_C12B_CONTENT_IN_H_
#define VF_C12B_CONTENT_IN_H_
#define VF_CT_CAP 4                       /* bytes of storage per chain */
#define VF_CT_MLEN 12                     /* 3 chains x 4 bytes */
struct ct_in { unsigned char bytes[3][VF_CT_CAP]; };
#endif
