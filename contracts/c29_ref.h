/* contracts/c29_ref.h — reference (specification-side, trusted) percent-decoder shared by the C29/C30 units.
 * RFC 3986 2.1: "%" HEXDIG HEXDIG stands for the byte with that value; both digits must lie inside the
 * input, otherwise the '%' is literal.  '+' handling as documented at evhttp_decode_uri_internal:
 * ctl == 1 always ' ', ctl == 0 never, ctl < 0 only after the first '?' (deprecated evhttp_decode_uri).
 * VF_REF_CAP bounds the loop (>= longest input of the unit). */
#ifndef VF_C29_REF_H_
#define VF_C29_REF_H_
#ifndef VF_REF_CAP
#define VF_REF_CAP 16
#endif
static int ref_hexval(unsigned char c)
{
	if (c >= '0' && c <= '9') return c - '0';
	if (c >= 'a' && c <= 'f') return c - 'a' + 10;
	if (c >= 'A' && c <= 'F') return c - 'A' + 10;
	return -1;
}
static unsigned ref_decode(const unsigned char *in, unsigned n, unsigned char *out, int ctl, unsigned *nesc)
{
	unsigned i = 0, j = 0, k; int plus = (ctl == 1);
	*nesc = 0;
	for (k = 0; k <= VF_REF_CAP; k++) {
		if (i >= n) break;
		if (in[i] == '%' && n - i >= 3 && ref_hexval(in[i + 1]) >= 0 && ref_hexval(in[i + 2]) >= 0) {
			out[j++] = (unsigned char)(ref_hexval(in[i + 1]) * 16 + ref_hexval(in[i + 2]));
			i += 3; (*nesc)++;
		} else if (in[i] == '+' && plus) {
			out[j++] = ' '; i++;
		} else {
			if (in[i] == '?' && ctl < 0) plus = 1;
			out[j++] = in[i]; i++;
		}
	}
	return j;
}
#endif
