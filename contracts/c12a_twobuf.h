/* contracts/c12a_twobuf.h — shared text of units c12a_add_buffer and c12a_prepend_buffer (define C12A_PREPEND for the latter):
 * evbuffer_add_buffer / evbuffer_prepend_buffer (real buffer.c) on two buffers of <= 3 chains each (every shape), with separate
 * locks or one shared lock.  Inline (real): PRESERVE_PINNED, RESTORE_PINNED, COPY_CHAIN, APPEND_CHAIN / PREPEND_CHAIN, ZERO_CHAIN,
 * Replaced by contracts: evbuffer_free_all_chains (c12a_free_all), evbuffer_free_trailing_empty_chains (c12a_free_trailing),
 * evbuffer_invoke_callbacks_.  BUF is outbuf, BUF2 is inbuf. */
#define VF_NLOCKS 2
#define C12A_NBUF 2
#include "vf.h"
#include "stubs/c12a_mem.h"
#include "buffer.c"
struct eb_in;
#include "stubs/lock.h"
#include "c12a_shape.h"
struct in { struct eb_in b, b2; unsigned samelock; unsigned ch[VF_NCHOICE]; };
struct in IN;
#include "stubs/log.h"
#include "stubs/c12a_mm.h"
#include "c12a_contracts.h"

#ifdef C12A_PREPEND
#define FN_ evbuffer_prepend_buffer
#define O_REFUSE_ (O_BUF.freeze_start || O_BUF2.freeze_start)
#else
#define FN_ evbuffer_add_buffer
#define O_REFUSE_ (O_BUF.freeze_end || O_BUF2.freeze_start)
#endif
#define RV __CPROVER_return_value
#define O_in (O_BUF2.total_len)
#define O_out (O_BUF.total_len)
VF_CONTRACT(int, twobuf_c, struct evbuffer *outbuf, struct evbuffer *inbuf)
__CPROVER_requires(outbuf == &BUF && inbuf == &BUF2)
__CPROVER_requires(g_lock_depth[1] == 0 && g_lock_depth[2] == 0 && g_nnew == 0 && g_freed == 0 && g_freed_mask == 0 && g_cb[0] == 0 && g_cb[1] == 0 && m_cp.n == 0)
__CPROVER_assigns(g_lock_depth[1], g_lock_depth[2], g_lock_ops, g_fr, g_cbs,
	__CPROVER_object_whole(outbuf), __CPROVER_object_whole(&CH[0]), __CPROVER_object_whole(&CH[1]), __CPROVER_object_whole(&CH[2]),
	__CPROVER_object_whole(inbuf), __CPROVER_object_whole(&CH2[0]), __CPROVER_object_whole(&CH2[1]), __CPROVER_object_whole(&CH2[2]))
/* 1 C08: both locks released */
__CPROVER_ensures(g_lock_depth[1] == 0 && g_lock_depth[2] == 0)
__CPROVER_ensures(RV == 0 || RV == -1)
/* 3 C12: refused exactly when there is something to move and the receiving end of outbuf or the front of inbuf is frozen */
__CPROVER_ensures(IFF(RV == -1, O_in != 0 && O_REFUSE_))
/* 4 C14: refused, or nothing to move => nothing changes, no callback */
__CPROVER_ensures(IMP(RV == -1 || O_in == 0, C12A_BUF_SAME(BUF, O_BUF) && C12A_ALLCH_SAME() && C12A_BUF_SAME(BUF2, O_BUF2) && C12A_ALLCH2_SAME()))
__CPROVER_ensures(IMP(RV == -1 || O_in == 0, g_cb[0] == 0 && g_cb[1] == 0 && g_freed == 0))
/* 6 C12: everything moves: outbuf grows by inbuf's length, inbuf is empty */
__CPROVER_ensures(IMP(RV == 0 && O_in != 0, outbuf->total_len == O_out + O_in && inbuf->total_len == 0 && inbuf->first == NULL && inbuf->last == NULL && inbuf->last_with_datap == &inbuf->first))
/* 7 C13: each buffer's callbacks are told once, after the move, with counters that account for exactly it */
__CPROVER_ensures(IMP(RV == 0 && O_in != 0, g_cb[0] == 1 && g_cb[1] == 1))
__CPROVER_ensures(IMP(RV == 0 && O_in != 0, g_cb_total[0] == O_out + O_in && g_cb_nadd[0] == O_BUF.n_add_for_cb + O_in && g_cb_ndel[0] == O_BUF.n_del_for_cb))
__CPROVER_ensures(IMP(RV == 0 && O_in != 0, g_cb_total[1] == 0 && g_cb_ndel[1] == O_BUF2.n_del_for_cb + O_in && g_cb_nadd[1] == O_BUF2.n_add_for_cb))
/* 10 nothing else of either buffer changes */
__CPROVER_ensures(outbuf->lock == O_BUF.lock && outbuf->freeze_start == O_BUF.freeze_start && outbuf->freeze_end == O_BUF.freeze_end && outbuf->refcnt == O_BUF.refcnt && outbuf->callbacks.lh_first == O_BUF.callbacks.lh_first && outbuf->deferred_cbs == O_BUF.deferred_cbs && outbuf->flags == O_BUF.flags && outbuf->max_read == O_BUF.max_read)
__CPROVER_ensures(inbuf->lock == O_BUF2.lock && inbuf->freeze_start == O_BUF2.freeze_start && inbuf->freeze_end == O_BUF2.freeze_end && inbuf->refcnt == O_BUF2.refcnt && inbuf->callbacks.lh_first == O_BUF2.callbacks.lh_first && inbuf->deferred_cbs == O_BUF2.deferred_cbs && inbuf->flags == O_BUF2.flags && inbuf->max_read == O_BUF2.max_read)
;

void harness(void)
{
	int r, i, n, L; struct evbuffer_chain *c; unsigned keepmask = 0;
	VF_LOAD_IN();
	c12a_build(&IN.b);
	c12a_build2(&IN.b2, IN.samelock & 1);
	VF_INSTALL_LOCKS(); C12A_RESET();
	L = vf_lwd_index(&C12A_S);
	C12A_SNAPSHOT();
	r = VF_CALL(twobuf_c, FN_, &BUF, &BUF2);
#ifndef C12A_NOPOST
	__CPROVER_assert(m_cp.n == 0 && g_nnew == 0, "chains are moved, never copied; nothing is allocated");
	if (r == 0 && O_in != 0) {
		/* the model: outbuf's list afterwards, front to back (as a function of the position: no arrays, they are costly) */
		int K;      /* number of outbuf's own chains that stay */
#ifdef C12A_PREPEND
		K = (O_out != 0) ? (int)c12a_nch : 0;                 /* all of outbuf's chains stay (also trailing empty ones), behind inbuf's */
		n = (int)c12a_nch2 + K;
		keepmask = (O_out != 0) ? ((1u << c12a_nch) - 1u) : 0u;
#define WANT_(i_) ((i_) < (int)c12a_nch2 ? 3 + (i_) : (i_) - (int)c12a_nch2)
#else
		K = (O_out != 0) ? L + 1 : 0;                         /* outbuf's chains up to its last chain with data, then inbuf's */
		n = K + (int)c12a_nch2;
		keepmask = (1u << K) - 1u;
#define WANT_(i_) ((i_) < K ? (i_) : 3 + (i_) - K)
#endif
		c = BUF.first;
#define SEQ_STEP_(i_) if ((i_) < n) { __CPROVER_assert(c != NULL && C12A_CODE(c) == WANT_(i_), "outbuf's chain list is the model's sequence"); c = c ? c->next : NULL; }
		SEQ_STEP_(0) SEQ_STEP_(1) SEQ_STEP_(2) SEQ_STEP_(3) SEQ_STEP_(4) SEQ_STEP_(5)
		__CPROVER_assert(c == NULL, "... and ends there");
		__CPROVER_assert(g_freed_mask == ((((1u << c12a_nch) - 1u)) & ~keepmask), "exactly outbuf's dropped (empty) chains are freed, none of inbuf's");
		{
			int pos[6];
#ifdef C12A_PREPEND
			pos[0] = (c12a_nch > 0 && K) ? (int)c12a_nch2 + 0 : -1; pos[1] = (c12a_nch > 1 && K) ? (int)c12a_nch2 + 1 : -1; pos[2] = (c12a_nch > 2 && K) ? (int)c12a_nch2 + 2 : -1;
			pos[3] = c12a_nch2 > 0 ? 0 : -1; pos[4] = c12a_nch2 > 1 ? 1 : -1; pos[5] = c12a_nch2 > 2 ? 2 : -1;
#else
			pos[0] = K > 0 ? 0 : -1; pos[1] = K > 1 ? 1 : -1; pos[2] = K > 2 ? 2 : -1;
			pos[3] = c12a_nch2 > 0 ? K + 0 : -1; pos[4] = c12a_nch2 > 1 ? K + 1 : -1; pos[5] = c12a_nch2 > 2 ? K + 2 : -1;
#endif
			__CPROVER_assert(c12a_binv_pos(&BUF, pos, n), "BInv(outbuf) after the move: last, windows, total_len == sum off, last_with_datap canonical");
		}
		for (i = 0; i < 3; i++) {
			if ((unsigned)i < c12a_nch2) __CPROVER_assert(CH2[i].off == O_CH2[i].off && CH2[i].misalign == O_CH2[i].misalign && CH2[i].buffer == O_CH2[i].buffer && CH2[i].buffer_len == O_CH2[i].buffer_len && CH2[i].flags == O_CH2[i].flags && CH2[i].refcnt == O_CH2[i].refcnt, "inbuf's chains move untouched");
			if ((unsigned)i < c12a_nch && (keepmask & (1u << i))) __CPROVER_assert(CH[i].off == O_CH[i].off && CH[i].misalign == O_CH[i].misalign && CH[i].buffer == O_CH[i].buffer && CH[i].buffer_len == O_CH[i].buffer_len && CH[i].flags == O_CH[i].flags && CH[i].refcnt == O_CH[i].refcnt, "outbuf's kept chains are untouched");
		}
	}
#endif
#ifdef VF_CANARY
	__CPROVER_assert(g_freed == 0, "canary: must fail (outbuf's trailing empty chains are freed)");
#endif
}
