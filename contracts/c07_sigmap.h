/* c07_sigmap.h — shared text of the evmap_signal_* units (one enforced contract per unit):
 * the signal table of the base (reusing the table/allocator models of c05_evmap_shape.h with
 * IN.fd = the signal number), one per-signal record SCTX and the signal backend stub. */
#include "vf.h"
#include "evmap.c"
struct in {
	int fd;                               /* the signal number */
	int nentries; int slot_null;          /* signal table before the call */
	int has_first;                        /* an event already on the signal's list */
	int has_prev, has_next;               /* (del) neighbours of the event */
	int ncalls; int n;                    /* (active) call count, events on the list */
	int fdinfo4, debug_mode; short ev_events, first_events; unsigned short nread, nwrite, nclose;   /* unused (shared header) */
	unsigned ch[VF_NCHOICE];
};
struct in IN;
#include "stubs/log.h"
#define VF_MM_NO_REALLOC
#include "stubs/mm.h"
#include "c05_evmap_shape.h"

struct c07_sctx { struct evmap_signal sg; unsigned char fdinfo[8]; };
static struct c07_sctx SCTX;
void *g_be_arg;
static int c07_sig_add(struct event_base *b, evutil_socket_t sig, short old, short events, void *p)
{
	__CPROVER_assert(b == &BASE, "signal backend add: called with the base");
	g_add_calls++; g_be_fd = sig; g_be_old = old; g_be_events = events; g_be_arg = p;
	g_be_res = (VF_CHOOSE() & 1u) ? -1 : 0;
	return g_be_res;
}
static int c07_sig_del(struct event_base *b, evutil_socket_t sig, short old, short events, void *p)
{
	__CPROVER_assert(b == &BASE, "signal backend del: called with the base");
	g_del_calls++; g_be_fd = sig; g_be_old = old; g_be_events = events; g_be_arg = p;
	g_be_res = (VF_CHOOSE() & 1u) ? -1 : 0;
	return g_be_res;
}
#define SIG_INRANGE (IN.fd >= 0 && IN.fd < NSIG)
#define SIG_INTABLE (IN.fd >= 0 && IN.fd < IN.nentries)
static void c07_build_sigmap(void)
{
	__CPROVER_assume(IN.nentries >= 0 && IN.nentries <= C05_NOLD);
	SIGOPS.add = c07_sig_add; SIGOPS.del = c07_sig_del; SIGOPS.fdinfo_len = 0;
	BASE.evsigsel = &SIGOPS; BASE.evsel = &OPS;
	BASE.sigmap.nentries = IN.nentries; BASE.sigmap.entries = C05_OLDTAB;
	EV.ev_fd = IN.fd; EV.ev_events = EV_SIGNAL | EV_PERSIST;
	g_add_calls = 0; g_del_calls = 0; g_be_fd = 0; g_be_old = 0; g_be_events = 0; g_be_arg = NULL; g_be_res = 0;
	g_mm_realloc_calls = 0; g_mm_realloc_ok = 0; g_mm_realloc_sz = 0;
	VF_MM_RESET();
}
