/* contracts/c18_ratelim_contracts.h — contracts used for REPLACEMENT inside the bufferevent_ratelim.c units of the c22_* family.
 *  tb_update_frame_c / tb_get_tick_frame_c: deliberately WEAK (frame-only) contracts of ev_token_bucket_update_ / _get_tick_: they say
 *  which fields may change and nothing about the new levels.  They are implied by C21's tb_update_spec_c (contracts/c21_contracts.h,
 *  proved by the integrator's c21_* units); the c22 units state their postconditions over the levels AFTER the refill, so the exact
 *  refill arithmetic (64-bit multiply/divide, hard for SAT) stays in C21.
 *  weakrand_range_c: same text as in units/c46_weakrand_range (enforced there), minus is_fresh (pointer is a harness object here). */
#ifndef VF_C18_RATELIM_CONTRACTS_H_
#define VF_C18_RATELIM_CONTRACTS_H_
VF_CONTRACT(int, tb_update_frame_c, struct ev_token_bucket *bucket, const struct ev_token_bucket_cfg *cfg, ev_uint32_t current_tick)
__CPROVER_requires(__CPROVER_rw_ok(bucket, sizeof(*bucket)) && __CPROVER_r_ok(cfg, sizeof(*cfg)))
__CPROVER_assigns(bucket->read_limit, bucket->write_limit, bucket->last_updated)
__CPROVER_ensures(__CPROVER_return_value == 0 || __CPROVER_return_value == 1)
;
VF_CONTRACT(ev_uint32_t, tb_get_tick_frame_c, const struct timeval *tv, const struct ev_token_bucket_cfg *cfg)
__CPROVER_requires(__CPROVER_r_ok(tv, sizeof(*tv)) && __CPROVER_r_ok(cfg, sizeof(*cfg)) && cfg->msec_per_tick != 0)
__CPROVER_assigns()
__CPROVER_ensures(1)
;
VF_CONTRACT(ev_int32_t, weakrand_range_c, struct evutil_weakrand_state *state, ev_int32_t top)
__CPROVER_requires(__CPROVER_rw_ok(state, sizeof(*state)))
__CPROVER_requires(top >= 1)
__CPROVER_assigns(state->seed)
__CPROVER_ensures(__CPROVER_return_value >= 0 && __CPROVER_return_value < top)
;
#endif
