/* c05_select_shape.h — harness-side state for the select.c units: a selectop whose four fd sets
 * are static arrays of C05_SW fd_mask words before the call; the allocator model hands out arrays
 * of C05_SWNEW words.  Two-phase include (struct first, bodies after `struct in IN;`). */
#ifndef C05_SELECT_SHAPE_H_1
#define C05_SELECT_SHAPE_H_1
#define C05_SW 2        /* 2 words = 16 bytes = fds 0..127 */
#define C05_SWNEW 4     /* 4 words = 32 bytes = fds 0..255 */
struct c05_sel_in {
	int event_fds; int one_word;            /* highest fd seen; event_fdsz is 8 (one_word) or 16 bytes */
	unsigned long rin[C05_SW], win[C05_SW]; /* the interest sets */
	int g;                                  /* witness: some other fd */
	unsigned long junk;                     /* what freshly (re)allocated memory contains */
};
#endif
#if defined(C05_SEL_BODY) && !defined(C05_SELECT_SHAPE_H_2)
#define C05_SELECT_SHAPE_H_2
static struct event_base BASE; static struct selectop SOP;
/* Every set is backed by a full sizeof(fd_set) = 128-byte object: select.c casts its allocations to fd_set*
 * and CBMC checks that the whole member array fds_bits lies inside the object whenever FD_SET/FD_ISSET
 * forms it, whatever index is then used.  The LOGICAL size of a set is event_fdsz (C05_SW / C05_SWNEW words);
 * all backing words beyond it are zeroed by the harness and the contracts require them to stay zero
 * (witness bit g ranges over all 1024 bits), so a write beyond the allocation is a functional violation. */
#define C05_BACK 16
static fd_mask RIN[C05_BACK], WIN[C05_BACK], ROUT[C05_BACK], WOUT[C05_BACK];
static fd_mask NRIN[C05_BACK], NWIN[C05_BACK];
int g_mm_realloc_calls, g_mm_realloc_fail; size_t g_mm_realloc_sz;
#define C05_FDSZ (IN.s.one_word ? 8 : 16)
#define C05_BIT(arr, fd) ((int)(((arr)[(fd) / 64] >> ((fd) % 64)) & 1ul))
/* bit fd of the set the selectop currently points to */
#define C05_SETBIT(setp, fd) C05_BIT((fd_mask *)(setp), fd)
/* bit fd of the pre-state sets (0 beyond their size) */
#define C05_O_R(fd) (((fd) < C05_FDSZ * 8) ? C05_BIT(IN.s.rin, fd) : 0)
#define C05_O_W(fd) (((fd) < C05_FDSZ * 8) ? C05_BIT(IN.s.win, fd) : 0)

#ifdef VF_MM_NO_REALLOC
/* allocator model: a grown interest set is a static 32-byte array with the old bytes copied
 * (realloc's contract); larger requests fail, as any allocation may */
void *event_mm_realloc_(void *p, size_t sz)
{
	fd_mask *n;
	g_mm_realloc_calls++; g_mm_realloc_sz = sz;
	__CPROVER_assert(p == (void *)RIN || p == (void *)WIN, "realloc: of an interest set");
	if (sz > C05_SWNEW * sizeof(fd_mask) || (VF_CHOOSE() & 1u)) { g_mm_realloc_fail++; errno = ENOMEM; return NULL; }
	n = (p == (void *)RIN) ? NRIN : NWIN;
	n[0] = ((fd_mask *)p)[0];
	n[1] = IN.s.one_word ? (fd_mask)IN.s.junk : ((fd_mask *)p)[1];      /* the tail of a grown block is uninitialised */
	if (sz > 2 * sizeof(fd_mask)) n[2] = (fd_mask)IN.s.junk;
	if (sz > 3 * sizeof(fd_mask)) n[3] = (fd_mask)IN.s.junk;
	return n;
}
#ifndef VF_NATIVE
/* memset with a symbolic length (guide pitfall 2): bounds-checked, bounded byte loop (<= 32 bytes) */
void *memset(void *s, int c, size_t n)
{
	size_t i;
	__CPROVER_assert(__CPROVER_w_ok(s, n), "memset: destination writable for n bytes");
	__CPROVER_assert((__CPROVER_same_object(s, NRIN) || __CPROVER_same_object(s, NWIN)) && (size_t)__CPROVER_POINTER_OFFSET(s) + n <= g_mm_realloc_sz, "memset: inside the (logical) allocation just obtained");
	for (i = 0; i < C05_SWNEW * sizeof(fd_mask); i++) { if (i >= n) break; ((unsigned char *)s)[i] = (unsigned char)c; }
	return s;
}
#endif
#endif

/* Pre-state.  Invariants assumed (select_init + select_add/select_resize maintain them: their
 * postconditions): event_fdsz is 8*2^k bytes and covers event_fds; bits beyond event_fds are clear. */
static void c05_build_sel(void)
{
	__CPROVER_assume(IN.s.event_fds >= 0 && IN.s.event_fds < C05_FDSZ * 8 && IN.s.g >= 0 && IN.s.g < C05_BACK * 64);
	{ int k_; for (k_ = 0; k_ < C05_BACK; k_++) { RIN[k_] = 0; WIN[k_] = 0; NRIN[k_] = 0; NWIN[k_] = 0; ROUT[k_] = 0; WOUT[k_] = 0; } }
	RIN[0] = IN.s.rin[0]; WIN[0] = IN.s.win[0];
	if (!IN.s.one_word) { RIN[1] = IN.s.rin[1]; WIN[1] = IN.s.win[1]; }
	SOP.event_fds = IN.s.event_fds; SOP.event_fdsz = C05_FDSZ; SOP.resize_out_sets = 0;
	SOP.event_readset_in = (fd_set *)RIN; SOP.event_writeset_in = (fd_set *)WIN;
	SOP.event_readset_out = (fd_set *)ROUT; SOP.event_writeset_out = (fd_set *)WOUT;
	BASE.evbase = &SOP;
	g_mm_realloc_calls = 0; g_mm_realloc_fail = 0; g_mm_realloc_sz = 0;
}
#endif
