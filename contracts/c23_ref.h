/* contracts/c23_ref.h — "what RFC 9112 / RFC 9110 say", as small pure C functions used inside
 * assertions of the c23/c24/c25/c26 units (trusted; kept obviously correct).  All loops are
 * bounded by VF_STRMAX.  v points at a NUL-terminated string of length n (v[n] == 0). */
#ifndef VF_C23_REF_H_
#define VF_C23_REF_H_
#define ISNL(c) ((c) == '\r' || (c) == '\n')
#define ISWS(c) ((c) == ' ' || (c) == '\t')
#define ISDIGIT(c) ((c) >= '0' && (c) <= '9')

/* every maximal run of CR/LF bytes is followed by SP or HT */
static int ref_runs_ok(const char *v, unsigned n)
{
	unsigned i;
	for (i = 0; i < VF_STRMAX; i++) {
		if (i >= n) break;
		if (ISNL(v[i]) && !ISNL(v[i + 1]) && !ISWS(v[i + 1])) return 0;   /* v[n] == 0 ends a run at the end of the value */
	}
	return 1;
}
/* RFC 9112 5.2: inside a field value the only line breaks are single CRLFs, each followed by
 * SP/HT (obs-fold = OWS CRLF RWS): every CR is followed by LF, every LF is preceded by CR and
 * followed by SP/HT.  Then "Name: value CRLF" is exactly one (possibly folded) field line. */
static int ref_rfc_ok(const char *v, unsigned n)
{
	unsigned i;
	for (i = 0; i < VF_STRMAX; i++) {
		if (i >= n) break;
		if (v[i] == '\r' && v[i + 1] != '\n') return 0;
		if (v[i] == '\n' && (i == 0 || v[i - 1] != '\r')) return 0;
		if (v[i] == '\n' && !ISWS(v[i + 1])) return 0;
	}
	return 1;
}
/* no CR and no LF at all (request target, reason phrase, field name: RFC 9112 3, 4, 5.1) */
static int ref_no_crlf(const char *v, unsigned n)
{
	unsigned i;
	for (i = 0; i < VF_STRMAX; i++) {
		if (i >= n) break;
		if (ISNL(v[i])) return 0;
	}
	return 1;
}
static unsigned ref_strlen(const char *v)
{
	unsigned i;
	for (i = 0; i <= VF_STRMAX; i++) if (v[i] == '\0') return i;
	return VF_STRMAX + 1;
}
/* RFC 9110 5.6.2 tchar */
static int ref_tchar(char c)
{
	return (c >= '0' && c <= '9') || (c >= 'a' && c <= 'z') || (c >= 'A' && c <= 'Z') ||
	    c == '!' || c == '#' || c == '$' || c == '%' || c == '&' || c == '\'' || c == '*' || c == '+' ||
	    c == '-' || c == '.' || c == '^' || c == '_' || c == '`' || c == '|' || c == '~';
}
/* token = 1*tchar */
static int ref_token(const char *v, unsigned n)
{
	unsigned i;
	if (n == 0) return 0;
	for (i = 0; i < VF_STRMAX; i++) {
		if (i >= n) break;
		if (!ref_tchar(v[i])) return 0;
	}
	return 1;
}
/* bounded string equality (both NUL-terminated within VF_STRMAX + 1 bytes) */
static int ref_streq(const char *a, const char *b)
{
	unsigned i;
	for (i = 0; i <= VF_STRMAX; i++) {
		if (a[i] != b[i]) return 0;
		if (a[i] == '\0') return 1;
	}
	return 0;
}
/* ASCII case-insensitive equality */
static char ref_lower(char c) { return (c >= 'A' && c <= 'Z') ? (char)(c + ('a' - 'A')) : c; }
static int ref_strcaseeq(const char *a, const char *b)
{
	unsigned i;
	for (i = 0; i <= VF_STRMAX; i++) {
		if (ref_lower(a[i]) != ref_lower(b[i])) return 0;
		if (a[i] == '\0') return 1;
	}
	return 0;
}
#endif
