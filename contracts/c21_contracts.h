/* contracts/c21_contracts.h — token bucket contracts (C21).  Shared by the c21_* units and by
 * callers in bufferevent_ratelim.c that replace ev_token_bucket_update_. */
#ifndef VF_C21_CONTRACTS_H_
#define VF_C21_CONTRACTS_H_
typedef __int128 vf_i128;
/* configuration accepted by ev_token_bucket_cfg_new: 1 <= rate <= burst <= EV_RATE_LIMIT_MAX */
#define C21_CFG_OK(c) ((c)->read_rate >= 1 && (c)->read_rate <= (c)->read_maximum && (c)->read_maximum <= (size_t)EV_RATE_LIMIT_MAX && \
                       (c)->write_rate >= 1 && (c)->write_rate <= (c)->write_maximum && (c)->write_maximum <= (size_t)EV_RATE_LIMIT_MAX)
#define C21_NTICKS(cur, last) ((ev_uint32_t)((cur) - (last)))
#define C21_NOOP(n) ((n) == 0 || (n) > (ev_uint32_t)INT_MAX)
/* the property's sentence, in unbounded (128-bit) integers */
#define C21_SUM(old, n, rate) ((vf_i128)(old) + (vf_i128)(n) * (vf_i128)(rate))
#define C21_SPEC(old, n, rate, max) (C21_SUM(old, n, rate) < (vf_i128)(max) ? C21_SUM(old, n, rate) : (vf_i128)(max))
#define C21_LOAD(B, CFG, IN) do { \
	(CFG).read_rate = (IN).rr; (CFG).read_maximum = (IN).rm; (CFG).write_rate = (IN).wr; (CFG).write_maximum = (IN).wm; \
	__CPROVER_assume(C21_CFG_OK(&(CFG))); \
	(B).read_limit = (IN).rl; (B).write_limit = (IN).wl; (B).last_updated = (IN).last; } while (0)

VF_CONTRACT(int, tb_update_spec_c, struct ev_token_bucket *bucket, const struct ev_token_bucket_cfg *cfg, ev_uint32_t current_tick)
__CPROVER_requires(__CPROVER_rw_ok(bucket, sizeof(*bucket)) && __CPROVER_r_ok(cfg, sizeof(*cfg)))
__CPROVER_requires(C21_CFG_OK(cfg))
__CPROVER_assigns(bucket->read_limit, bucket->write_limit, bucket->last_updated)
/* 1-2: zero ticks, or a tick difference that looks like time went backwards: nothing changes */
__CPROVER_ensures(IMP(C21_NOOP(C21_NTICKS(current_tick, __CPROVER_old(bucket->last_updated))), __CPROVER_return_value == 0 && bucket->read_limit == __CPROVER_old(bucket->read_limit) && bucket->write_limit == __CPROVER_old(bucket->write_limit) && bucket->last_updated == __CPROVER_old(bucket->last_updated)))
__CPROVER_ensures(IMP(!C21_NOOP(C21_NTICKS(current_tick, __CPROVER_old(bucket->last_updated))), __CPROVER_return_value == 1 && bucket->last_updated == current_tick))
/* 3-4: exact refill, no overflow: the new level IS the mathematical min(max, old + n*rate) */
__CPROVER_ensures(IMP(!C21_NOOP(C21_NTICKS(current_tick, __CPROVER_old(bucket->last_updated))), (vf_i128)bucket->read_limit == C21_SPEC(__CPROVER_old(bucket->read_limit), C21_NTICKS(current_tick, __CPROVER_old(bucket->last_updated)), cfg->read_rate, cfg->read_maximum)))
__CPROVER_ensures(IMP(!C21_NOOP(C21_NTICKS(current_tick, __CPROVER_old(bucket->last_updated))), (vf_i128)bucket->write_limit == C21_SPEC(__CPROVER_old(bucket->write_limit), C21_NTICKS(current_tick, __CPROVER_old(bucket->last_updated)), cfg->write_rate, cfg->write_maximum)))
;
/* ---- the code-shaped formula F (what the refill computes in machine arithmetic).  Its terms are
 * bit-identical to the code's, so "code == F" is easy for SAT; "F == the property's sentence" is the
 * arithmetic lemma discharged separately (unit c21_update_lemma, cvc5 --solve-bv-as-int). */
#define C21_F(old, n, rate, max) (((old) >= (ev_ssize_t)(max) || ((size_t)(max) - (size_t)(old)) / (n) < (rate)) ? (ev_ssize_t)(max) : (ev_ssize_t)((size_t)(old) + (size_t)(n) * (rate)))
VF_CONTRACT(int, tb_update_shape_c, struct ev_token_bucket *bucket, const struct ev_token_bucket_cfg *cfg, ev_uint32_t current_tick)
__CPROVER_requires(__CPROVER_rw_ok(bucket, sizeof(*bucket)) && __CPROVER_r_ok(cfg, sizeof(*cfg)))
__CPROVER_requires(C21_CFG_OK(cfg))
__CPROVER_assigns(bucket->read_limit, bucket->write_limit, bucket->last_updated)
__CPROVER_ensures(IMP(C21_NOOP(C21_NTICKS(current_tick, __CPROVER_old(bucket->last_updated))), __CPROVER_return_value == 0 && bucket->read_limit == __CPROVER_old(bucket->read_limit) && bucket->write_limit == __CPROVER_old(bucket->write_limit) && bucket->last_updated == __CPROVER_old(bucket->last_updated)))
__CPROVER_ensures(IMP(!C21_NOOP(C21_NTICKS(current_tick, __CPROVER_old(bucket->last_updated))), __CPROVER_return_value == 1 && bucket->last_updated == current_tick))
__CPROVER_ensures(IMP(!C21_NOOP(C21_NTICKS(current_tick, __CPROVER_old(bucket->last_updated))), bucket->read_limit == C21_F(__CPROVER_old(bucket->read_limit), C21_NTICKS(current_tick, __CPROVER_old(bucket->last_updated)), cfg->read_rate, cfg->read_maximum)))
__CPROVER_ensures(IMP(!C21_NOOP(C21_NTICKS(current_tick, __CPROVER_old(bucket->last_updated))), bucket->write_limit == C21_F(__CPROVER_old(bucket->write_limit), C21_NTICKS(current_tick, __CPROVER_old(bucket->last_updated)), cfg->write_rate, cfg->write_maximum)))
;
#endif
