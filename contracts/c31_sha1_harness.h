/* contracts/c31_sha1_harness.h — shared harness of c32_sha1 (equality with a FIPS 180-4
 * reference) and c32_sha1_safety (memory safety for longer messages).  Real sha1.c
 * (builtin_SHA1 -> SHA1Init / SHA1Update / SHA1Transform / SHA1Final), compiled with the
 * build's -DLITTLE_ENDIAN=1.  The message is an object of EXACTLY IN.len bytes at the END of
 * MSG[] (over-reads are out of bounds); the digest buffer is exactly 20 bytes. */
#ifndef VF_SHA_MAX
#define VF_SHA_MAX 55
#endif
#include "vf.h"
#include "sha1.c"
struct in { int len; unsigned char m[VF_SHA_MAX]; uint32_t x, y, z; };
struct in IN;
static unsigned char MSG[VF_SHA_MAX + 1];
static unsigned char DIG[20];

#ifndef VF_SHA_SAFETY_ONLY
/* ---- FIPS 180-4 section 6.1 (SHA-1): padding 5.1.1, parsing 5.2.1, hash computation 6.1.2 ----
 * 32-bit additions are written in the order sha1.c adds its terms (e + (((f + W) + K) + ROTL5(a))):
 * modular addition is associative and commutative, and SAT cannot decide equalities of differently
 * associated sums through 80 rounds.  For the same reason Ch and Maj are evaluated in the forms
 * REF_CH / REF_MAJ below; that these ARE the FIPS functions Ch(x,y,z) = (x&y)^(~x&z) and
 * Maj(x,y,z) = (x&y)^(x&z)^(y&z) is proved for all 32-bit words by the lemma assertions in
 * harness() (symbolic x, y, z). */
#define FIPS_CH(x, y, z)  (((x) & (y)) ^ (~(x) & (z)))
#define FIPS_MAJ(x, y, z) (((x) & (y)) ^ ((x) & (z)) ^ ((y) & (z)))
#define REF_CH(x, y, z)   ((((x) & ((y) ^ (z))) ^ (z)))
#define REF_MAJ(x, y, z)  (((((x) | (y)) & (z)) | ((x) & (y))))
#define ROTL(x, n) ((uint32_t)(((x) << (n)) | ((x) >> (32 - (n)))))
#define VF_SHA_BLOCKS ((VF_SHA_MAX + 8) / 64 + 1)
static void ref_sha1(unsigned char dig[20], const unsigned char *m, int n)
{
	static unsigned char pad[64 * VF_SHA_BLOCKS]; uint32_t W[80], a, b, c, d, e, H0 = 0x67452301u, H1 = 0xefcdab89u, H2 = 0x98badcfeu, H3 = 0x10325476u, H4 = 0xc3d2e1f0u;
	int t, blk, nblk = (n + 8) / 64 + 1; uint64_t bits = (uint64_t)n * 8;
	for (t = 0; t < 64 * VF_SHA_BLOCKS; t++) pad[t] = t < n ? m[t] : (t == n ? 0x80 : 0);             /* 5.1.1: 1 bit, then zeros */
	for (t = 0; t < 8; t++) pad[64 * nblk - 8 + t] = (unsigned char)(bits >> (56 - 8 * t));            /* 64-bit big-endian length */
	for (blk = 0; blk < VF_SHA_BLOCKS; blk++) {
		const unsigned char *p = &pad[64 * blk];
		if (blk >= nblk) break;
		for (t = 0; t < 16; t++) W[t] = ((uint32_t)p[4 * t] << 24) | ((uint32_t)p[4 * t + 1] << 16) | ((uint32_t)p[4 * t + 2] << 8) | p[4 * t + 3];
		for (t = 16; t < 80; t++) W[t] = ROTL(W[t - 3] ^ W[t - 8] ^ W[t - 14] ^ W[t - 16], 1);
		a = H0; b = H1; c = H2; d = H3; e = H4;
		for (t = 0; t < 80; t++) {
			uint32_t f, K, T;
			if (t < 20) { f = REF_CH(b, c, d); K = 0x5a827999u; }
			else if (t < 40) { f = b ^ c ^ d; K = 0x6ed9eba1u; }
			else if (t < 60) { f = REF_MAJ(b, c, d); K = 0x8f1bbcdcu; }
			else { f = b ^ c ^ d; K = 0xca62c1d6u; }
			T = e + (((f + W[t]) + K) + ROTL(a, 5));
			e = d; d = c; c = ROTL(b, 30); b = a; a = T;
		}
		H0 += a; H1 += b; H2 += c; H3 += d; H4 += e;
	}
	for (t = 0; t < 4; t++) { dig[t] = (unsigned char)(H0 >> (24 - 8 * t)); dig[4 + t] = (unsigned char)(H1 >> (24 - 8 * t)); dig[8 + t] = (unsigned char)(H2 >> (24 - 8 * t));
		dig[12 + t] = (unsigned char)(H3 >> (24 - 8 * t)); dig[16 + t] = (unsigned char)(H4 >> (24 - 8 * t)); }
}
static unsigned char REFD[20];
#endif

/* one message length, CONCRETE (the harness enumerates the lengths: with a symbolic length the
 * byte-at-a-time SHA1Update calls and the padding loop of SHA1Final do not unwind concretely) */
/* message content: fully symbolic (IN.m), or — VF_SHA_ONEBYTE — a fixed pattern with ONE arbitrary
 * byte IN.m[0] at the concrete position n/2 */
#ifdef VF_SHA_ONEBYTE
#define VF_MSG_BYTE(i, n) ((i) == (n) / 2 ? IN.m[0] : (unsigned char)(0x61 + ((i) * 7 + (n)) % 26))
#else
#define VF_MSG_BYTE(i, n) (IN.m[i])
#endif
static void run(int n)
{
	int i; unsigned char *m;
	m = &MSG[VF_SHA_MAX - n] + 1;                 /* == &MSG[VF_SHA_MAX + 1 - n]: the message ENDS at the object's end */
	for (i = 0; i < VF_SHA_MAX; i++) { if (i >= n) break; m[i] = VF_MSG_BYTE(i, n); }
	for (i = 0; i < 20; i++) DIG[i] = 0;
	builtin_SHA1((char *)DIG, (const char *)m, n);
#ifndef VF_SHA_SAFETY_ONLY
	ref_sha1(REFD, m, n);
	for (i = 0; i < 20; i++) __CPROVER_assert(DIG[i] == REFD[i], "builtin_SHA1 digest == FIPS 180-4 SHA-1 of the message (byte i)");
#endif
#ifdef VF_CANARY
	__CPROVER_assert(!(n == 0 && DIG[0] == 0xda && DIG[1] == 0x39 && DIG[19] == 0x09), "canary: must fail (SHA-1 of the empty message is da39a3ee...0709)");
#endif
}

#ifndef VF_SHA_LENGTHS        /* which lengths run: default all 0..VF_SHA_MAX */
#define VF_SHA_LENGTHS(L) 1
#endif
void harness(void)
{
	int L;
	VF_LOAD_IN();
	__CPROVER_assume(IN.len >= 0 && IN.len <= VF_SHA_MAX && VF_SHA_LENGTHS(IN.len));
#ifndef VF_SHA_SAFETY_ONLY
	__CPROVER_assert(REF_CH(IN.x, IN.y, IN.z) == FIPS_CH(IN.x, IN.y, IN.z), "lemma: the Ch form used in the reference rounds is FIPS 180-4 Ch, for all words");
	__CPROVER_assert(REF_MAJ(IN.x, IN.y, IN.z) == FIPS_MAJ(IN.x, IN.y, IN.z), "lemma: the Maj form used in the reference rounds is FIPS 180-4 Maj, for all words");
#endif
	for (L = 0; L <= VF_SHA_MAX; L++) if (VF_SHA_LENGTHS(L) && IN.len == L) run(L);
}
