/* contracts/c12b_search_eol_body.h — shared body of the units c12b_search_eol_{any,crlf,lfnul} (one unit per group of EOL
 * styles, selected with VF_EOL_LO..VF_EOL_HI, because all seven styles in one formula take > 15 min).
 * C12/C14/C08 — evbuffer_search_eol (real buffer.c, with the real evbuffer_strchr, find_eol_char,
 * evbuffer_find_eol_char, evbuffer_strspn, evbuffer_getchr, evbuffer_ptr_subtract, evbuffer_ptr_set inlined),
 * CONTENT unit: every shape of <= 3 chains x <= VF_EB_MAXSZ bytes, every byte value, every EOL style (and
 * invalid style values), optional start position.  evbuffer_search (used by CRLF_STRICT) is replaced by
 * search_crlf_c. */
#define VF_NLOCKS 1
#include "vf.h"
#include "buffer.c"
struct eb_in;
#include "stubs/lock.h"
#include "evbuffer_shape.h"
#include "c12b_content_in.h"
struct in { struct eb_in b; struct ct_in d; int style; unsigned use_start, start_kind, use_out; size_t s; size_t out0; unsigned lock_held; unsigned ch[VF_NCHOICE]; };
struct in IN;
#include "stubs/log.h"
#include "stubs/mm.h"
#include "c12b_content.h"
#include "c12b_eol.h"

void harness(void)
{
	struct evbuffer_ptr r; int have_start;
	VF_LOAD_IN();
#ifdef VF_CT_MAXNCH
	__CPROVER_assume(IN.b.nch <= VF_CT_MAXNCH);
#endif
	vf_ct_build(&IN.b, &IN.d);
	vf_ct_model(&IN.b);
	VF_INSTALL_LOCKS(); VF_MM_RESET();
	/* called by users (lock free) and by evbuffer_readln (lock held) */
	if (BUF.lock) g_lock_depth[1] = (IN.lock_held & 1);
	have_start = (IN.use_start & 1);
	__CPROVER_assume(IN.style >= 0 && IN.style <= 6);
	__CPROVER_assume(IN.style >= VF_EOL_LO && IN.style <= VF_EOL_HI);   /* this unit's share of the styles */
	EOL_LEN_OUT = IN.out0;
	if (have_start) {
		__CPROVER_assume(IN.start_kind <= 1);
		if (IN.start_kind == 0) { __CPROVER_assume(IN.s <= M_len); vf_ptr_model(&IN.b, IN.s, &EOL_START); }
		else { IN.s = M_len; EOL_START.pos = -1; EOL_START.internal_.chain = NULL; EOL_START.internal_.pos_in_chain = 0; }   /* "not found" from an earlier search: nothing to find */
	} else IN.s = 0;
	vf_eol_model(&IN.b, IN.style, IN.s);
	r = VF_CALL(search_eol_c, evbuffer_search_eol, &BUF, have_start ? &EOL_START : NULL, (IN.use_out & 1) ? &EOL_LEN_OUT : NULL, (enum evbuffer_eol_style)IN.style);
	if (!(IN.use_out & 1)) __CPROVER_assert(EOL_LEN_OUT == IN.out0, "search_eol: no length reported when the caller passes no pointer");
	if (have_start && IN.start_kind == 0) __CPROVER_assert(vf_ptr_is(&IN.b, &EOL_START, IN.s), "search_eol: the start argument is not modified");
	__CPROVER_assert(vf_binv_idx(&BUF, 0, IN.b.nch) || IN.b.nch == 0, "buffer bookkeeping unchanged");
	(void)r;
#ifdef VF_CANARY
	__CPROVER_assert(r.pos != 1, "canary: must fail (an EOL at position 1 exists)");
#endif
}
