/* contracts/c15_contracts.h — contracts of buffer.c functions that the c15/c16 units REPLACE in callers and ENFORCE in
 * their own unit (same text).  Include after contracts/c15_shape.h, stubs/c15_mm.h, stubs/c15_sys.h.
 *   chain_free_c   evbuffer_chain_free            enforced in c15_chain_free (recursive: --enforce-contract-rec)
 *   seg_free_c     evbuffer_file_segment_free     enforced in c15_seg_free
 *   decref_c       evbuffer_decref_and_unlock_    enforced in c15_decref
 *   invoke_cb_c    evbuffer_invoke_callbacks_     (C13's function; here: ghost record of what the callbacks are shown)
 *   drain_c        evbuffer_drain                 (C12's function, enforced in c12_drain with an equivalent text; here the
 *                                                  caller-visible summary used by evbuffer_write_atmost)
 * Every effect is stated on REAL state (refcnt, flags, …) or on model state maintained by stub bodies (m_al: allocator,
 * m_cl: reference cleanup log, m_sc: segment cleanup log, m_sys: close/munmap, m_lk: lock alloc/free), so that the same
 * text can be enforced; there are no contract-only ghost counters in the enforced contracts. */
#ifndef VF_C15_CONTRACTS_H_
#define VF_C15_CONTRACTS_H_

#define C15_AL_SAME() (m_al.n == __CPROVER_old(m_al.n) && m_al.fail == __CPROVER_old(m_al.fail) && m_al.frees == __CPROVER_old(m_al.frees) && \
	m_al.heap_frees == __CPROVER_old(m_al.heap_frees) && m_al.n_big == __CPROVER_old(m_al.n_big) && m_al.sfreed == __CPROVER_old(m_al.sfreed) && m_al.hfreed == __CPROVER_old(m_al.hfreed))
/* allocator state changed only by releasing harness objects: */
#define C15_AL_ONLY_SFREE() (m_al.n == __CPROVER_old(m_al.n) && m_al.fail == __CPROVER_old(m_al.fail) && \
	m_al.heap_frees == __CPROVER_old(m_al.heap_frees) && m_al.n_big == __CPROVER_old(m_al.n_big) && m_al.hfreed == __CPROVER_old(m_al.hfreed))
#define C15_CL_SAME() (m_cl.n == __CPROVER_old(m_cl.n) && m_cl.mask == __CPROVER_old(m_cl.mask) && m_cl.twice == __CPROVER_old(m_cl.twice))
#define C15_SC_SAME() (m_sc.n == __CPROVER_old(m_sc.n) && m_sc.bad == __CPROVER_old(m_sc.bad))
#define C15_SYS_SAME() (m_sys.close == __CPROVER_old(m_sys.close) && m_sys.munmap == __CPROVER_old(m_sys.munmap) && m_sys.bad == __CPROVER_old(m_sys.bad))
#define C15_LK_SAME() (m_lk.allocs == __CPROVER_old(m_lk.allocs) && m_lk.frees == __CPROVER_old(m_lk.frees) && m_lk.bad_free == __CPROVER_old(m_lk.bad_free))
#define C15_DC_SAME() (m_dc.cancel == __CPROVER_old(m_dc.cancel) && m_dc.sched == __CPROVER_old(m_dc.sched) && m_dc.bevref == __CPROVER_old(m_dc.bevref))
#define C15_SYS_SAME_ALL() (C15_SYS_SAME() && m_sys.mmap == __CPROVER_old(m_sys.mmap) && m_sys.pread == __CPROVER_old(m_sys.pread) && m_sys.last_closed_fd == __CPROVER_old(m_sys.last_closed_fd))
#define C15_ST_SAME() (C15_AL_SAME() && m_al.seglive == __CPROVER_old(m_al.seglive) && m_al.segobj == __CPROVER_old(m_al.segobj) && C15_CL_SAME() && C15_SC_SAME() && C15_SYS_SAME_ALL() && C15_LK_SAME() && C15_DC_SAME())
#define C15_DEPTHS_SAME() (g_lock_depth[1] == __CPROVER_old(g_lock_depth[1]) && g_lock_depth[2] == __CPROVER_old(g_lock_depth[2]) && g_lock_depth[3] == __CPROVER_old(g_lock_depth[3]))
#define C15_LOCKS_SAME() (g_lock_ops >= __CPROVER_old(g_lock_ops) && g_lock_ops <= __CPROVER_old(g_lock_ops) + 64 && g_lock_depth[1] == __CPROVER_old(g_lock_depth[1]) && g_lock_depth[2] == __CPROVER_old(g_lock_depth[2]) && g_lock_depth[3] == __CPROVER_old(g_lock_depth[3]))
#define C15_B2I(x) ((x) ? 1 : 0)

/* ------------------------------------------------------------------------------------------------ evbuffer_file_segment_free */
#define SF_R __CPROVER_old(seg->refcnt)
#define SF_LAST (SF_R == 1)
VF_CONTRACT_V(seg_free_c, struct evbuffer_file_segment *seg)
__CPROVER_requires(seg == &SEG && seg->refcnt > 0)
__CPROVER_requires(!(m_al.sfreed & (1u << 11)))                                                   /* never after it was destroyed */
__CPROVER_requires(seg->lock == NULL || (seg->lock == VF_LOCK_COOKIE(3)))
__CPROVER_requires(seg->cleanup_cb == NULL || seg->cleanup_cb == c15_seg_cleanup_cb)
__CPROVER_requires(IMP(seg->is_mapping, seg->mapping == (void *)SEGDATA) && IMP(!seg->is_mapping, seg->contents == NULL || (seg->contents == (char *)SEGDATA && !(m_al.sfreed & (1u << 12)))))
__CPROVER_assigns(seg->refcnt, seg->cleanup_cb, seg->cleanup_cb_arg, __CPROVER_object_whole(g_lock_depth), g_lock_ops, m_st)
/* 1 a reference is dropped; the segment lock is released again */
__CPROVER_ensures(IMP(!SF_LAST, seg->refcnt == SF_R - 1))
__CPROVER_ensures(C15_LOCKS_SAME())
/* 3 not the last reference: nothing else happens */
__CPROVER_ensures(C15_CL_SAME() && C15_DC_SAME() && m_sys.mmap == __CPROVER_old(m_sys.mmap) && m_sys.pread == __CPROVER_old(m_sys.pread))
__CPROVER_ensures(IMP(!SF_LAST, C15_ST_SAME() && seg->cleanup_cb == __CPROVER_old(seg->cleanup_cb) && seg->cleanup_cb_arg == __CPROVER_old(seg->cleanup_cb_arg)))
/* 4 last reference: the segment object is released exactly once, its contents are unmapped (mapping) or freed (read into
 *   memory) exactly once, the fd is closed iff EVBUF_FS_CLOSE_ON_FREE (and it is an fd), the cleanup callback runs exactly
 *   once with (segment, flags, argument), the segment's lock is freed */
__CPROVER_ensures(IMP(SF_LAST, C15_AL_ONLY_SFREE() && m_al.sfreed == (__CPROVER_old(m_al.sfreed) | (1u << 11) | ((!seg->is_mapping && seg->contents != NULL) ? (1u << 12) : 0u))))
__CPROVER_ensures(IMP(SF_LAST, m_al.frees == __CPROVER_old(m_al.frees) + 1 + C15_B2I(!seg->is_mapping && seg->contents != NULL)))
__CPROVER_ensures(IMP(SF_LAST, m_sys.munmap == __CPROVER_old(m_sys.munmap) + C15_B2I(seg->is_mapping) && m_sys.close == __CPROVER_old(m_sys.close) + C15_B2I((seg->flags & EVBUF_FS_CLOSE_ON_FREE) && seg->fd >= 0) && m_sys.bad == __CPROVER_old(m_sys.bad)))
__CPROVER_ensures(IMP(SF_LAST, m_sc.n == __CPROVER_old(m_sc.n) + C15_B2I(__CPROVER_old(seg->cleanup_cb) != NULL) && m_sc.bad == __CPROVER_old(m_sc.bad)))
__CPROVER_ensures(IMP(SF_LAST, m_lk.frees == __CPROVER_old(m_lk.frees) + C15_B2I(seg->lock != NULL) && m_lk.bad_free == __CPROVER_old(m_lk.bad_free) && m_lk.allocs == __CPROVER_old(m_lk.allocs)))
;

/* ------------------------------------------------------------------------------------------------ evbuffer_decref_and_unlock_ */
#define DR_R __CPROVER_old(buffer->refcnt)
#define DR_LAST (DR_R == 1)
#define DR_LK(k) (__CPROVER_old(buffer->lock) == VF_LOCK_COOKIE(k))
#define DR_MAY_RELEASE ((buffer == &BUF ? (0x7u | (1u << 9) | (1u << 13) | (1u << 14)) : 0u) | 0x38u | (1u << 10) | (1u << 11) | (1u << 12))
VF_CONTRACT_V(decref_c, struct evbuffer *buffer)
__CPROVER_requires(buffer == &BUF || buffer == &SRC)
__CPROVER_requires(buffer->refcnt > 0)                                                            /* EVUTIL_ASSERT(buffer->refcnt > 0) */
__CPROVER_requires(!(m_al.sfreed & C15_BIT(buffer)))                                               /* never after it was destroyed */
__CPROVER_requires(buffer->lock == NULL || ((buffer->lock == VF_LOCK_COOKIE(1) || buffer->lock == VF_LOCK_COOKIE(2)) && g_lock_depth[C15_LOCKIDX(buffer)] >= 1))   /* the caller holds the lock */
__CPROVER_assigns(buffer->refcnt, __CPROVER_object_whole(g_lock_depth), g_lock_ops, m_st;
	buffer->refcnt == 1 && buffer == &BUF: __CPROVER_object_whole(&BUF), __CPROVER_object_whole(&XC[0]), __CPROVER_object_whole(&XC[1]), __CPROVER_object_whole(&XC[2]), __CPROVER_object_whole(&CBE[0]), __CPROVER_object_whole(&CBE[1]);
	buffer->refcnt == 1: __CPROVER_object_whole(&SRC), __CPROVER_object_whole(&PC[0]), __CPROVER_object_whole(&PC[1]), __CPROVER_object_whole(&PC[2]), __CPROVER_object_whole(&SEG))
/* 1 the lock the caller held is released once (whatever else happens) */
__CPROVER_ensures(g_lock_depth[1] == __CPROVER_old(g_lock_depth[1]) - C15_B2I(DR_LK(1)) && g_lock_depth[2] == __CPROVER_old(g_lock_depth[2]) - C15_B2I(DR_LK(2)) && g_lock_depth[3] == __CPROVER_old(g_lock_depth[3]) &&
	g_lock_ops >= __CPROVER_old(g_lock_ops) && g_lock_ops <= __CPROVER_old(g_lock_ops) + 64)
/* 2 not the last reference: one reference less, nothing else */
__CPROVER_ensures(IMP(!DR_LAST, buffer->refcnt == DR_R - 1 && C15_ST_SAME()))
/* 3 last reference: the buffer object is released (exactly once: event_mm_free_ refuses a second time); what was released or
 *   cleaned up before stays so (the per-chain effects are those of chain_free_c, asserted in unit c15_decref) */
__CPROVER_ensures(IMP(DR_LAST, (m_al.sfreed & (__CPROVER_old(m_al.sfreed) | C15_BIT(buffer))) == (__CPROVER_old(m_al.sfreed) | C15_BIT(buffer)) && C15_AL_ONLY_SFREE()))
/* only objects that hang off this buffer can be released with it: its chains, itself, the segment (and through multicast chains of BUF: SRC and its chains) */
__CPROVER_ensures(IMP(DR_LAST, (m_al.sfreed & ~DR_MAY_RELEASE) == (__CPROVER_old(m_al.sfreed) & ~DR_MAY_RELEASE) && m_al.frees > __CPROVER_old(m_al.frees) && m_al.frees <= __CPROVER_old(m_al.frees) + 12))
__CPROVER_ensures(IMP(DR_LAST, m_cl.n >= __CPROVER_old(m_cl.n) && m_cl.n <= __CPROVER_old(m_cl.n) + 6 && (m_cl.mask & __CPROVER_old(m_cl.mask)) == __CPROVER_old(m_cl.mask) && m_cl.twice == __CPROVER_old(m_cl.twice)))
__CPROVER_ensures(IMP(DR_LAST, m_sc.bad == __CPROVER_old(m_sc.bad) && m_sys.bad == __CPROVER_old(m_sys.bad) && m_lk.bad_free == __CPROVER_old(m_lk.bad_free) && m_dc.sched == __CPROVER_old(m_dc.sched) && m_dc.bevref == __CPROVER_old(m_dc.bevref) &&
	m_dc.cancel >= __CPROVER_old(m_dc.cancel) && m_dc.cancel <= __CPROVER_old(m_dc.cancel) + 2 && m_sc.n >= __CPROVER_old(m_sc.n) && m_sc.n <= __CPROVER_old(m_sc.n) + 1 && m_sys.close >= __CPROVER_old(m_sys.close) && m_sys.close <= __CPROVER_old(m_sys.close) + 1 &&
	m_sys.munmap >= __CPROVER_old(m_sys.munmap) && m_sys.munmap <= __CPROVER_old(m_sys.munmap) + 1 && m_lk.frees >= __CPROVER_old(m_lk.frees) && m_lk.frees <= __CPROVER_old(m_lk.frees) + 3 && m_lk.allocs == __CPROVER_old(m_lk.allocs) && m_sys.mmap == __CPROVER_old(m_sys.mmap) && m_sys.pread == __CPROVER_old(m_sys.pread)))
;

/* ------------------------------------------------------------------------------------------------ evbuffer_chain_free */
#define CF_R __CPROVER_old(chain->refcnt)
#define CF_F __CPROVER_old(chain->flags)
#define CF_REL (CF_R == 1 && !(CF_F & EVBUFFER_MEM_PINNED_ANY))                    /* the chain is released by this call */
#define CF_REFI(ch) C15_EXTRA(struct evbuffer_chain_reference, ch)
#define CF_FSI(ch) C15_EXTRA(struct evbuffer_chain_file_segment, ch)
#define CF_MCI(ch) C15_EXTRA(struct evbuffer_multicast_parent, ch)
#define CF_OWNCL (CF_REL && (CF_F & EVBUFFER_REFERENCE) && CF_REFI(chain)->cleanupfn != NULL)      /* its cleanup callback is due */
#define CF_FS (CF_REL && (CF_F & EVBUFFER_FILESEGMENT) && CF_FSI(chain)->segment != NULL)
#define CF_MC (CF_REL && (CF_F & EVBUFFER_MULTICAST))
#define CF_PAR(k) (CF_MC && CF_MCI(chain)->parent == &PC[k].c)                     /* PC[k] is the multicast parent whose reference is dropped */
#define CF_PREL(k) (CF_PAR(k) && __CPROVER_old(PC[k].c.refcnt) == 1 && !(__CPROVER_old(PC[k].c.flags) & EVBUFFER_MEM_PINNED_ANY))   /* … and it is released too */
#define CF_PCL(k) (CF_PREL(k) && (__CPROVER_old(PC[k].c.flags) & EVBUFFER_REFERENCE) && PC[k].x.a != NULL)
#define CF_TORN (CF_MC && __CPROVER_old(SRC.refcnt) == 1)                           /* the source buffer lost its last reference */
#define CF_SEGLAST (CF_FS && __CPROVER_old(SEG.refcnt) == 1)
#define CF_PC_SAME(k) (PC[k].c.refcnt == __CPROVER_old(PC[k].c.refcnt) && PC[k].c.flags == __CPROVER_old(PC[k].c.flags))
VF_CONTRACT_V(chain_free_c, struct evbuffer_chain *chain)
__CPROVER_requires(C15_IS_XC(chain) || C15_IS_PC(chain))
__CPROVER_requires(chain->refcnt > 0)                                                             /* EVUTIL_ASSERT(chain->refcnt > 0) */
__CPROVER_requires(!(m_al.sfreed & C15_BIT(chain)))                                                /* never after it was released: no double free */
__CPROVER_requires(IMP(chain->flags & EVBUFFER_REFERENCE, CF_REFI(chain)->cleanupfn == NULL || CF_REFI(chain)->cleanupfn == c15_cleanup_cb))
__CPROVER_requires(IMP(chain->flags & EVBUFFER_FILESEGMENT, CF_FSI(chain)->segment == NULL || (CF_FSI(chain)->segment == &SEG && SEG.refcnt > 0 && !(m_al.sfreed & (1u << 11)))))
/* a multicast chain holds one reference on its parent chain and one on the source buffer (APPEND_CHAIN_MULTICAST); parents are never multicast or file segments:
 * evbuffer_add_buffer_reference refuses sources that contain such chains */
__CPROVER_requires(IMP(chain->flags & EVBUFFER_MULTICAST, C15_IS_XC(chain) && CF_MCI(chain)->source == &SRC && C15_IS_PC(CF_MCI(chain)->parent) &&
	CF_MCI(chain)->parent->refcnt > 0 && !(CF_MCI(chain)->parent->flags & (EVBUFFER_MULTICAST | EVBUFFER_FILESEGMENT | EVBUFFER_SENDFILE)) && !(m_al.sfreed & C15_BIT(CF_MCI(chain)->parent)) && SRC.refcnt > 0 && !(m_al.sfreed & (1u << 10))))
__CPROVER_assigns(chain->flags, chain->refcnt, chain->next, m_st;
	chain->refcnt == 1 && (chain->flags & EVBUFFER_FILESEGMENT): SEG.refcnt, SEG.cleanup_cb, SEG.cleanup_cb_arg, __CPROVER_object_whole(g_lock_depth), g_lock_ops;
	chain->refcnt == 1 && (chain->flags & EVBUFFER_MULTICAST): __CPROVER_object_whole(g_lock_depth), g_lock_ops, __CPROVER_object_whole(&SRC), __CPROVER_object_whole(&PC[0]), __CPROVER_object_whole(&PC[1]), __CPROVER_object_whole(&PC[2]), __CPROVER_object_whole(&SEG))
/* 1 still referenced elsewhere: one reference less, nothing else.  (A RELEASED chain's link is arbitrary afterwards: a caller that follows it reads freed memory.) */
__CPROVER_ensures(IMP(CF_R > 1, chain->refcnt == CF_R - 1 && chain->flags == CF_F))
__CPROVER_ensures(IMP(!CF_REL, chain->next == __CPROVER_old(chain->next)))
/* 2 last reference but pinned: kept alive, marked DANGLING (released at unpin), nothing else */
__CPROVER_ensures(IMP(CF_R == 1 && (CF_F & EVBUFFER_MEM_PINNED_ANY), chain->refcnt == 1 && chain->flags == (CF_F | EVBUFFER_DANGLING)))
/* 3 not released: no callback, nothing freed (the other fields of the chain are not assignable at all) */
__CPROVER_ensures(IMP(!CF_REL, C15_ST_SAME()))
__CPROVER_ensures(IMP(CF_REL && !CF_FS && !CF_TORN, C15_SC_SAME() && C15_SYS_SAME_ALL() && C15_LK_SAME()))
__CPROVER_ensures(IMP(CF_REL && !CF_TORN, C15_DC_SAME()))
__CPROVER_ensures(m_sys.mmap == __CPROVER_old(m_sys.mmap) && m_sys.pread == __CPROVER_old(m_sys.pread) && m_al.n == __CPROVER_old(m_al.n) && m_al.fail == __CPROVER_old(m_al.fail))
/* 5 released: the cleanup callback of a reference chain is called exactly once, with the chain's (buffer, buffer_len, extra)
 *   (c15_cleanup_cb records WHICH chain's triple it was given and fails on any other); a released parent likewise */
__CPROVER_ensures(IMP(CF_REL && !CF_TORN, m_cl.n == __CPROVER_old(m_cl.n) + C15_B2I(CF_OWNCL) + C15_B2I(CF_PCL(0)) + C15_B2I(CF_PCL(1)) + C15_B2I(CF_PCL(2))))
__CPROVER_ensures(IMP(CF_REL && !CF_TORN, m_cl.mask == (__CPROVER_old(m_cl.mask) | (CF_OWNCL ? C15_BIT(chain) : 0u) | (CF_PCL(0) ? 8u : 0u) | (CF_PCL(1) ? 16u : 0u) | (CF_PCL(2) ? 32u : 0u)) && m_cl.twice == __CPROVER_old(m_cl.twice)))
/* 7 released: the chain's memory is handed to event_mm_free_ exactly once (and a parent that lost its last reference) */
__CPROVER_ensures(IMP(CF_REL && !CF_TORN && !CF_SEGLAST, C15_AL_ONLY_SFREE() && m_al.sfreed == (__CPROVER_old(m_al.sfreed) | C15_BIT(chain) | (CF_PREL(0) ? 8u : 0u) | (CF_PREL(1) ? 16u : 0u) | (CF_PREL(2) ? 32u : 0u)) &&
	m_al.frees == __CPROVER_old(m_al.frees) + 1 + C15_B2I(CF_PREL(0)) + C15_B2I(CF_PREL(1)) + C15_B2I(CF_PREL(2))))
__CPROVER_ensures(IMP(CF_REL, (m_al.sfreed & (__CPROVER_old(m_al.sfreed) | C15_BIT(chain))) == (__CPROVER_old(m_al.sfreed) | C15_BIT(chain)) && m_al.frees > __CPROVER_old(m_al.frees) && C15_AL_ONLY_SFREE()))
/* 9 released file-segment chain: exactly one reference on the segment is dropped (seg_free_c says what that entails) */
__CPROVER_ensures(IMP(CF_FS && !CF_SEGLAST, SEG.refcnt == __CPROVER_old(SEG.refcnt) - 1 && m_sc.n == __CPROVER_old(m_sc.n) && m_sys.close == __CPROVER_old(m_sys.close) && m_sys.munmap == __CPROVER_old(m_sys.munmap)))
__CPROVER_ensures(IMP(CF_SEGLAST, (m_al.sfreed & (1u << 11)) && m_sc.n == __CPROVER_old(m_sc.n) + C15_B2I(__CPROVER_old(SEG.cleanup_cb) != NULL)))
/* 11 released multicast chain: exactly one reference on the parent chain and one on the source buffer are dropped */
__CPROVER_ensures(IMP(CF_MC && !CF_TORN, SRC.refcnt == __CPROVER_old(SRC.refcnt) - 1))
__CPROVER_ensures(IMP(CF_PAR(0) && !CF_PREL(0) && !CF_TORN, IMP(__CPROVER_old(PC[0].c.refcnt) > 1, PC[0].c.refcnt == __CPROVER_old(PC[0].c.refcnt) - 1 && PC[0].c.flags == __CPROVER_old(PC[0].c.flags))))
__CPROVER_ensures(IMP(CF_PAR(1) && !CF_PREL(1) && !CF_TORN, IMP(__CPROVER_old(PC[1].c.refcnt) > 1, PC[1].c.refcnt == __CPROVER_old(PC[1].c.refcnt) - 1 && PC[1].c.flags == __CPROVER_old(PC[1].c.flags))))
__CPROVER_ensures(IMP(CF_PAR(2) && !CF_PREL(2) && !CF_TORN, IMP(__CPROVER_old(PC[2].c.refcnt) > 1, PC[2].c.refcnt == __CPROVER_old(PC[2].c.refcnt) - 1 && PC[2].c.flags == __CPROVER_old(PC[2].c.flags))))
__CPROVER_ensures(IMP(CF_MC && !CF_TORN, (CF_PAR(0) || CF_PC_SAME(0)) && (CF_PAR(1) || CF_PC_SAME(1)) && (CF_PAR(2) || CF_PC_SAME(2))))
/* 16 the source buffer's lock is taken and released again */
__CPROVER_ensures(C15_DEPTHS_SAME() && g_lock_ops >= __CPROVER_old(g_lock_ops) && g_lock_ops <= __CPROVER_old(g_lock_ops) + 256)
;


/* ------------------------------------------------------------------------------------------------ evbuffer_chain_free, chains that are not MULTICAST */
/* The same clauses as chain_free_c restricted to chains without EVBUFFER_MULTICAST (no parent chain, no source buffer): a much smaller
 * frame, which is what makes the callers' units affordable.  Enforced in unit c15_chain_free_lite; callers whose buffers hold no
 * multicast chain replace evbuffer_chain_free by this one, the others by chain_free_c. */
#define C15_CHBIT(p) ((p) == &XC[0].c ? 1u : (p) == &XC[1].c ? 2u : (p) == &XC[2].c ? 4u : (p) == &PC[0].c ? 8u : (p) == &PC[1].c ? 16u : 32u)
VF_CONTRACT_V(chain_free_lite_c, struct evbuffer_chain *chain)
__CPROVER_requires(C15_IS_XC(chain) || C15_IS_PC(chain))
__CPROVER_requires(chain->refcnt > 0 && !(chain->flags & EVBUFFER_MULTICAST))
__CPROVER_requires(!(m_al.sfreed & C15_CHBIT(chain)))                                              /* never after it was released: no double free */
__CPROVER_requires(IMP(chain->flags & EVBUFFER_REFERENCE, CF_REFI(chain)->cleanupfn == NULL || CF_REFI(chain)->cleanupfn == c15_cleanup_cb))
__CPROVER_requires(IMP(chain->flags & EVBUFFER_FILESEGMENT, CF_FSI(chain)->segment == NULL || (CF_FSI(chain)->segment == &SEG && SEG.refcnt > 0 && !(m_al.sfreed & (1u << 11)))))
__CPROVER_assigns(chain->flags, chain->refcnt, chain->next, m_st;
	chain->refcnt == 1 && (chain->flags & EVBUFFER_FILESEGMENT): SEG.refcnt, SEG.cleanup_cb, SEG.cleanup_cb_arg, __CPROVER_object_whole(g_lock_depth), g_lock_ops)
__CPROVER_ensures(IMP(CF_R > 1, chain->refcnt == CF_R - 1 && chain->flags == CF_F))
__CPROVER_ensures(IMP(!CF_REL, chain->next == __CPROVER_old(chain->next)))   /* a RELEASED chain's link is arbitrary afterwards: following it reads freed memory */
__CPROVER_ensures(IMP(CF_R == 1 && (CF_F & EVBUFFER_MEM_PINNED_ANY), chain->refcnt == 1 && chain->flags == (CF_F | EVBUFFER_DANGLING)))
__CPROVER_ensures(IMP(!CF_REL, C15_ST_SAME()))
__CPROVER_ensures(IMP(CF_REL && !CF_FS, C15_SC_SAME() && C15_SYS_SAME_ALL() && C15_LK_SAME()))
__CPROVER_ensures(C15_DC_SAME() && m_sys.mmap == __CPROVER_old(m_sys.mmap) && m_sys.pread == __CPROVER_old(m_sys.pread) && m_al.n == __CPROVER_old(m_al.n) && m_al.fail == __CPROVER_old(m_al.fail))
/* released: the cleanup callback of a reference chain is called exactly once with the chain's (buffer, buffer_len, extra) */
__CPROVER_ensures(IMP(CF_REL, m_cl.n == __CPROVER_old(m_cl.n) + C15_B2I(CF_OWNCL) && m_cl.mask == (__CPROVER_old(m_cl.mask) | (CF_OWNCL ? C15_CHBIT(chain) : 0u)) && m_cl.twice == __CPROVER_old(m_cl.twice)))
/* released: the chain's memory is handed to event_mm_free_ exactly once */
__CPROVER_ensures(IMP(CF_REL && !CF_SEGLAST, C15_AL_ONLY_SFREE() && m_al.sfreed == (__CPROVER_old(m_al.sfreed) | C15_CHBIT(chain)) && m_al.frees == __CPROVER_old(m_al.frees) + 1))
__CPROVER_ensures(IMP(CF_SEGLAST, C15_AL_ONLY_SFREE() && (m_al.sfreed & ~(1u << 12)) == (__CPROVER_old(m_al.sfreed) | C15_CHBIT(chain) | (1u << 11)) && m_al.frees > __CPROVER_old(m_al.frees) + 1 && m_al.frees <= __CPROVER_old(m_al.frees) + 3))
/* released file-segment chain: exactly one reference on the segment is dropped (seg_free_c says what that entails) */
__CPROVER_ensures(IMP(CF_FS && !CF_SEGLAST, SEG.refcnt == __CPROVER_old(SEG.refcnt) - 1 && C15_SC_SAME() && C15_SYS_SAME_ALL() && C15_LK_SAME() && SEG.cleanup_cb == __CPROVER_old(SEG.cleanup_cb) && SEG.cleanup_cb_arg == __CPROVER_old(SEG.cleanup_cb_arg)))
__CPROVER_ensures(IMP(CF_SEGLAST, m_sc.n == __CPROVER_old(m_sc.n) + C15_B2I(__CPROVER_old(SEG.cleanup_cb) != NULL) && m_sc.bad == __CPROVER_old(m_sc.bad) && m_sys.bad == __CPROVER_old(m_sys.bad) && m_lk.bad_free == __CPROVER_old(m_lk.bad_free) &&
	m_sys.close >= __CPROVER_old(m_sys.close) && m_sys.close <= __CPROVER_old(m_sys.close) + 1 && m_sys.munmap >= __CPROVER_old(m_sys.munmap) && m_sys.munmap <= __CPROVER_old(m_sys.munmap) + 1 &&
	m_lk.frees >= __CPROVER_old(m_lk.frees) && m_lk.frees <= __CPROVER_old(m_lk.frees) + 1 && m_lk.allocs == __CPROVER_old(m_lk.allocs)))
__CPROVER_ensures(IMP(!CF_REL || !(CF_F & EVBUFFER_FILESEGMENT), 1))
__CPROVER_ensures(C15_LOCKS_SAME())
;

/* ------------------------------------------------------------------------------------------------ evbuffer_invoke_callbacks_ */
/* called with the buffer locked; records what the callbacks are shown (the totals at the moment of the call); afterwards the
 * two counters are either both cleared (callbacks ran or there are none) or both untouched (deferred). */
#define C15_BUFIDX(b) ((int)((b) == &SRC))
VF_CONTRACT_V(invoke_cb_c, struct evbuffer *buffer)
__CPROVER_requires(buffer == &BUF || buffer == &SRC)
__CPROVER_requires(IMP(buffer->lock != NULL, g_lock_depth[C15_LOCKIDX(buffer)] >= 1))
__CPROVER_assigns(g_cbs, buffer->n_add_for_cb, buffer->n_del_for_cb)
#define C15_INVOKED_(k, o) (g_cbs.n[k] == __CPROVER_old(g_cbs.n[k]) + 1 && g_cbs.total[k] == buffer->total_len && \
	g_cbs.nadd[k] == __CPROVER_old(buffer->n_add_for_cb) && g_cbs.ndel[k] == __CPROVER_old(buffer->n_del_for_cb) && \
	g_cbs.n[o] == __CPROVER_old(g_cbs.n[o]) && g_cbs.total[o] == __CPROVER_old(g_cbs.total[o]) && g_cbs.nadd[o] == __CPROVER_old(g_cbs.nadd[o]) && g_cbs.ndel[o] == __CPROVER_old(g_cbs.ndel[o]))
__CPROVER_ensures(IMP(buffer == &BUF, C15_INVOKED_(0, 1)))
__CPROVER_ensures(IMP(buffer == &SRC, C15_INVOKED_(1, 0)))
__CPROVER_ensures((buffer->n_add_for_cb == __CPROVER_old(buffer->n_add_for_cb) && buffer->n_del_for_cb == __CPROVER_old(buffer->n_del_for_cb)) || (buffer->n_add_for_cb == 0 && buffer->n_del_for_cb == 0))
;
#endif
