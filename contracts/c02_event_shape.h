/* contracts/c02_event_shape.h — harness-built event_base + subject event + <= 2 neighbours for
 * units on the real event.c (DESIGN §8 C01/C02).  Include after "event.c" and after
 * `struct in IN` (which embeds struct c02_base_in / c02_ev_in).  Everything scalar is symbolic;
 * pointer structure is assigned (never assumed).  Under --dfcc every static is
 * nondeterministic, so every field that a unit reads is assigned here.
 *
 * Objects:  BASE (the base), AQ[] (activequeues; only the queue a unit touches is built),
 * EV (subject event), NB[2] (neighbours in a TAILQ: NB[0] before, NB[1] after EV), HP[] (the
 * visible top slot of the timer heap), HEV[2] (other heap members), CTL/CTQ (one common-timeout
 * queue reachable through common_timeout_queues[idx]).
 */
#ifndef VF_C02_EVENT_SHAPE_H_
#define VF_C02_EVENT_SHAPE_H_

#define C02_NQ 256                 /* EVENT_MAX_PRIORITIES: evcb_pri is a byte */
#ifndef C02_SEC_BITS
#define C02_SEC_BITS 40
#endif
#define C02_SEC_MAX ((long)1 << C02_SEC_BITS)     /* |tv_sec| bound of every timeval (about 34865 years); keeps sec+sec from overflowing */
#define C02_EVF_QUEUES (EVLIST_TIMEOUT|EVLIST_INSERTED|EVLIST_ACTIVE|EVLIST_ACTIVE_LATER)

struct c02_ev_in {
	short flags, events, res, ncalls;
	unsigned char pri, closure;
	int fd;
	long to_sec, to_usec;          /* ev_timeout (usec may carry common-timeout magic bits) */
	long io_sec, io_usec;          /* ev_io_timeout (persist interval) */
	size_t heap_idx;
	int has_pncalls;
};
struct c02_base_in {
	int nq;                        /* nactivequeues 1..256 */
	int event_count, event_count_max, event_count_active, event_count_active_max;
	int virtual_event_count, virtual_event_count_max;
	int running_loop, running_priority, event_continue, event_break;
	unsigned long owner;           /* th_owner_id */
	unsigned long self;            /* what evthread_id_fn_ returns */
	int threads;                   /* evthread_id_fn_ installed? */
	int has_lock, has_cond;
	int is_notify_pending, has_notify_fn, notify_ret;
	int n_common;                  /* n_common_timeouts 0..256 */
	size_t heap_n, heap_a;
	long now_sec, now_usec;        /* ghost clock reading (what gettime() hands out) */
	long diff_sec, diff_usec;      /* tv_clock_diff */
	int cur;                       /* 0: current_event == NULL, 1: == EV, 2: some other callback */
	int n_deferreds;
};

static struct event_base BASE;
/* C02_NQA: size of the materialised activequeues array (nactivequeues <= C02_NQA).  Units whose
 * function never touches an active queue define C02_NO_AQ: one slot is materialised, nactivequeues
 * ranges over 1..256 and any queue access beyond slot 0 is reported by the bounds checks. */
#ifdef C02_NO_AQ
#undef C02_NQA
#define C02_NQA 1
#define C02_NQ_LIMIT C02_NQ
#else
#ifndef C02_NQA
#define C02_NQA C02_NQ
#endif
#define C02_NQ_LIMIT C02_NQA
#endif
static struct evcallback_list AQ[C02_NQA];
static struct event EV;
static struct event NB[2];
static struct event FAR_EV;                   /* an element of a queue beyond the neighbourhood */
static struct event HEV[2];
static struct event *HP[1];                 /* timeheap.p: only slot 0 (the top) is ever read outside minheap-internal.h */
static struct common_timeout_list CTL, CTL2;  /* CTL: queue the subject is (was) in; CTL2: another registered queue */
static struct event NB2;                      /* head of CTL2 when it is not empty */
#ifndef C02_NCT
#define C02_NCT 256                /* MAX_COMMON_TIMEOUTS */
#endif
static struct common_timeout_list *CTQ[C02_NCT];
static struct event_callback OTHERCB;       /* "some other callback" for current_event */
static short PNCALLS;                       /* target of ev_pncalls */
static char c02_condobj_;                   /* condition-variable cookie */

/* ---- thread id / notify / condition stubs (function-pointer targets, set by c02_build_base) */
static unsigned long c02_self_;
static unsigned long c02_id_fn(void) { return c02_self_; }
int g_notify_calls; int g_notify_ret;
static int c02_notify_fn(struct event_base *b)
{
	__CPROVER_assert(b == &BASE, "th_notify_fn: called on the base");
	__CPROVER_assert(BASE.th_base_lock == NULL || g_lock_depth[1] >= 1, "th_notify_fn: called with the base lock held");
	g_notify_calls++;
	return g_notify_ret;
}
int g_cond_waits;
static int c02_cond_wait(void *cond, void *lock, const struct timeval *tv)
{
	__CPROVER_assert(cond == (void *)&c02_condobj_, "cond_wait: on current_event_cond");
	__CPROVER_assert(lock == BASE.th_base_lock, "cond_wait: with the base lock");
	__CPROVER_assert(lock == NULL || g_lock_depth[1] >= 1, "cond_wait: the base lock is held");
	__CPROVER_assert(tv == NULL, "cond_wait: untimed");
	g_cond_waits++;
	return 0;
}

/* a stored deadline: sec in range, microseconds < 10^6 in the low 20 bits, ANY magic/index bits 20..31 above them */
#define C02_DEADLINE_OK(sec, usec) ((sec) >= 0 && (sec) <= C02_SEC_MAX && (usec) >= 0 && (usec) <= 0xffffffffL && ((usec) & 0xfffff) < 1000000)
#define C02_TV_OK(sec, usec) ((sec) >= 0 && (sec) <= C02_SEC_MAX && (usec) >= 0 && (usec) < 1000000)

/* Builds BASE from IN.  Counter ranges: 0 <= count <= INT_MAX-8 (event_count <= 3 x number of
 * live events, each >= sizeof(struct event) bytes: overflow is out of reach of memory). */
static void c02_build_base(const struct c02_base_in *s)
{
	__CPROVER_assume(s->nq >= 1 && s->nq <= C02_NQ_LIMIT);
	__CPROVER_assume(s->event_count >= 0 && s->event_count <= INT_MAX - 8);
	__CPROVER_assume(s->event_count_max >= 0);
	__CPROVER_assume(s->event_count_active >= 0 && s->event_count_active <= INT_MAX - 8);
	__CPROVER_assume(s->event_count_active_max >= 0);
	__CPROVER_assume(s->virtual_event_count >= 0 && s->virtual_event_count_max >= 0);
	__CPROVER_assume(s->n_common >= 0 && s->n_common <= C02_NCT);
	__CPROVER_assume(s->heap_n <= s->heap_a && s->heap_a <= ((size_t)1 << 40));
	__CPROVER_assume(C02_TV_OK(s->now_sec, s->now_usec));
	__CPROVER_assume(s->running_priority >= -1 && s->running_priority < C02_NQ);
	BASE.activequeues = AQ; BASE.nactivequeues = s->nq;
	BASE.event_count = s->event_count; BASE.event_count_max = s->event_count_max;
	BASE.event_count_active = s->event_count_active; BASE.event_count_active_max = s->event_count_active_max;
	BASE.virtual_event_count = s->virtual_event_count; BASE.virtual_event_count_max = s->virtual_event_count_max;
	BASE.running_loop = s->running_loop & 1; BASE.event_running_priority = s->running_priority;
	BASE.event_continue = s->event_continue & 1; BASE.event_break = s->event_break & 1;
	BASE.th_owner_id = s->owner;
	BASE.th_base_lock = (s->has_lock & 1) ? VF_LOCK_COOKIE(1) : NULL;
	BASE.current_event_cond = (s->has_cond & 1) ? (void *)&c02_condobj_ : NULL;
	BASE.current_event_waiters = 0;
	BASE.current_event = s->cur == 0 ? NULL : s->cur == 1 ? &EV.ev_evcallback : &OTHERCB;
	BASE.is_notify_pending = s->is_notify_pending & 1;
	BASE.th_notify_fn = (s->has_notify_fn & 1) ? c02_notify_fn : NULL;
	BASE.n_common_timeouts = s->n_common; BASE.n_common_timeouts_allocated = C02_NCT;
	BASE.common_timeout_queues = CTQ;
	BASE.timeheap.p = HP; BASE.timeheap.n = s->heap_n; BASE.timeheap.a = s->heap_a;
	BASE.tv_cache.tv_sec = 0; BASE.tv_cache.tv_usec = 0;
	BASE.tv_clock_diff.tv_sec = s->diff_sec; BASE.tv_clock_diff.tv_usec = s->diff_usec;
	BASE.n_deferreds_queued = s->n_deferreds;
	c02_self_ = s->self;
	evthread_id_fn_ = (s->threads & 1) ? c02_id_fn : NULL;
	evthread_cond_fns_.wait_condition = c02_cond_wait;
	g_notify_calls = 0; g_notify_ret = s->notify_ret; g_cond_waits = 0;
	event_debug_mode_on_ = 0;
	event_debug_mode_too_late = 1;             /* set by event_base_new_with_config: a base exists */
	event_debug_map_lock_ = NULL;
	event_global_current_base_ = NULL;
}

/* Event type invariant (what event_assign + the queue helpers maintain):
 *  flags within EVLIST_ALL; never ACTIVE and ACTIVE_LATER together (event_active_nolock_ asserts it);
 *  pri < nactivequeues (event_assign / event_priority_set; documented: priorities are initialised
 *  before events are created); closure/events as event_assign leaves them. */
static void c02_build_ev(struct event *ev, const struct c02_ev_in *s, int is_event)
{
	__CPROVER_assume((s->flags & ~EVLIST_ALL) == 0);
	__CPROVER_assume((s->flags & (EVLIST_ACTIVE|EVLIST_ACTIVE_LATER)) != (EVLIST_ACTIVE|EVLIST_ACTIVE_LATER));
	__CPROVER_assume(IMP(is_event, s->flags & EVLIST_INIT));
	__CPROVER_assume((int)s->pri < BASE.nactivequeues);
	ev->ev_flags = s->flags; ev->ev_pri = s->pri; ev->ev_closure = s->closure;
	ev->ev_events = s->events; ev->ev_res = s->res; ev->ev_fd = s->fd;
	ev->ev_base = &BASE;
	ev->ev_timeout.tv_sec = s->to_sec; ev->ev_timeout.tv_usec = s->to_usec;
}

/* ---- TAILQ neighbourhoods --------------------------------------------------------------
 * elem in queue: prev is the head (shape bit 0 clear) or NB[0]; next is nothing (bit 1 clear) or NB[1];
 * with a predecessor, the queue's first element is NB[0] itself or (bit 2) an element further away. */
#define C02_LINK_IN(head, elem, field, nb0, nb1, shape) C02_LINK_IN_FAR(head, elem, field, nb0, nb1, nb0, shape)
#define C02_LINK_IN_FAR(head, elem, field, nb0, nb1, far, shape) do {                                \
	if ((shape) & 1) { (nb0)->field.tqe_next = (elem); (elem)->field.tqe_prev = &(nb0)->field.tqe_next; \
		(head)->tqh_first = ((shape) & 4) ? (far) : (nb0); }                                            \
	else { (head)->tqh_first = (elem); (elem)->field.tqe_prev = &(head)->tqh_first; }                   \
	if ((shape) & 2) { (elem)->field.tqe_next = (nb1); (nb1)->field.tqe_prev = &(elem)->field.tqe_next; } \
	else { (elem)->field.tqe_next = NULL; (head)->tqh_last = &(elem)->field.tqe_next; }                \
} while (0)
/* elem NOT in queue: the queue is empty (shape bit 0 clear) or ends in NB[1] */
#define C02_TAIL_OF(head, field, nb1, shape) do {                                                    \
	if ((shape) & 1) { (nb1)->field.tqe_next = NULL; (head)->tqh_last = &(nb1)->field.tqe_next; }       \
	else { (head)->tqh_first = NULL; (head)->tqh_last = &(head)->tqh_first; }                           \
} while (0)

/* ---- the subject event in its queues (type invariant TInv of DESIGN §8 C01, per event) ----
 * ACTIVE        => linked in activequeues[pri]            (neighbourhood shape q->ashape)
 * ACTIVE_LATER  => linked in active_later_queue           (same shape bits)
 * TIMEOUT       => common deadline: linked in the queue of its index (q->tshape)
 *                  other deadline : in the heap at min_heap_idx < n; slot 0 holds EV iff idx == 0
 * signal events carry ev_ncalls/ev_pncalls, all others the persist interval (same storage). */
struct c02_q_in {
	int ashape, tshape;
	long h_sec, h_usec;               /* deadline of HEV[0] (the heap's top unless EV is) */
	long n_sec[2], n_usec[2];         /* deadlines of NB[0], NB[1] */
	long f_sec, f_usec;               /* deadline of FAR_EV */
};
int O_old_common;                     /* pre-state: EV's stored deadline is a registered common timeout */
#define C02_PN_UNTOUCHED 77
static void c02_link_ev(const struct c02_ev_in *e, const struct c02_q_in *q)
{
	__CPROVER_assume(C02_DEADLINE_OK(e->to_sec, e->to_usec));
	PNCALLS = C02_PN_UNTOUCHED;
	if (e->events & EV_SIGNAL) { EV.ev_ncalls = e->ncalls; EV.ev_pncalls = e->has_pncalls ? &PNCALLS : NULL; }
	else { EV.ev_io_timeout.tv_sec = e->io_sec; EV.ev_io_timeout.tv_usec = e->io_usec; }
	if (e->flags & EVLIST_ACTIVE)
		C02_LINK_IN_FAR(&AQ[e->pri], &EV.ev_evcallback, evcb_active_next, &NB[0].ev_evcallback, &NB[1].ev_evcallback, &FAR_EV.ev_evcallback, q->ashape);
	else if (e->flags & EVLIST_ACTIVE_LATER)
		C02_LINK_IN_FAR(&BASE.active_later_queue, &EV.ev_evcallback, evcb_active_next, &NB[0].ev_evcallback, &NB[1].ev_evcallback, &FAR_EV.ev_evcallback, q->ashape);
	HEV[0].ev_timeout.tv_sec = q->h_sec; HEV[0].ev_timeout.tv_usec = q->h_usec;
	HEV[1].ev_timeout.tv_sec = q->h_sec; HEV[1].ev_timeout.tv_usec = q->h_usec;
	NB[0].ev_timeout.tv_sec = q->n_sec[0]; NB[0].ev_timeout.tv_usec = q->n_usec[0];
	NB[1].ev_timeout.tv_sec = q->n_sec[1]; NB[1].ev_timeout.tv_usec = q->n_usec[1];
	FAR_EV.ev_timeout.tv_sec = q->f_sec; FAR_EV.ev_timeout.tv_usec = q->f_usec;
	HP[0] = &HEV[0];
	O_old_common = (((e->to_usec & 0xf0000000) == 0x50000000) && (int)((e->to_usec & 0x0ff00000) >> 20) < BASE.n_common_timeouts);
	if (e->flags & EVLIST_TIMEOUT) {
		if (O_old_common) {
			CTQ[(e->to_usec & 0x0ff00000) >> 20] = &CTL;
			C02_LINK_IN_FAR(&CTL.events, &EV, ev_timeout_pos.ev_next_with_common_timeout, &NB[0], &NB[1], &FAR_EV, q->tshape);
		} else {
			EV.ev_timeout_pos.min_heap_idx = e->heap_idx;
			__CPROVER_assume(e->heap_idx < BASE.timeheap.n);
			if (e->heap_idx == 0) HP[0] = &EV;
		}
	}
}
/* counter invariant: every queue flag of a non-internal event/callback was counted */
#define C02_ASSUME_COUNTED(f) do { \
	__CPROVER_assume(BASE.event_count >= (((f) & EVLIST_INTERNAL) ? 0 : 1) * ((((f) & EVLIST_INSERTED) ? 1 : 0) + (((f) & EVLIST_TIMEOUT) ? 1 : 0) + (((f) & (EVLIST_ACTIVE|EVLIST_ACTIVE_LATER)) ? 1 : 0))); \
	__CPROVER_assume(IMP((f) & (EVLIST_ACTIVE|EVLIST_ACTIVE_LATER), BASE.event_count_active >= 1)); } while (0)
/* event_assign's invariants: EV_SIGNAL excludes the I/O bits and has the signal closure; only non-signal events can be PERSIST-closured */
#define C02_ASSUME_ASSIGNED(e) do { \
	__CPROVER_assume(IMP((e)->events & EV_SIGNAL, !((e)->events & (EV_READ|EV_WRITE|EV_CLOSED)) && (e)->closure == EV_CLOSURE_EVENT_SIGNAL)); \
	__CPROVER_assume(IMP(!((e)->events & EV_SIGNAL), (e)->closure != EV_CLOSURE_EVENT_SIGNAL)); } while (0)

#endif
