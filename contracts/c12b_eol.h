/* contracts/c12b_eol.h — end-of-line search against the byte-string model M (contracts/c12b_content.h), and the
 * contracts search_eol_c (evbuffer_search_eol; enforced in c12b_search_eol, replaced in c12b_readln) and
 * search_crlf_c (evbuffer_search for "\r\n", replaced in c12b_search_eol; its postcondition is what the plain
 * harness c12b_search_range asserts for evbuffer_search_range).
 * EOL styles (include/event2/buffer.h):
 *   ANY          the line ends at the first CR or LF; the EOL is the whole run of CR/LF characters that follows
 *   CRLF         the line ends at the first LF, or at the CR immediately before it (if that CR is not before the start)
 *   CRLF_STRICT  the line ends at the first CR LF pair
 *   LF / NUL     the line ends at the first LF / NUL byte
 * Include after c12b_content.h. */
#ifndef VF_C12B_EOL_H_
#define VF_C12B_EOL_H_
int O_eol_found; size_t O_eol_pos, O_eol_len; struct evbuffer_ptr O_eol_ptr;     /* model verdict for the call under test */
int O_crlf_found; size_t O_crlf_pos; struct evbuffer_ptr O_crlf_ptr;            /* first "\r\n" at or after the start */
size_t O_eol_start;

static int vf_is_crlf_char(unsigned char c) { return c == '\r' || c == '\n'; }
static void vf_eol_model(const struct eb_in *sh, int style, size_t s)
{
	size_t p; int found = 0; size_t pos = 0, len = 0; int fl = 0; size_t q = 0;
	O_eol_start = s;
	O_crlf_found = 0; O_crlf_pos = 0;
	for (p = 0; p < VF_CT_MLEN; p++) {
		if (p < s || p >= M_len) continue;
		if (!O_crlf_found && M[p] == '\r' && p + 1 < M_len && M[p + 1] == '\n') { O_crlf_found = 1; O_crlf_pos = p; }
		if (!fl && M[p] == '\n') { fl = 1; q = p; }                                         /* first LF */
		if (!found && style == EVBUFFER_EOL_ANY && vf_is_crlf_char(M[p])) { found = 1; pos = p; }
		if (!found && style == EVBUFFER_EOL_NUL && M[p] == 0) { found = 1; pos = p; len = 1; }
	}
	if (style == EVBUFFER_EOL_ANY && found) {
		int run = 1; len = 0;
		for (p = 0; p < VF_CT_MLEN; p++) { if (p < pos || p >= M_len) continue; if (run && vf_is_crlf_char(M[p])) len++; else run = 0; }
	}
	if (style == EVBUFFER_EOL_LF && fl) { found = 1; pos = q; len = 1; }
	if (style == EVBUFFER_EOL_CRLF && fl) { found = 1; if (q > s && M[q - 1] == '\r') { pos = q - 1; len = 2; } else { pos = q; len = 1; } }
	if (style == EVBUFFER_EOL_CRLF_STRICT && O_crlf_found) { found = 1; pos = O_crlf_pos; len = 2; }
	O_eol_found = found; O_eol_pos = found ? pos : 0; O_eol_len = found ? len : 0;
	if (found) vf_ptr_model(sh, pos, &O_eol_ptr); else { O_eol_ptr.pos = -1; O_eol_ptr.internal_.chain = NULL; O_eol_ptr.internal_.pos_in_chain = 0; }
	if (O_crlf_found) vf_ptr_model(sh, O_crlf_pos, &O_crlf_ptr); else { O_crlf_ptr.pos = -1; O_crlf_ptr.internal_.chain = NULL; O_crlf_ptr.internal_.pos_in_chain = 0; }
}
#define VF_PTR_EQ(a, b) ((a).pos == (b).pos && (a).internal_.chain == (b).internal_.chain && (a).internal_.pos_in_chain == (b).internal_.pos_in_chain)

static struct evbuffer_ptr EOL_START;
static size_t EOL_LEN_OUT;

VF_CONTRACT(struct evbuffer_ptr, search_crlf_c, struct evbuffer *buffer, const char *what, size_t len, const struct evbuffer_ptr *start)
__CPROVER_requires(buffer == &BUF && len == 2 && what[0] == '\r' && what[1] == '\n' && start != NULL && start->pos == (ev_ssize_t)O_eol_start)
__CPROVER_requires(IMP(BUF.lock != NULL, g_lock_depth[1] >= 1))
__CPROVER_assigns()
__CPROVER_ensures(VF_PTR_EQ(__CPROVER_return_value, O_crlf_ptr))
;
VF_CONTRACT(struct evbuffer_ptr, search_eol_c, struct evbuffer *buffer, struct evbuffer_ptr *start, size_t *eol_len_out, enum evbuffer_eol_style eol_style)
__CPROVER_requires(buffer == &BUF && (start == NULL || start == &EOL_START) && (eol_len_out == NULL || eol_len_out == &EOL_LEN_OUT))
__CPROVER_requires(IMP(start == NULL, O_eol_start == 0))
__CPROVER_assigns(g_lock_depth[1], g_lock_ops, EOL_LEN_OUT)
/* 1 C08: lock depth as on entry */
__CPROVER_ensures(g_lock_depth[1] == __CPROVER_old(g_lock_depth[1]))
/* 2 the position of the line end is the model's (canonical pointer), or "not found" */
__CPROVER_ensures(VF_PTR_EQ(__CPROVER_return_value, O_eol_ptr))
/* 3 the EOL length is the model's; 0 when there is no EOL */
__CPROVER_ensures(IMP(eol_len_out != NULL, EOL_LEN_OUT == O_eol_len))
;
#endif
