/* contracts/c18_bev_unit.h — common prelude of the units over the real bufferevent.c: includes the TU, declares
 * ONE flat input record used by all of them, the stubs (stubs/c18_bev_env.h) and a builder that constructs the
 * bufferevent from IN.  A unit includes this, states its contract and its harness. */
#ifndef VF_C18_BEV_UNIT_H_
#define VF_C18_BEV_UNIT_H_
#define VF_NLOCKS 1
#ifndef VF_NCHOICE
#define VF_NCHOICE 16
#endif
#include "vf.h"
#include "bufferevent.c"
struct in {
	int locking;                         /* bufferevent has a lock (BEV_OPT_THREADSAFE) or not */
	unsigned short rs, ws;               /* read_suspended / write_suspended words */
	short enabled;
	size_t len_in, len_out, low_r, high_r, low_w, high_w;
	int has_readcb, has_writecb, has_eventcb;
	int bevopts;                         /* options the bufferevent was created with */
	int options; short iotype; short what;   /* call arguments */
	size_t a_low, a_high;                /* call arguments (setwatermark) */
	int rp, wp, connecting, refused; short ep; int errp;   /* pending bits */
	int refcnt, queued;
	int mutates, be_fail, add_fail, del_fail;
	int has_wmcb; unsigned wmcb_flags;
	long tr_sec, tr_usec, tw_sec, tw_usec;   /* timeout_read / timeout_write */
	int has_tr, has_tw; long a_tr_sec, a_tr_usec, a_tw_sec, a_tw_usec;   /* call arguments (set_timeouts) */
	int ev_ins[3], ev_timer[3];
	int err;                             /* errno at entry */
	int has_unlink, has_adj, has_ctrl, has_rlim, rlim_init, in_defer, out_defer, adj_ret;
	short fd_event;
	unsigned ch[VF_NCHOICE];
};
struct in IN;
#include "stubs/log.h"
#include "stubs/lock.h"
#include "stubs/c18_bev_env.h"

static void vf_bev_build(void)
{
	VF_BEV_BASIC(IN.locking);
	g_e.len_in = IN.len_in; g_e.len_out = IN.len_out;
	BEV->wm_read.low = IN.low_r; BEV->wm_read.high = IN.high_r; BEV->wm_write.low = IN.low_w; BEV->wm_write.high = IN.high_w;
	BEV->enabled = IN.enabled;
	BEV->readcb = IN.has_readcb ? vf_user_readcb : NULL;
	BEV->writecb = IN.has_writecb ? vf_user_writecb : NULL;
	BEV->errorcb = IN.has_eventcb ? vf_user_eventcb : NULL;
	BEV->cbarg = VF_CBARG;
	BEV->timeout_read.tv_sec = IN.tr_sec; BEV->timeout_read.tv_usec = IN.tr_usec;
	BEV->timeout_write.tv_sec = IN.tw_sec; BEV->timeout_write.tv_usec = IN.tw_usec;
	BEVP.options = (enum bufferevent_options)IN.bevopts;
	BEVP.readcb_pending = IN.rp & 1; BEVP.writecb_pending = IN.wp & 1; BEVP.connecting = IN.connecting & 1; BEVP.connection_refused = IN.refused & 1;
	BEVP.eventcb_pending = IN.ep; BEVP.errno_pending = IN.errp; BEVP.refcnt = IN.refcnt;
	BEVP.read_suspended = IN.rs; BEVP.write_suspended = IN.ws;
	BEVP.read_watermarks_cb = IN.has_wmcb ? &WMCB : NULL; WMCB.flags = IN.wmcb_flags;
	BEVP.own_lock = 0;
	g_e.ev[0].ins = IN.ev_ins[0] & 1; g_e.ev[0].timer = IN.ev_timer[0] & 1; g_e.ev[1].ins = IN.ev_ins[1] & 1; g_e.ev[1].timer = IN.ev_timer[1] & 1; g_e.ev[2].ins = IN.ev_ins[2] & 1; g_e.ev[2].timer = IN.ev_timer[2] & 1;
	g_e.deferred_queued = IN.queued & 1; g_e.user_mutates = IN.mutates & 1; g_e.be_may_fail = IN.be_fail & 1;
	g_e.event_add_may_fail = IN.add_fail & 1; g_e.event_del_may_fail = IN.del_fail & 1; g_e.adj_ret = IN.adj_ret;
	if (!IN.has_unlink) VF_OPS.unlink = NULL;
	if (!IN.has_adj) VF_OPS.adj_timeouts = NULL;
	if (!IN.has_ctrl) VF_OPS.ctrl = NULL;
	if (IN.has_rlim) { BEVP.rate_limiting = &RLIM; RLIM.group = NULL; RLIM.cfg = NULL; RLIM.refill_bucket_event.ev_flags = IN.rlim_init ? EVLIST_INIT : 0; }
	INBUF.deferred_cbs = IN.in_defer & 1; OUTBUF.deferred_cbs = IN.out_defer & 1;
	errno = IN.err;
}
#define B(x) ((x) ? 1 : 0)
#define HELD(n) (BEVP.lock ? (n) : -1)      /* lock depth a callee observes when the bufferevent lock is held n times */
/* the part of the bufferevent the functions of this TU may write */
#define BEV_GHOST_FRAME __CPROVER_object_whole(&g_e), g_lock_depth[1], g_lock_ops, vf_nchoice_
#endif
