/* contracts/c01_timer_contracts.h — timer-side contracts of event.c / minheap-internal.h.
 *
 * (1) CALLER-VIEW contracts of min_heap_push_, min_heap_erase_, insert_common_timeout_inorder:
 *     what their callers in event.c read afterwards — heap size, the TOP slot p[0], the element's
 *     own index / list entry, the queue head.  The real functions also permute interior slots
 *     p[1..] and interior elements' min_heap_idx / interior list links; no function under contract
 *     in this cluster reads those (min_heap_top_ = p[0], min_heap_elt_is_top_ = own idx,
 *     TAILQ_FIRST = tqh_first), so they are deliberately NOT in the frame.  The full effect
 *     (heap order + index invariant, multiset, sortedness/FIFO) is what the bounded units
 *     c01_heap_* / c01_ctl_insert establish; they also establish every `ensures` below.
 *     C01_HEAP_MEMBER(x): "x is an event of the heap" — defined by the including unit for its shape.
 * (2) Contracts of event_queue_insert_timeout / event_queue_remove_timeout (ENFORCED in
 *     c02_q_insert_timeout / c02_q_remove_timeout with (1) replaced; REPLACED in the callers).
 * (3) gettime = ghost clock g_now (trusted model: the monotonic clock read never fails).
 */
#ifndef VF_C01_TIMER_CONTRACTS_H_
#define VF_C01_TIMER_CONTRACTS_H_

/* Pointer facts about the (havocked) heap top use __CPROVER_pointer_equals in --dfcc units: in the ensures of a
 * REPLACED contract a plain == constrains the value but leaves the pointer's value set unknown, and a later read
 * through it (min_heap_top_()->ev_timeout) would return an unconstrained value.  Plain harnesses define C01_PLAIN. */
#ifdef C01_PLAIN
#define C01_PEQ(a, b) ((a) == (b))
#else
#define C01_PEQ(a, b) __CPROVER_pointer_equals((a), (b))
#endif
#ifndef C01_HEAP_MEMBER
#define C01_HEAP_MEMBER(x) (C01_PEQ((x), &EV) || C01_PEQ((x), &HEV[0]) || C01_PEQ((x), &HEV[1]))       /* in ensures */
#define C01_HEAP_MEMBER_REQ(x) ((x) == &EV || (x) == &HEV[0] || (x) == &HEV[1])                          /* in requires: a test, never an assignment */
#endif
#ifndef C01_HEAP_MEMBER_REQ
#define C01_HEAP_MEMBER_REQ(x) C01_HEAP_MEMBER(x)
#endif
#define C01_IDX(e) ((e)->ev_timeout_pos.min_heap_idx)
#define C01_NOIDX ((size_t)-1)                       /* EV_SIZE_MAX */
#define C01_HEAP_MAX ((size_t)1 << 40)

long g_now_sec, g_now_usec;                         /* ghost clock: the reading gettime() hands out during the call */

/* -------------------------------------------------------------------- (1) caller views
 * The postconditions are macros so that the replaced contracts (old values = __CPROVER_old) and the
 * bounded plain harnesses of c01_heap_* / c01_ctl_insert (old values = snapshots) use the SAME text. */
#define C01_PUSH_POST(s, e, r, on, otop) ((r) == 0 && (s)->n == (on) + 1 && C01_IDX(e) < (s)->n && \
	((C01_IDX(e) == 0 && C01_PEQ((s)->p[0], (e))) || (C01_IDX(e) != 0 && C01_PEQ((s)->p[0], (otop)))) && \
	/* e becomes the top iff the heap was empty or e is strictly earlier than the old top */ \
	IFF(C01_IDX(e) == 0, (on) == 0 || C02_TV_LT(&(e)->ev_timeout, &(otop)->ev_timeout)))
#define C01_ERASE_POST(s, e, r, on, oidx, otop) ((r) == 0 && (s)->n == (on) - 1 && C01_IDX(e) == C01_NOIDX && \
	((oidx) != 0 ? C01_PEQ((s)->p[0], (otop)) : ((s)->n == 0 || (C01_HEAP_MEMBER((s)->p[0]) && (s)->p[0] != (e)))))
/* the head changes only if ev is strictly earlier than the old head (FIFO among equal deadlines) */
#define C01_CTLINS_POST(ctl, ev, ofirst) (((ctl)->events.tqh_first == (ev) || (ctl)->events.tqh_first == (ofirst)) && \
	IFF((ctl)->events.tqh_first == (ev), (ofirst) == NULL || C02_TV_LT(&(ev)->ev_timeout, &(ofirst)->ev_timeout)))

VF_CONTRACT(int, heap_push_c, min_heap_t *s, struct event *e)
__CPROVER_requires(s->n < s->a && s->a <= C01_HEAP_MAX)            /* room was reserved (event_add_nolock_ reserves before it touches anything) */
__CPROVER_requires(IMP(s->n > 0, C01_HEAP_MEMBER_REQ(s->p[0])))
__CPROVER_assigns(s->n, s->p[0], e->ev_timeout_pos)
__CPROVER_ensures(C01_PUSH_POST(s, e, __CPROVER_return_value, __CPROVER_old(s->n), __CPROVER_old(s->p[0])))
;
VF_CONTRACT(int, heap_erase_c, min_heap_t *s, struct event *e)
__CPROVER_requires(C01_IDX(e) < s->n && s->n <= s->a && s->a <= C01_HEAP_MAX)     /* TInv(i): a TIMEOUT event outside a common queue sits in the heap at its index */
__CPROVER_requires(C01_HEAP_MEMBER_REQ(s->p[0]) && IFF(C01_IDX(e) == 0, s->p[0] == e))
__CPROVER_assigns(s->n, s->p[0], e->ev_timeout_pos)
__CPROVER_ensures(C01_ERASE_POST(s, e, __CPROVER_return_value, __CPROVER_old(s->n), __CPROVER_old(C01_IDX(e)), __CPROVER_old(s->p[0])))
;
VF_CONTRACT_V(ctl_insert_c, struct common_timeout_list *ctl, struct event *ev)
__CPROVER_requires(ctl->events.tqh_first != ev)
__CPROVER_assigns(ctl->events.tqh_first, ev->ev_timeout_pos)
__CPROVER_ensures(C01_CTLINS_POST(ctl, ev, __CPROVER_old(ctl->events.tqh_first)))
;

/* min_heap_reserve_ as event_add_nolock_ sees it: may fail (ENOMEM), never shrinks, leaves the top alone;
 * g_reserve_ret records the answer for the caller's postconditions (ghost). */
int g_reserve_ret, g_reserve_calls;
VF_CONTRACT(int, heap_reserve_c, min_heap_t *s, size_t n)
__CPROVER_requires(s->n <= s->a && s->a <= C01_HEAP_MAX && n <= s->n + 1)
__CPROVER_assigns(s->a, g_reserve_ret, g_reserve_calls)
__CPROVER_ensures(__CPROVER_return_value == 0 || __CPROVER_return_value == -1)
__CPROVER_ensures(g_reserve_ret == __CPROVER_return_value && g_reserve_calls == __CPROVER_old(g_reserve_calls) + 1)
__CPROVER_ensures(IMP(__CPROVER_return_value == 0, s->a >= n && s->a >= __CPROVER_old(s->a) && s->a <= C01_HEAP_MAX))
__CPROVER_ensures(IMP(__CPROVER_return_value == -1, s->a == __CPROVER_old(s->a)))
;

/* -------------------------------------------------------------------- (2) TIMEOUT queue helpers */
VF_CONTRACT_V(q_insert_timeout_c, struct event_base *base, struct event *ev)
__CPROVER_requires(!(ev->ev_flags & EVLIST_TIMEOUT))
__CPROVER_requires(C02_CNT_ROOM(base))
__CPROVER_requires(base->n_common_timeouts >= 0 && base->n_common_timeouts <= 256)
__CPROVER_requires(IMP(C02_IS_COMMON(&ev->ev_timeout, base), C02_CTL_OF(base, &ev->ev_timeout)->events.tqh_first != ev))
__CPROVER_requires(IMP(!C02_IS_COMMON(&ev->ev_timeout, base), base->timeheap.n < base->timeheap.a && base->timeheap.a <= C01_HEAP_MAX &&
	IMP(base->timeheap.n > 0, C01_HEAP_MEMBER_REQ(base->timeheap.p[0]))))
__CPROVER_assigns(ev->ev_flags, base->event_count, base->event_count_max, ev->ev_timeout_pos;
	C02_IS_COMMON(&ev->ev_timeout, base): C02_CTL_OF(base, &ev->ev_timeout)->events.tqh_first;
	!C02_IS_COMMON(&ev->ev_timeout, base): base->timeheap.n, base->timeheap.p[0])
__CPROVER_ensures(ev->ev_flags == (__CPROVER_old(ev->ev_flags) | EVLIST_TIMEOUT))
__CPROVER_ensures(base->event_count == __CPROVER_old(base->event_count) + C02_NONINT(ev->ev_flags))
__CPROVER_ensures(base->event_count_max == C02_MAX(__CPROVER_old(base->event_count_max), base->event_count))
/* a common-timeout deadline goes to the queue of its index and never to the heap ... */
__CPROVER_ensures(IMP(C02_IS_COMMON(&ev->ev_timeout, base),
	(C02_CTL_OF(base, &ev->ev_timeout)->events.tqh_first == ev || C02_CTL_OF(base, &ev->ev_timeout)->events.tqh_first == __CPROVER_old(C02_CTL_OF(base, &ev->ev_timeout)->events.tqh_first)) &&
	IFF(C02_CTL_OF(base, &ev->ev_timeout)->events.tqh_first == ev, __CPROVER_old(C02_CTL_OF(base, &ev->ev_timeout)->events.tqh_first) == NULL ||
		C02_TV_LT(&ev->ev_timeout, &__CPROVER_old(C02_CTL_OF(base, &ev->ev_timeout)->events.tqh_first)->ev_timeout))))
/* ... every other deadline goes to the heap and never to a queue */
__CPROVER_ensures(IMP(!C02_IS_COMMON(&ev->ev_timeout, base),
	base->timeheap.n == __CPROVER_old(base->timeheap.n) + 1 && C01_IDX(ev) < base->timeheap.n &&
	((C01_IDX(ev) == 0 && C01_PEQ(base->timeheap.p[0], ev)) || (C01_IDX(ev) != 0 && C01_PEQ(base->timeheap.p[0], __CPROVER_old(base->timeheap.p[0])))) &&
	IFF(C01_IDX(ev) == 0, __CPROVER_old(base->timeheap.n) == 0 || C02_TV_LT(&ev->ev_timeout, &__CPROVER_old(base->timeheap.p[0])->ev_timeout))))
;
VF_CONTRACT_V(q_remove_timeout_c, struct event_base *base, struct event *ev)
__CPROVER_requires(ev->ev_flags & EVLIST_TIMEOUT)
__CPROVER_requires(base->event_count >= C02_NONINT(ev->ev_flags))
__CPROVER_requires(base->n_common_timeouts >= 0 && base->n_common_timeouts <= 256)
/* TInv(i): common deadline => linked in the queue of its index; otherwise in the heap at its index */
__CPROVER_requires(IMP(C02_IS_COMMON(&ev->ev_timeout, base), *(C02_TLNK(ev).tqe_prev) == ev &&
	IMP(C02_TLNK(ev).tqe_next != NULL, C02_TLNK(C02_TLNK(ev).tqe_next).tqe_prev == &C02_TLNK(ev).tqe_next) &&
	IMP(C02_TLNK(ev).tqe_next == NULL, C02_CTL_OF(base, &ev->ev_timeout)->events.tqh_last == &C02_TLNK(ev).tqe_next)))
__CPROVER_requires(IMP(!C02_IS_COMMON(&ev->ev_timeout, base), C01_IDX(ev) < base->timeheap.n && base->timeheap.n <= base->timeheap.a && base->timeheap.a <= C01_HEAP_MAX &&
	C01_HEAP_MEMBER_REQ(base->timeheap.p[0]) && IFF(C01_IDX(ev) == 0, base->timeheap.p[0] == ev)))
__CPROVER_assigns(ev->ev_flags, base->event_count;
	C02_IS_COMMON(&ev->ev_timeout, base): *(C02_TLNK(ev).tqe_prev);
	C02_IS_COMMON(&ev->ev_timeout, base) && C02_TLNK(ev).tqe_next != NULL: C02_TLNK(C02_TLNK(ev).tqe_next).tqe_prev;
	C02_IS_COMMON(&ev->ev_timeout, base) && C02_TLNK(ev).tqe_next == NULL: C02_CTL_OF(base, &ev->ev_timeout)->events.tqh_last;
	!C02_IS_COMMON(&ev->ev_timeout, base): base->timeheap.n, base->timeheap.p[0], ev->ev_timeout_pos)
__CPROVER_ensures(ev->ev_flags == (__CPROVER_old(ev->ev_flags) & ~EVLIST_TIMEOUT))
__CPROVER_ensures(base->event_count == __CPROVER_old(base->event_count) - C02_NONINT(ev->ev_flags))
__CPROVER_ensures(IMP(C02_IS_COMMON(&ev->ev_timeout, base),
	*__CPROVER_old(C02_TLNK(ev).tqe_prev) == __CPROVER_old(C02_TLNK(ev).tqe_next) &&
	IMP(__CPROVER_old(C02_TLNK(ev).tqe_next) != NULL, C02_TLNK(__CPROVER_old(C02_TLNK(ev).tqe_next)).tqe_prev == __CPROVER_old(C02_TLNK(ev).tqe_prev)) &&
	IMP(__CPROVER_old(C02_TLNK(ev).tqe_next) == NULL, C02_CTL_OF(base, &ev->ev_timeout)->events.tqh_last == __CPROVER_old(C02_TLNK(ev).tqe_prev))))
__CPROVER_ensures(IMP(!C02_IS_COMMON(&ev->ev_timeout, base),
	base->timeheap.n == __CPROVER_old(base->timeheap.n) - 1 && C01_IDX(ev) == C01_NOIDX &&
	(__CPROVER_old(C01_IDX(ev)) != 0 ? C01_PEQ(base->timeheap.p[0], __CPROVER_old(base->timeheap.p[0])) :
		(base->timeheap.n == 0 || (C01_HEAP_MEMBER(base->timeheap.p[0]) && base->timeheap.p[0] != ev)))))
;

/* -------------------------------------------------------------------- (3) ghost clock */
VF_CONTRACT(int, gettime_c, struct event_base *base, struct timeval *tp)
__CPROVER_requires(IMP(base->th_base_lock != NULL, g_lock_depth[1] >= 1))        /* "We must hold the lock on base" */
__CPROVER_assigns(*tp, base->tv_clock_diff, base->last_updated_clock_diff)
__CPROVER_ensures(__CPROVER_return_value == 0)
__CPROVER_ensures(tp->tv_sec == g_now_sec && tp->tv_usec == g_now_usec)
;
#endif
