/* contracts/c39_option_ref.h — reference vocabulary and contracts for evdns option parsing (C39).
 * Included AFTER the real evdns.c and `struct in IN;`.  Nothing here is libevent code.
 *
 * The reference side ("a reference parser of the documented syntax") is written from
 * include/event2/dns.h (option list; "name", "name:" and, for resolv.conf, "name:value" all name
 * the option) and from the comments of strtoint / strtoint_clipped / evdns_strtotimeval
 * ("atoi which returns -1 on error", "clips to bounds", "a number of seconds into a timeval").
 */
#ifndef C39_OPTION_REF_H_
#define C39_OPTION_REF_H_

enum c39_opt { OPT_NONE = -1, OPT_NDOTS = 0, OPT_TIMEOUT, OPT_SKEW, OPT_MAXTIMEOUTS, OPT_MAXINFLIGHT, OPT_ATTEMPTS,
	OPT_RANDCASE, OPT_BINDTO, OPT_INITPROBE, OPT_MAXPROBE, OPT_BACKOFF, OPT_RCVBUF, OPT_SNDBUF, OPT_TCPIDLE,
	OPT_USEVC, OPT_IGNTC, OPT_EDNS, OPT_COUNT };

/* The option table of include/event2/dns.h, in the spelling evdns.c passes to str_matches_option
 * (with the trailing colon). */
static const char *c39_optname(int k)
{
	switch (k) {
	case OPT_NDOTS: return "ndots:";
	case OPT_TIMEOUT: return "timeout:";
	case OPT_SKEW: return "getaddrinfo-allow-skew:";
	case OPT_MAXTIMEOUTS: return "max-timeouts:";
	case OPT_MAXINFLIGHT: return "max-inflight:";
	case OPT_ATTEMPTS: return "attempts:";
	case OPT_RANDCASE: return "randomize-case:";
	case OPT_BINDTO: return "bind-to:";
	case OPT_INITPROBE: return "initial-probe-timeout:";
	case OPT_MAXPROBE: return "max-probe-timeout:";
	case OPT_BACKOFF: return "probe-backoff-factor:";
	case OPT_RCVBUF: return "so-rcvbuf:";
	case OPT_SNDBUF: return "so-sndbuf:";
	case OPT_TCPIDLE: return "tcp-idle-timeout:";
	case OPT_USEVC: return "use-vc:";
	case OPT_IGNTC: return "ignore-tc:";
	case OPT_EDNS: return "edns-udp-size:";
	default: return ":";
	}
}

/* does `s` name the option `namecolon` ("name:")?   s == "name"  |  s == "name:" junk */
static int c39_ref_names(const char *s, const char *namecolon)
{
	size_t i = 0;
	while (namecolon[i] != ':') {
		if (s[i] != namecolon[i])
			return 0;
		i++;
	}
	return s[i] == '\0' || s[i] == ':';
}

static int c39_ref_optidx(const char *s)
{
	int k;
	for (k = 0; k < OPT_COUNT; k++)
		if (c39_ref_names(s, c39_optname(k)))
			return k;
	return OPT_NONE;
}

static int c39_streq(const char *a, const char *b)
{
	size_t i = 0;
	while (a[i] != '\0' && a[i] == b[i])
		i++;
	return a[i] == b[i];
}

/* which table entry is this option-name string (as passed by evdns.c)?  -1: none */
static int c39_optno(const char *namecolon)
{
	int k;
	for (k = 0; k < OPT_COUNT; k++)
		if (c39_streq(namecolon, c39_optname(k)))
			return k;
	return -1;
}

/* c39_ref_int (syntax of a decimal numeral) lives in stubs/c39_libc_ref.h next to the strtol reference. */

/* ---- ghost inputs of the contracts, computed by the harness BEFORE the call (never assigned by the code) */
const char *O_opt, *O_val; int O_flags;
int O_idx;                 /* which option `option` names (enum c39_opt) */
int O_iok;                 /* val is a decimal integer (syntax) */
#define O_ival ((int)g_strtol_val)   /* its value: what the trusted strtol answered for it during the call */
size_t O_vlen;             /* strlen(val) (0 for NULL) */
double O_d; size_t O_dend; /* what the strtod model answers for val: value, end offset (<= O_vlen; 0 => O_d == 0.0) */
int O_sec, O_usec;         /* floor(O_d) and the microseconds of its fraction, when 0 <= O_d < 2^31 */
struct search_state *O_gss; long O_init_sec, O_init_usec; unsigned O_tcpflags;

/* functions that only contract clauses call are removed by --drop-unused-functions: the harness references them here */
#define C39_KEEP_REFS() __CPROVER_assert(c39_optno("edns-udp-size:") == OPT_EDNS && c39_optno("ndots") == -1, "option table: self-check")

/* str_matches_option(s1, "name:") on the option string under test: true exactly for the table entry the
 * reference reading (c39_ref_optidx, computed by the harness into O_idx) selects.  Enforced in c39_str_matches. */
VF_CONTRACT(int, matches_c, const char *s1, const char *optionname)
__CPROVER_requires(s1 == O_opt && c39_optno(optionname) >= 0)
__CPROVER_assigns()
__CPROVER_ensures(__CPROVER_return_value == (c39_optno(optionname) == O_idx))
;

/* strtoint(val): -1 unless val is a decimal integer (O_iok: syntax decided by the harness's reference);
 * otherwise the value libc's strtol assigns to the numeral, converted to int.  Enforced in c39_strtoint. */
VF_CONTRACT(int, strtoint_c, const char *const str)
__CPROVER_requires(str != NULL && str == O_val)
__CPROVER_assigns(g_strtol_val, g_strtol_arg, g_strtol_calls, errno)
__CPROVER_ensures(g_strtol_calls == __CPROVER_old(g_strtol_calls) + 1 && g_strtol_arg == str)
__CPROVER_ensures(__CPROVER_return_value == (O_iok ? (int)g_strtol_val : -1))
;

#define TV_CONSUMED (O_dend >= O_vlen)
#define TV_INRANGE  (O_d >= 0.0 && O_d < 2147483648.0)          /* false for NaN */
#define TV_NEG      (O_d < 0.0)
#define TV_TINY     (O_sec == 0 && O_usec < 1000)
#define TV_ERR      (!TV_CONSUMED || TV_NEG || (TV_INRANGE && TV_TINY))
#define TV_OK       (TV_CONSUMED && TV_INRANGE && !TV_TINY)
/* neither TV_ERR nor TV_OK: the value does not fit an int (>= 2^31, inf) or is NaN; `(int) d` is undefined
 * there and the contract leaves the outcome open (see unit c39_strtotimeval: known-finding candidate) */

/* set by the harness from the input record: call after O_val is set.  bits = IEEE-754 image, end = wanted end */
static void c39_tv_setup(unsigned long long bits, size_t end)
{
	union { unsigned long long u; double d; } cv;
	O_vlen = 0;
	if (O_val) { while (O_val[O_vlen] != '\0') O_vlen++; }
	O_dend = end > O_vlen ? O_vlen : end;
	cv.u = bits;
	O_d = (O_dend == 0) ? 0.0 : cv.d;
	O_sec = 0; O_usec = 0;
	if (TV_INRANGE) { O_sec = (int)O_d; O_usec = (int)((O_d - (double)O_sec) * 1000000.0); }
}

/* strtod MODEL (trusted, see stubs/c39_libc_ref.h): answers (O_d, O_dend) — an arbitrary double (finite, inf, NaN) and
 * an arbitrary end position within the string, fixed by the harness from the input record; "no conversion" is 0.0
 * with end == nptr.  Over-approximates every real strtod. */
#ifdef C39_STRTOD_MODEL
double strtod(const char *nptr, char **endptr)
{
	__CPROVER_assert(nptr == O_val && nptr != NULL, "strtod model: called on the value string under test");
	if (endptr)
		*endptr = (char *)nptr + O_dend;
	return O_d;
}
#endif

VF_CONTRACT(int, strtotimeval_c, const char *const str, struct timeval *out)
__CPROVER_requires(str != NULL && str == O_val)
__CPROVER_requires(__CPROVER_w_ok(out, sizeof(*out)))
__CPROVER_assigns(out->tv_sec, out->tv_usec)
__CPROVER_ensures(__CPROVER_return_value == 0 || __CPROVER_return_value == -1)
/* 2 junk after the number, a negative number, or less than a millisecond: error */
__CPROVER_ensures(IMP(TV_ERR, __CPROVER_return_value == -1))
/* 3 a number of seconds in [0.001, 2^31): whole seconds and the microseconds of the fraction */
__CPROVER_ensures(IMP(TV_OK, __CPROVER_return_value == 0 && out->tv_sec == O_sec && out->tv_usec == O_usec))
;

int g_inflight_calls, g_inflight_arg, g_inflight_ret;
VF_CONTRACT(int, inflight_c, struct evdns_base *base, int maxinflight)
__CPROVER_requires(base != NULL)
__CPROVER_assigns(g_inflight_calls, g_inflight_arg, g_inflight_ret)
__CPROVER_ensures(g_inflight_calls == __CPROVER_old(g_inflight_calls) + 1 && g_inflight_arg == maxinflight)
__CPROVER_ensures(__CPROVER_return_value == g_inflight_ret && (g_inflight_ret == 0 || g_inflight_ret == -1))
;

#define SO_R        __CPROVER_return_value
#define SO_INT_ERR  (!O_iok || O_ival == -1)
#define SO_CLIP(lo, hi) (O_ival < (lo) ? (lo) : O_ival > (hi) ? (hi) : O_ival)
#define SO_HAS(f)   ((O_flags & (f)) != 0)
#define SO_IS_INT(i) ((i) == OPT_NDOTS || (i) == OPT_MAXTIMEOUTS || (i) == OPT_MAXINFLIGHT || (i) == OPT_ATTEMPTS || (i) == OPT_RANDCASE || \
	(i) == OPT_MAXPROBE || (i) == OPT_BACKOFF || (i) == OPT_RCVBUF || (i) == OPT_SNDBUF || (i) == OPT_EDNS)
#define SO_IS_TV(i) ((i) == OPT_TIMEOUT || (i) == OPT_SKEW || (i) == OPT_INITPROBE || (i) == OPT_TCPIDLE)
#define SO_INT_GO(i, f) (O_idx == (i) && !SO_INT_ERR && SO_HAS(f))         /* integer option i takes effect */
#define SO_TV_GO(i)     (O_idx == (i) && !TV_ERR && SO_HAS(DNS_OPTION_MISC)) /* timeval option i may write its field */
#define SO_VAL_EMPTY    (O_val == NULL || O_vlen == 0)

#endif
