/* contracts/c20g_filter_in.h — common prelude and the shared specification of the units over the INPUT side of the real
 * bufferevent_filter.c.  The units are plain harnesses (the loop is driven by the user's filter; bounded by VF_MAXCALLS), so the
 * "contract" of be_filter_process_input is a block of assertions over the ghost record g_f (stubs/c20g_filter_env.h) that is stated
 * once here and checked both where be_filter_process_input is called directly (c20g_process_input) and where it runs inlined inside
 * be_filter_read_nolock_ / be_filter_readcb (c20g_read_nolock, c20g_readcb). */
#ifndef VF_C20G_FILTER_IN_H_
#define VF_C20G_FILTER_IN_H_
#define VF_NLOCKS 1
#ifndef VF_NCHOICE
#define VF_NCHOICE 24
#endif
#include "vf.h"
#include "bufferevent_filter.c"
struct in {
	int state;                       /* flush mode handed to be_filter_process_input (c20g_process_input only; derived from got_eof elsewhere) */
	short enabled;
	size_t len_in, len_uin, high, low;   /* length of the filter's input / of the underlying input, the filter's read watermarks */
	long tr_sec, tr_usec;            /* timeout_read of the filtering bufferevent */
	int processed0;                  /* *processed_out at entry */
	int locking, refcnt, got_eof;
	int rcb_drains;                  /* the (non-deferred) read callback drains part of the input */
	unsigned ch[VF_NCHOICE];
};
struct in IN;
#include "stubs/log.h"
#include "stubs/lock.h"
#include "stubs/c20g_filter_env.h"

/* the condition under which be_filter_process_input must not touch the filter at all (C18: "don't urge data on the filter unless
 * we're reading data and under our high-water mark") */
#define PI_EARLY(state) ((state) == BEV_NORMAL && (!(IN.enabled & EV_READ) || (IN.high != 0 && IN.len_in >= IN.high)))
#define PI_LEN_IN_AFTER (g_f.rcb ? g_f.rcb_len_in : g_f.len_in)       /* length of the input when process_input returned (a read callback run later may drain) */
#define PI_FULL_NOW(state) ((state) == BEV_NORMAL && IN.high != 0 && PI_LEN_IN_AFTER >= IN.high)
#define PI_TIMER_SET (IN.tr_sec != 0 || IN.tr_usec != 0)

/* Post-state of ONE run of be_filter_process_input(bevf, state, &processed) with *processed_out == p0 at entry, result res
 * (has_res == 0: the result is not observable, e.g. discarded by be_filter_read_nolock_). */
#define PI_POST(state, p0, processed, has_res, res) do { \
	int early_ = PI_EARLY(state); \
	/* C18 */ \
	__CPROVER_assert(g_f.called_when_full == 0, "C18 normal mode: the input filter is never called while the filter's input is at/over its high read watermark"); \
	__CPROVER_assert(g_f.bad_limit == 0, "C18 normal mode: every call carries dst_limit == high - len(input) > 0, recomputed for each call (or -1 without a high mark); flush/finish: -1"); \
	__CPROVER_assert(IMP((state) == BEV_NORMAL && IN.high != 0 && IN.len_in <= IN.high, g_f.over_high == 0 && PI_LEN_IN_AFTER <= IN.high), "C18 normal mode: a filter that honours its limit never takes the input past the high read watermark"); \
	__CPROVER_assert(IMP(early_, g_f.calls == 0 && IMP(has_res, (res) == BEV_OK) && (processed) == (p0) && g_f.ev_add == 0), "C18 normal mode: nothing is urged on the filter when reading is disabled or the input is full: result OK, nothing reported, no timer touched"); \
	__CPROVER_assert(IMP(!early_, g_f.calls >= 1), "the filter is run at least once otherwise (flush/finish: no matter what)"); \
	__CPROVER_assert(g_f.late_bad == 0, "every further call follows a BEV_OK, with reading still enabled and underlying input left; timer/callbacks only after the last call"); \
	__CPROVER_assert(IMP(!early_ && g_f.last_res == BEV_OK, !(IN.enabled & EV_READ) || g_f.len_uin == 0 || PI_FULL_NOW(state)), "the loop goes on while the filter says OK, reading is enabled, underlying input is left and (normal mode) the high mark is not reached"); \
	__CPROVER_assert(IMP(!early_ && (has_res), (int)(res) == g_f.last_res), "the result is the last filter result"); \
	/* C17 */ \
	__CPROVER_assert(g_f.bad_args == 0 && g_f.bad_mode == 0, "C17 the filter reads from the underlying input, writes into the filter's own input, sees the flush mode and the user's context"); \
	__CPROVER_assert((processed) == (((p0) || g_f.ok_calls > 0) ? 1 : 0), "*processed_out is set iff some call of the filter returned BEV_OK (never cleared)"); \
	/* C20 */ \
	__CPROVER_assert(g_f.ev_other == 0, "C20 no other timer/event is touched"); \
	__CPROVER_assert(g_f.ev_add == ((!early_ && ((p0) || g_f.ok_calls > 0) && PI_TIMER_SET) ? 1 : 0), "C20 the generic read timeout is restarted (once) iff the filter reported a transfer (BEV_OK) and a read timeout is set — not on NEED_MORE/ERROR only"); \
	__CPROVER_assert(IMP(g_f.ev_add, g_f.ev_add_at_calls == g_f.calls), "C20 the restart happens after the last call of the filter"); \
	__CPROVER_assert(g_f.lock_bad == 0, "C08 the filter runs with the bufferevent's lock held exactly as the caller holds it"); \
	} while (0)
#endif
