/* contracts/c23_version_contract.h — evhttp_parse_http_version as a contract, for dfcc units in
 * which the sscanf stub cannot run (--dfcc 6.11 mis-instruments variadic function bodies).
 * The SAME predicate C23_VERSION_OK is what unit c23_parse_version proves (plain mode, complete
 * over all strings) about the real function. */
#ifndef VF_C23_VERSION_CONTRACT_H_
#define VF_C23_VERSION_CONTRACT_H_
/* exactly "HTTP/" (0|1) "." DIGIT; evaluated left to right, never reads behind the terminator */
#define C23_VERSION_OK(v) ((v)[0] == 'H' && (v)[1] == 'T' && (v)[2] == 'T' && (v)[3] == 'P' && (v)[4] == '/' && ((v)[5] == '0' || (v)[5] == '1') && (v)[6] == '.' && (v)[7] >= '0' && (v)[7] <= '9' && (v)[8] == 0)
VF_CONTRACT(int, parse_version_c, const char *version, struct evhttp_request *req)
__CPROVER_requires(version != NULL && req != NULL)
__CPROVER_assigns(req->major, req->minor)
__CPROVER_ensures(__CPROVER_return_value == (C23_VERSION_OK(version) ? 0 : -1))
__CPROVER_ensures(IMP(__CPROVER_return_value == 0, req->major == version[5] - '0' && req->minor == version[7] - '0'))
__CPROVER_ensures(IMP(__CPROVER_return_value != 0, req->major == __CPROVER_old(req->major) && req->minor == __CPROVER_old(req->minor)))
;
#endif
