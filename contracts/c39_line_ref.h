/* contracts/c39_line_ref.h — reference tokenizer for one configuration line (resolv.conf / hosts syntax:
 * fields separated by runs of SPACE / TAB) and the argument-recording contracts of the functions
 * resolv_conf_parse_line hands the fields to.  Included after the real evdns.c, `struct in IN;`
 * and the definition of C39_LINECAP.  Nothing here is libevent code. */
#ifndef C39_LINE_REF_H_
#define C39_LINE_REF_H_

#ifndef C39_LINECAP
#error "define C39_LINECAP (maximum line length in bytes) first"
#endif
#define C39_MAXTOK ((C39_LINECAP + 1) / 2)

/* the line under test: an array of its own (not a member of IN: see c39_set_option), NUL at [C39_LINECAP] at the latest */
static char C39_LINE[C39_LINECAP + 1];
static char O_LINE[C39_LINECAP + 1];          /* the line as it was before the call */
static int O_ntok; static int O_ts[C39_MAXTOK + 1], O_te[C39_MAXTOK + 1];   /* reference fields: [ts, te) */

#define C39_IS_DELIM(c) ((c) == ' ' || (c) == '\t')

/* reference tokenizer over O_LINE */
static void c39_ref_tokenize(void)
{
	int i = 0, k = 0;
	O_ntok = 0;
	for (k = 0; k <= C39_MAXTOK; k++) { O_ts[k] = C39_LINECAP; O_te[k] = C39_LINECAP; }
	k = 0;
	while (O_LINE[i] != '\0') {
		if (C39_IS_DELIM(O_LINE[i])) { i++; continue; }
		O_ts[k] = i;
		while (O_LINE[i] != '\0' && !C39_IS_DELIM(O_LINE[i]))
			i++;
		O_te[k] = i;
		k++;
	}
	O_ntok = k;
}

/* is reference field k exactly the word w? */
static int c39_tok_is(int k, const char *w)
{
	int j = 0;
	if (k >= O_ntok) return 0;
	while (w[j] != '\0') {
		if (O_ts[k] + j >= O_te[k] || O_LINE[O_ts[k] + j] != w[j]) return 0;
		j++;
	}
	return O_ts[k] + j == O_te[k];
}

/* offset just after the first ':' inside field k, or -1 */
static int c39_tok_colon(int k)
{
	int j;
	for (j = O_ts[k]; j < O_te[k]; j++)
		if (O_LINE[j] == ':') return j + 1;
	return -1;
}

/* ---- ghost call log (assigned only by the replaced callees' contracts) */
int g_ns_n, g_clear_n, g_add_n, g_rev_n, g_opt_n;
unsigned long long g_ns_log, g_add_log, g_opt_log, g_val_log;   /* folds: log = (log << 5) + (offset + 1) */
#define C39_LOG_RESET() do { g_ns_n = g_clear_n = g_add_n = g_rev_n = g_opt_n = 0; g_ns_log = g_add_log = g_opt_log = g_val_log = 0; } while (0)
#define C39_FOLD(log, off) (((log) << 5) + (unsigned long long)((off) + 1))
#define C39_IN_LINE(p) (__CPROVER_same_object((p), C39_LINE) && (p) >= C39_LINE && (p) < C39_LINE + C39_LINECAP + 1)

#ifdef C39_LINE_CONTRACTS
extern struct evdns_base C39_BASE;
VF_CONTRACT(int, ns_add_c, struct evdns_base *base, const char *ip_as_string)
__CPROVER_requires(base == &C39_BASE && C39_IN_LINE(ip_as_string))
__CPROVER_requires(g_ns_n < 12)
__CPROVER_assigns(g_ns_n, g_ns_log)
__CPROVER_ensures(g_ns_n == __CPROVER_old(g_ns_n) + 1 && g_ns_log == C39_FOLD(__CPROVER_old(g_ns_log), ip_as_string - C39_LINE))
;
VF_CONTRACT_V(sp_clear_c, struct evdns_base *base)
__CPROVER_requires(base == &C39_BASE)
__CPROVER_requires(g_clear_n == 0 && g_add_n == 0 && g_rev_n == 0)     /* the old list is dropped first, once */
__CPROVER_assigns(g_clear_n)
__CPROVER_ensures(g_clear_n == 1)
;
VF_CONTRACT_V(sp_add_c, struct evdns_base *base, const char *domain)
__CPROVER_requires(base == &C39_BASE && C39_IN_LINE(domain))
__CPROVER_requires(g_clear_n == 1 && g_rev_n == 0 && g_add_n < 12)         /* after the clear, before the reversal */
__CPROVER_assigns(g_add_n, g_add_log)
__CPROVER_ensures(g_add_n == __CPROVER_old(g_add_n) + 1 && g_add_log == C39_FOLD(__CPROVER_old(g_add_log), domain - C39_LINE))
;
VF_CONTRACT_V(sp_reverse_c, struct evdns_base *base)
__CPROVER_requires(base == &C39_BASE)
__CPROVER_requires(g_clear_n == 1 && g_rev_n == 0)
__CPROVER_assigns(g_rev_n)
__CPROVER_ensures(g_rev_n == 1)
;
VF_CONTRACT(int, opt_rec_c, struct evdns_base *base, const char *option, const char *val, int flags)
__CPROVER_requires(base == &C39_BASE && C39_IN_LINE(option) && flags == O_flags && g_opt_n < 12)
__CPROVER_requires(val != NULL && (C39_IN_LINE(val) || (__CPROVER_r_ok(val, 1) && val[0] == '\0')))  /* the text after ':' inside the field, or "" */
__CPROVER_assigns(g_opt_n, g_opt_log, g_val_log)
__CPROVER_ensures(g_opt_n == __CPROVER_old(g_opt_n) + 1 && g_opt_log == C39_FOLD(__CPROVER_old(g_opt_log), option - C39_LINE))
__CPROVER_ensures(g_val_log == C39_FOLD(__CPROVER_old(g_val_log), __CPROVER_same_object(val, C39_LINE) ? val - C39_LINE : -1))
;
#endif
#endif
