/* contracts/c19_deferred_unit.h — shared body of c19_deferred_locked / c19_deferred_unlocked (dfcc: one enforced
 * function per unit; the unit defines C19_UNLOCKED 0/1).
 * C19 — bufferevent_run_deferred_callbacks_locked / _unlocked (real bufferevent.c), the runner of deferred
 * callbacks: ghost call sequence = CONNECTED first (and its bit cleared), then the read callback, then the write
 * callback, then ALL remaining pending events in one call with the errno stored when they were raised; every
 * pending bit is cleared exactly when its callback is run; nothing is called (and nothing cleared) for a NULL
 * callback; the runner ends with exactly one decref (the reference the queue held), finalizing iff it was the last.
 * locked: callbacks run with the lock held once; unlocked: with the lock released.  C08: lock balance.  C10: refcnt. */
#include "c18_bev_unit.h"
#if C19_UNLOCKED
#define RUNNER bufferevent_run_deferred_callbacks_unlocked
#define CBDEPTH HELD(0)
#else
#define RUNNER bufferevent_run_deferred_callbacks_locked
#define CBDEPTH HELD(1)
#endif
short O_ep; int O_rp, O_wp, O_errp, O_refcnt;
size_t O_len_in, O_low_r, O_high_r; short O_enabled;
#define NOMUT (g_e.user_mutates == 0)
#define HAS_E (BEV->errorcb != NULL)
#define C_ ((O_ep & BEV_EVENT_CONNECTED) && HAS_E)
#define R_ (O_rp && BEV->readcb != NULL)
#define W_ (O_wp && BEV->writecb != NULL)
#define EP1 ((short)(C_ ? (O_ep & ~BEV_EVENT_CONNECTED) : O_ep))
#define E_ (EP1 != 0 && HAS_E)
/* position (1-based) in the overall call order */
#define POS_R (B(C_) + 1)
#define POS_W (B(C_) + B(R_) + 1)
#define POS_E (B(C_) + B(R_) + B(W_) + 1)
/* after the read callback: input still at/over a non-zero high mark with reading enabled => read callback re-scheduled */
#define WMC_ (O_high_r != 0 && (O_enabled & EV_READ) && O_len_in >= O_high_r && O_len_in >= O_low_r)

VF_CONTRACT_V(deferred_c, struct event_callback *cb, void *arg)
__CPROVER_requires(cb == &BEVP.deferred && arg == (void *)&BEVP)
__CPROVER_requires(BEVP.refcnt >= 1 && BEVP.refcnt <= (1 << 24))       /* the queued callback holds a reference (SCHEDULE_DEFERRED) */
__CPROVER_requires(g_e.deferred_queued == 0)                              /* it has been taken off the queue to be run */
__CPROVER_requires(g_e.nseq == 0 && g_e.sched_calls == 0 && g_e.sched_new == 0 && g_e.fin_calls == 0 && g_e.unlink_calls == 0 && g_lock_depth[1] == 0)
__CPROVER_assigns(BEVP.eventcb_pending, BEVP.readcb_pending, BEVP.writecb_pending, BEVP.errno_pending, BEVP.refcnt, errno, BEV->enabled, BEV->wm_read.low, BEV->wm_read.high, BEV_GHOST_FRAME)
/* 1 exactly the callbacks whose condition is pending and whose user function is set */
__CPROVER_ensures(g_e.nseq == B(C_) + B(R_) + B(W_) + B(E_))
/* 2-7 per kind at most once (events: CONNECTED and the rest), in the order CONNECTED, read, write, remaining events */
__CPROVER_ensures(g_e.nev == B(C_) + B(E_) && g_e.rd.n == B(R_) && g_e.wr.n == B(W_))
__CPROVER_ensures(IMP(C_, g_e.ev0.at == 1 && g_e.ev0.what == BEV_EVENT_CONNECTED))
__CPROVER_ensures(IMP(R_, g_e.rd.at == POS_R))
__CPROVER_ensures(IMP(W_, g_e.wr.at == POS_W))
__CPROVER_ensures(IMP(E_ && C_, g_e.ev1.at == POS_E && g_e.ev1.what == EP1 && g_e.ev1.err == O_errp))
__CPROVER_ensures(IMP(E_ && !C_, g_e.ev0.at == POS_E && g_e.ev0.what == EP1 && g_e.ev0.err == O_errp))
/* 6 pending bits: cleared exactly when run; kept when the user function is NULL */
__CPROVER_ensures(BEVP.eventcb_pending == (HAS_E ? 0 : O_ep) && BEVP.errno_pending == (E_ ? 0 : O_errp))
__CPROVER_ensures(BEVP.writecb_pending == (W_ ? 0 : O_wp))
__CPROVER_ensures(IMP(!R_, BEVP.readcb_pending == O_rp && g_e.sched_calls == 0))
__CPROVER_ensures(IMP(R_ && NOMUT, BEVP.readcb_pending == B(WMC_) && g_e.sched_calls == B(WMC_) && g_e.sched_new == B(WMC_)))
/* 10 exactly one reference dropped (plus the one a re-schedule takes); finalization iff it was the last; C08 */
__CPROVER_ensures(BEVP.refcnt == O_refcnt - 1 + g_e.sched_new && BEVP.refcnt >= 0)
__CPROVER_ensures(g_e.fin_calls == B(BEVP.refcnt == 0) && IMP(g_e.fin_calls == 1, g_e.fin_cb_ok && g_e.fin_lockdepth == HELD(1)))
__CPROVER_ensures(g_lock_depth[1] == 0)
;

void harness(void)
{
	VF_LOAD_IN();
	vf_bev_build();
	__CPROVER_assume(IN.refcnt >= 1 && IN.refcnt <= (1 << 24));
	g_e.deferred_queued = 0;
#ifdef VF_C19_NOMUT
	g_e.user_mutates = 0;          /* quick tier: user callbacks only record; thorough tier: they also change lengths/watermarks/enabled */
#endif
	O_ep = IN.ep; O_rp = IN.rp & 1; O_wp = IN.wp & 1; O_errp = IN.errp; O_refcnt = IN.refcnt;
	O_len_in = IN.len_in; O_low_r = IN.low_r; O_high_r = IN.high_r; O_enabled = IN.enabled;
	VF_CALL_V(deferred_c, RUNNER, &BEVP.deferred, (void *)&BEVP);
	__CPROVER_assert(g_e.nseq <= 4, "at most four callbacks per run");
#define CHK_SLOT(r) do { if ((r).n) { __CPROVER_assert((r).arg_ok && (r).lockdepth == CBDEPTH, "callback gets the user's argument; lock held (locked runner) / released (unlocked runner)"); \
	__CPROVER_assert((r).refcnt >= 1, "object is alive (referenced) while its callbacks run"); } } while (0)
	CHK_SLOT(g_e.rd); CHK_SLOT(g_e.wr); CHK_SLOT(g_e.ev0); CHK_SLOT(g_e.ev1);
	if (g_e.nev == 2) __CPROVER_assert(!(g_e.ev1.what & BEV_EVENT_CONNECTED), "CONNECTED is reported at most once per run, and first");
	__CPROVER_assert(g_e.en_calls == 0 && g_e.dis_calls == 0, "the runner does not enable/disable");
	__CPROVER_assert(BEVP.read_suspended == IN.rs && BEVP.write_suspended == IN.ws && BEVP.connecting == (IN.connecting & 1), "frame");
#ifdef VF_CANARY
	__CPROVER_assert(g_e.nseq < 4, "canary: must fail (all four callbacks can run in one pass)");
#endif
}
