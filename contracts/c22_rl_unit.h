/* contracts/c22_rl_unit.h — common prelude of the units over the real bufferevent_ratelim.c */
#ifndef VF_C22_RL_UNIT_H_
#define VF_C22_RL_UNIT_H_
#define VF_NLOCKS 2
#include "vf.h"
#include "bufferevent_ratelim.c"
struct in {
	int locking, glocking, has_rlim, has_cfg, has_group, is_write;
	ev_ssize_t max_r, max_w, lim_r, lim_w, glim_r, glim_w, min_share, bytes;
	ev_uint32_t last, glast;
	int n_members, g_rs, g_ws, g_pur, g_puw;
	unsigned short rs, ws, mrs[3], mws[3]; short enabled;
	long now_sec, now_usec, tick_sec, tick_usec; unsigned msec_per_tick;
	size_t rr, rm, wr, wm;
	int ev_ins, ev_init, add_fail, try_fail, nmb;
	ev_uint32_t seed; ev_uint64_t tot_r, tot_w;
	unsigned ch[VF_NCHOICE];
};
struct in IN;
#include "stubs/log.h"
#include "stubs/lock.h"
#include "stubs/mm.h"
#include "stubs/c22_rl_env.h"
#include "c18_ratelim_contracts.h"
/* members of the group: MB[0..nmb-1] then (if has_group) BEVP, linked in this order (LIST_INSERT_HEAD order is irrelevant to the code) */
static void vf_rl_build(void)
{
	VF_RL_INSTALL(); VF_MM_RESET();
	BEV->ev_base = &EVBASE; BEV->input = &INBUF; BEV->enabled = IN.enabled;
	BEVP.lock = IN.locking ? VF_LOCK_COOKIE(1) : NULL;
	BEVP.max_single_read = IN.max_r; BEVP.max_single_write = IN.max_w; BEVP.read_suspended = IN.rs; BEVP.write_suspended = IN.ws;
	BEVP.rate_limiting = IN.has_rlim ? &RL : NULL;
	RL.cfg = IN.has_cfg ? &CFG : NULL; RL.group = IN.has_group ? &GRP : NULL;
	RL.limit.read_limit = IN.lim_r; RL.limit.write_limit = IN.lim_w; RL.limit.last_updated = IN.last;
	RL.refill_bucket_event.ev_flags = IN.ev_init ? EVLIST_INIT : 0;
	CFG.read_rate = IN.rr; CFG.read_maximum = IN.rm; CFG.write_rate = IN.wr; CFG.write_maximum = IN.wm; CFG.msec_per_tick = IN.msec_per_tick;
	CFG.tick_timeout.tv_sec = IN.tick_sec; CFG.tick_timeout.tv_usec = IN.tick_usec;
	GRP.lock = IN.glocking ? VF_LOCK_COOKIE(2) : NULL;
	GRP.rate_limit.read_limit = IN.glim_r; GRP.rate_limit.write_limit = IN.glim_w; GRP.rate_limit.last_updated = IN.glast;
	GRP.rate_limit_cfg = CFG;
	GRP.read_suspended = IN.g_rs & 1; GRP.write_suspended = IN.g_ws & 1; GRP.pending_unsuspend_read = IN.g_pur & 1; GRP.pending_unsuspend_write = IN.g_puw & 1;
	GRP.n_members = IN.n_members; GRP.min_share = IN.min_share; GRP.total_read = IN.tot_r; GRP.total_written = IN.tot_w; GRP.weakrand_seed.seed = IN.seed;
	g_r.now_sec = IN.now_sec; g_r.now_usec = IN.now_usec; g_r.ev_ins = IN.ev_ins & 1; g_r.ev_timer = IN.ev_ins & 1; g_r.add_may_fail = IN.add_fail & 1; g_r.try_may_fail = IN.try_fail & 1;
}
#define B(x) ((x) ? 1 : 0)
/* ghost-only contracts for REPLACING the four group walkers (static functions of this TU) in their callers: a call is recorded in a
 * ghost counter.  They deliberately do not mention the group's flag bit-fields (a bit-field in the assigns clause of a replaced
 * contract is not havocked by CBMC 6.11); the callers never read those flags after the call.  The walkers themselves are verified in
 * c22_group_suspend_* / c22_group_unsuspend_* (bounded <= 3 members). */
#define GLOCK_HELD_ (GRP.lock == NULL || g_lock_depth[2] >= 1)
VF_CONTRACT(int, grp_suspend_reading_c, struct bufferevent_rate_limit_group *g)
__CPROVER_requires(g == &GRP && GLOCK_HELD_ && g_r.gsr_calls >= 0 && g_r.gsr_calls < 8) __CPROVER_assigns(g_r.gsr_calls) __CPROVER_ensures(g_r.gsr_calls == __CPROVER_old(g_r.gsr_calls) + 1 && __CPROVER_return_value == 0);
VF_CONTRACT(int, grp_suspend_writing_c, struct bufferevent_rate_limit_group *g)
__CPROVER_requires(g == &GRP && GLOCK_HELD_ && g_r.gsw_calls >= 0 && g_r.gsw_calls < 8) __CPROVER_assigns(g_r.gsw_calls) __CPROVER_ensures(g_r.gsw_calls == __CPROVER_old(g_r.gsw_calls) + 1 && __CPROVER_return_value == 0);
VF_CONTRACT_V(grp_unsuspend_reading_c, struct bufferevent_rate_limit_group *g)
__CPROVER_requires(g == &GRP && GLOCK_HELD_ && g_r.gur_calls >= 0 && g_r.gur_calls < 8) __CPROVER_assigns(g_r.gur_calls) __CPROVER_ensures(g_r.gur_calls == __CPROVER_old(g_r.gur_calls) + 1);
VF_CONTRACT_V(grp_unsuspend_writing_c, struct bufferevent_rate_limit_group *g)
__CPROVER_requires(g == &GRP && GLOCK_HELD_ && g_r.guw_calls >= 0 && g_r.guw_calls < 8) __CPROVER_assigns(g_r.guw_calls) __CPROVER_ensures(g_r.guw_calls == __CPROVER_old(g_r.guw_calls) + 1);
#define GRP_REPLACE_JSON_NOTE "see unit.json"
#define RL_GHOST_FRAME __CPROVER_object_whole(&g_r), g_lock_depth[1], g_lock_depth[2], g_lock_ops, vf_nchoice_
#define MAXZ(a, b) ((a) > (b) ? (a) : (b))
#define MINS(a, b) ((a) < (b) ? (a) : (b))
#endif
