/* C10/C08 — event_callback_finalize_nolock_ / event_callback_finalize_ (real event.c): the callback is first taken off
 * its queues (an event through event_del_nolock_, a bare callback through event_callback_cancel_nolock_), THEN gets the
 * EV_CLOSURE_CB_FINALIZE closure and the finalizer, THEN is activated exactly once, and is marked FINALIZING last
 * (marking it earlier would make the activation be refused and the finalizer never run). */
#define VF_NLOCKS 1
#include "vf.h"
#include "event.c"
struct in { int which, isinit; short fl; unsigned char closure0; unsigned flags_arg; };
struct in IN;
#include "stubs/log.h"
#include "stubs/lock.h"

static struct event_base BASE;
static struct event EV;
#define CBP (&EV.ev_evcallback)
int g_off, g_act;
short O_flags;
static void vf_cbfin(struct event_callback *cb, void *arg) { (void)cb; (void)arg; }
#define OFFQ(f) ((f) & ~(EVLIST_INSERTED | EVLIST_TIMEOUT | EVLIST_ACTIVE | EVLIST_ACTIVE_LATER))

VF_CONTRACT(int, del_c, struct event *ev, int blocking)
__CPROVER_requires(ev == &EV && blocking == EVENT_DEL_NOBLOCK && g_lock_depth[1] == 1 && (EV.ev_flags & EVLIST_INIT))
__CPROVER_requires(g_off == 0 && g_act == 0)
__CPROVER_assigns(g_off, EV.ev_evcallback.evcb_flags)
__CPROVER_ensures(g_off == 1 && (__CPROVER_return_value == 0 || __CPROVER_return_value == -1))
__CPROVER_ensures(EV.ev_flags == ((__CPROVER_old(EV.ev_flags) & EVLIST_FINALIZING) ? __CPROVER_old(EV.ev_flags) : OFFQ(__CPROVER_old(EV.ev_flags))))
;
VF_CONTRACT(int, cancel_c, struct event_base *base, struct event_callback *evcb, int even_if_finalizing)
__CPROVER_requires(base == &BASE && evcb == CBP && even_if_finalizing == 0 && g_lock_depth[1] == 1 && !(EV.ev_flags & EVLIST_INIT))
__CPROVER_requires(g_off == 0 && g_act == 0)
__CPROVER_assigns(g_off, EV.ev_evcallback.evcb_flags)
__CPROVER_ensures(g_off == 1 && __CPROVER_return_value == 0)
__CPROVER_ensures(EV.ev_flags == ((__CPROVER_old(EV.ev_flags) & EVLIST_FINALIZING) ? __CPROVER_old(EV.ev_flags) : OFFQ(__CPROVER_old(EV.ev_flags))))
;
VF_CONTRACT(int, activate_c, struct event_base *base, struct event_callback *evcb)
__CPROVER_requires(base == &BASE && evcb == CBP && g_lock_depth[1] == 1)
__CPROVER_requires(g_off == 1 && g_act == 0)
__CPROVER_requires(evcb->evcb_closure == EV_CLOSURE_CB_FINALIZE && evcb->evcb_cb_union.evcb_cbfinalize == vf_cbfin)
__CPROVER_requires(!(evcb->evcb_flags & EVLIST_FINALIZING) || (O_flags & EVLIST_FINALIZING))
__CPROVER_assigns(g_act, EV.ev_evcallback.evcb_flags)
__CPROVER_ensures(g_act == 1 && (__CPROVER_return_value == 0 || __CPROVER_return_value == 1))
__CPROVER_ensures(EV.ev_flags == ((__CPROVER_old(EV.ev_flags) & EVLIST_FINALIZING) ? __CPROVER_old(EV.ev_flags) : (__CPROVER_old(EV.ev_flags) | EVLIST_ACTIVE)))
;

#define CBFIN_POST \
__CPROVER_ensures(g_off == 1 && g_act == 1) \
__CPROVER_ensures(EV.ev_closure == EV_CLOSURE_CB_FINALIZE && EV.ev_evcallback.evcb_cb_union.evcb_cbfinalize == vf_cbfin) \
__CPROVER_ensures((EV.ev_flags & EVLIST_FINALIZING) != 0) \
__CPROVER_ensures(IMP(!(O_flags & EVLIST_FINALIZING), EV.ev_flags == (OFFQ(O_flags) | EVLIST_ACTIVE | EVLIST_FINALIZING))) \
__CPROVER_ensures(IMP(O_flags & EVLIST_FINALIZING, EV.ev_flags == O_flags))
VF_CONTRACT_V(cbfin_nolock_c, struct event_base *base, unsigned flags, struct event_callback *evcb, void (*cb)(struct event_callback *, void *))
__CPROVER_requires(base == &BASE && evcb == CBP && cb == vf_cbfin && g_lock_depth[1] == 1 && g_off == 0 && g_act == 0)
__CPROVER_assigns(g_off, g_act, EV.ev_evcallback.evcb_flags, EV.ev_evcallback.evcb_closure, EV.ev_evcallback.evcb_cb_union)
__CPROVER_ensures(g_lock_depth[1] == 1)
CBFIN_POST
;
VF_CONTRACT_V(cbfin_c, struct event_base *base, unsigned flags, struct event_callback *evcb, void (*cb)(struct event_callback *, void *))
__CPROVER_requires(base == &BASE && evcb == CBP && cb == vf_cbfin && g_lock_depth[1] == 0 && g_off == 0 && g_act == 0)
__CPROVER_assigns(g_lock_depth[1], g_lock_ops, g_off, g_act, EV.ev_evcallback.evcb_flags, EV.ev_evcallback.evcb_closure, EV.ev_evcallback.evcb_cb_union)
/* C08 */ __CPROVER_ensures(g_lock_depth[1] == 0)
CBFIN_POST
;

void harness(void)
{
	VF_LOAD_IN();
#ifdef VF_WHICH
	__CPROVER_assume(IN.which == VF_WHICH);      /* this unit enforces one entry point (one --enforce-contract per run) */
#endif
	VF_INSTALL_LOCKS();
	evthread_id_fn_ = NULL; event_debug_mode_on_ = 0; event_global_current_base_ = NULL;
	__CPROVER_assume(IN.closure0 <= EV_CLOSURE_EVENT_FINALIZE_FREE);
	g_off = 0; g_act = 0;
	BASE.th_base_lock = VF_LOCK_COOKIE(1);
	EV.ev_base = &BASE;
	EV.ev_flags = (IN.fl & (EVLIST_ACTIVE | EVLIST_INTERNAL | EVLIST_ACTIVE_LATER | EVLIST_FINALIZING)) | (IN.isinit ? (EVLIST_INIT | (IN.fl & (EVLIST_TIMEOUT | EVLIST_INSERTED))) : 0);
	__CPROVER_assume((EV.ev_flags & (EVLIST_ACTIVE | EVLIST_ACTIVE_LATER)) != (EVLIST_ACTIVE | EVLIST_ACTIVE_LATER));
	O_flags = EV.ev_flags; EV.ev_closure = IN.closure0;
	if (IN.which) { g_lock_depth[1] = 1; VF_CALL_V(cbfin_nolock_c, event_callback_finalize_nolock_, &BASE, IN.flags_arg, CBP, vf_cbfin); }
	else VF_CALL_V(cbfin_c, event_callback_finalize_, &BASE, IN.flags_arg, CBP, vf_cbfin);
#ifdef VF_CANARY
	__CPROVER_assert(EV.ev_flags & EVLIST_ACTIVE, "canary: must fail (a callback that was already finalizing is not activated again)");
#endif
}
