/* contracts/evbuffer_shape.h — harness-built evbuffer of <= 3 chains for units on the real
 * buffer.c (DESIGN §8 C12, appendix A.3).  Everything scalar is symbolic (offsets, misalign,
 * buffer_len up to 2^40, pin flags, counters); the SHAPE (number of chains <= 3) is the bound.
 * Must be included after buffer.c and after `struct in` (which embeds struct eb_in as IN.b). */
#ifndef VF_EVBUFFER_SHAPE_H_
#define VF_EVBUFFER_SHAPE_H_
#define VF_EB_MAXCH 3
#ifndef VF_EB_MAXSZ
#define VF_EB_MAXSZ ((size_t)1 << 40)   /* per-chain buffer_len bound */
#endif
struct eb_in {
	unsigned nch;                          /* 0..3 chains */
	size_t off[VF_EB_MAXCH], mis[VF_EB_MAXCH], blen[VF_EB_MAXCH];
	unsigned flags[VF_EB_MAXCH];           /* subset of VF_EB_FLAGMASK */
	int crefcnt[VF_EB_MAXCH];
	unsigned has_lock, freeze_start, freeze_end, deferred;
	size_t n_add, n_del;
	int refcnt;
};
#ifndef VF_EB_FLAGMASK
/* chains are never pinned on this build: evbuffer_chain_pin_ is called only from buffer_iocp.c (Windows) */
#define VF_EB_FLAGMASK 0
#endif
static struct evbuffer BUF;
static struct evbuffer_chain CH[VF_EB_MAXCH];
static unsigned char CHDATA[VF_EB_MAXCH][1];   /* chain->buffer anchors; data bytes are not modelled in bookkeeping units */

/* ghost: which chain index (or -1) is "last with data" by the invariant */
static int vf_lwd_index(const struct eb_in *s)
{
	int i, l = -1;
	for (i = 0; i < VF_EB_MAXCH; i++) { if ((unsigned)i < s->nch && s->off[i]) l = i; }
	return l;
}
static void vf_build_buf(const struct eb_in *s)
{
	unsigned i; size_t total = 0; int lwd;
	__CPROVER_assume(s->nch <= VF_EB_MAXCH);
	for (i = 0; i < VF_EB_MAXCH; i++) {
		if (i >= s->nch) break;
		__CPROVER_assume(s->blen[i] <= VF_EB_MAXSZ && s->mis[i] <= s->blen[i] && s->off[i] <= s->blen[i] - s->mis[i]);
		__CPROVER_assume((s->flags[i] & ~(unsigned)(VF_EB_FLAGMASK)) == 0);
		__CPROVER_assume(s->crefcnt[i] >= 1 && s->crefcnt[i] <= 1000);
		CH[i].next = (i + 1 < s->nch) ? &CH[i + 1] : NULL;
		CH[i].buffer_len = s->blen[i]; CH[i].misalign = (ev_misalign_t)s->mis[i]; CH[i].off = s->off[i];
		CH[i].flags = s->flags[i]; CH[i].refcnt = s->crefcnt[i]; CH[i].buffer = CHDATA[i];
		total += s->off[i];
	}
	lwd = vf_lwd_index(s);
	BUF.first = s->nch ? &CH[0] : NULL;
	BUF.last = s->nch ? &CH[s->nch - 1] : NULL;
	BUF.last_with_datap = (lwd <= 0) ? &BUF.first : &CH[lwd - 1].next;
	BUF.total_len = total;
	BUF.freeze_start = s->freeze_start & 1; BUF.freeze_end = s->freeze_end & 1; BUF.deferred_cbs = s->deferred & 1;
	__CPROVER_assume(s->n_add <= ((size_t)1 << 50) && s->n_del <= ((size_t)1 << 50));
	BUF.n_add_for_cb = s->n_add; BUF.n_del_for_cb = s->n_del;
	__CPROVER_assume(s->refcnt >= 1 && s->refcnt <= 1000);
	BUF.refcnt = s->refcnt;
	BUF.lock = (s->has_lock & 1) ? VF_LOCK_COOKIE(1) : NULL;
	LIST_INIT(&BUF.callbacks);
}
/* representation invariant over the (possibly shortened) list, checked after the call */
#define VF_IS_CH(p) ((p) == &CH[0] || (p) == &CH[1] || (p) == &CH[2])
static int vf_binv(const struct evbuffer *b)
{
	const struct evbuffer_chain *c = b->first, *last = NULL, *lwd = NULL; size_t total = 0; int n = 0, seen_lwdp = (b->last_with_datap == &b->first);
	if (c == NULL) return b->last == NULL && b->last_with_datap == &b->first && b->total_len == 0;
	for (n = 0; n < VF_EB_MAXCH + 1; n++) {
		if (!c) break;
		if (!VF_IS_CH(c)) return 0;
		if ((size_t)c->misalign > c->buffer_len || c->off > c->buffer_len - (size_t)c->misalign) return 0;
		total += c->off;
		if (c->off) lwd = c;
		if (&c->next == b->last_with_datap) seen_lwdp = 1;
		last = c; c = c->next;
	}
	if (c != NULL) return 0;                           /* longer than the shape: impossible */
	if (b->last != last) return 0;
	if (b->total_len != total) return 0;
	if (!seen_lwdp) return 0;                          /* last_with_datap points into the live list */
	if (lwd == NULL) lwd = b->first;
	return *b->last_with_datap == lwd || (total == 0);  /* all-empty: any chain whose successors are empty is acceptable to the code; see buffer.c evbuffer_chain_insert */
}
/* Index form of the representation invariant, for operations that keep the harness chains in
 * index order: the live list is exactly CH[k], CH[k+1], …, CH[n-1] (k == n: empty).  No pointer
 * walk, so it is cheap for the solver. */
static int vf_binv_idx(const struct evbuffer *b, unsigned k, unsigned n)
{
	unsigned i; size_t total = 0; int lwd = -1; int ok = 1;
	if (k >= n) return b->first == NULL && b->last == NULL && b->last_with_datap == &b->first && b->total_len == 0;
	ok = ok && b->first == &CH[k] && b->last == &CH[n - 1];
	for (i = 0; i < VF_EB_MAXCH; i++) {
		if (i < k || i >= n) continue;
		ok = ok && CH[i].next == ((i + 1 < n) ? &CH[i + 1] : NULL);
		ok = ok && (size_t)CH[i].misalign <= CH[i].buffer_len && CH[i].off <= CH[i].buffer_len - (size_t)CH[i].misalign;
		total += CH[i].off;
		if (CH[i].off) lwd = (int)i;
	}
	ok = ok && b->total_len == total;
	if (lwd < 0 || (unsigned)lwd == k) ok = ok && (b->last_with_datap == &b->first || (lwd < 0 && ((k + 1 < n && b->last_with_datap == &CH[k].next) || (k + 2 < n && b->last_with_datap == &CH[k + 1].next))));
	else ok = ok && b->last_with_datap == &CH[lwd - 1].next;
	return ok;
}
#endif
