/* contracts/c30g_tree.h — shared by the c30g_* units (virtual-host selection in the real http.c):
 *   (1) the harness-built vhost tree          ROOT ── V0 ── V00
 *                                                  └─ V1            (registration order V0 before V1)
 *       ROOT has IN.nvh <= 2 virtual hosts, the first of them IN.nch <= 1 child; every vhost's pattern is one of
 *       the 8 concrete patterns that units/c30_glob checks prefix_suffix_match for (none ends in '*': known
 *       finding C30-glob-trailing-star), chosen by IN; every evhttp has IN.nal[i] <= 1 server alias, a symbolic
 *       string of <= VF_A characters; the host name is a symbolic string of <= VF_N characters; both over the
 *       alphabet { a A b B . - } of c30_glob.  All strings are RIGHT-ALIGNED in their own top-level arrays
 *       (a read past the terminator is an out-of-bounds obligation).
 *       This is the state evhttp_add_virtual_host (TAILQ_INSERT_TAIL(&http->virtualhosts, vhost, next_vhost),
 *       vhost->vhost_pattern = mm_strdup(pattern) != NULL) and evhttp_add_server_alias (TAILQ_INSERT_TAIL(
 *       &http->aliases, evalias, next), evalias->alias = mm_strdup(alias) != NULL) build.
 *   (2) the SPECIFICATION side (trusted): ref_glob — dynamic-programming '*' matcher (same text as in
 *       units/c30_glob, not a recursion), ref_ci_eq — exact ASCII-case-insensitive equality with explicit
 *       lengths, ref_alias_from / ref_vhost — the selection rules of property C30 written out for the tree.
 * The including unit defines VF_N, VF_A, includes vf.h + http.c, and declares `struct in IN` with the fields
 *   unsigned char h[VF_N]; unsigned hn; unsigned nvh, nch; unsigned char pat[3]; unsigned nal[4]; unsigned char al[4][VF_A]; unsigned aln[4];
 * With C30G_XAL defined before inclusion ROOT may have a SECOND alias (registered after the first; only when it has
 * a first one): additional fields  unsigned xn; unsigned char xal[VF_A]; unsigned xaln;
 */
#ifndef VF_C30G_TREE_H_
#define VF_C30G_TREE_H_

#define C30G_ROOT 0
#define C30G_V0 1
#define C30G_V00 2
#define C30G_V1 3
#define C30G_NONE 4

static const char C30G_ALPHA[8] = { 'a', 'A', 'b', 'B', '.', '-', 'a', '.' };
#define C30G_NPAT 8
#define C30G_PL 6
static const char *const C30G_PATS[C30G_NPAT] = { "", "a", "*a", "*.a", "a*b", "*a*b", "a.*.b", "**a" };

static struct evhttp T_ROOT, T_V0, T_V00, T_V1;
static struct evhttp_server_alias T_AL0, T_AL1, T_AL2, T_AL3;
static char T_HOSTBUF[VF_N + 1];
static char T_ALBUF0[VF_A + 1], T_ALBUF1[VF_A + 1], T_ALBUF2[VF_A + 1], T_ALBUF3[VF_A + 1];
#ifdef C30G_XAL
static struct evhttp_server_alias T_ALX; static char T_ALBUFX[VF_A + 1]; static char *T_xalias;
#endif
static char *T_host;                 /* the host name: T_HOSTBUF + (VF_N - IN.hn) */
static char *T_alias[4];             /* the alias strings (valid where IN.nal[i] == 1) */
static int T_present[4];             /* which evhttp objects are in the tree */

static struct evhttp *c30g_node(int i)
{
	return i == C30G_ROOT ? &T_ROOT : i == C30G_V0 ? &T_V0 : i == C30G_V00 ? &T_V00 : i == C30G_V1 ? &T_V1 : (struct evhttp *)0;
}
static struct evhttp_server_alias *c30g_aliasobj(int i) { return i == 0 ? &T_AL0 : i == 1 ? &T_AL1 : i == 2 ? &T_AL2 : &T_AL3; }
static char *c30g_albuf(int i) { return i == 0 ? T_ALBUF0 : i == 1 ? T_ALBUF1 : i == 2 ? T_ALBUF2 : T_ALBUF3; }

static void c30g_fill_alias(char *buf, int i)
{
	unsigned k; char *s = buf + (VF_A - IN.aln[i]);
	for (k = 0; k < VF_A; k++) buf[k] = 'y';
	for (k = 0; k < VF_A; k++) if (k < IN.aln[i]) s[k] = C30G_ALPHA[IN.al[i][k] & 7u];
	buf[VF_A] = '\0';
	T_alias[i] = s;
}

static void c30g_build(void)
{
	unsigned k; int i;
	__CPROVER_assume(IN.hn <= VF_N && IN.nvh <= 2 && IN.nch <= 1);
	__CPROVER_assume(IN.pat[0] < C30G_NPAT && IN.pat[1] < C30G_NPAT && IN.pat[2] < C30G_NPAT);
	for (i = 0; i < 4; i++) __CPROVER_assume(IN.nal[i] <= 1 && IN.aln[i] <= VF_A);
	T_host = T_HOSTBUF + (VF_N - IN.hn);
	for (k = 0; k < VF_N; k++) T_HOSTBUF[k] = 'y';
	for (k = 0; k < VF_N; k++) if (k < IN.hn) T_host[k] = C30G_ALPHA[IN.h[k] & 7u];
	T_HOSTBUF[VF_N] = '\0';
	c30g_fill_alias(T_ALBUF0, 0); c30g_fill_alias(T_ALBUF1, 1); c30g_fill_alias(T_ALBUF2, 2); c30g_fill_alias(T_ALBUF3, 3);

	T_present[C30G_ROOT] = 1;
	T_present[C30G_V0] = IN.nvh >= 1;
	T_present[C30G_V00] = IN.nvh >= 1 && IN.nch >= 1;
	T_present[C30G_V1] = IN.nvh >= 2;
	for (i = 0; i < 4; i++) {
		struct evhttp *h = c30g_node(i);
		TAILQ_INIT(&h->virtualhosts);
		TAILQ_INIT(&h->aliases);
		h->vhost_pattern = NULL;
	}
	/* evhttp_add_virtual_host(&T_ROOT, pat0, &T_V0); evhttp_add_virtual_host(&T_V0, pat1, &T_V00); evhttp_add_virtual_host(&T_ROOT, pat2, &T_V1) */
	if (T_present[C30G_V0]) { T_V0.vhost_pattern = (char *)C30G_PATS[IN.pat[0]]; TAILQ_INSERT_TAIL(&T_ROOT.virtualhosts, &T_V0, next_vhost); }
	if (T_present[C30G_V00]) { T_V00.vhost_pattern = (char *)C30G_PATS[IN.pat[1]]; TAILQ_INSERT_TAIL(&T_V0.virtualhosts, &T_V00, next_vhost); }
	if (T_present[C30G_V1]) { T_V1.vhost_pattern = (char *)C30G_PATS[IN.pat[2]]; TAILQ_INSERT_TAIL(&T_ROOT.virtualhosts, &T_V1, next_vhost); }
	/* evhttp_add_server_alias(node i, alias i) */
	for (i = 0; i < 4; i++) {
		if (T_present[i] && IN.nal[i] == 1) {
			struct evhttp_server_alias *a = c30g_aliasobj(i);
			a->alias = T_alias[i];
			TAILQ_INSERT_TAIL(&c30g_node(i)->aliases, a, next);
		}
	}
#ifdef C30G_XAL
	__CPROVER_assume(IN.xn <= 1 && IN.xaln <= VF_A && IMP(IN.xn == 1, IN.nal[0] == 1));
	T_xalias = T_ALBUFX + (VF_A - IN.xaln);
	for (k = 0; k < VF_A; k++) T_ALBUFX[k] = 'y';
	for (k = 0; k < VF_A; k++) if (k < IN.xaln) T_xalias[k] = C30G_ALPHA[IN.xal[k] & 7u];
	T_ALBUFX[VF_A] = '\0';
	if (IN.xn == 1) { T_ALX.alias = T_xalias; TAILQ_INSERT_TAIL(&T_ROOT.aliases, &T_ALX, next); }
#endif
}

/* the tree and every string are exactly what c30g_build made (the functions only read) */
static int c30g_unchanged(void)
{
	unsigned k; int i, ok = 1;
	for (k = 0; k < VF_N; k++) if (k < IN.hn && T_host[k] != C30G_ALPHA[IN.h[k] & 7u]) ok = 0;
	if (T_HOSTBUF[VF_N] != '\0') ok = 0;
	for (i = 0; i < 4; i++) {
		char *b = c30g_albuf(i);
		for (k = 0; k < VF_A; k++) if (k < IN.aln[i] && T_alias[i][k] != C30G_ALPHA[IN.al[i][k] & 7u]) ok = 0;
		if (b[VF_A] != '\0') ok = 0;
		if (T_present[i] && IN.nal[i] == 1) {
			struct evhttp_server_alias *nx_ = NULL;
#ifdef C30G_XAL
			if (i == 0 && IN.xn == 1) nx_ = &T_ALX;
#endif
			if (TAILQ_FIRST(&c30g_node(i)->aliases) != c30g_aliasobj(i) || TAILQ_NEXT(c30g_aliasobj(i), next) != nx_ || c30g_aliasobj(i)->alias != T_alias[i]) ok = 0;
		} else if (TAILQ_FIRST(&c30g_node(i)->aliases) != NULL) ok = 0;
	}
#ifdef C30G_XAL
	for (k = 0; k < VF_A; k++) if (k < IN.xaln && T_xalias[k] != C30G_ALPHA[IN.xal[k] & 7u]) ok = 0;
	if (T_ALBUFX[VF_A] != '\0') ok = 0;
	if (IN.xn == 1 && (TAILQ_NEXT(&T_ALX, next) != NULL || T_ALX.alias != T_xalias)) ok = 0;
#endif
	if (TAILQ_FIRST(&T_ROOT.virtualhosts) != (T_present[C30G_V0] ? &T_V0 : NULL)) ok = 0;
	if (T_present[C30G_V0] && TAILQ_NEXT(&T_V0, next_vhost) != (T_present[C30G_V1] ? &T_V1 : NULL)) ok = 0;
	if (T_present[C30G_V1] && TAILQ_NEXT(&T_V1, next_vhost) != NULL) ok = 0;
	if (TAILQ_FIRST(&T_V0.virtualhosts) != (T_present[C30G_V00] ? &T_V00 : NULL)) ok = 0;
	if (T_present[C30G_V00] && TAILQ_NEXT(&T_V00, next_vhost) != NULL) ok = 0;
	if (TAILQ_FIRST(&T_V00.virtualhosts) != NULL || TAILQ_FIRST(&T_V1.virtualhosts) != NULL) ok = 0;
	if (T_present[C30G_V0] && T_V0.vhost_pattern != C30G_PATS[IN.pat[0]]) ok = 0;
	if (T_present[C30G_V00] && T_V00.vhost_pattern != C30G_PATS[IN.pat[1]]) ok = 0;
	if (T_present[C30G_V1] && T_V1.vhost_pattern != C30G_PATS[IN.pat[2]]) ok = 0;
	return ok;
}

/* ------------------------------------------------------------------ specification side */
static int c30g_lc(char x) { return (x >= 'A' && x <= 'Z') ? x - 'A' + 'a' : x; }
/* x[0..xn) and y[0..yn) are the same string up to ASCII case: same length, same letters */
static int ref_ci_eq(const char *x, unsigned xn, const char *y, unsigned yn)
{
	unsigned k;
	if (xn != yn) return 0;
	for (k = 0; k < (VF_N > VF_A ? VF_N : VF_A); k++) { if (k >= xn) break; if (c30g_lc(x[k]) != c30g_lc(y[k])) return 0; }
	return 1;
}
static unsigned char C30G_M[C30G_PL + 2][VF_N + 2];
/* M[i][j] = pattern[i..] matches name[j..]; '*' = any (possibly empty) sequence, any other character = itself (up to ASCII case iff ic) */
static int ref_glob(const char *p, const char *s, unsigned sn, int ic)
{
	unsigned i, j, pn;
	for (pn = 0; pn < C30G_PL; pn++) if (p[pn] == '\0') break;
	for (i = C30G_PL + 1; i-- > 0;) for (j = VF_N + 1; j-- > 0;) {
		unsigned char v;
		if (i > pn || j > sn) { C30G_M[i][j] = 0; continue; }
		if (i == pn) v = (j == sn);
		else if (p[i] == '*') v = C30G_M[i + 1][j] || (j < sn && C30G_M[i][j + 1]);
		else v = (j < sn && (p[i] == s[j] || (ic && c30g_lc(p[i]) == c30g_lc(s[j]))) && C30G_M[i + 1][j + 1]);
		C30G_M[i][j] = v;
	}
	return C30G_M[0][0];
}

/* node i is in the tree, has an alias, and the alias equals the host name up to case */
static int ref_alias_hit(int i)
{
#ifdef C30G_XAL
	if (i == C30G_ROOT && IN.xn == 1 && ref_ci_eq(T_xalias, IN.xaln, T_host, IN.hn)) return 1;   /* any of an evhttp's aliases */
#endif
	return T_present[i] && IN.nal[i] == 1 && ref_ci_eq(T_alias[i], IN.aln[i], T_host, IN.hn);
}
/* alias search from node `from` (ROOT or V0 or V00 or V1): the node itself, then its virtual hosts in registration
 * order, each with its own subtree before the next sibling; C30G_NONE when no alias in the subtree equals the host */
static int ref_alias_from(int from)
{
	if (from == C30G_ROOT) {
		if (ref_alias_hit(C30G_ROOT)) return C30G_ROOT;
		if (ref_alias_hit(C30G_V0)) return C30G_V0;
		if (ref_alias_hit(C30G_V00)) return C30G_V00;
		if (ref_alias_hit(C30G_V1)) return C30G_V1;
		return C30G_NONE;
	}
	if (from == C30G_V0) {
		if (ref_alias_hit(C30G_V0)) return C30G_V0;
		if (ref_alias_hit(C30G_V00)) return C30G_V00;
		return C30G_NONE;
	}
	return ref_alias_hit(from) ? from : C30G_NONE;
}
static int ref_pat_hit(int i, unsigned pi) { return T_present[i] && ref_glob(C30G_PATS[pi], T_host, IN.hn, 1 /* host names are case-insensitive */); }
/* pattern descent from ROOT: at each level the FIRST registered virtual host whose pattern matches the host name
 * is selected and the search continues among ITS virtual hosts; C30G_ROOT when no first-level pattern matches */
static int ref_descent(void)
{
	if (ref_pat_hit(C30G_V0, IN.pat[0])) return ref_pat_hit(C30G_V00, IN.pat[1]) ? C30G_V00 : C30G_V0;
	if (ref_pat_hit(C30G_V1, IN.pat[2])) return C30G_V1;
	return C30G_ROOT;
}
#endif
