/* contracts/c40_inet_ref.h — REFERENCE text syntax of IPv4 / IPv6 addresses for the C40 units.
 * This is the specification side: written from RFC 4291 section 2.2 (text representation of IPv6
 * addresses: forms 1-3), RFC 5952 (recommended output form) and the dotted-quad of RFC 3986
 * ("dec-octet"), with the ONE relaxation the property grants: an IPv4 component may carry leading zeros
 * and is read as decimal.  It shares no code with evutil.c and uses no libc function.
 *
 *   IPv4    = num "." num "." num "." num         num = 1*DIGIT, decimal value <= 255
 *   IPv6    = 8 groups separated by ":", where ONE run of >= 1 groups may be replaced by "::" (which
 *             may be leading or trailing), a group is 1*4HEXDIG, and the last two groups may be written
 *             as an IPv4 dotted quad.  No other character, no leading/trailing single ":".
 *
 * ref_pton4/6(s, out) return 1 and fill out (network byte order) iff s (NUL-terminated) is in the syntax.
 * All loops have constant bounds in terms of VF_REF_MAXLEN (max. text length looked at). */
#ifndef C40_INET_REF_H_
#define C40_INET_REF_H_
#ifndef VF_REF_MAXLEN
#define VF_REF_MAXLEN 48
#endif
static int ref_isdigit(int c) { return c >= '0' && c <= '9'; }
static int ref_hexval(int c)
{
	if (c >= '0' && c <= '9') return c - '0';
	if (c >= 'a' && c <= 'f') return c - 'a' + 10;
	if (c >= 'A' && c <= 'F') return c - 'A' + 10;
	return -1;
}
/* one decimal component starting at s[*pi]: >= 1 digits, value <= 255 (leading zeros allowed) */
static int ref_num(const char *s, int *pi, unsigned *val)
{
	int i = *pi, nd = 0, k; unsigned v = 0;
	for (k = 0; k < VF_REF_MAXLEN; k++) {
		if (!ref_isdigit((unsigned char)s[i])) break;
		if (v <= 255) v = v * 10 + (unsigned)(s[i] - '0');     /* saturates above 255: stays > 255 */
		i++; nd++;
	}
	if (ref_isdigit((unsigned char)s[i])) return 0;              /* longer than the reference looks at */
	if (nd == 0 || v > 255) return 0;
	*pi = i; *val = v;
	return 1;
}
/* dotted quad that must extend to the terminating NUL */
static int ref_pton4_at(const char *s, int i, unsigned char out[4])
{
	unsigned v; int k;
	for (k = 0; k < 4; k++) {
		if (k > 0) { if (s[i] != '.') return 0; i++; }
		if (!ref_num(s, &i, &v)) return 0;
		out[k] = (unsigned char)v;
	}
	return s[i] == 0;
}
static int ref_pton4(const char *s, unsigned char out[4]) { return ref_pton4_at(s, 0, out); }

static int ref_pton6(const char *s, unsigned char out[16])
{
	unsigned w[8]; int nw = 0, gap = -1, i = 0, k, it;
	if (s[0] == ':') {
		if (s[1] != ':') return 0;
		gap = 0; i = 2;
	}
	for (it = 0; it < 9; it++) {                    /* at most 8 groups; the 9th round only sees the end */
		int nd = 0, r = 0; unsigned v = 0;
		if (s[i] == 0) break;
		if (nw >= 8) return 0;
		/* an IPv4 tail? (a run of decimal digits followed by '.') */
		for (k = 0; k < VF_REF_MAXLEN; k++) { if (!ref_isdigit((unsigned char)s[i + r])) break; r++; }
		if (r > 0 && s[i + r] == '.') {
			unsigned char q[4];
			if (nw > 6) return 0;
			if (!ref_pton4_at(s, i, q)) return 0;
			w[nw++] = ((unsigned)q[0] << 8) | q[1];
			w[nw++] = ((unsigned)q[2] << 8) | q[3];
			break;                                   /* ref_pton4_at checked that the text ends here */
		}
		for (k = 0; k < 4; k++) {
			int h = ref_hexval((unsigned char)s[i]);
			if (h < 0) break;
			v = (v << 4) | (unsigned)h; i++; nd++;
		}
		if (nd == 0) return 0;
		if (ref_hexval((unsigned char)s[i]) >= 0) return 0;   /* more than 4 hex digits */
		w[nw++] = v;
		if (s[i] == 0) break;
		if (s[i] != ':') return 0;
		i++;
		if (s[i] == ':') {
			if (gap >= 0) return 0;
			gap = nw; i++;
		} else if (s[i] == 0) return 0;              /* trailing single ':' */
	}
	/* the loop is left only at the terminating NUL or after an IPv4 tail that ends the text */
	if (gap < 0) { if (nw != 8) return 0; }
	else if (nw > 7) return 0;
	/* expand: words before the gap, zeros, words after the gap */
	for (k = 0; k < 8; k++) {
		unsigned v;
		if (gap < 0) v = w[k];
		else if (k < gap) v = w[k];
		else if (k < gap + (8 - nw)) v = 0;
		else v = w[k - (8 - nw)];
		out[2 * k] = (unsigned char)(v >> 8); out[2 * k + 1] = (unsigned char)(v & 0xff);
	}
	return 1;
}
#endif
