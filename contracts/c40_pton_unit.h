/* contracts/c40_pton_unit.h — common harness of the evutil_inet_pton units (real evutil.c).
 *   VF_AF      4 or 6
 *   VF_L       size of the text object in bytes (text of <= VF_L-1 characters, every byte content)
 *   VF_STRICT  0: "every string of the reference syntax is accepted and yields the reference's address;
 *                  a rejected string leaves *dst unchanged; the result is 0 or 1"
 *              1: "every string that evutil_inet_pton accepts is in the reference syntax" (strictness)
 * The text is right-aligned in its object: its NUL is the object's last byte, so any read past the
 * terminator is an out-of-bounds obligation failure.  One pad byte precedes the longest text: the IPv6
 * branch steps a pointer to src-1 (`for (eow = dot-1; eow >= src && ...; --eow)`) before comparing it with
 * src, which ISO C leaves undefined when src is the first byte of its object (reported, benign on flat
 * address spaces); the pad byte keeps that pointer inside the object, and it is never dereferenced.
 * IPv6 only: three ARBITRARY bytes follow the NUL, because `if (next > 4+src)` forms a pointer up to three
 * bytes beyond one-past-the-NUL (same kind of ISO C undefinedness, reported; CBMC 6 turns every obligation
 * downstream of such a failed pointer check into UNKNOWN, so it cannot simply be excluded).  A read of
 * those bytes is therefore not an out-of-bounds failure here - but they are nondeterministic, so any
 * influence on the result shows up against the reference, which never looks past the NUL.  The IPv4
 * branch has no such arithmetic and its text ends exactly at the end of the object.  The reference syntax is contracts/c40_inet_ref.h. */
#include "vf.h"
#include "evutil.c"
#include "stubs/log.h"
struct in { unsigned char s[VF_L]; int n; unsigned char pre[16]; unsigned char padr[3]; };
struct in IN;
#include "stubs/c40_libc_ref.h"
#define VF_REF_MAXLEN VF_L
#include "c40_inet_ref.h"
#if VF_AF == 4
#define VF_ALEN 4
#define VF_FAM AF_INET
#define VF_REF ref_pton4
#else
#define VF_ALEN 16
#define VF_FAM AF_INET6
#define VF_REF ref_pton6
#endif
#if VF_AF == 6
#define VF_PADR 3     /* see below */
#else
#define VF_PADR 0
#endif
static char T[1 + VF_L + VF_PADR];   /* T[0]: pad byte in front of the longest text; VF_PADR arbitrary bytes behind the NUL */
static unsigned char OUT[VF_ALEN];

void harness(void)
{
	int i, r, rr, same = 1, kept = 1;
	unsigned char refout[16];
	const char *s;
	VF_LOAD_IN();
	__CPROVER_assume(0 <= IN.n && IN.n < VF_L);
	T[0] = 0x55;
	for (i = 0; i < VF_L; i++) {
		T[i + 1] = (char)IN.s[i];
		if (i >= VF_L - 1 - IN.n && i < VF_L - 1) __CPROVER_assume(T[i + 1] != 0);
	}
	T[VF_L] = 0;
	for (i = 0; i < VF_PADR; i++) T[VF_L + 1 + i] = (char)IN.padr[i];
	s = T + 1 + (VF_L - 1 - IN.n);
#if VF_STRICT && (defined(VF_KF_EXCLUDE) || defined(VF_KF_ONLY))
	/* known-finding protocol (check.py): the deviations from the strict syntax found by this unit are
	 *   IPv4 (and the IPv4 tail of IPv6): a character other than DIGIT / '.' is tolerated by sscanf's %u (white space before
	 *         a number, a sign), and a component of >= 10 digits is reduced modulo 2^32;
	 *   IPv6: "0x"/"0X" in front of a group is tolerated by strtol(…,16); a single trailing ':' after the last group is ignored.
	 * VF_KF_EXCLUDE assumes none of these shapes, VF_KF_ONLY assumes at least one. */
	{
		int odd = 0, run = 0;
		for (i = 0; i < VF_L - 1; i++) {
			char c = s[i < IN.n ? i : IN.n];
			if (i >= IN.n) c = '0';
			if (c >= '0' && c <= '9') { run++; if (run >= 10) odd = 1; } else run = 0;
#if VF_AF == 4
			if (!((c >= '0' && c <= '9') || c == '.')) odd = 1;
#else
			if (!((c >= '0' && c <= '9') || (c >= 'a' && c <= 'f') || (c >= 'A' && c <= 'F') || c == '.' || c == ':')) odd = 1;
#endif
		}
#if VF_AF == 6
		if (IN.n >= 2 && s[IN.n - 1] == ':' && s[IN.n - 2] != ':') odd = 1;
#endif
#ifdef VF_KF_EXCLUDE
		__CPROVER_assume(!odd);
#else
		__CPROVER_assume(odd);
#endif
	}
#endif
	for (i = 0; i < VF_ALEN; i++) OUT[i] = IN.pre[i];
	for (i = 0; i < 16; i++) refout[i] = 0;
	rr = VF_REF(s, refout);
	r = evutil_inet_pton(VF_FAM, s, OUT);
	for (i = 0; i < VF_ALEN; i++) { if (OUT[i] != refout[i]) same = 0; if (OUT[i] != IN.pre[i]) kept = 0; }
#if VF_STRICT
	__CPROVER_assert(IMP(r == 1, rr == 1), "evutil_inet_pton accepts only strings of the strict address syntax (leading zeros in IPv4 components allowed)");
#else
	__CPROVER_assert(r == 0 || r == 1, "evutil_inet_pton returns 0 or 1 for AF_INET/AF_INET6");
	__CPROVER_assert(IMP(rr == 1, r == 1), "every string of the address syntax is accepted");
	__CPROVER_assert(IMP(rr == 1 && r == 1, same), "an accepted string of the address syntax yields exactly the address the reference parser yields");
	__CPROVER_assert(IMP(r != 1, kept), "a rejected string leaves *dst unchanged");
#endif
	for (i = 0; i < VF_L; i++)
		__CPROVER_assert(T[i + 1] == (i == VF_L - 1 ? 0 : (char)IN.s[i]), "the text is not modified");
#ifdef VF_CANARY
	__CPROVER_assert(!(r == 1 && OUT[0] == 10), "canary: must fail (an address starting with byte 10 can be parsed)");
#endif
}
