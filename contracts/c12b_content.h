/* contracts/c12b_content.h — CONTENT variant of the <= 3-chain shape for units on the real buffer.c that
 * read buffer bytes (copyout, remove, search, search_eol, readln, peek).  Built on top of
 * contracts/evbuffer_shape.h (unchanged): the unit is compiled with -DVF_EB_MAXSZ=4 (<= VF_CT_CAP bytes per
 * chain), vf_ct_build() re-points every chain's `buffer` at a real data array filled from IN, and
 * vf_ct_model() flattens the chains into the byte string M[0..M_len) that C12 says the buffer IS.
 *
 * libc memcpy/memchr/memcmp are replaced by bounded byte loops (UNIT_GUIDE pitfall 2) that also carry the
 * "never reads outside the chains" obligation in its strong form: a read that starts in a chain's storage
 * must lie inside that chain's data window [misalign, misalign+off).
 *
 * Include after buffer.c, stubs/lock.h, evbuffer_shape.h and the definition of IN (`struct ct_in` from
 * c12b_content_in.h embedded as IN.d). */
#ifndef VF_C12B_CONTENT_H_
#define VF_C12B_CONTENT_H_
#include "c12b_content_in.h"
#include "c12b_ptr.h"
#if VF_EB_MAXSZ > VF_CT_CAP
#error "content units must be compiled with -DVF_EB_MAXSZ=4 (or less)"
#endif
/* one object per chain: running from one chain's storage into the next is an out-of-bounds access for the verifier */
#ifndef VF_CT_SLACK
#define VF_CT_SLACK 0      /* extra never-to-be-read bytes behind each chain's storage; units on find_eol_char need 128 (it forms s + 128) */
#endif
static unsigned char CHD0[VF_CT_CAP + VF_CT_SLACK], CHD1[VF_CT_CAP + VF_CT_SLACK], CHD2[VF_CT_CAP + VF_CT_SLACK];
static unsigned char *vf_chd(unsigned i) { return i == 0 ? CHD0 : i == 1 ? CHD1 : CHD2; }
unsigned char M[VF_CT_MLEN];      /* the byte string */
size_t M_len;

static void vf_ct_build(const struct eb_in *s, const struct ct_in *d)
{
	unsigned i, j;
	vf_build_buf(s);
	for (i = 0; i < VF_EB_MAXCH; i++) {
		for (j = 0; j < VF_CT_CAP; j++) vf_chd(i)[j] = d->bytes[i][j];
		if (i < s->nch) CH[i].buffer = vf_chd(i);
	}
}
/* flatten: M = concat_i buffer_i[misalign_i .. misalign_i + off_i) */
static void vf_ct_model(const struct eb_in *s)
{
	unsigned i, j; size_t n = 0;
	for (i = 0; i < VF_EB_MAXCH; i++) {
		if (i >= s->nch) break;
		for (j = 0; j < VF_CT_CAP; j++) {
			if (j >= s->off[i]) break;
			M[n++] = vf_chd(i)[s->mis[i] + j];
		}
	}
	M_len = n;
}
/* byte w of the CURRENT buffer (post-state view; walks the live list, which stays inside CH[]) */
static int vf_ct_byte_now(size_t w)
{
	const struct evbuffer_chain *c = BUF.first; int n;
	for (n = 0; n < VF_EB_MAXCH; n++) {
		if (!c) break;
		if (w < c->off) return c->buffer[c->misalign + w];
		w -= c->off; c = c->next;
	}
	return -1;
}
/* ---- window check shared by the libc replacements */
#ifndef VF_NATIVE
static void vf_ct_check_read(const void *src, size_t n)
{
	int i;
	for (i = 0; i < VF_EB_MAXCH; i++) {
		const unsigned char *lo = vf_chd((unsigned)i);
		int inobj = __CPROVER_same_object(src, lo);
		if (inobj) {
			size_t o = (size_t)((const unsigned char *)src - lo);
			/* CH[i] is still the owner of CHD[i] in every unit of this cluster (readers do not move storage) */
			__CPROVER_assert(o >= (size_t)CH[i].misalign && n <= CH[i].off && o - (size_t)CH[i].misalign <= CH[i].off - n, "C12: a read of chain storage stays inside the chain's data window [misalign, misalign+off)");
		}
	}
}
#endif
#if !defined(VF_CT_NO_LIBC) && !defined(VF_NATIVE)   /* natively the real libc runs (ASan checks the object bounds) */
void *memcpy(void *dst, const void *src, size_t n)
{
	size_t i;
	if (n == sizeof(struct evbuffer_ptr) && !(__CPROVER_same_object(src, CHD0) || __CPROVER_same_object(src, CHD1) || __CPROVER_same_object(src, CHD2))) { *(struct evbuffer_ptr *)dst = *(const struct evbuffer_ptr *)src; return dst; }   /* the struct copies in search/search_eol */
	vf_ct_check_read(src, n);
	__CPROVER_assert(n <= VF_CT_CAP, "memcpy from a chain: at most one chain's worth of bytes");
	for (i = 0; i < VF_CT_CAP; i++) { if (i >= n) break; ((unsigned char *)dst)[i] = ((const unsigned char *)src)[i]; }
	return dst;
}
void *memchr(const void *s, int c, size_t n)
{
	size_t i;
	vf_ct_check_read(s, n);
	__CPROVER_assert(n <= VF_CT_CAP, "memchr over a chain: at most one chain's worth of bytes");
	for (i = 0; i < VF_CT_CAP; i++) { if (i >= n) break; if (((const unsigned char *)s)[i] == (unsigned char)c) return (void *)((const unsigned char *)s + i); }
	return NULL;
}
int memcmp(const void *a, const void *b, size_t n)
{
	size_t i;
	vf_ct_check_read(a, n);
	__CPROVER_assert(n <= VF_CT_CAP, "memcmp against a chain: at most one chain's worth of bytes");
	for (i = 0; i < VF_CT_CAP; i++) {
		if (i >= n) break;
		if (((const unsigned char *)a)[i] != ((const unsigned char *)b)[i]) return ((const unsigned char *)a)[i] < ((const unsigned char *)b)[i] ? -1 : 1;
	}
	return 0;
}
#endif
#endif
