/* C42 — evtag_unmarshal, _int, _int64, _string, _timeval, _fixed of the real event_tagging.c on
 * ARBITRARY bytes (source buffer of IN.n <= VF_N bytes, all contents, every length, right-aligned:
 * over-reads are out of bounds), any expected tag:
 *   - success iff the reference reader (contracts/c31_tagref.h) finds a complete item
 *     Tag Length Data with the expected tag whose Data is a well-formed value of the asked type
 *     lying inside the item (ints: encoded length <= Length; timeval: both integers inside
 *     Length; fixed: Length == the size asked for);
 *   - on success exactly header + Length bytes are consumed and the value is the item's value;
 *   - never more than header + Length is consumed; drained + remaining == received.
 * Allocation (evtag_unmarshal_string) may fail: then -1. */
#ifndef VF_N
#define VF_N 12
#endif
#define VF_EB_CAP VF_N
#define VF_EB_MAXCOPY VF_N
#include "vf.h"
#include "event_tagging.c"
struct in { unsigned n; unsigned char d[VF_N]; int which; ev_uint32_t need_tag; unsigned fixlen; unsigned ch[VF_NCHOICE]; };
struct in IN;
#include "stubs/log.h"
#include "stubs/mm.h"
#include "stubs/c31_evbuffer3.h"
#include "c31_tagref.h"

void harness(void)
{
	unsigned i; int r, hl, complete; ev_uint32_t rtag = 0, rlen = 0; size_t rem; const unsigned char *pay;
	VF_LOAD_IN(); VF_EB_RESET(); VF_MM_RESET();
	__CPROVER_assume(IN.n <= VF_N && (IN.which == VF_WHICH_A || IN.which == VF_WHICH_B) && IN.fixlen <= VF_N);
	VF_EB_LOAD(0, IN.d, IN.n);
	hl = ref_header(IN.d, IN.n, &rtag, &rlen);
	rem = hl >= 0 ? IN.n - (size_t)hl : 0;
	complete = hl >= 0 && rem >= rlen;                 /* one complete item Tag Length Data is there */
	pay = &IN.d[hl >= 0 ? hl : 0];
	if (IN.which == 0) {            /* evtag_unmarshal: copy Data to another buffer */
		ev_uint32_t tag = 0xdeadbeefu;
		r = evtag_unmarshal(&EVB[0], &tag, &EVB[1]);
		__CPROVER_assert(IFF(r != -1, complete), "evtag_unmarshal succeeds iff one complete item is there");
		__CPROVER_assert(IMP(r != -1, r == (int)rlen && tag == rtag && vf_len[1] == rlen), "evtag_unmarshal: tag, length, and exactly Length bytes appended to dst");
		for (i = 0; i < VF_N; i++) if (r != -1 && i < rlen) __CPROVER_assert(VF_EB_BYTE(1, i) == pay[i], "evtag_unmarshal: dst receives the item's Data bytes");
		__CPROVER_assert(IMP(r != -1, vf_drained[0] == (size_t)hl + rlen), "evtag_unmarshal consumes exactly header + Length");
	} else if (IN.which == 1 || IN.which == 2) {   /* evtag_unmarshal_int / _int64 */
		int maxnib = IN.which == 1 ? 8 : 16; ev_uint64_t rv = 0; int il; ev_uint32_t v32 = 0; ev_uint64_t v64 = 0;
		il = complete ? ref_int(pay, rem, maxnib, &rv) : -1;     /* the code decodes from all remaining data, then checks il <= Length */
		if (IN.which == 1) r = evtag_unmarshal_int(&EVB[0], IN.need_tag, &v32); else r = evtag_unmarshal_int64(&EVB[0], IN.need_tag, &v64);
		__CPROVER_assert(IFF(r != -1, complete && rtag == IN.need_tag && il >= 0 && (size_t)il <= rlen), "evtag_unmarshal_int*: succeeds iff a complete item with the expected tag holds a well-formed integer inside its Data");
		__CPROVER_assert(IMP(r != -1, r == il && (IN.which == 1 ? (ev_uint64_t)v32 == rv : v64 == rv)), "evtag_unmarshal_int*: the integer's value (and its encoded length as result)");
		__CPROVER_assert(IMP(r != -1, vf_drained[0] == (size_t)hl + rlen), "evtag_unmarshal_int* consumes exactly header + Length");
	} else if (IN.which == 3) {     /* evtag_unmarshal_string */
		char *s = NULL; long allocs0 = g_mm_allocs;
		r = evtag_unmarshal_string(&EVB[0], IN.need_tag, &s);
		__CPROVER_assert(IMP(r == 0, complete && rtag == IN.need_tag) && (r == 0 || r == -1), "evtag_unmarshal_string succeeds only for a complete item with the expected tag");
		__CPROVER_assert(IMP(complete && rtag == IN.need_tag && r == -1, g_mm_allocs == allocs0), "evtag_unmarshal_string fails on a good item only when the allocation fails");
		if (r == 0) {
			__CPROVER_assert(s != NULL && __CPROVER_r_ok(s, (size_t)rlen + 1), "evtag_unmarshal_string: Length + 1 bytes allocated");
			for (i = 0; i < VF_N; i++) if (i < rlen) __CPROVER_assert(s[i] == (char)pay[i], "evtag_unmarshal_string: the Data bytes");
			__CPROVER_assert(s[rlen] == '\0', "evtag_unmarshal_string: NUL-terminated");
			__CPROVER_assert(vf_drained[0] == (size_t)hl + rlen, "evtag_unmarshal_string consumes exactly header + Length");
		}
	} else if (IN.which == 4) {     /* evtag_unmarshal_timeval */
		struct timeval tv; ev_uint64_t s = 0, us = 0; int l1, l2 = -1;
		tv.tv_sec = -7; tv.tv_usec = -7;
		l1 = complete ? ref_int(pay, rem, 8, &s) : -1;
		if (l1 >= 0) l2 = ref_int(pay + l1, rem - (size_t)l1, 8, &us);
		r = evtag_unmarshal_timeval(&EVB[0], IN.need_tag, &tv);
		__CPROVER_assert(IFF(r == 0, complete && rtag == IN.need_tag && l1 >= 0 && l2 >= 0 && (size_t)(l1 + l2) <= rlen) && (r == 0 || r == -1), "evtag_unmarshal_timeval: succeeds iff a complete item with the expected tag holds two well-formed integers inside its Data");
		__CPROVER_assert(IMP(r == 0, (ev_uint64_t)tv.tv_sec == s && (ev_uint64_t)tv.tv_usec == us), "evtag_unmarshal_timeval: seconds and microseconds");
		__CPROVER_assert(IMP(complete, vf_drained[0] == (size_t)hl + rlen), "evtag_unmarshal_timeval consumes exactly header + Length of a complete item (also when it rejects the content)");
	} else {                        /* evtag_unmarshal_fixed */
		unsigned char out[VF_N];
		for (i = 0; i < VF_N; i++) out[i] = 0x7e;
		r = evtag_unmarshal_fixed(&EVB[0], IN.need_tag, out, IN.fixlen);
		__CPROVER_assert(IFF(r == 0, complete && rtag == IN.need_tag && rlen == IN.fixlen) && (r == 0 || r == -1), "evtag_unmarshal_fixed: succeeds iff a complete item with the expected tag has exactly the size asked for");
		for (i = 0; i < VF_N; i++) __CPROVER_assert(out[i] == ((r == 0 && i < rlen) ? pay[i] : 0x7e), "evtag_unmarshal_fixed: exactly Length Data bytes copied on success, nothing on failure");
		__CPROVER_assert(IMP(r == 0, vf_drained[0] == (size_t)hl + rlen), "evtag_unmarshal_fixed consumes exactly header + Length");
	}
	__CPROVER_assert(vf_drained[0] + vf_len[0] == IN.n, "drained + remaining == received");
	__CPROVER_assert(IMP(complete, vf_drained[0] <= (size_t)hl + rlen) && IMP(hl >= 0 && !complete, vf_drained[0] <= (size_t)hl), "never more than the one item is consumed");
#ifdef VF_CANARY
	__CPROVER_assert(!(r != -1 && vf_drained[0] == IN.n && IN.n >= 6), "canary: must fail (an input of >= 6 bytes that is one complete acceptable item exists)");
#endif
}
