/* contracts/c44_listener_unit.h — shared set-up of the C44 units (real listener.c): one heap-allocated
 * evconnlistener_event built from IN, the user callbacks as concrete stub functions that record what they
 * are given and then do what user code may do from inside a callback (nothing / disable / free the
 * listener / change the callback) by calling the REAL evconnlistener_* functions of the same TU. */
#define VF_NLOCKS 1
#include "vf.h"
#include "listener.c"
struct in {
	unsigned flags; short refcnt; int enabled, has_cb, has_errcb, has_lock, a4flags, ev_pending;
	unsigned ch[VF_NCHOICE];
};
struct in IN;
#include "stubs/log.h"
#include "stubs/mm.h"
#include "stubs/lock.h"
static struct evconnlistener_event *L;
#include "stubs/c44_listener_env.h"
static char vf_ud_a, vf_ud_b;                  /* user_data cookies */
static struct event_base *const VF_BASE = (struct event_base *)&vf_ud_b;   /* never dereferenced by listener.c */

static void vf_user_cb(struct evconnlistener *lev, evutil_socket_t fd, struct sockaddr *sa, int socklen, void *ud);
static void vf_user_errcb(struct evconnlistener *lev, void *ud);

/* what user code may do from inside a callback */
static void vf_user_action(struct evconnlistener *lev)
{
	unsigned c = VF_CHOOSE() % 5u;
	if (c == 1) { evconnlistener_disable(lev); g_l.user_disabled++; }
	else if (c == 2) { evconnlistener_free(lev); g_l.user_freed++; }
	else if (c == 3) evconnlistener_set_cb(lev, NULL, &vf_ud_b);
	else if (c == 4) evconnlistener_set_cb(lev, vf_user_cb, &vf_ud_b);
}
static void vf_user_cb(struct evconnlistener *lev, evutil_socket_t fd, struct sockaddr *sa, int socklen, void *ud)
{
	/* exactly-once: the descriptor handed over is the one pending; afterwards it is the user's */
	if (!(lev == &L->base && fd == g_l.pending_fd && fd >= 0)) g_l.cb_ok = 0;
	if (!(socklen > 0 && socklen == g_l.last_socklen && sa != NULL)) g_l.cb_ok = 0;
	if (socklen >= 2 && !(((unsigned char *)sa)[0] == g_l.peer0 && ((unsigned char *)sa)[1] == g_l.peer1)) g_l.cb_ok = 0;   /* the peer's address */
	if (ud != lev->user_data) g_l.cb_ok = 0;
	if (g_lock_depth[1] != C44_HELD) g_l.cb_ok = 0;          /* callbacks run with the listener's lock held once */
	if (lev->refcnt < 2) g_l.cb_ok = 0;                      /* the running callback holds a reference */
	if (g_mm_frees != 0) g_l.cb_ok = 0;
	g_l.delivered++; g_l.pending_fd = -1;
	if (!g_l.user_freed) vf_user_action(lev);
}
static void vf_user_errcb(struct evconnlistener *lev, void *ud)
{
	if (!(lev == &L->base && ud == lev->user_data && g_lock_depth[1] == C44_HELD && lev->refcnt >= 2 && g_mm_frees == 0)) g_l.err_ok = 0;
	g_l.err_calls++;
	if (!g_l.user_freed) vf_user_action(lev);
}

/* build the listener from IN */
static void vf_c44_build(void)
{
	VF_C44_INSTALL();
	L = malloc(sizeof(*L));
	__CPROVER_assume(L != NULL);
	__CPROVER_assume(IN.refcnt >= 1 && IN.refcnt <= 1000);
	L->base.ops = &evconnlistener_event_ops;
	L->base.lock = IN.has_lock ? VF_LOCK_COOKIE(1) : NULL;
	L->base.cb = IN.has_cb ? vf_user_cb : NULL;
	L->base.errorcb = IN.has_errcb ? vf_user_errcb : NULL;
	L->base.user_data = &vf_ud_a;
	L->base.flags = IN.flags;
	L->base.refcnt = IN.refcnt;
	L->base.accept4_flags = IN.a4flags;
	L->base.enabled = IN.enabled ? 1 : 0;
	L->listener.ev_fd = VF_C44_LFD;
	L->listener.ev_base = VF_BASE;
	g_l.ev_pending = IN.ev_pending ? 1 : 0;
}
