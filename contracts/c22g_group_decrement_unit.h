/* contracts/c22g_group_decrement_unit.h — shared body of c22g_group_decrement_read / _write (unit defines C22G_WRITE 0/1).
 * C22/C08 — the PUBLIC bufferevent_rate_limit_group_decrement_read / _write (real bufferevent_ratelim.c).
 * Specification (include/event2/bufferevent.h "Group rate limit manipulation" + C22 "manual decrements"):
 *  - the group's bucket of THAT direction changes by exactly -decr (decr < 0 = manual refill); the other bucket, the running totals and
 *    every member's own bucket are untouched (frame);
 *  - level goes from > 0 to <= 0: the whole group's direction is suspended (bev_group_suspend_*_ called exactly once, under the group lock);
 *  - level goes from <= 0 to > 0: the whole group's direction is unsuspended (bev_group_unsuspend_*_ called exactly once, under the lock);
 *  - otherwise no group walker is called; the other direction's walkers are never called; no timer operation; result 0;
 *  - the group lock is taken exactly once and released, whether or not the caller already holds it.
 * The four group walkers are REPLACED by ghost call markers whose precondition is "group lock held" (their effect on the members is
 * proved in c22_group_suspend_* / c22_group_unsuspend_*, bounded <= 3 members).
 * Harness assertion (property level): the group invariant  level <= 0 => the group's direction is suspended  is preserved
 * (post-state suspended = was suspended and not unsuspended, or suspend walker called).
 * Precondition: level - decr representable (the code computes `limit -= decr` in ev_ssize_t without a range check). */
#include "c22_rl_unit.h"
#if C22G_WRITE
#define FN bufferevent_rate_limit_group_decrement_write
#define GLIM_ GRP.rate_limit.write_limit
#define XGLIM_ GRP.rate_limit.read_limit
#define O_GL IN.glim_w
#define O_XGL IN.glim_r
#define G_SUSP (IN.g_ws & 1)
#define G_SUS_CALLS g_r.gsw_calls
#define G_UNSUS_CALLS g_r.guw_calls
#define X_SUS_CALLS g_r.gsr_calls
#define X_UNSUS_CALLS g_r.gur_calls
#else
#define FN bufferevent_rate_limit_group_decrement_read
#define GLIM_ GRP.rate_limit.read_limit
#define XGLIM_ GRP.rate_limit.write_limit
#define O_GL IN.glim_r
#define O_XGL IN.glim_w
#define G_SUSP (IN.g_rs & 1)
#define G_SUS_CALLS g_r.gsr_calls
#define G_UNSUS_CALLS g_r.gur_calls
#define X_SUS_CALLS g_r.gsw_calls
#define X_UNSUS_CALLS g_r.guw_calls
#endif
#define HELD_ (IN.nmb & 1)                       /* the caller already holds the group's (recursive) lock */
#define NGL_(d) (O_GL - (d))
#define GDOWN_(d) (O_GL > 0 && NGL_(d) <= 0)
#define GUP_(d) (O_GL <= 0 && NGL_(d) > 0)
#define NO_OVF_(lvl, d) ((d) >= 0 ? (lvl) >= EV_SSIZE_MIN + (d) : (lvl) <= EV_SSIZE_MAX + (d))
VF_CONTRACT(int, grp_decrement_c, struct bufferevent_rate_limit_group *grp, ev_ssize_t decr)
__CPROVER_requires(grp == &GRP && GLIM_ == O_GL)
__CPROVER_requires(NO_OVF_(GLIM_, decr))                                                 /* level - decr representable: caller's obligation */
__CPROVER_requires(g_lock_depth[2] == ((GRP.lock && HELD_) ? 1 : 0) && g_lock_ops == 0 && g_r.n_add == 0 && g_r.n_del == 0 && g_r.g_ev_add == 0)
__CPROVER_requires(g_r.gsr_calls == 0 && g_r.gsw_calls == 0 && g_r.gur_calls == 0 && g_r.guw_calls == 0 && g_r.norder == 0)
__CPROVER_assigns(GLIM_, RL_GHOST_FRAME)
__CPROVER_ensures(GLIM_ == NGL_(decr))
__CPROVER_ensures(G_SUS_CALLS == B(GDOWN_(decr)) && G_UNSUS_CALLS == B(GUP_(decr)) && X_SUS_CALLS == 0 && X_UNSUS_CALLS == 0)
__CPROVER_ensures(g_r.n_add == 0 && g_r.n_del == 0 && g_r.g_ev_add == 0 && g_r.norder == 0)      /* no timer operation, no direct (un)suspend of a bufferevent */
__CPROVER_ensures(__CPROVER_return_value == 0)
__CPROVER_ensures(g_lock_depth[2] == __CPROVER_old(g_lock_depth[2]) && g_lock_depth[1] == __CPROVER_old(g_lock_depth[1]) && g_lock_ops == (GRP.lock ? 2 : 0))
;
void harness(void)
{
	int r, post_susp;
	VF_LOAD_IN();
	vf_rl_build();
	__CPROVER_assume(NO_OVF_(O_GL, IN.bytes));
	if (GRP.lock && HELD_) g_lock_depth[2] = 1;
	r = VF_CALL(grp_decrement_c, FN, &GRP, IN.bytes);
	(void)r;
	post_susp = G_SUS_CALLS ? 1 : (G_UNSUS_CALLS ? 0 : G_SUSP);
	__CPROVER_assert(XGLIM_ == O_XGL && GRP.total_read == IN.tot_r && GRP.total_written == IN.tot_w && RL.limit.read_limit == IN.lim_r && RL.limit.write_limit == IN.lim_w,
	    "the other bucket, the totals and the member's own buckets are untouched");
	__CPROVER_assert(IMP(IMP(O_GL <= 0, G_SUSP), IMP(GLIM_ <= 0, post_susp)), "C22 group invariant preserved: a group direction whose bucket is <= 0 is suspended");
	__CPROVER_assert(IMP(O_GL <= 0 && GLIM_ > 0, G_UNSUS_CALLS == 1 && !post_susp), "a manual refill that makes the group bucket positive resumes the group at once");
#ifdef VF_CANARY
	__CPROVER_assert(G_SUS_CALLS == 0, "canary: must fail (a manual decrement that exhausts the group bucket suspends the group)");
#endif
}
