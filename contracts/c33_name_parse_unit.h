/* contracts/c33_name_parse_unit.h — shared harness of the two name_parse units (real evdns.c).
 *   c33_name_parse      (NP_REF)    functional: result == reference decoder written from RFC 1035 §4.1.4
 *   c33_name_parse_mem  (NP_GUARD)  memory safety: no read outside packet[0..length), no write outside
 *                                   name_out[0..name_out_len), NUL-termination, *idx rule
 * Both run on EVERY packet of <= PKT_CAP bytes (all contents: compression pointers, pointer loops,
 * truncated labels, labels > 63), every start offset >= 0 (also beyond the packet) and every output
 * capacity 0..OUT_CAP.  Plain assert-harness (DESIGN P6/P20: the loop writes through the carried
 * pointer cp, so a loop contract cannot close it; DFCC cannot be unwound this deep).  Splitting
 * keeps each SAT instance under a minute (both together: 2 min; guarding all 64 slack bytes: 6 min).
 *
 * Layout: the packet is RIGHT-ALIGNED in its object (its last byte is the object's last byte), so any
 * read past packet[length-1] is a pointer obligation.  name_out sits at OUT+NP_PRE and is followed by
 * NP_SLACK (=64) bytes of the same object: name_parse evaluates `cp + label_len >= end` with
 * label_len <= 63, i.e. it FORMS (never dereferences) a pointer up to 62 bytes beyond one-past-the-end
 * of name_out — undefined in ISO C, harmless on flat address spaces, reported as an observation (with an
 * exact-size object CBMC flags that comparison and every later obligation becomes UNKNOWN).
 * NP_GUARD: the NP_PRE bytes in front of name_out and the first NP_GCHK (= PKT_CAP+2) bytes behind
 * name_out[name_out_len-1] must keep their value (name_parse writes contiguously from cp: '.', a
 * label of <= PKT_CAP bytes, the NUL — an overrun has to pass through these bytes); a write beyond
 * the slack is a pointer obligation.  The packet must be unchanged. */
#ifndef PKT_CAP
#define PKT_CAP 6
#endif
#ifndef OUT_CAP
#define OUT_CAP 10
#endif
#define VF_C33_MEMCAP PKT_CAP
#include "vf.h"
#include "stubs/c33_mem.h"
#include "evdns.c"
struct in { unsigned char pkt[PKT_CAP]; int length; int idx; int out_len; char guard; };
struct in IN;
#include "stubs/log.h"

#define NP_PRE 2
#define NP_SLACK 64
#define NP_GCHK (PKT_CAP + 2)
static unsigned char PKT[PKT_CAP];
static char OUT[NP_PRE + OUT_CAP + NP_SLACK];

/* separate functions so that their long constant loops get their own unwind bound (unit.json: cbmc.flags) */
static void guard_fill(void) { int i; for (i = 0; i < NP_PRE + OUT_CAP + NP_SLACK; i++) OUT[i] = IN.guard; }
#ifdef NP_GUARD
static void guard_check(int n)
{
	int i;
	for (i = 0; i < NP_PRE + OUT_CAP + NP_GCHK; i++)
		__CPROVER_assert((i >= NP_PRE && i < NP_PRE + n) || i >= NP_PRE + n + NP_GCHK || OUT[i] == IN.guard, "nothing written in front of name_out or behind name_out[name_out_len-1]");
}
#endif

#ifdef NP_REF
/* ---- reference decoder (specification side).  0: well-formed name, text in out[0..*n_out] (NUL at
 * out[*n_out]), *endidx = offset just after the name at its ORIGINAL position (after the first
 * pointer if any).  -1: malformed (runs off the packet, start or pointer target outside the packet,
 * label longer than 63).  -2: pointer loop (a walk that terminates visits every offset at most
 * once, hence takes at most len+1 steps).  -3: the text is longer than any name_out of this unit
 * (labels may overlap through pointers into the middle of a label, so the text is NOT bounded by
 * the packet length). */
#define REF_CAP (OUT_CAP + 1)
static int ref_decode(const unsigned char *p, int len, int start, char *out, int *n_out, int *endidx)
{
	int pos = start, steps, n = 0, end = -1, first = 1, i;
	for (steps = 0; steps <= PKT_CAP + 1; steps++) {
		unsigned b;
		if (pos < 0 || pos >= len) return -1;
		b = p[pos];
		if (b == 0) { out[n] = 0; *n_out = n; *endidx = end < 0 ? pos + 1 : end; return 0; }
		if (b & 0xc0) {         /* evdns reads the reserved label types 01/10 like 11 (pointer); the reference follows it (observation in the report) */
			int tgt;
			if (pos + 1 >= len) return -1;
			tgt = (int)((b & 0x3f) << 8) | p[pos + 1];
			if (end < 0) end = pos + 2;
			if (tgt >= len) return -1;
			pos = tgt;
			continue;
		}
		if (pos + 1 + (int)b > len) return -1;
		if (!first) { if (n >= REF_CAP - 1) return -3; out[n++] = '.'; }
		first = 0;
		for (i = 0; i < PKT_CAP; i++) { if (i >= (int)b) break; if (n >= REF_CAP - 1) return -3; out[n++] = (char)p[pos + 1 + i]; }
		pos += 1 + (int)b;
	}
	return -2;
}
#endif

void harness(void)
{
	u8 *packet; char *name_out; int idx, r, i;
	VF_LOAD_IN();
	__CPROVER_assume(IN.length >= 0 && IN.length <= PKT_CAP);
	__CPROVER_assume(IN.idx >= 0);                    /* callers: j starts at 0 and only grows (j += datalength may pass the end) */
	__CPROVER_assume(IN.out_len >= 0 && IN.out_len <= OUT_CAP);
	g_mc_calls = 0; g_mc_bytes = 0;
	for (i = 0; i < PKT_CAP; i++) PKT[i] = IN.pkt[i];
	guard_fill();
	packet = PKT + (PKT_CAP - IN.length);             /* packet[0..length) ends at the end of PKT */
	name_out = OUT + NP_PRE;
	idx = IN.idx;

	r = name_parse(packet, IN.length, &idx, name_out, IN.out_len);

	__CPROVER_assert(r == 0 || r == -1, "name_parse returns 0 or -1");
	__CPROVER_assert(IMP(r != 0, idx == IN.idx), "*idx advanced only on success");
	__CPROVER_assert(IMP(r == 0, idx > IN.idx && idx <= IN.length), "on success *idx advanced, and stays within the packet");
	for (i = 0; i < PKT_CAP; i++) __CPROVER_assert(PKT[i] == IN.pkt[i], "packet not modified");
#ifdef NP_GUARD
	guard_check(IN.out_len);
	if (r == 0) {
		int nul = -1;
		for (i = 0; i < OUT_CAP; i++) { if (i >= IN.out_len) break; if (nul < 0 && name_out[i] == 0) nul = i; }
		__CPROVER_assert(nul >= 0, "result is NUL-terminated inside name_out[0..name_out_len)");
	}
#ifdef VF_CANARY
	__CPROVER_assert(!(r == 0 && idx == 2 && IN.idx == 0 && IN.length == PKT_CAP), "canary: must fail (a name that is one pointer to a root label)");
#endif
#endif
#ifdef NP_REF
	{
		int rr, rn = 0, rend = 0; char ref[REF_CAP];
		rr = ref_decode(IN.pkt + (PKT_CAP - IN.length), IN.length, IN.idx, ref, &rn, &rend);
		__CPROVER_assert(IMP(rr != 0, r == -1), "malformed name / pointer loop / label > 63 / start outside the packet is rejected");
		__CPROVER_assert(IMP(rr == 0, IFF(r == 0, rn < IN.out_len)), "a well-formed name is accepted exactly when it fits name_out with its NUL");
		if (r == 0) {
			__CPROVER_assert(idx == rend, "*idx is the offset after the name at its original position");
			for (i = 0; i < REF_CAP; i++) { if (i > rn) break; __CPROVER_assert(i < IN.out_len && name_out[i] == ref[i], "decoded text equals the reference decoding (labels joined by '.'), NUL included"); }
		}
#ifdef VF_CANARY
		__CPROVER_assert(!(r == 0 && rn > 0 && idx != IN.idx + rn + 2), "canary: must fail (a compressed name ends before its text length)");
#endif
	}
#endif
}
