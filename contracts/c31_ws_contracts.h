/* contracts/c31_ws_contracts.h — contracts of ws.c functions that are enforced in one unit
 * and replaced in another (same text in both). Needs stubs/c31_ws_rec.h (ghost recorder). */
#ifndef VF_C31_WS_CONTRACTS_H_
#define VF_C31_WS_CONTRACTS_H_
/* RFC 6455 5.2: byte k (k = 0..7) of the 64-bit big-endian extended payload length */
#define WS_BE64(len, k) ((unsigned char)(((ev_uint64_t)(len) >> (56 - 8 * (k))) & 0xff))

/* make_ws_frame: ONE frame = header add + payload add, for every len (symbolic size_t):
 * FIN set, RSV clear, opcode = frame_type, no mask bit, minimal length form. */
VF_CONTRACT_V(make_ws_frame_c, struct evbuffer *output, enum WebSocketFrameType frame_type, unsigned char *msg, size_t len)
__CPROVER_requires(g_nadd == 0)
__CPROVER_requires((unsigned)frame_type <= 0xf)
__CPROVER_assigns(g_nadd, g_add_buf0, g_add_buf1, g_hdr, g_hdrlen, g_pay_ptr, g_pay_len, g_add_locked)
/* 1 exactly two appends, both to the given buffer: header, then the payload object itself */
__CPROVER_ensures(g_nadd == 2 && g_add_buf0 == output && g_add_buf1 == output)
__CPROVER_ensures(g_pay_ptr == msg && g_pay_len == len)
/* 3 first byte: FIN | opcode, RSV1-3 clear */
__CPROVER_ensures(g_hdr[0] == (0x80 | (unsigned)frame_type))
/* 4 no mask bit (server-to-client frames are never masked) */
__CPROVER_ensures((g_hdr[1] & 0x80) == 0)
/* 5-7 minimal length form */
__CPROVER_ensures(IMP(len <= 125, g_hdrlen == 2 && g_hdr[1] == len))
__CPROVER_ensures(IMP(len > 125 && len <= 65535, g_hdrlen == 4 && g_hdr[1] == 126 && g_hdr[2] == (len >> 8) && g_hdr[3] == (len & 0xff)))
__CPROVER_ensures(IMP(len > 65535, g_hdrlen == 10 && g_hdr[1] == 127 &&
	g_hdr[2] == WS_BE64(len, 0) && g_hdr[3] == WS_BE64(len, 1) && g_hdr[4] == WS_BE64(len, 2) && g_hdr[5] == WS_BE64(len, 3) &&
	g_hdr[6] == WS_BE64(len, 4) && g_hdr[7] == WS_BE64(len, 5) && g_hdr[8] == WS_BE64(len, 6) && g_hdr[9] == WS_BE64(len, 7)))
/* 8 the most significant bit of a 64-bit length is 0 (RFC 5.2) whenever the length is a real object size */
__CPROVER_ensures(IMP(len > 65535 && len <= (size_t)0x7fffffffffffffff, (g_hdr[2] & 0x80) == 0))
/* 9 lock state untouched: adds happen under whatever lock the caller holds */
__CPROVER_ensures(g_add_locked == __CPROVER_old(g_add_locked) + (g_bev_lock > 0 ? 2 : 0))
;
#endif
