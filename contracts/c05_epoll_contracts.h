/* c05_epoll_contracts.h — ghost kernel model of ONE epoll registration (that of the witness fd
 * IN.fd in epoll instance IN.epfd), the C06 specification vocabulary, and the contracts of
 * epoll_apply_one_change / epoll_apply_changes shared by the epoll units of C05/C04.
 *
 * The clauses guarded by `ch->fd == IN.fd` in apply_one_any_c are, word for word, the contract
 * apply_one_c of units/c06_apply_one_change (same vocabulary macros); the remaining clause says
 * that a change for another fd leaves the witness registration alone.  apply_one_any_c is enforced
 * on the real epoll_apply_one_change in unit c05_epoll_apply_one.
 *
 * struct in must have: int fd, epfd, kstate; unsigned stale_mask; unsigned ch[VF_NCHOICE].
 * Included after `struct in IN;` and the real epoll.c. */
#ifndef C05_EPOLL_CONTRACTS_H_
#define C05_EPOLL_CONTRACTS_H_

int k_registered; unsigned k_mask;
int k_calls, k_first_failed, k_first_op;      /* operations on the witness fd */
int k_other_calls;                            /* operations on other fds */

int epoll_ctl(int epfd, int op, int fd, struct epoll_event *ev)
{
	int ok;
	__CPROVER_assert(epfd == IN.epfd, "epoll_ctl: on the backend's epoll fd");
	__CPROVER_assert(op == EPOLL_CTL_ADD || op == EPOLL_CTL_MOD || op == EPOLL_CTL_DEL, "epoll_ctl: valid op");
	__CPROVER_assert(ev != NULL, "epoll_ctl: event record passed");
	__CPROVER_assert(ev->data.fd == fd, "epoll_ctl: data.fd is the fd (epoll_dispatch relies on it)");
	if (fd != IN.fd) {          /* some other registration: any outcome */
		unsigned c = VF_CHOOSE();
		k_other_calls++;
		if (c & 1u) { errno = (c & 2u) ? ENOENT : (c & 4u) ? EEXIST : (c & 8u) ? EBADF : ENOMEM; return -1; }
		return 0;
	}
	k_calls++;
	if (k_calls == 1) k_first_op = op;
	if (op == EPOLL_CTL_ADD) { ok = !k_registered; if (ok) { k_registered = 1; k_mask = ev->events; } else errno = EEXIST; }
	else if (op == EPOLL_CTL_MOD) { ok = k_registered; if (ok) k_mask = ev->events; else errno = ENOENT; }
	else { ok = k_registered; if (ok) { k_registered = 0; k_mask = 0; } else errno = ENOENT; }
	if (!ok && k_calls == 1) k_first_failed = 1;
	return ok ? 0 : -1;
}

/* ---------------- specification vocabulary (identical to units/c06_apply_one_change) ---------------- */
#define KBITS (EPOLLIN|EPOLLOUT|EPOLLRDHUP)
#define XL(e) ((((e) & EV_READ) ? EPOLLIN : 0) | (((e) & EV_WRITE) ? EPOLLOUT : 0) | (((e) & EV_CLOSED) ? EPOLLRDHUP : 0))
#define CH(c) ((c) & (EV_CHANGE_ADD|EV_CHANGE_DEL))
#define IMPOSSIBLE1(c) (CH(c) == (EV_CHANGE_ADD|EV_CHANGE_DEL))
#define IMPOSSIBLE(ch) (IMPOSSIBLE1((ch)->read_change) || IMPOSSIBLE1((ch)->write_change) || IMPOSSIBLE1((ch)->close_change))
#define AFTER1(oldbit, c) (CH(c) == EV_CHANGE_ADD ? 1 : CH(c) == EV_CHANGE_DEL ? 0 : (oldbit))
#define DESIRED(ch) ( (AFTER1(((ch)->old_events & EV_READ) != 0, (ch)->read_change) ? EV_READ : 0) \
                    | (AFTER1(((ch)->old_events & EV_WRITE) != 0, (ch)->write_change) ? EV_WRITE : 0) \
                    | (AFTER1(((ch)->old_events & EV_CLOSED) != 0, (ch)->close_change) ? EV_CLOSED : 0))
#define ANYCH(ch) (CH((ch)->read_change) || CH((ch)->write_change) || CH((ch)->close_change))
#define ANYADD(ch) (CH((ch)->read_change) == EV_CHANGE_ADD || CH((ch)->write_change) == EV_CHANGE_ADD || CH((ch)->close_change) == EV_CHANGE_ADD)
#define ANYET(ch) ((((ch)->read_change | (ch)->write_change | (ch)->close_change) & EV_CHANGE_ET) != 0)
#define DEL_FROM_NOTHING(ch) ((ch)->old_events == 0 && !ANYADD(ch))
#define CONSISTENT (IN.kstate == 0)
/* the witness registration holds exactly the conditions e (ET bit not constrained) */
#define K_HOLDS(e) (k_registered == ((e) != 0) && IMP((e) != 0, (k_mask & KBITS) == XL(e)))

/* Two ensures beyond c06's text (the last two): a stale duplicate registration (kstate 2) is always
 * recovered (ADD -> EEXIST -> MOD succeeds); no operation on the witness fd => its registration is untouched. */
#define C05_APPLY_ONE_CLAUSES \
__CPROVER_requires(epollop->epfd == IN.epfd) \
__CPROVER_requires(IMP(ch->fd == IN.fd, (ch->old_events & ~(EV_READ|EV_WRITE|EV_CLOSED)) == 0)) \
__CPROVER_requires(IMP(ch->fd == IN.fd, k_calls == 0 && k_first_failed == 0)) \
__CPROVER_requires(IMP(ch->fd == IN.fd && IN.kstate == 0, k_registered == (ch->old_events != 0) && (k_mask & KBITS) == XL(ch->old_events))) \
__CPROVER_requires(IMP(ch->fd == IN.fd && IN.kstate == 1, k_registered == 0 && k_mask == 0)) \
__CPROVER_requires(IMP(ch->fd == IN.fd && IN.kstate == 2, ch->old_events == 0 && k_registered == 1)) \
__CPROVER_assigns(k_registered, k_mask, k_calls, k_first_failed, k_first_op, k_other_calls, errno, vf_nchoice_) \
__CPROVER_ensures(__CPROVER_return_value == 0 || __CPROVER_return_value == -1) \
__CPROVER_ensures(IMP(ch->fd != IN.fd, k_registered == __CPROVER_old(k_registered) && k_mask == __CPROVER_old(k_mask) && k_calls == __CPROVER_old(k_calls) && k_first_failed == __CPROVER_old(k_first_failed))) \
__CPROVER_ensures(IMP(ch->fd == IN.fd && (IMPOSSIBLE(ch) || !ANYCH(ch)), k_calls == 0 && __CPROVER_return_value == 0)) \
__CPROVER_ensures(IMP(ch->fd == IN.fd && !IMPOSSIBLE(ch) && ANYCH(ch), k_calls >= 1 && k_calls <= 2)) \
__CPROVER_ensures(IMP(ch->fd == IN.fd && !IMPOSSIBLE(ch) && ANYCH(ch) && CONSISTENT, __CPROVER_return_value == 0)) \
__CPROVER_ensures(IMP(ch->fd == IN.fd && !IMPOSSIBLE(ch) && ANYCH(ch) && CONSISTENT && !DEL_FROM_NOTHING(ch), k_first_failed == 0 && k_calls == 1)) \
__CPROVER_ensures(IMP(ch->fd == IN.fd && !IMPOSSIBLE(ch) && ANYCH(ch) && CONSISTENT, k_registered == (DESIRED(ch) != 0))) \
__CPROVER_ensures(IMP(ch->fd == IN.fd && !IMPOSSIBLE(ch) && ANYCH(ch) && CONSISTENT && DESIRED(ch) != 0, (k_mask & KBITS) == XL(DESIRED(ch)))) \
__CPROVER_ensures(IMP(ch->fd == IN.fd && !IMPOSSIBLE(ch) && ANYCH(ch) && CONSISTENT && DESIRED(ch) != 0, ((k_mask & EPOLLET) != 0) == ANYET(ch))) \
__CPROVER_ensures(IMP(ch->fd == IN.fd && !IMPOSSIBLE(ch) && ANYCH(ch) && !CONSISTENT && __CPROVER_return_value == 0 && DESIRED(ch) != 0, k_registered == 1 && (k_mask & KBITS) == XL(DESIRED(ch)))) \
__CPROVER_ensures(IMP(ch->fd == IN.fd && !IMPOSSIBLE(ch) && ANYCH(ch) && IN.kstate == 1 && DESIRED(ch) == 0, k_registered == 0 && __CPROVER_return_value == 0)) \
__CPROVER_ensures(IMP(ch->fd == IN.fd && !IMPOSSIBLE(ch) && ANYCH(ch) && IN.kstate == 1, __CPROVER_return_value == 0)) \
__CPROVER_ensures(IMP(ch->fd == IN.fd && !IMPOSSIBLE(ch) && ANYCH(ch) && IN.kstate == 2 && DESIRED(ch) != 0, __CPROVER_return_value == 0)) \
__CPROVER_ensures(IMP(k_calls == __CPROVER_old(k_calls), k_registered == __CPROVER_old(k_registered) && k_mask == __CPROVER_old(k_mask) && k_first_failed == __CPROVER_old(k_first_failed)))

VF_CONTRACT(int, apply_one_any_c, struct event_base *base, struct epollop *epollop, const struct event_change *ch)
C05_APPLY_ONE_CLAUSES
;

/* The same contract with one more call-site obligation: the change is one that evmap/changelist
 * may produce — no ADD+DEL byte, and no delete of a condition absent from old_events (DESIGN §10.6).
 * Used where a caller is verified to establish exactly that (epoll_nochangelist_add/del,
 * epoll_apply_changes); a stronger `requires` on top of a verified contract stays sound. */
#define DELOK(ch) ((CH((ch)->read_change) != EV_CHANGE_DEL || ((ch)->old_events & EV_READ)) && (CH((ch)->write_change) != EV_CHANGE_DEL || ((ch)->old_events & EV_WRITE)) && (CH((ch)->close_change) != EV_CHANGE_DEL || ((ch)->old_events & EV_CLOSED)))
VF_CONTRACT(int, apply_one_delok_c, struct event_base *base, struct epollop *epollop, const struct event_change *ch)
__CPROVER_requires(IMP(ch->fd == IN.fd, !IMPOSSIBLE(ch) && DELOK(ch)))
C05_APPLY_ONE_CLAUSES
;
#endif
