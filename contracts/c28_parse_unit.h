/* C28 — evhttp_uri_parse_with_flags (real http.c, with the real scheme_ok, userinfo_ok, regname_ok,
 * parse_port, bracket_addr_ok, parse_authority, end_of_authority, end_of_path, path_matches_noscheme,
 * evhttp_uri_free) against the reference parser ref_parse() = RFC 3986 (contracts/c28_ref.h) for every string
 * of <= VF_N characters over the alphabet
 *     : / ? # [ ] @ %   a v 1 .   + = ~ SPACE          (16 symbols; 'a' '1' are also hex digits)
 * (with -DVF_TMPL_UNIX: "//unix:" followed by such a string, so that the unix-socket form is reachable),
 * under every combination of EVHTTP_URI_NONCONFORMANT, _HOST_STRIP_BRACKETS, _UNIX_SOCKET:
 *   P1 the string is accepted exactly when the reference accepts it (the parser accepts the RFC 3986
 *      language: URI / relative-ref, IP-literal or reg-name hosts, ports <= 65535, and with NONCONFORMANT any
 *      bytes in path, query and fragment)
 *   P2 the components of an accepted string are exactly the reference's: Appendix B split into scheme,
 *      authority, path, query, fragment; authority = [userinfo "@"] host [":" port] (empty port -> -1; the
 *      brackets of an IP-literal dropped from the host iff HOST_STRIP_BRACKETS, and then join's
 *      _EVHTTP_URI_HOST_HAS_BRACKETS bit is set); flags are stored
 *   P3 unix-socket form (UNIX_SOCKET set, authority [userinfo "@"] "unix:" sock ":"): sock = the bytes up to the
 *      next ':' and path/query/fragment = what follows that ':' (event2/http.h:
 *      "http://unix:/run/control.sock:/controller")
 *   P4 nothing leaks on rejection; exactly the components stay allocated on success; evhttp_uri_free frees all
 *
 * KNOWN-FINDING hook: P_UNIX = "the unix-socket form is in use".  On the unchanged tree P1/P3 FAIL for it
 * (agent report).  -DVF_KF_EXCLUDE assumes !P_UNIX (must be clean), -DVF_KF_ONLY assumes P_UNIX. */
#ifndef VF_N
#define VF_N 6
#endif
#ifdef VF_TMPL_UNIX
#define VF_L (VF_N + 7)
#else
#define VF_L VF_N
#endif
#define VF_C28_BIGTYPE struct evhttp_uri
#define VF_C28_MMCAP (VF_L + 1)
#define VF_C28_MEMCAP (VF_L + 2 > 12 ? VF_L + 2 : 12)
#define VF_MM_NOFAIL 1                  /* allocation failure: unit c28_parse_oom */
#include "vf.h"
#include "http.c"
struct in { unsigned char s[VF_N]; unsigned n; unsigned flags; };
struct in IN;
#include "stubs/log.h"
#include "stubs/c28_ctype.h"
#define VF_C28_WANT_MEMCPY
#define VF_C28_WANT_STRCHR
#include "stubs/c28_libc_ref.h"
#include "stubs/c28_mm.h"
#include "stubs/c28_inet.h"

static const char ALPHA16[16] = { ':', '/', '?', '#', '[', ']', '@', '%', 'a', 'v', '1', '.', '+', '=', '~', ' ' };
static char S[VF_L + 1];
static unsigned slen;
#include "c28_ref.h"

/* p is the C string S[off .. off+len) */
static int is_slice(const char *p, unsigned off, unsigned len)
{
	unsigned k;
	if (p == NULL) return 0;
	for (k = 0; k < VF_L; k++) { if (k >= len) break; if (p[k] != S[off + k]) return 0; }
	return p[len] == '\0';
}

/* ---- reference parser: result in x_* ---- */
static int x_ok, x_unix, x_has_scheme, x_has_auth, x_has_ui, x_has_q, x_has_f, x_brk;
static unsigned x_sc_len, x_ui_off, x_ui_len, x_h_off, x_h_len, x_so_off, x_so_len, x_p_off, x_p_len, x_q_off, x_q_len, x_f_off, x_f_len;
static long x_port;
static void ref_parse(unsigned flags)
{
	unsigned pos = 0, c, h, e, k;
	enum r_cls pc = R_PATH, qc = R_QUERY;
	x_ok = 0; x_unix = 0; x_has_scheme = x_has_auth = x_has_ui = x_has_q = x_has_f = x_brk = 0; x_port = -1;
	/* Appendix B: ^(([^:/?#]+):)? */
	c = r_first_of(0, ':', '/', '?'); h = r_first_of(0, '#', 0, 0); if (h < c) c = h;
	if (c > 0 && c < slen && S[c] == ':') {
		if (!r_scheme_ok(0, c)) return;              /* what Appendix B delimits as scheme must be one (else it would be a
		                                              * relative-ref whose first segment contains ':', 4.2) */
		x_has_scheme = 1; x_sc_len = c; pos = c + 1;
	}
	if (pos + 1 < slen && S[pos] == '/' && S[pos + 1] == '/') {
		unsigned a0 = pos + 2, a1 = r_first_of(a0, '/', '?', '#'), at = r_first_of(a0, '@', 0, 0), h0 = a0;
		x_has_auth = 1;
		if (at < a1) h0 = at + 1;
		if ((flags & EVHTTP_URI_UNIX_SOCKET) && h0 + 5 <= slen && S[h0] == 'u' && S[h0 + 1] == 'n' && S[h0 + 2] == 'i' && S[h0 + 3] == 'x' && S[h0 + 4] == ':') {
			unsigned sc = r_first_of(h0 + 5, ':', 0, 0);
			x_unix = 1;
			if (at < a1) { if (!r_span_ok(a0, at, R_USERINFO)) return; x_has_ui = 1; x_ui_off = a0; x_ui_len = at - a0; }
			if (sc >= slen) return;                     /* closing ':' required */
			x_so_off = h0 + 5; x_so_len = sc - (h0 + 5);
			pos = sc + 1;
			if (pos < slen && S[pos] != '/' && S[pos] != '?' && S[pos] != '#') return;    /* path-abempty */
		} else {
			unsigned pcol = a1, he = a1; int digits = 1;
			if (at < a1) { if (!r_span_ok(a0, at, R_USERINFO)) return; x_has_ui = 1; x_ui_off = a0; x_ui_len = at - a0; }
			for (k = 0; k < VF_L; k++) if (k >= h0 && k < a1 && S[k] == ':') pcol = k;                /* last ':' */
			for (k = 0; k < VF_L; k++) if (k > pcol && k < a1 && !r_digit(S[k])) digits = 0;
			if (pcol < a1 && digits) {
				long v = r_port(pcol + 1, a1);
				if (v < 0) return;
				x_port = (pcol + 1 == a1) ? -1 : v;
				he = pcol;
			}
			if (he > h0 && S[h0] == '[' && he >= h0 + 2 && S[he - 1] == ']') {
				if (!r_bracket_ok(h0, he)) return;
				x_brk = 1;
			} else if (!r_span_ok(h0, he, R_REGNAME)) return;
			x_h_off = h0; x_h_len = he - h0;
			if (x_brk && (flags & EVHTTP_URI_HOST_STRIP_BRACKETS)) { x_h_off = h0 + 1; x_h_len = he - h0 - 2; }
			pos = a1;
		}
	}
	e = r_first_of(pos, '?', '#', 0);
	x_p_off = pos; x_p_len = e - pos;
	if (!(flags & EVHTTP_URI_NONCONFORMANT) && !r_span_ok(pos, e, pc)) return;
	if (!x_has_scheme) {                               /* relative-ref: first segment without ':' (4.2) */
		unsigned sl = r_first_of(pos, '/', 0, 0), co = r_first_of(pos, ':', 0, 0);
		if (sl > e) sl = e;
		if (co < sl) return;
	}
	if (e < slen && S[e] == '?') {
		unsigned q = r_first_of(e + 1, '#', 0, 0);
		x_has_q = 1; x_q_off = e + 1; x_q_len = q - (e + 1);
		if (!(flags & EVHTTP_URI_NONCONFORMANT) && !r_span_ok(e + 1, q, qc)) return;
		e = q;
	}
	if (e < slen && S[e] == '#') {
		x_has_f = 1; x_f_off = e + 1; x_f_len = slen - (e + 1);
		if (!(flags & EVHTTP_URI_NONCONFORMANT) && !r_span_ok(e + 1, slen, qc)) return;
	}
	x_ok = 1;
}

void harness(void)
{
	struct evhttp_uri *u; unsigned k, o = 0; long want;
	VF_LOAD_IN(); VF_MM_RESET();
	__CPROVER_assume(IN.n <= VF_N);
	IN.flags &= (EVHTTP_URI_NONCONFORMANT | EVHTTP_URI_HOST_STRIP_BRACKETS | EVHTTP_URI_UNIX_SOCKET);
#ifdef VF_TMPL_UNIX
	S[0] = '/'; S[1] = '/'; S[2] = 'u'; S[3] = 'n'; S[4] = 'i'; S[5] = 'x'; S[6] = ':'; o = 7;
#endif
	for (k = 0; k < VF_N; k++) S[o + k] = k < IN.n ? ALPHA16[IN.s[k] & 15u] : '\0';
	slen = o + IN.n;
	for (k = 0; k <= VF_L; k++) if (k >= slen) S[k] = '\0';
	ref_parse(IN.flags);
#ifdef VF_KF_EXCLUDE
	__CPROVER_assume(!x_unix);
#endif
#ifdef VF_KF_ONLY
	__CPROVER_assume(x_unix);
#endif
	u = evhttp_uri_parse_with_flags(S, IN.flags);
	for (k = 0; k <= VF_L; k++) __CPROVER_assert(S[k] == (k < slen ? (k < o ? "//unix:"[k] : ALPHA16[IN.s[k - o] & 15u]) : '\0'), "the input string is not modified");
	__CPROVER_assert(IFF(u != NULL, x_ok), "P1: accepted exactly when the reference (RFC 3986) accepts");
	if (u == NULL) {
		__CPROVER_assert(g_mm_live == 0, "P4: a rejected string leaks nothing");
		return;
	}
	if (!x_ok) { evhttp_uri_free(u); return; }
	/* P2 / P3 */
	if (x_has_scheme) __CPROVER_assert(is_slice(u->scheme, 0, x_sc_len), "P2: scheme is the text before the first ':' (Appendix B)");
	else __CPROVER_assert(u->scheme == NULL, "P2: no scheme when Appendix B finds none");
	if (x_has_ui) __CPROVER_assert(is_slice(u->userinfo, x_ui_off, x_ui_len), "P2: userinfo is the text before '@'");
	else __CPROVER_assert(u->userinfo == NULL, "P2: no userinfo without '@'");
	if (x_unix) {
		__CPROVER_assert(is_slice(u->unixsocket, x_so_off, x_so_len), "P3: unix socket path is the text between \"unix:\" and the next ':'");
		__CPROVER_assert(u->host == NULL && u->port == -1, "P3: unix form has neither host nor port");
	} else {
		__CPROVER_assert(u->unixsocket == NULL, "P2: no unix socket outside the unix form");
		if (x_has_auth) __CPROVER_assert(is_slice(u->host, x_h_off, x_h_len), "P2: host is the text between userinfo@ and :port (IP-literal without brackets iff HOST_STRIP_BRACKETS)");
		else __CPROVER_assert(u->host == NULL, "P2: no host without \"//\"");
		__CPROVER_assert(u->port == x_port, "P2: port is the decimal number after the last ':' of the authority (-1 when absent or empty)");
	}
	__CPROVER_assert(is_slice(u->path, x_p_off, x_p_len), "P2: path is the text up to the first '?' or '#'");
	if (x_has_q) __CPROVER_assert(is_slice(u->query, x_q_off, x_q_len), "P2: query is the text between '?' and '#'");
	else __CPROVER_assert(u->query == NULL, "P2: no query without '?'");
	if (x_has_f) __CPROVER_assert(is_slice(u->fragment, x_f_off, x_f_len), "P2: fragment is the text after '#'");
	else __CPROVER_assert(u->fragment == NULL, "P2: no fragment without '#'");
	__CPROVER_assert(u->flags == (IN.flags | ((x_brk && (IN.flags & EVHTTP_URI_HOST_STRIP_BRACKETS)) ? _EVHTTP_URI_HOST_HAS_BRACKETS : 0u)), "P2: flags stored; HAS_BRACKETS set iff brackets were stripped");
	want = 1 + 1 /* path */ + x_has_scheme + x_has_ui + (x_unix ? 1 : x_has_auth) + x_has_q + x_has_f;
	__CPROVER_assert(g_mm_live == want, "P4: exactly the uri and its components stay allocated (the scratch copy is freed)");
#ifdef VF_CANARY
	__CPROVER_assert(!(u->host != NULL && u->query != NULL), "canary: must fail (\"//a?\" parses: host and query present)");
#endif
	evhttp_uri_free(u);
	__CPROVER_assert(g_mm_live == 0, "P4: evhttp_uri_free releases everything");
}
