/* contracts/c12a_reserve.h — shared text of the units c12a_reserve_1 (n_vecs == 1: evbuffer_expand_singlechain inline) and
 * c12a_reserve_n (n_vecs == C12A_NVECS >= 2: evbuffer_expand_fast_ and evbuffer_read_setup_vecs_ inline), both on the real
 * evbuffer_reserve_space.  The unit.c defines C12A_NVECS and includes this file. */
#define VF_NLOCKS 2
#include "vf.h"
#include "stubs/c12a_mem.h"
#include "buffer.c"
struct eb_in;
#include "stubs/lock.h"
#include "c12a_shape.h"
struct in { struct eb_in b; ev_ssize_t size; unsigned ch[VF_NCHOICE]; };
struct in IN;
#include "stubs/log.h"
#include "stubs/c12a_mm.h"
#include "c12a_contracts.h"

#define O_total (O_BUF.total_len)
#define RV __CPROVER_return_value
#ifndef C12A_NVECS
#error "define C12A_NVECS (the n_vecs argument of this unit)"
#endif
static struct evbuffer_iovec VEC[4];
VF_CONTRACT(int, reserve_c, struct evbuffer *buf, ev_ssize_t size, struct evbuffer_iovec *vec, int n_vecs)
__CPROVER_requires(buf == &BUF && vec == VEC && n_vecs == C12A_NVECS)
__CPROVER_requires(g_lock_depth[1] == 0 && g_nnew == 0 && g_allocfail == 0 && g_freed == 0 && g_freed_mask == 0 && g_cb[0] == 0 && m_cp.n == 0)
__CPROVER_assigns(g_lock_depth[1], g_lock_ops, errno, g_new[0], g_new[1], g_al, g_fr, m_cp, __CPROVER_object_whole(VEC),
	__CPROVER_object_whole(buf), __CPROVER_object_whole(&CH[0]), __CPROVER_object_whole(&CH[1]), __CPROVER_object_whole(&CH[2]))
/* 1 C08 */
__CPROVER_ensures(g_lock_depth[1] == 0)
/* 2 the number of vectors used, or -1 */
__CPROVER_ensures(RV == -1 || (RV >= 0 && RV <= n_vecs && IMP(RV == 0, size == 0 && n_vecs > 1)))
/* 3 C12: refused when the end is frozen, when there is no vector, or when an allocation failed; never for another reason when size >= 0 */
__CPROVER_ensures(IMP(O_BUF.freeze_end || n_vecs < 1 || g_allocfail > 0, RV == -1))
__CPROVER_ensures(IMP(RV == -1, O_BUF.freeze_end || n_vecs < 1 || g_allocfail > 0 || size < 0 || (size_t)size > EVBUFFER_CHAIN_MAX - EVBUFFER_CHAIN_SIZE - 4096))
/* 5 C12/C13/C14 (success and failure alike): the byte string does not change: same length, no change recorded for the callbacks */
__CPROVER_ensures(buf->total_len == O_total && buf->n_add_for_cb == O_BUF.n_add_for_cb && buf->n_del_for_cb == O_BUF.n_del_for_cb)
/* 6 frozen / no vector: nothing at all changes */
__CPROVER_ensures(IMP(O_BUF.freeze_end || n_vecs < 1, C12A_BUF_SAME(BUF, O_BUF) && C12A_ALLCH_SAME()))
/* 7 nothing else of the buffer changes */
__CPROVER_ensures(buf->lock == O_BUF.lock && buf->freeze_start == O_BUF.freeze_start && buf->freeze_end == O_BUF.freeze_end && buf->refcnt == O_BUF.refcnt && buf->callbacks.lh_first == O_BUF.callbacks.lh_first && buf->deferred_cbs == O_BUF.deferred_cbs && buf->flags == O_BUF.flags && buf->max_read == O_BUF.max_read)
/* 8 a failed call (for a proper, non-negative size) allocates nothing; a failed single-vector call changes nothing at all */
__CPROVER_ensures(IMP(RV == -1 && size >= 0, g_nnew == 0))
__CPROVER_ensures(IMP(RV == -1 && n_vecs == 1, C12A_BUF_SAME(BUF, O_BUF) && C12A_ALLCH_SAME() && m_cp.n == 0))
;

void harness(void)
{
	int r, i, k, L; ev_ssize_t size;
	VF_LOAD_IN();
	c12a_build(&IN.b);
	VF_INSTALL_LOCKS(); C12A_RESET();
	size = IN.size;
#ifdef C12A_QMASK
	if (size >= 0) size = (ev_ssize_t)C12A_Q((size_t)size);
#endif
	L = vf_lwd_index(&C12A_S);
	C12A_SNAPSHOT();
	r = VF_CALL(reserve_c, evbuffer_reserve_space, &BUF, size, VEC, C12A_NVECS);
#ifndef C12A_NOPOST
	__CPROVER_assert(g_cb[0] == 0, "no callback");
	__CPROVER_assert(c12a_binv(&BUF), "BInv after reserve_space (also when it failed)");
	/* every byte stays: chains in front of the last chain with data are untouched; that chain is untouched, realigned in place, or
	 * replaced by a new chain holding a copy of exactly its window; only empty chains are otherwise realigned or freed */
	for (i = 0; i < VF_EB_MAXCH; i++) {
		if ((unsigned)i >= c12a_nch) break;
		if (i < L) __CPROVER_assert(!(g_freed_mask & (1u << i)) && CH[i].off == O_CH[i].off && CH[i].misalign == O_CH[i].misalign && CH[i].buffer == O_CH[i].buffer && CH[i].buffer_len == O_CH[i].buffer_len, "chains in front of the last chain with data are untouched");
		if (i == L && !(g_freed_mask & (1u << i))) {
			__CPROVER_assert(CH[i].off == O_CH[i].off && CH[i].buffer == O_CH[i].buffer && CH[i].buffer_len == O_CH[i].buffer_len, "the last chain with data keeps its bytes");
			__CPROVER_assert(IMP(CH[i].misalign != O_CH[i].misalign, CH[i].misalign == 0 && m_cp.n == 1 && m_cp.dst[0] == i && m_cp.src[0] == i && m_cp.doff[0] == 0 && m_cp.soff[0] == (size_t)O_CH[i].misalign && m_cp.len[0] == O_CH[i].off), "data moves inside a chain only by a memmove of exactly its window");
		}
		if (i == L && (g_freed_mask & (1u << i))) {
			__CPROVER_assert(g_nnew == 1 && g_new[0]->off == O_CH[i].off && *BUF.last_with_datap == g_new[0], "the last chain with data is dropped only when a new chain takes its place");
			__CPROVER_assert(m_cp.n == 1 && m_cp.dst[0] == 6 && m_cp.src[0] == i && m_cp.doff[0] == (size_t)g_new[0]->misalign && m_cp.soff[0] == (size_t)O_CH[i].misalign && m_cp.len[0] == O_CH[i].off, "... and exactly its window was copied to the start of the new chain's window");
		}
		if (i > L && !(g_freed_mask & (1u << i))) __CPROVER_assert(CH[i].off == 0 && CH[i].buffer == O_CH[i].buffer && CH[i].buffer_len == O_CH[i].buffer_len, "a surviving empty chain stays empty");
	}
	__CPROVER_assert(m_cp.n <= 1 && IMP(m_cp.n == 1, m_cp.src[0] != C12A_USERCODE), "at most one copy, chain to chain");
	__CPROVER_assert(g_nnew <= 1 && IMP(g_nnew == 1, BUF.last == g_new[0] || *BUF.last_with_datap == g_new[0]), "a chain allocated by the call is linked into the buffer (no leak)");
	if (r >= 1) {
		/* the vectors: free space of consecutive chains, each inside its chain's buffer directly behind its data; together
		 * at least `size` bytes; the first one starts directly behind the buffer's last byte (possibly skipping chains that stay empty) */
		struct evbuffer_chain *lw = *BUF.last_with_datap, *c0, *c; size_t space = 0;
		__CPROVER_assert(lw != NULL && size >= 0, "success only for a non-negative size, and there is a chain to write into");
		c0 = c12a_chain(c12a_data_code(VEC[0].iov_base));
		__CPROVER_assert(c0 != NULL && (c0 == lw || c0 == lw->next), "the first vector lies in the last chain with data or in the chain right behind it");
		c = c0;
		for (k = 0; k < 4; k++) {
			if (k >= r) break;
			__CPROVER_assert(c != NULL && !(c->flags & EVBUFFER_IMMUTABLE) && VEC[k].iov_base == (void *)CHAIN_SPACE_PTR(c) && VEC[k].iov_len == CHAIN_SPACE_LEN(c), "vector k is exactly the free space of the k-th chain from there");
			if (c) { space += CHAIN_SPACE_LEN(c); c = c->next; }
		}
		__CPROVER_assert(space >= (size_t)size, "the vectors offer at least the requested size");
		/* C12: what reserve hands out must be what evbuffer_commit_space accepts (unit c12a_commit_space: the free space of
		 * the LAST chain, or of consecutive chains from the FIRST chain with room at or behind the last chain with data) */
		__CPROVER_assert((r == 1 && c0 == BUF.last) || c0 == (CHAIN_SPACE_LEN(lw) == 0 ? lw->next : lw), "the reserved vectors are ones evbuffer_commit_space will accept");
	}
#endif
#ifdef VF_CANARY
	__CPROVER_assert(r != C12A_NVECS || g_nnew == 0, "canary: must fail (some reservations allocate)");
#endif
}
